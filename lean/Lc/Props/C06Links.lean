/-
  C06 (part) — `RecoverMissingLinks`: which symbolic links the walk over the build root adds.

  Theorems over the model of stage/supplement.go `RecoverMissingLinks` / `addMissingLinks` /
  `ultimateSymlinkTarget` (Lc/Model/StageLinks.lean), for every lstat oracle `env`, every
  tree `tree` (what `Readdirnames`/`lstat` show of the build root through real directories,
  entries in any order) and every member map `m`; no bounds:
    * `walk_fuel`, `chain_fuel`: the number of nodes of the tree is enough fuel for the
      recursion, `MaxSymlinkChain` for the loop of `ultimateSymlinkTarget`; more changes nothing,
    * `recovered_are_links_to_members`: nothing is removed; every added name is a symbolic link
      the walk visits, was no member, and its chain of links ends after 1..`MaxSymlinkChain` hops
      at a name that is a member — at that moment and, in fact, already before the walk
      (`recovered_exactly`: the member set afterwards is exactly the old one plus those links, so
      it does not depend on the order `Readdirnames` returns the names in),
    * `walk_skips_nogo`, `walk_skips_nogo_paths`: where an added link lies,
    * `chain_bound_exact`, `chain_too_long_is_error`: the loop follows a chain of k links iff
      k ≤ `MaxSymlinkChain` (= 5, counting the link the walk found); a visited link that is no
      member and has a longer (or circular) chain makes the whole walk fail,
    * `recovered_names_clean`, `candidates_step_clean`: every added name is a clean absolute
      path — no hypothesis on the tree is needed, `path.Join` cleans — which discharges, for the
      recovery step, the assumption `StepClean` of `Lc.Props.C06.parents_precede`,
    * `walk_eq_recoverAll`: the walk is the pipeline step `.recover` on the candidate list of the
      walk (the form in which the harness hands the step to the model).
-/
import Lc.Lemmas.StageLinks

namespace Lc.Props.C06Links
open Lc Lc.Stage Lc.ExportPath Lc.InLayers
open Lc.TreeWF (CleanAbs)

/-! ### fuel -/

/-- **Fuel suffices.**  With at least as much fuel as the tree has nodes the walk does not run
    out of fuel (the error class "fuel" does not occur), and the result is the one for exactly
    that much. -/
theorem walk_fuel (env : Env) (tree : Node) (dir : Bytes) (m : EMap) (fuel : Nat)
    (h : tree.size ≤ fuel) :
    walkDir env fuel dir tree m ≠ Res.err "fuel" ∧
    walkDir env fuel dir tree m = walkDir env tree.size dir tree m :=
  ⟨walkDir_no_fuel fuel tree h dir m, walkDir_fuel fuel tree.size tree h (Nat.le_refl _) dir m⟩

/-- in particular `recoverMissingLinks` (which hands out `tree.size`) never reports "fuel" -/
theorem recoverMissingLinks_no_fuel (env : Env) (tree : Node) (m : EMap) :
    recoverMissingLinks env tree m ≠ Res.err "fuel" :=
  walkDir_no_fuel _ tree (Nat.le_refl _) _ m

/-- The loop of `ultimateSymlinkTarget` makes at most `MaxSymlinkChain` iterations: that much
    fuel is never used up, and more gives the same result. -/
theorem chain_fuel (env : Env) (source absPath : Bytes) (fuel : Nat) (h : maxSymlinkChain ≤ fuel) :
    ultimateTarget env source absPath ≠ Res.err "fuel" ∧
    chainLoop env fuel 1 source absPath = ultimateTarget env source absPath :=
  ⟨ultimateTarget_no_fuel,
   chainLoop_fuel fuel maxSymlinkChain 1 source absPath (by omega) (by decide) (by decide)⟩

/-! ### the chain of links -/

/-- **The bound of the code.**  `ultimateSymlinkTarget(source, absPath)` returns `t` exactly
    when following `k` links from `absPath` — `k` counts the link at `absPath` itself — ends at
    the name `t` that is not a symbolic link, for some `1 ≤ k ≤ MaxSymlinkChain`. -/
theorem chain_bound_exact (env : Env) (source absPath t : Bytes) :
    ultimateTarget env source absPath = .ok t ↔
      ∃ k, 1 ≤ k ∧ k ≤ maxSymlinkChain ∧ Chain env source absPath k t :=
  ⟨ultimateTarget_ok, fun ⟨_, _, hk, hc⟩ => ultimateTarget_complete hc hk⟩

/-- … and when `MaxSymlinkChain` hops all arrive at a symbolic link again (the chain has more
    than `MaxSymlinkChain` links, or is circular) the result is the error. -/
theorem chain_longer_fails (env : Env) (source absPath : Bytes)
    (h : LinksAhead env source absPath maxSymlinkChain) :
    ultimateTarget env source absPath = Res.err "stage" :=
  ultimateTarget_too_long h

/-! ### what the walk adds -/

/-- **Recovered names are links to members.**  After a successful walk: (1) every member is
    still a member; (2) every new member `n` is a symbolic link the walk visited
    (`Visits`: reached from the root through real directories that pass the two
    `DoNotTraverse` tests), was no member at its moment (`mk`, a map between the one before and
    the one after the walk), is a symbolic link for `lstat`, and following its chain ends after
    `k` hops, `1 ≤ k ≤ MaxSymlinkChain`, at a name `t` that is a member at that moment — and was
    one before the walk began. -/
theorem recovered_are_links_to_members (env : Env) (tree : Node) (m m' : EMap)
    (h : recoverMissingLinks env tree m = .ok m') :
    (∀ n ∈ m.names, n ∈ m'.names) ∧
    (∀ n ∈ m'.names, n ∉ m.names →
      ∃ (tgt : Bytes) (mk : EMap) (t : Bytes) (k : Nat),
        Visits [SLASH] tree n (.symlink tgt) ∧
        (∀ x ∈ m.names, x ∈ mk.names) ∧ (∀ x ∈ mk.names, x ∈ m'.names) ∧ n ∉ mk.names ∧
        isSymlinkAt env (inRoot env n) = true ∧
        1 ≤ k ∧ k ≤ maxSymlinkChain ∧ Chain env n (inRoot env n) k t ∧
        t ∈ mk.names ∧ t ∈ m.names) := by
  have hs := walkDir_spec _ _ _ _ _ h
  refine ⟨hs.mono, ?_⟩
  intro n hn hnm
  rcases hs.added n hn with h0 | ⟨tgt, mk, hv, a, b, hnk, hl, t, hu, ht⟩
  · exact absurd h0 hnm
  · obtain ⟨k, hk1, hk2, hc⟩ := ultimateTarget_ok hu
    refine ⟨tgt, mk, t, k, hv, a, b, hnk, hl, hk1, hk2, hc, ht, ?_⟩
    -- the end of a chain is no symbolic link, every added name is one
    rcases hs.added t (b t ht) with h0 | ⟨_, _, _, _, _, _, hlt, _⟩
    · exact h0
    · rw [hc.end_not_link] at hlt; cases hlt

/-- **Nothing is missed.**  A visited symbolic link whose chain ends, within the bound, at a
    name that was a member before the walk is a member after it. -/
theorem recovered_complete (env : Env) (tree : Node) (m m' : EMap)
    (h : recoverMissingLinks env tree m = .ok m') (n tgt t : Bytes) (k : Nat)
    (hv : Visits [SLASH] tree n (.symlink tgt)) (hk : k ≤ maxSymlinkChain)
    (hc : Chain env n (inRoot env n) k t) (ht : t ∈ m.names) : n ∈ m'.names := by
  have hs := walkDir_spec _ _ _ _ _ h
  rcases hs.seen n tgt hv with h0 | ⟨t', mk, hu, a, hnt⟩
  · exact h0
  · rw [ultimateTarget_complete hc hk] at hu
    injection hu with hu
    rw [← hu] at hnt
    exact absurd (a t ht) hnt

/-- **The member set after the walk, exactly** — the old members and the visited links whose
    chain ends within the bound at an old member.  The right-hand side does not mention the
    order of the directory entries: the set the walk yields (when it succeeds) does not depend
    on the order in which `Readdirnames` returns the names. -/
theorem recovered_exactly (env : Env) (tree : Node) (m m' : EMap)
    (h : recoverMissingLinks env tree m = .ok m') (n : Bytes) :
    n ∈ m'.names ↔
      n ∈ m.names ∨
      ((∃ tgt, Visits [SLASH] tree n (.symlink tgt)) ∧
        ∃ t k, k ≤ maxSymlinkChain ∧ Chain env n (inRoot env n) k t ∧ t ∈ m.names) := by
  have hr := recovered_are_links_to_members env tree m m' h
  constructor
  · intro hn
    by_cases hnm : n ∈ m.names
    · exact Or.inl hnm
    · obtain ⟨tgt, _, t, k, hv, _, _, _, _, _, hk, hc, _, ht⟩ := hr.2 n hn hnm
      exact Or.inr ⟨⟨tgt, hv⟩, t, k, hk, hc, ht⟩
  · rintro (hn | ⟨⟨tgt, hv⟩, t, k, hk, hc, ht⟩)
    · exact hr.1 n hn
    · exact recovered_complete env tree m m' h n tgt t k hv hk hc ht

/-! ### DoNotTraverse -/

/-- **The walk skips the `DoNotTraverse` places.**  Every added name lies at a place of the
    tree given by entry names `comps` (through directories, ending at a symbolic link), its name
    is those names joined onto "/", no directory on the way — a proper prefix of `comps` — has a
    name in `nogoPaths`, and none of the directories' own entry names is in `nogoNames`. -/
theorem walk_skips_nogo (env : Env) (tree : Node) (m m' : EMap)
    (h : recoverMissingLinks env tree m = .ok m') :
    ∀ n ∈ m'.names, n ∉ m.names →
      ∃ (es : List (Bytes × Node)) (comps : List Bytes) (tgt : Bytes),
        tree = .dir es ∧ At es comps (.symlink tgt) ∧ n = joinAll [SLASH] comps ∧
        (∀ pre, pre <+: comps → pre ≠ comps → joinAll [SLASH] pre ∉ nogoPaths) ∧
        (∀ x ∈ comps.dropLast, x ∉ nogoNames) := by
  intro n hn hnm
  obtain ⟨tgt, _, _, _, ⟨es, he, hd, hr⟩, _⟩ :=
    (recovered_are_links_to_members env tree m m' h).2 n hn hnm
  obtain ⟨comps, hat, hj, hp, hx⟩ := hr.comps
  refine ⟨es, comps, tgt, he, hat, hj, ?_, ?_⟩
  · intro pre hpre hne hmem
    have hc : nogoPaths.contains (joinAll [SLASH] pre) = true := List.contains_iff_mem.mpr hmem
    by_cases hnil : pre = []
    · rw [hnil] at hc; exact absurd hc (by decide)
    · rw [hp pre hpre hnil hne] at hc; cases hc
  · intro x hx' hmem
    have hc : nogoNames.contains x = true := List.contains_iff_mem.mpr hmem
    rw [hx x hx'] at hc; cases hc

/-- The same on the byte strings, for a tree whose entry names are clean path elements (not
    empty, no slash, not "." or ".." — what `Readdirnames` returns): an added name does not lie
    below a `DoNotTraverse` path, and none of its elements but the last is a `DoNotTraverse`
    name. -/
theorem walk_skips_nogo_paths (env : Env) (tree : Node) (m m' : EMap)
    (h : recoverMissingLinks env tree m = .ok m')
    (hclean : ∀ es, tree = .dir es → ∀ comps c, At es comps c → ∀ x ∈ comps, CleanName x) :
    ∀ n ∈ m'.names, n ∉ m.names →
      (∀ p ∈ nogoPaths, hasPrefix n (p ++ [SLASH]) = false) ∧
      (∀ x ∈ (pathComps n).dropLast, x ∉ nogoNames) := by
  intro n hn hnm
  obtain ⟨es, comps, tgt, he, hat, hj, hp, hx⟩ := walk_skips_nogo env tree m m' h n hn hnm
  have hc := hclean es he comps _ hat
  have hn' : n = absPath comps := by
    rw [hj]
    have := joinAll_absPath comps [] (by simp) hc
    rw [List.nil_append] at this
    exact this
  constructor
  · intro p hpm
    cases hpre : hasPrefix n (p ++ [SLASH]) with
    | false => rfl
    | true =>
      rw [hn'] at hpre
      obtain ⟨pre, h1, _, h3, h4⟩ := below_nogo_prefix comps hc p hpm hpre
      exact absurd (h4 ▸ hpm) (hp pre h1 h3)
  · rw [hn', pathComps_absPath comps hc]
    exact hx

/-! ### chains that are too long -/

/-- **A chain that is too long makes the whole walk fail.**  If the walk visits a symbolic link
    that is no member and from which `MaxSymlinkChain` hops all arrive at a symbolic link again
    (six or more links in a row, or a loop), `RecoverMissingLinks` returns an error — whatever
    else the tree holds. -/
theorem chain_too_long_is_error (env : Env) (tree : Node) (m : EMap) (n tgt : Bytes)
    (hv : Visits [SLASH] tree n (.symlink tgt)) (hn : n ∉ m.names)
    (hl : LinksAhead env n (inRoot env n) maxSymlinkChain) :
    ∃ f, recoverMissingLinks env tree m = .error f := by
  cases h : recoverMissingLinks env tree m with
  | error f => exact ⟨f, rfl⟩
  | ok m' =>
    exfalso
    have hs := walkDir_spec _ _ _ _ _ h
    have hbad := ultimateTarget_too_long hl
    rcases hs.seen n tgt hv with h0 | ⟨t, _, hu, _⟩
    · rcases hs.added n h0 with h1 | ⟨_, _, _, _, _, _, _, t, hu, _⟩
      · exact hn h1
      · rw [hbad] at hu; cases hu
    · rw [hbad] at hu; cases hu

/-- more generally: any visited non-member link on which `ultimateSymlinkTarget` fails -/
theorem failing_chain_is_error (env : Env) (tree : Node) (m : EMap) (n tgt : Bytes) (f : Fault)
    (hv : Visits [SLASH] tree n (.symlink tgt)) (hn : n ∉ m.names)
    (hbad : ultimateTarget env n (inRoot env n) = .error f) :
    ∃ f', recoverMissingLinks env tree m = .error f' := by
  cases h : recoverMissingLinks env tree m with
  | error f => exact ⟨f, rfl⟩
  | ok m' =>
    exfalso
    have hs := walkDir_spec _ _ _ _ _ h
    rcases hs.seen n tgt hv with h0 | ⟨t, _, hu, _⟩
    · rcases hs.added n h0 with h1 | ⟨_, _, _, _, _, _, _, t, hu, _⟩
      · exact hn h1
      · rw [hbad] at hu; cases hu
    · rw [hbad] at hu; cases hu

/-! ### clean names -/

/-- **Recovered names are clean.**  Every name the walk adds is a clean absolute path
    (`path.Clean n = n`, leading slash).  No hypothesis on the tree: the walk forms its names
    with `path.Join` from "/". -/
theorem recovered_names_clean (env : Env) (tree : Node) (m m' : EMap)
    (h : recoverMissingLinks env tree m = .ok m') :
    ∀ n ∈ m'.names, n ∉ m.names → CleanAbs n := by
  intro n hn hnm
  obtain ⟨_, _, _, _, ⟨_, _, _, hr⟩, _⟩ := (recovered_are_links_to_members env tree m m' h).2 n hn hnm
  exact hr.cleanAbs rfl

/-- hence the recovery keeps the invariant of `Lc.Props.C06.pipeline_names_clean` -/
theorem recovery_keeps_names_clean (env : Env) (tree : Node) (m m' : EMap)
    (h : recoverMissingLinks env tree m = .ok m') (hm : NamesClean m) : NamesClean m' := by
  intro n hn
  by_cases hnm : n ∈ m.names
  · exact hm n hnm
  · exact recovered_names_clean env tree m m' h n hn hnm

/-- **The candidates of the walk satisfy `StepClean`** — the assumption
    `Lc.Props.C06.parents_precede` makes about a `.recover` step holds for the candidate list
    of every tree. -/
theorem candidates_step_clean (env : Env) (tree : Node) : StepClean (.recover (candidates env tree)) := by
  intro c hc
  obtain ⟨_, _, _, _, hr⟩ := candsDir_visits _ _ _ c hc
  exact hr.cleanAbs rfl

/-! ### the walk as a pipeline step -/

/-- **The walk is `.recover` on its candidates.**  For a build root (a directory) without
    unreadable directories, in an environment where no symbolic link has an empty target, the
    walk with the member map threaded through equals `recoverAll` on the candidate list — the
    candidates (name, final target, failure) do not depend on the map. -/
theorem walk_eq_recoverAll (env : Env) (es : List (Bytes × Node)) (m : EMap)
    (hne : NoEmptyLink env) (hr : (Node.dir es).readable = true) :
    recoverMissingLinks env (.dir es) m = recoverAll env m (candidates env (.dir es)) :=
  walkDir_eq_recoverAll hne _ es (Nat.le_refl _) (by rw [Node.readable_dir] at hr; exact hr) _ m

/-- … so the pipeline step the harness emits is the walk -/
theorem recover_step_is_walk (env : Env) (es : List (Bytes × Node)) (s : St)
    (hne : NoEmptyLink env) (hr : (Node.dir es).readable = true) :
    runStep env s (.recover (candidates env (.dir es))) =
      (recoverMissingLinks env (.dir es) s.map).map fun m => { s with map := m } := by
  rw [walk_eq_recoverAll env es s.map hne hr]; rfl

/-! ### non-vacuity: concrete trees -/

/-- a build root: the eselect-style chain `/usr/bin/python -> python-exec2c ->
    ../lib/python-exec/python-exec2`; a relative target with `..` (`/usr/lib64/libz.so`); a
    link to a directory (`/usr/share/doc-link`); a dangling link; links in places the walk does
    not enter (`/var/db`, `/usr/portage`, any `tmp`/`cache`), among them a loop -/
def exTree : Node :=
  .dir [
    (b!"usr", .dir [
      (b!"bin", .dir [
        (b!"python", .symlink b!"python-exec2c"),
        (b!"python-exec2c", .symlink b!"../lib/python-exec/python-exec2"),
        (b!"dangling", .symlink b!"../nowhere/x"),
        (b!"sh", .file)]),
      (b!"lib", .dir [
        (b!"python-exec", .dir [(b!"python-exec2", .file)]),
        (b!"libz.so.1", .file)]),
      (b!"lib64", .dir [(b!"libz.so", .symlink b!"../../usr/lib/./libz.so.1")]),
      (b!"share", .dir [
        (b!"doc", .dir [(b!"README", .file)]),
        (b!"doc-link", .symlink b!"/usr/share/doc")]),
      (b!"portage", .dir [(b!"ln", .symlink b!"/usr/bin/sh")]),
      (b!"tmp", .dir [(b!"a", .symlink b!"b"), (b!"b", .symlink b!"a")])]),
    (b!"var", .dir [
      (b!"db", .dir [(b!"ln", .symlink b!"/usr/bin/sh")]),
      (b!"cache", .dir [(b!"ln", .symlink b!"/usr/bin/sh")]),
      (b!"tmp", .symlink b!"../usr/tmp")]),
    (b!"fifo", .other)]

def exEnv : Env := Env.ofTree b!"/r" exTree

def exMembers : EMap :=
  [{ ltype := ltFile, name := b!"/usr/lib/python-exec/python-exec2" },
   { ltype := ltFile, name := b!"/usr/lib/libz.so.1" },
   { ltype := ltDir, name := b!"/usr/share/doc" },
   { ltype := ltFile, name := b!"/usr/bin/sh" },
   { ltype := ltDir, name := b!"/usr/tmp" }]

/-- the walk adds the two links of the eselect chain, the `..` link, the link to the directory
    and `/var/tmp` (a link NAMED `tmp` is looked at; a directory named `tmp` is not entered);
    not the dangling link, nothing from `/usr/portage`, `/var/db`, `cache`, `tmp` -/
example : (recoverMissingLinks exEnv exTree exMembers).map EMap.names =
    .ok [b!"/usr/lib/python-exec/python-exec2", b!"/usr/lib/libz.so.1", b!"/usr/share/doc",
         b!"/usr/bin/sh", b!"/usr/tmp",
         b!"/usr/bin/python", b!"/usr/bin/python-exec2c", b!"/usr/lib64/libz.so",
         b!"/usr/share/doc-link", b!"/var/tmp"] := by decide

example : exTree.size = 29 := by decide
example : (Node.dir [(b!"a", .unreadable)]).readable = false ∧ exTree.readable = true := by decide

/-- the candidate list of that tree: name, final target, failure -/
example : (candidates exEnv exTree).map (fun c => (c.name, c.target, c.tooLong)) =
    [(b!"/usr/bin/python", b!"/usr/lib/python-exec/python-exec2", false),
     (b!"/usr/bin/python-exec2c", b!"/usr/lib/python-exec/python-exec2", false),
     (b!"/usr/bin/dangling", b!"/usr/nowhere/x", false),
     (b!"/usr/lib64/libz.so", b!"/usr/lib/libz.so.1", false),
     (b!"/usr/share/doc-link", b!"/usr/share/doc", false),
     (b!"/var/tmp", b!"/usr/tmp", false)] := by decide

/-- the eselect chain takes two hops from `/usr/bin/python`, one from `python-exec2c` -/
example : ultimateTarget exEnv b!"/usr/bin/python" b!"/r/usr/bin/python" =
    .ok b!"/usr/lib/python-exec/python-exec2" := by decide
example : Chain exEnv b!"/usr/bin/python" b!"/r/usr/bin/python" 2 b!"/usr/lib/python-exec/python-exec2" :=
  Chain.hop (c := 112) (rest := b!"ython-exec2c") (by decide) (by decide)
    (Chain.last (c := 46) (rest := b!"./lib/python-exec/python-exec2") (by decide) (by decide))

/-- `walk_eq_recoverAll` on the example: its hypotheses hold, both sides are the same -/
example : NoEmptyLink exEnv ∧ exTree.readable = true :=
  ⟨noEmptyLink_of_tree _ _ (by decide), by decide⟩
example : recoverMissingLinks exEnv exTree exMembers = recoverAll exEnv exMembers (candidates exEnv exTree) := by
  decide

/-- a loop `a -> b -> a` where the walk goes: the whole walk fails … -/
def exLoop : Node := .dir [(b!"etc", .dir [(b!"a", .symlink b!"b"), (b!"b", .symlink b!"a")])]
example : recoverMissingLinks (Env.ofTree b!"/r" exLoop) exLoop exMembers = Res.err "stage" := by decide
example : LinksAhead (Env.ofTree b!"/r" exLoop) b!"/etc/a" b!"/r/etc/a" maxSymlinkChain := by
  have ha : ∀ k, LinksAhead (Env.ofTree b!"/r" exLoop) b!"/etc/a" b!"/r/etc/a" k ∧
      LinksAhead (Env.ofTree b!"/r" exLoop) b!"/etc/b" b!"/r/etc/b" k := by
    intro k
    induction k with
    | zero => exact ⟨.zero, .zero⟩
    | succ k ih =>
      exact ⟨LinksAhead.succ (c := 98) (rest := []) (by decide) (by decide) ih.2,
             LinksAhead.succ (c := 97) (rest := []) (by decide) (by decide) ih.1⟩
  exact (ha _).1
example : Visits [SLASH] exLoop b!"/etc/a" (.symlink b!"b") :=
  ⟨_, rfl, by decide,
    Reach.deeper (mt := b!"etc") (es' := [(b!"a", .symlink b!"b"), (b!"b", .symlink b!"a")])
      List.mem_cons_self (by decide) (by decide) (Reach.here (mt := b!"a") List.mem_cons_self)⟩
/-- … unless the links of the loop are members already (they are skipped before the chain is
    looked at) -/
example : (recoverMissingLinks (Env.ofTree b!"/r" exLoop) exLoop
    [{ ltype := ltSymlink, name := b!"/etc/a" }, { ltype := ltSymlink, name := b!"/etc/b" }]).isOk = true := by
  decide

/-! #### the exact bound: `MaxSymlinkChain` = 5 links resolve, 6 do not -/

/-- `l1 -> l2 -> … -> lN -> f` in one directory -/
def chainDir (links : List (Bytes × Bytes)) : Node :=
  .dir [(b!"d", .dir (links.map (fun lt => (lt.1, Node.symlink lt.2)) ++ [(b!"f", .file)]))]

def exFive : Node :=
  chainDir [(b!"l1", b!"l2"), (b!"l2", b!"l3"), (b!"l3", b!"l4"), (b!"l4", b!"l5"), (b!"l5", b!"f")]
def exSix : Node :=
  chainDir [(b!"l0", b!"l1"), (b!"l1", b!"l2"), (b!"l2", b!"l3"), (b!"l3", b!"l4"), (b!"l4", b!"l5"),
            (b!"l5", b!"f")]
def exF : EMap := [{ ltype := ltFile, name := b!"/d/f" }]

/-- at the bound: five links in a row resolve, from the first one on -/
example : ultimateTarget (Env.ofTree b!"/r" exFive) b!"/d/l1" b!"/r/d/l1" = .ok b!"/d/f" := by decide
example : (recoverMissingLinks (Env.ofTree b!"/r" exFive) exFive exF).map EMap.names =
    .ok [b!"/d/f", b!"/d/l1", b!"/d/l2", b!"/d/l3", b!"/d/l4", b!"/d/l5"] := by decide
/-- one past it: from `l0` there are six; the call fails, and with it the whole walk, although
    `l1` … `l5` on their own would resolve -/
example : ultimateTarget (Env.ofTree b!"/r" exSix) b!"/d/l0" b!"/r/d/l0" = Res.err "stage" := by decide
example : ultimateTarget (Env.ofTree b!"/r" exSix) b!"/d/l1" b!"/r/d/l1" = .ok b!"/d/f" := by decide
example : recoverMissingLinks (Env.ofTree b!"/r" exSix) exSix exF = Res.err "stage" := by decide

/-- an empty link target is the panic `target[0]` (not an error return) -/
example : ultimateTarget (Env.ofTree b!"/r" (.dir [(b!"e", .symlink [])])) b!"/e" b!"/r/e" = Res.panic := by
  decide
/-- a directory that cannot be listed is an error of the walk; one below `/proc` is never opened -/
example : recoverMissingLinks exEnv (.dir [(b!"x", .unreadable)]) [] = Res.err "stage" ∧
    recoverMissingLinks exEnv (.dir [(b!"proc", .dir [(b!"1", .unreadable)])]) [] = .ok [] := by decide
/-- absolute targets are NOT cleaned before the lookup in the member map (relative ones are, by
    `path.Join`): `/usr/bin/sh2 -> /usr//bin/sh` and `/usr/doc2 -> /usr/doc/` are not added
    although `/usr/bin/sh` and `/usr/doc` are members; their relative spellings are.  (Seen
    with the real stagemaker as well; reported, not repaired.) -/
example :
    let t : Node := .dir [(b!"usr", .dir [
      (b!"bin", .dir [(b!"sh", .file), (b!"sh2", .symlink b!"/usr//bin/sh"), (b!"sh3", .symlink b!"../bin//sh")]),
      (b!"doc", .dir []), (b!"doc2", .symlink b!"/usr/doc/"), (b!"doc3", .symlink b!"doc/")])]
    (recoverMissingLinks (Env.ofTree b!"/r" t) t
        [{ ltype := ltFile, name := b!"/usr/bin/sh" }, { ltype := ltDir, name := b!"/usr/doc" }]).map EMap.names =
      .ok [b!"/usr/bin/sh", b!"/usr/doc", b!"/usr/bin/sh3", b!"/usr/doc3"] := by decide

end Lc.Props.C06Links
