/-
  C08 — a layer's reported state is the documented function of disk and mount table.

  Over the hand-written model of manage/probe.go (`findLayerstate`, the per-layer step of
  `ProbeAllLayerstate`) and manage/layers.go (`Makedirs`), for ALL configurations, trees,
  mount tables and layers:
  * `mounted_implies_nothing_missing`: "mounted (and ready / busy)" is reported only if
    nothing configured is missing (the clause repaired by fix a2e90fd);
  * `incomplete_iff`: "incomplete" is reported exactly when the build root or, for a
    derived layer, either overlay directory is missing (the clause repaired by 2d2b96a);
  * `makedirs_recreates`: mkdirs then recreates what is missing;
  * `partial_vs_mounted`: mountable / partially mounted / mounted = none / some / all of
    the overlay and the configured imports mounted.
-/
import Lc.Lemmas.StateProbeAll
import Lc.Lemmas.Makedirs
import Lc.Spec.World
import Lc.Lemmas.SpecBridge

namespace Lc.Props.C08
open Lc Lc.Layers Lc.Mountinfo Lc.StateProbe Lc.Hoare Lc.Spec.World

/-! ### a small world for the non-vacuity examples and the finding witnesses

  base layer `a` (import proc), derived layer `c` on `a` (imports proc and rbind /dev). -/

namespace Ex

def cfg : Config :=
  { basepath := b!"/b", layerdirs := b!"/b/l", buildRoot := b!"build", binPkg := b!"pk",
    generated := b!"gen", workdir := b!"work", upperdir := b!"upper", exportdirs := b!"/b/e",
    exportBinPkg := b!"pk", exportGenerated := b!"gen" }

def impProc : Layerfile.NeededMount := { mount := b!"/proc", source := b!"/proc", fstype := b!"proc" }
def impDev : Layerfile.NeededMount := { mount := b!"/dev", source := b!"/dev", fstype := b!"rbind" }

def layA : Layer :=
  { name := b!"a", cmounts := [impProc], layerPath := b!"/b/l/a", state := S_complete }
def layC : Layer :=
  { name := b!"c", base := b!"a", cmounts := [impProc, impDev], layerPath := b!"/b/l/c",
    state := S_complete }

def fhs (root : Bytes) : Fs.Tree :=
  (minimalBuildDirs ++ [b!"proc", b!"dev"]).map fun n => (root ++ b!"/" ++ n, Fs.Node.dir)

/-- everything there except `c`'s upper directory -/
def fs0 : Fs.Tree :=
  [(b!"/", .dir), (b!"/proc", .dir), (b!"/dev", .dir), (b!"/b", .dir), (b!"/b/l", .dir),
   (b!"/b/l/a", .dir), (b!"/b/l/a/build", .dir), (b!"/b/l/c", .dir), (b!"/b/l/c/build", .dir),
   (b!"/b/l/c/work", .dir)] ++ fhs b!"/b/l/a/build" ++ fhs b!"/b/l/c/build"
/-- everything there -/
def fs1 : Fs.Tree := fs0 ++ [(b!"/b/l/c/upper", .dir)]

def mnt (mp fstype stDev : Bytes) : MountType :=
  { source := [], mountpoint := mp, source2 := [], workdir := [], fstype := fstype,
    options := b!"rw", inShadow := false, stDev := stDev, root := b!"/" }
def ovlC : MountType :=
  { source := b!"/b/l/a/build", mountpoint := b!"/b/l/c/build", source2 := b!"/b/l/c/upper",
    workdir := b!"/b/l/c/work", fstype := b!"overlay", options := b!"rw", inShadow := false,
    stDev := b!"0:70", root := b!"/" }
def devs : List Device :=
  [⟨b!"0:5", b!"proc", [b!"/proc", b!"/b/l/a/build/proc", b!"/b/l/c/build/proc"]⟩,
   ⟨b!"0:6", b!"devtmpfs", [b!"/dev", b!"/b/l/c/build/dev"]⟩,
   ⟨b!"0:70", b!"overlay", [b!"/b/l/c/build"]⟩]
def procA : MountType := mnt b!"/b/l/a/build/proc" b!"proc" b!"0:5"
def procC : MountType := mnt b!"/b/l/c/build/proc" b!"proc" b!"0:5"
def devC : MountType := mnt b!"/b/l/c/build/dev" b!"devtmpfs" b!"0:6"

/-- `a` already classified `mounted`, `c` to be classified; `ms` = the mount table -/
def defs (ms : List MountType) : Defs :=
  { layers := [{ layA with state := S_mounted }, layC], order := [b!"a", b!"c"],
    mounts := { list := ms, devices := devs } }

end Ex

/-! ### 1. mounted ⇒ nothing configured is missing -/

/-- If `findLayerstate` reports `mounted and ready` or `mounted, busy` then: the FHS
    directories are there; a derived layer has its overlay mounted on the build directory
    with exactly the configured lower/upper/work directories (and a parent that is at
    least mountable); the configuration expands; EVERY configured import has its
    mountpoint, its source (or a source inside the layers directory, which mount creates),
    something mounted on the mountpoint, and that mount has the expected source; every
    export source lies in the build directory, exists, and an existing link points at it;
    the number of mounted imports equals the number of configured ones. -/
theorem mounted_implies_nothing_missing (cfg : Config) (fs : Fs.Tree) (d : Defs) (l l' : Layer)
    (h : findLayerstate cfg fs d l = .ok l')
    (hm : l'.state = S_mounted ∨ l'.state = S_mounted_busy) :
    minimalBuildDirsPresent fs (buildPath cfg l) = true ∧
    (l.base.length > 0 → OverlayOk cfg d l) ∧
    ∃ imports exports,
      expandConfigMounts cfg d l = .ok imports ∧
      expandConfigExports cfg l = .ok exports ∧
      (∀ e ∈ imports,
        Fs.lexists fs e.mount = true ∧
        (isAbs e.source = true → Fs.lexists fs e.source = true ∨
            inAnyLayerDirectory cfg (e.source.length + 1) e.source = true) ∧
        ∃ mnt, getMount d.mounts e.mount = some mnt ∧
               mountSourceIsExpected d.mounts mnt e.source = .ok true) ∧
      (∀ e ∈ exports,
        (isDescendant (buildPath cfg l) e.source = true ∨ buildPath cfg l = e.source) ∧
        Fs.lexists fs e.source = true ∧
        (Fs.isSymlink fs e.mount = true → readlink fs e.mount = some e.source)) ∧
      imports.length = l.cmounts.length ∧
      imports.countP (impMounted cfg fs d.mounts) = l.cmounts.length := by
  have hm' : l'.state = 7 ∨ l'.state = 8 := hm
  rcases findLayerstate_cases cfg fs d l l' h with ⟨hs, rfl⟩ | ⟨hs, hc⟩
  · exfalso
    have : l.state < 3 := hs
    simp only at hm'
    omega
  rcases hc with ⟨_, rfl⟩ | hp | ⟨l2, n, hn, hp, hcl⟩
  · exfalso; simp [S_complete] at hm'
  · exfalso
    rcases (preCheck_ret cfg fs d _ _ hp).2 with rfl | rfl <;> simp [S_mountable, S_error] at hm'
  obtain ⟨rfl, hfhs, hn0⟩ := preCheck_go cfg fs d _ _ n hp hn
  refine ⟨hfhs, ?_, ?_⟩
  · intro hb
    rcases hn0 with ⟨h0, _⟩ | ⟨_, _, ho⟩
    · have : l.base.length = 0 := h0
      omega
    · exact ho
  rw [classify_eq] at hcl
  generalize hlc : ({ l with mounts := getMountAndSubmounts d.mounts (buildPath cfg l),
                             state := S_complete } : Layer) = lc at hcl hn0
  have hbase : lc.base = l.base := by subst hlc; rfl
  have hcm : lc.cmounts = l.cmounts := by subst hlc; rfl
  have hlp : lc.layerPath = l.layerPath := by subst hlc; rfl
  have hexp : expandConfigMounts cfg d lc = expandConfigMounts cfg d l :=
    expandConfigMounts_congr cfg d lc l hbase hcm hlp
  have hexs : exportsOf cfg lc = exportsOf cfg l := by subst hlc; rfl
  rw [hexp, hexs] at hcl
  split at hcl
  · cases hcl; exfalso; simp [S_inhabited] at hm'
  · cases hcl
  rename_i imports himp
  split at hcl
  · cases hcl
  rename_i hnp
  have hl' := (Except.ok.inj hcl).symm
  have hst := congrArg Layer.state hl'
  rw [finish_state] at hst
  have hlen := expandConfigMounts_length cfg d l imports himp
  have hcnt := List.countP_le_length (p := impMounted cfg fs d.mounts) (l := imports)
  have hne : numExpected lc = l.cmounts.length + (if l.base.length > 0 then 1 else 0) := by
    unfold numExpected; rw [hbase, hcm]
  -- read the if-chain backwards
  split at hst
  · exfalso; rw [hst] at hm'; simp [S_error] at hm'
  rename_i hbad
  split at hst
  · exfalso; rw [hst] at hm'; simp [S_inhabited] at hm'
  rename_i hmiss
  split at hst
  · exfalso; rw [hst] at hm'; simp [S_mountable] at hm'
  split at hst
  · exfalso; rw [hst] at hm'; simp [S_partialmount] at hm'
  rename_i hge
  simp only [Bool.or_eq_true, not_or, Bool.not_eq_true] at hbad hmiss
  obtain ⟨⟨hwi, hwe⟩, hfs⟩ := hbad
  obtain ⟨hmi, hme⟩ := hmiss
  have hall : imports.countP (impMounted cfg fs d.mounts) = imports.length := by
    rw [hne] at hge
    rcases hn0 with ⟨h0, hn0⟩ | ⟨h0, hn0, _⟩
    · have h0' : l.base.length = 0 := hbase ▸ h0
      simp only [h0', Nat.lt_irrefl, ↓reduceIte] at hge
      omega
    · have h0' : l.base.length > 0 := hbase ▸ h0
      simp only [h0', ↓reduceIte] at hge
      omega
  refine ⟨imports, (exportsOf cfg l).1, himp, exportsOf_ok cfg l hfs, ?_, ?_, hlen, by omega⟩
  · intro e he
    have h1 : impMounted cfg fs d.mounts e = true := (List.countP_eq_length.mp hall) e he
    have h2 : impWrong cfg fs d.mounts e = false := by
      have := List.any_eq_false.mp hwi e he
      simpa using this
    have h3 : impPanic cfg fs d.mounts e = false := by
      have hnp' : imports.any (impPanic cfg fs d.mounts) = false := by simpa using hnp
      have := List.any_eq_false.mp hnp' e he
      simpa using this
    exact imp_good cfg fs d.mounts e h1 h2 h3
  · intro e he
    have h1 : expMissing fs (buildPath cfg l) e = false := by
      have := List.any_eq_false.mp hme e he
      simpa using this
    have h2 : expWrong fs (buildPath cfg l) e = false := by
      have := List.any_eq_false.mp hwe e he
      simpa using this
    exact exp_good fs (buildPath cfg l) e h1 h2

/-! ### 4. mountable / partially mounted / mounted = none / some / all -/

/-- number of things mounted for the layer: the overlay (derived layer, already checked)
    plus the imports that have something mounted on their mountpoint -/
def numMounted (cfg : Config) (fs : Fs.Tree) (d : Defs) (l : Layer) (imports : List Expanded) : Nat :=
  (if l.base.length > 0 then 1 else 0) + imports.countP (impMounted cfg fs d.mounts)

/-- With all directories present (FHS directories, every import's mountpoint and source,
    every export source), the overlay of a derived layer mounted as configured, and no
    incorrect mount or export link, the reported state is `mountable` iff nothing is
    mounted, `partially mounted` iff some but not all of overlay + imports are mounted,
    `mounted` (ready or busy) iff all of them are (and there is at least one: a layer
    with nothing to mount is `mountable`, in the code and in the documented function). -/
theorem partial_vs_mounted (cfg : Config) (fs : Fs.Tree) (d : Defs) (l : Layer)
    (imports exports : List Expanded)
    (hs : ¬ l.state < S_complete)
    (hfhs : minimalBuildDirsPresent fs (buildPath cfg l) = true)
    (hov : l.base.length > 0 → OverlayOk cfg d l)
    (himp : expandConfigMounts cfg d l = .ok imports)
    (hexp : expandConfigExports cfg l = .ok exports)
    (hmi : imports.any (impMissing cfg fs) = false)
    (hwi : imports.any (impWrong cfg fs d.mounts) = false)
    (hpi : imports.any (impPanic cfg fs d.mounts) = false)
    (hme : exports.any (expMissing fs (buildPath cfg l)) = false)
    (hwe : exports.any (expWrong fs (buildPath cfg l)) = false) :
    ∃ l', findLayerstate cfg fs d l = .ok l' ∧
      numMounted cfg fs d l imports ≤ numExpected l ∧
      (l'.state = S_mountable ↔ numMounted cfg fs d l imports = 0) ∧
      (l'.state = S_partialmount ↔
        0 < numMounted cfg fs d l imports ∧ numMounted cfg fs d l imports < numExpected l) ∧
      (l'.state = S_mounted ∨ l'.state = S_mounted_busy ↔
        0 < numMounted cfg fs d l imports ∧ numMounted cfg fs d l imports = numExpected l) := by
  rw [findLayerstate_reached cfg fs d l hs hfhs hov, classify_eq]
  generalize hlc : ({ l with mounts := getMountAndSubmounts d.mounts (buildPath cfg l),
                             state := S_complete } : Layer) = lc
  have hbase : lc.base = l.base := by subst hlc; rfl
  have hcm : lc.cmounts = l.cmounts := by subst hlc; rfl
  have hlp : lc.layerPath = l.layerPath := by subst hlc; rfl
  have hexs : exportsOf cfg lc = (exports, false) := by
    subst hlc
    show exportsOf cfg l = _
    unfold exportsOf
    rw [hexp]
  rw [expandConfigMounts_congr cfg d lc l hbase hcm hlp, himp, hexs]
  simp only [hpi, hmi, hwi, hme, hwe, Bool.false_eq_true, ↓reduceIte, Bool.or_self]
  refine ⟨_, rfl, ?_⟩
  rw [finish_state]
  have hne : numExpected lc = numExpected l := by unfold numExpected; rw [hbase, hcm]
  have hlen := expandConfigMounts_length cfg d l imports himp
  have hcnt := List.countP_le_length (p := impMounted cfg fs d.mounts) (l := imports)
  have hle : numMounted cfg fs d l imports ≤ numExpected l := by
    unfold numMounted numExpected; omega
  refine ⟨hle, ?_⟩
  rw [hne]
  simp only [Bool.or_self, Bool.false_eq_true, ↓reduceIte]
  exact chain_iff (numMounted cfg fs d l imports) (numExpected l) _ hle

/-! ### 2. incomplete ⇔ build root or (derived) an overlay directory is missing -/

/-- One round of `ProbeAllLayerstate` for a layer that is not in the error state
    (`probeLayer` is that round, `Lc.StateProbe.probeStep_eq` / `probeAll_eq` tie it to the
    model's `probeAll`): the layer comes out `incomplete` exactly when its build root is
    not a directory or, for a derived layer, its work or its upper directory is not
    (`||`, fix 2d2b96a; the original `&&` fails the "one of the two missing" case). -/
theorem incomplete_iff (cfg : Config) (inuse : List (Bytes × List User)) (fs : Fs.Tree) (d : Defs)
    (name : Bytes) (l l' : Layer) (h : probeLayer cfg inuse fs d name l = .ok l') :
    l'.state = S_incomplete ↔
      (Fs.isDir fs (buildPath cfg l) = false ∨
       (l.base.length ≥ 1 ∧
         (Fs.isDir fs (workPath cfg l) = false ∨ Fs.isDir fs (upperPath cfg l) = false))) := by
  unfold probeLayer at h
  simp only [] at h
  have hsc := classifyUsers_sameCore cfg
    ({ l with mounts := getMountAndSubmounts d.mounts (buildPath cfg l) } : Layer) (StateProbe.usersOf inuse name)
  generalize classifyUsers cfg _ _ = lu at h hsc
  obtain ⟨-, hbase, -, -, hlp, -, -, -⟩ := hsc
  have hbase' : lu.base = l.base := hbase
  have hlp' : lu.layerPath = l.layerPath := hlp
  have hw : workPath cfg lu = workPath cfg l := by unfold workPath; rw [hlp']
  have hu : upperPath cfg lu = upperPath cfg l := by unfold upperPath; rw [hlp']
  rw [hw, hu, hbase'] at h
  split at h
  · rename_i hb
    cases h
    simp only [Bool.not_eq_true'] at hb
    simp [hb]
  · rename_i hb
    simp only [Bool.not_eq_true', Bool.not_eq_false] at hb
    split at h
    · rename_i hwu
      cases h
      simp only [Bool.and_eq_true, decide_eq_true_eq, Bool.or_eq_true, Bool.not_eq_true'] at hwu
      simp [hwu]
    · rename_i hwu
      simp only [Bool.and_eq_true, decide_eq_true_eq, Bool.or_eq_true, Bool.not_eq_true'] at hwu
      obtain ⟨s, rfl, -, hr⟩ := findLayerstate_shape cfg fs d _ _ h
      have := (hr (by show ¬ S_complete < S_complete; decide)).1
      constructor
      · intro hs; exact absurd hs this
      · rintro (h1 | h2)
        · rw [hb] at h1; cases h1
        · exact absurd h2 hwu

/-- tie to the monadic loop body: a round on an existing layer that is not in the error
    state does not touch the world, fails only if `findLayerstate` does, and stores the
    `probeLayer` record under the layer's name -/
theorem probeStep_run (cfg : Config) (inuse : List (Bytes × List User)) (fs : Fs.Tree) (d d' : Defs)
    (name : Bytes) (l : Layer) (w w' : World)
    (hl : findLayer d name = some l) (hne : l.state ≠ S_error)
    (hrun : (probeStep cfg inuse fs d name).run.run w = (.ok d', w')) :
    w' = w ∧ ∃ l', probeLayer cfg inuse fs d name l = .ok l' ∧ d' = setLayer d l' ∧
      l'.name = name ∧ findLayer d' name = some l' := by
  rw [probeStep_eq, hl] at hrun
  simp only [beq_iff_eq, hne, ↓reduceIte] at hrun
  cases hp : probeLayer cfg inuse fs d name l with
  | error e =>
    rw [hp] at hrun
    simp [liftRes, ExceptT.run, bind, ExceptT.bind, ExceptT.bindCont, ExceptT.mk, throw, throwThe,
      MonadExceptOf.throw, StateT.run, StateT.bind, StateT.pure, pure] at hrun
    exact absurd (congrArg Prod.fst hrun) (by simp)
  | ok l' =>
    rw [hp] at hrun
    simp [liftRes, ExceptT.run, bind, ExceptT.bind, ExceptT.bindCont, ExceptT.mk, ExceptT.pure,
      StateT.run, StateT.bind, StateT.pure, pure] at hrun
    obtain ⟨rfl, rfl⟩ := hrun
    have hname : l'.name = name := by
      have hn := findLayer_name d name l hl
      unfold probeLayer at hp
      simp only [] at hp
      have hsc := classifyUsers_sameCore cfg
        ({ l with mounts := getMountAndSubmounts d.mounts (buildPath cfg l) } : Layer) (StateProbe.usersOf inuse name)
      generalize classifyUsers cfg _ _ = lu at hp hsc
      have hlu : lu.name = l.name := hsc.1
      split at hp
      · cases hp; exact hlu.trans hn
      · split at hp
        · cases hp; exact hlu.trans hn
        · obtain ⟨s, rfl, -, -⟩ := findLayerstate_shape cfg fs d _ _ hp
          exact hlu.trans hn
    refine ⟨rfl, l', rfl, rfl, hname, ?_⟩
    subst hname
    exact findLayer_setLayer d l l' hl

/-! ### 3. mkdirs recreates what is missing -/

/-- After `makedirs` (the `mkdirs` command, also the first phase of `mount`) returns
    normally on a layer below `complete`, outside pretend mode, the build root and, for a
    derived layer, the overlay work and upper directories are directories — whatever the
    tree looked like before (any subset of them present), whatever fault/crash switch is
    armed (then the command does not return normally). -/
theorem makedirs_recreates (cfg : Config) (d d' : Defs) (name : Bytes) (l : Layer) (w : World)
    (hl : findLayer d name = some l) (hs : l.state < S_complete) (hp : w.pretend = false)
    (hok : ((makedirs cfg d name).run.run w).1 = .ok d') :
    Fs.isDir ((makedirs cfg d name).run.run w).2.fs (buildPath cfg l) = true ∧
    (l.base.length > 0 →
      Fs.isDir ((makedirs cfg d name).run.run w).2.fs (workPath cfg l) = true ∧
      Fs.isDir ((makedirs cfg d name).run.run w).2.fs (upperPath cfg l) = true) := by
  have h := extractOk (fun w => w.pretend = false)
    (fun _ w => ∀ q ∈ neededDirs cfg l, Fs.isDir w.fs q = true) (makedirs cfg d name)
    (makedirs_triple cfg d name l hl hs) w hp d' hok
  refine ⟨h _ (by simp [neededDirs]), fun hb => ⟨h _ ?_, h _ ?_⟩⟩ <;> simp [neededDirs, hb]

/-- Finding `mount-source-behind-nonroot-mount`: the base path `/b` is a mount whose root is
    not `/` (a btrfs subvolume `/sub`).  `kt1` is the kernel table after layercake's own
    `mount --rbind /b/src /b/l/h/build/mnt/host` (kernel model); `mountsH` is what
    `ProbeMounts` makes of it (evaluated with `#eval Kernel.probe kt1`, not by `decide`:
    the renderer uses `toString`; the corpus case `basepath-subvolume` re-checks it against
    the real code on every run).  The documented classification accepts the mount as the
    configured import (`importAsConfigured`), `findLayerstate` reports `error`. -/
def layH : Layer :=
  { name := b!"h", cmounts := [{ mount := b!"/mnt/host", source := b!"/b/src", fstype := b!"rbind" }],
    layerPath := b!"/b/l/h", state := S_complete }
def fsH : Fs.Tree :=
  [(b!"/", .dir), (b!"/b", .dir), (b!"/b/src", .dir), (b!"/b/l", .dir), (b!"/b/l/h", .dir),
   (b!"/b/l/h/build", .dir), (b!"/b/l/h/build/mnt", .dir), (b!"/b/l/h/build/mnt/host", .dir)]
   ++ Ex.fhs b!"/b/l/h/build"
def kt0 : Kernel.KTable :=
  { mnts := [{ id := 1, parent := 0, dev := b!"8:1", root := b!"/", mp := b!"/", fstype := b!"ext4",
               source := b!"/dev/sda1" },
             { id := 2, parent := 1, dev := b!"8:2", root := b!"/sub", mp := b!"/b", fstype := b!"btrfs",
               source := b!"/dev/sdb1" }] }
def mntH : Kernel.KMnt :=
  { id := 100, parent := 2, dev := b!"8:2", root := b!"/sub/src", mp := b!"/b/l/h/build/mnt/host",
    fstype := b!"btrfs", source := b!"/dev/sdb1" }
def kt1 : Kernel.KTable := { mnts := kt0.mnts ++ [mntH], nextId := 101 }
def mountsH : Mounts :=
  { list := [{ source := [], mountpoint := b!"/", source2 := [], workdir := [], fstype := b!"ext4",
               options := b!"rw", inShadow := false, stDev := b!"8:1", root := b!"/" },
             { source := [], mountpoint := b!"/b", source2 := [], workdir := [], fstype := b!"btrfs",
               options := b!"rw", inShadow := false, stDev := b!"8:2", root := b!"/sub" },
             { source := [], mountpoint := b!"/b/l/h/build/mnt/host", source2 := [], workdir := [],
               fstype := b!"btrfs", options := b!"rw", inShadow := false, stDev := b!"8:2",
               root := b!"/sub/src" }],
    devices := [⟨b!"8:1", b!"/dev/sda1", [b!"/"]⟩, ⟨b!"8:2", b!"/dev/sdb1", []⟩] }

theorem finding_mount_source_behind_nonroot_mount_witness :
    Kernel.kmount kt0 b!"/b/src" b!"/b/l/h/build/mnt/host" b!"rbind" (Kernel.MS_BIND + Kernel.MS_REC) []
      = .ok kt1 ∧
    Kernel.topmostAt kt1.mnts b!"/b/l/h/build/mnt/host" = some mntH ∧
    Spec.World.importAsConfigured ⟨Ex.cfg, fsH, kt1.mnts⟩ mntH b!"rbind" b!"/b/src" = true ∧
    st (findLayerstate Ex.cfg fsH { layers := [layH], order := [b!"h"], mounts := mountsH } layH)
      = some S_error := by
  refine ⟨by decide, by decide, by decide, by decide⟩

/-! ### 5. equality with the documented classification, on a region -/

/-- PARTIAL.  On base layers (no parent) without exports whose layerconfig was read without
    messages and whose build root is a directory, the state `findLayerstate` reports is
    the documented classification `Spec.World.stateOf` — for every tree, every set of
    imports, every subset of them mounted, wrong-source mounts included — PROVIDED:
    * `himp`: the documented resolution of the import list (mountpoint below the build
      root, `$$self`/`$$base` resolved, fstype) is the model's expansion `imports` (holds
      when the config expands without error: no other `$$` prefix, no relative source; not
      proved here);
    * `hbr`: per import, `ImportBridge`: the `ProbeMounts` view and the kernel table agree
      on "something is mounted there" and `MountSourceIsExpected` answers what the
      documented comparison `importAsConfigured` answers (true when all sources resolve
      through mounts whose root is `/`; false inside the recorded finding
      mount-source-behind-nonroot-mount), the source is absolute, and the two "inside the
      layers directory" tests agree;
    * `hbusy`: the busy flags handed to the probe are the documented ones.
    Missing for the full statement: derived layers (overlay arm), exports, proofs of the
    three bridge hypotheses from `Kernel.probe`. -/
theorem state_eq_spec_partial (i : Inst) (ls : List DLayer) (users : List (Bytes × List User))
    (dl : DLayer) (d : Defs) (l : Layer) (imports : List Expanded)
    (hn : dl.file.nmsgs = 0) (hb : dl.file.base = []) (he : dl.file.exports = [])
    (hdir : Fs.isDir i.fs (buildDir i dl.name) = true)
    (hlb : l.base = []) (hle : l.cexports = [])
    (hlp : buildPath i.cfg l = buildDir i dl.name) (hls : ¬ l.state < S_complete)
    (hexp : expandConfigMounts i.cfg d l = .ok imports)
    (himp : dl.file.mounts.map (fun imp => (pathJoin [buildDir i dl.name, imp.mount],
        resolveSource i ls dl.name imp.source, imp.fstype))
      = imports.map (fun e => (e.mount, some e.source, e.fstype)))
    (hbr : ∀ e ∈ imports, ImportBridge i d.mounts e)
    (hbusy : (l.mountBusy || l.overlain) = (mountBusy i users dl.name || overlain i dl.name)) :
    ∃ l', findLayerstate i.cfg i.fs d l = .ok l' ∧
      l'.state = (stateOf i ls users dl none).toNat := by
  have hfhs : (fhsDirs.all fun x => Fs.isDir i.fs (pathJoin [buildDir i dl.name, x]))
      = minimalBuildDirsPresent i.fs (buildPath i.cfg l) := by rw [hlp]; rfl
  have h3 : (imports.map (specCode i)).any (fun x => x == 3) = imports.any (impWrong i.cfg i.fs d.mounts) :=
    any_map_congr _ _ _ _ (fun e he => bridge_wrong i d.mounts e (hbr e he))
  have h0 : (imports.map (specCode i)).any (fun x => x == 0) = imports.any (impMissing i.cfg i.fs) :=
    any_map_congr _ _ _ _ (fun e he => bridge_missing i d.mounts e (hbr e he))
  have hpn : imports.any (impPanic i.cfg i.fs d.mounts) = false := by
    rw [List.any_eq_false]
    intro e he
    simp [bridge_panic i d.mounts e (hbr e he)]
  have hlen := expandConfigMounts_length i.cfg d l imports hexp
  rw [stateOf_base i ls users dl imports hn hb he hdir himp, hfhs, h3, h0]
  cases hf : minimalBuildDirsPresent i.fs (buildPath i.cfg l) with
  | false =>
    obtain ⟨l', h1, h2⟩ := findLayerstate_base_nofhs i.cfg i.fs d l hls (by simp [hlb]) hf
    exact ⟨l', h1, h2⟩
  | true =>
    rw [findLayerstate_reached i.cfg i.fs d l hls hf (by simp [hlb]), classify_eq]
    generalize hlc : ({ l with mounts := getMountAndSubmounts d.mounts (buildPath i.cfg l),
                               state := S_complete } : Layer) = lc
    have hbase : lc.base = l.base := by subst hlc; rfl
    have hcm : lc.cmounts = l.cmounts := by subst hlc; rfl
    have hlpp : lc.layerPath = l.layerPath := by subst hlc; rfl
    have hexs : exportsOf i.cfg lc = ([], false) := by
      subst hlc
      show exportsOf i.cfg l = _
      unfold exportsOf expandConfigExports
      rw [hle]
      rfl
    have hne : numExpected lc = imports.length := by
      unfold numExpected; rw [hbase, hcm, hlb, hlen]; simp
    have hmb : (lc.mountBusy || lc.overlain) = (mountBusy i users dl.name || overlain i dl.name) := by
      subst hlc; exact hbusy
    rw [expandConfigMounts_congr i.cfg d lc l hbase hcm hlpp, hexp, hexs]
    simp only [hpn, Bool.false_eq_true, ↓reduceIte, List.any_nil, Bool.or_false, hlb, List.length_nil,
      Nat.lt_irrefl, Nat.zero_add, Bool.not_true]
    refine ⟨_, rfl, ?_⟩
    rw [finish_state, hne]
    simp only [Bool.or_false]
    cases hw : imports.any (impWrong i.cfg i.fs d.mounts) with
    | true => rfl
    | false =>
      simp only [Bool.false_eq_true, ↓reduceIte]
      cases hmi : imports.any (impMissing i.cfg i.fs) with
      | true => rfl
      | false =>
        have h2 : ((imports.map (specCode i)).filter (fun x => x == 2)).length
            = imports.countP (impMounted i.cfg i.fs d.mounts) :=
          filter_map_length _ _ _ _ (fun e he => bridge_mounted i d.mounts e (hbr e he)
            (by simpa using List.any_eq_false.mp hw e he))
        simp only [Bool.false_eq_true, ↓reduceIte, h2, hmb]
        repeat' split
        all_goals first | rfl | (exfalso; simp_all)

/-! ### non-vacuity -/

/-- `mounted_implies_nothing_missing` is not vacuous: a base layer with its import mounted
    and a derived layer with overlay and both imports mounted are reported `mounted` -/
example : ∃ l', findLayerstate Ex.cfg Ex.fs1 (Ex.defs [Ex.procA]) Ex.layA = .ok l' ∧
    l'.state = S_mounted := st_ok (by decide)
example : ∃ l', findLayerstate Ex.cfg Ex.fs1 (Ex.defs [Ex.procA, Ex.ovlC, Ex.procC, Ex.devC]) Ex.layC
    = .ok l' ∧ l'.state = S_mounted := st_ok (by decide)

/-- the situation repaired by fix a2e90fd: overlay and one of two imports mounted is
    `partially mounted` (the old code said `mounted and ready`) -/
example : ∃ l', findLayerstate Ex.cfg Ex.fs1 (Ex.defs [Ex.procA, Ex.ovlC, Ex.procC]) Ex.layC
    = .ok l' ∧ l'.state = S_partialmount := st_ok (by decide)

/-- `partial_vs_mounted`: its hypotheses hold in that world (so the three iffs say: 2 of 3
    mounted ⇒ partially mounted) -/
example : ∃ imports exports,
    ¬ Ex.layC.state < S_complete ∧
    minimalBuildDirsPresent Ex.fs1 (buildPath Ex.cfg Ex.layC) = true ∧
    OverlayOk Ex.cfg (Ex.defs [Ex.procA, Ex.ovlC, Ex.procC]) Ex.layC ∧
    expandConfigMounts Ex.cfg (Ex.defs [Ex.procA, Ex.ovlC, Ex.procC]) Ex.layC = .ok imports ∧
    expandConfigExports Ex.cfg Ex.layC = .ok exports ∧
    imports.any (impMissing Ex.cfg Ex.fs1) = false ∧
    imports.any (impWrong Ex.cfg Ex.fs1 (Ex.defs [Ex.procA, Ex.ovlC, Ex.procC]).mounts) = false ∧
    imports.any (impPanic Ex.cfg Ex.fs1 (Ex.defs [Ex.procA, Ex.ovlC, Ex.procC]).mounts) = false ∧
    exports.any (expMissing Ex.fs1 (buildPath Ex.cfg Ex.layC)) = false ∧
    exports.any (expWrong Ex.fs1 (buildPath Ex.cfg Ex.layC)) = false ∧
    numMounted Ex.cfg Ex.fs1 (Ex.defs [Ex.procA, Ex.ovlC, Ex.procC]) Ex.layC imports = 2 ∧
    numExpected Ex.layC = 3 := by
  refine ⟨[⟨b!"/b/l/c/build/proc", b!"/proc", b!"proc", b!"/proc", b!"/proc"⟩,
           ⟨b!"/b/l/c/build/dev", b!"/dev", b!"rbind", b!"/dev", b!"/dev"⟩], [],
    by decide, by decide, ?_, by decide, by decide, by decide, by decide, by decide, by decide,
    by decide, by decide, by decide⟩
  exact ⟨{ Ex.layA with state := S_mounted }, Ex.ovlC, by decide, by decide, by decide, by decide,
    by decide, by decide, by decide⟩

/-- `incomplete_iff` is not vacuous: with `c`'s upper directory missing (work directory
    present: the case the original `&&` missed) the round answers `incomplete`; with all
    three directories present it goes on to `findLayerstate` -/
example : ∃ l', probeLayer Ex.cfg [] Ex.fs0 (Ex.defs [Ex.procA]) b!"c" Ex.layC = .ok l' ∧
    l'.state = S_incomplete := st_ok (by decide)
example : Fs.isDir Ex.fs0 (workPath Ex.cfg Ex.layC) = true ∧
    Fs.isDir Ex.fs0 (upperPath Ex.cfg Ex.layC) = false := by decide
example : ∃ l', probeLayer Ex.cfg [] Ex.fs1 (Ex.defs [Ex.procA]) b!"c" Ex.layC = .ok l' ∧
    l'.state = S_mountable := st_ok (by decide)

/-- `makedirs_recreates` is not vacuous: on the tree without `c`'s upper directory, with
    `c` recorded `incomplete`, `makedirs` returns normally -/
example :
    let d : Defs := { Ex.defs [Ex.procA] with
      layers := [{ Ex.layA with state := S_mounted }, { Ex.layC with state := S_incomplete }] }
    findLayer d b!"c" = some { Ex.layC with state := S_incomplete } ∧
    (((makedirs Ex.cfg d b!"c").run.run { fs := Ex.fs0 }).1.toOption.isSome = true) ∧
    Fs.isDir Ex.fs0 (upperPath Ex.cfg Ex.layC) = false ∧
    Fs.isDir ((makedirs Ex.cfg d b!"c").run.run { fs := Ex.fs0 }).2.fs (upperPath Ex.cfg Ex.layC) = true := by
  decide

/-! ### the two recorded findings, as theorems about the unchanged code -/

/-- Finding `derived-imports-without-overlay`, general form: a derived layer whose overlay is
    not mounted (parent at least mountable) is reported `mountable` whatever is mounted on
    its import mountpoints — the property asks for `partially mounted` when some are. -/
theorem finding_derived_without_overlay_mountable (cfg : Config) (fs : Fs.Tree) (d : Defs)
    (l bl : Layer) (hs : ¬ l.state < S_complete) (hb : l.base.length > 0)
    (hbl : findLayer d l.base = some bl) (hst : ¬ bl.state < S_mountable)
    (hno : getMount d.mounts (buildPath cfg l) = none) :
    ∃ l', findLayerstate cfg fs d l = .ok l' ∧ l'.state = S_mountable := by
  rw [findLayerstate_eq]
  unfold findLayerstate2
  simp only [hs, ↓reduceIte]
  have hp : preCheck cfg fs d
      ({ l with mounts := getMountAndSubmounts d.mounts (buildPath cfg l), state := S_complete } : Layer)
      = .ok (some (({ l with mounts := getMountAndSubmounts d.mounts (buildPath cfg l),
                             state := S_mountable } : Layer), 1000000)) := by
    unfold preCheck
    simp only [hb, ↓reduceIte, hbl, hst]
    show (match getMount d.mounts (buildPath cfg l) with | none => _ | some mnt => _) = _
    rw [hno]
  rw [hp]
  exact ⟨_, rfl, rfl⟩

/-- … and a concrete world in which an import IS mounted (so "some, not none, of overlay
    and imports are mounted") while the report is `mountable`: the negation of the clause
    "mountable only when none is mounted" for the unchanged code. -/
theorem finding_derived_imports_without_overlay_witness :
    ∃ (cfg : Config) (fs : Fs.Tree) (d : Defs) (l l' : Layer) (imports : List Expanded),
      findLayerstate cfg fs d l = .ok l' ∧ expandConfigMounts cfg d l = .ok imports ∧
      0 < imports.countP (impMounted cfg fs d.mounts) ∧ l'.state = S_mountable := by
  obtain ⟨l', h1, h2⟩ : ∃ l', findLayerstate Ex.cfg Ex.fs1 (Ex.defs [Ex.procA, Ex.procC]) Ex.layC
      = .ok l' ∧ l'.state = S_mountable := st_ok (by decide)
  exact ⟨Ex.cfg, Ex.fs1, Ex.defs [Ex.procA, Ex.procC], Ex.layC, l',
    [⟨b!"/b/l/c/build/proc", b!"/proc", b!"proc", b!"/proc", b!"/proc"⟩,
     ⟨b!"/b/l/c/build/dev", b!"/dev", b!"rbind", b!"/dev", b!"/dev"⟩], h1, by decide, by decide, h2⟩

def kProc : Kernel.KMnt :=
  { id := 20, parent := 1, dev := b!"0:5", root := b!"/", mp := b!"/b/l/a/build/proc", fstype := b!"proc", source := b!"proc" }
def instA : Inst :=
  ⟨Ex.cfg, Ex.fs1,
   [{ id := 1, parent := 0, dev := b!"8:1", root := b!"/", mp := b!"/", fstype := b!"ext4", source := b!"/dev/sda1" },
    { id := 2, parent := 1, dev := b!"0:5", root := b!"/", mp := b!"/proc", fstype := b!"proc", source := b!"proc" },
    kProc]⟩
def dlA : DLayer := ⟨b!"a", { base := [], mounts := [Ex.impProc], exports := [], nmsgs := 0 }⟩
def eProc : Expanded := ⟨b!"/b/l/a/build/proc", b!"/proc", b!"proc", b!"/proc", b!"/proc"⟩

/-- the hypotheses of `state_eq_spec_partial` hold for the base layer `a` with its proc import
    mounted (kernel table `instA`, ProbeMounts view `Ex.defs [Ex.procA]`); both sides say `mounted` -/
example : dlA.file.nmsgs = 0 ∧ dlA.file.base = [] ∧ dlA.file.exports = [] ∧
    Fs.isDir instA.fs (buildDir instA dlA.name) = true ∧ Ex.layA.base = [] ∧ Ex.layA.cexports = [] ∧
    buildPath instA.cfg Ex.layA = buildDir instA dlA.name ∧ ¬ Ex.layA.state < S_complete ∧
    expandConfigMounts instA.cfg (Ex.defs [Ex.procA]) Ex.layA = .ok [eProc] ∧
    dlA.file.mounts.map (fun imp => (pathJoin [buildDir instA dlA.name, imp.mount],
        resolveSource instA [dlA] dlA.name imp.source, imp.fstype))
      = [eProc].map (fun e => (e.mount, some e.source, e.fstype)) ∧
    (∀ e ∈ [eProc], ImportBridge instA (Ex.defs [Ex.procA]).mounts e) ∧
    (Ex.layA.mountBusy || Ex.layA.overlain) = (mountBusy instA [] dlA.name || overlain instA dlA.name) ∧
    (stateOf instA [dlA] [] dlA none).toNat = S_mounted := by
  refine ⟨by decide, by decide, by decide, by decide, by decide, by decide, by decide, by decide,
    by decide, by decide, ?_, by decide, by decide⟩
  intro e he
  have : e = eProc := by simpa using he
  subst this
  refine ⟨by decide, by decide, by decide, ?_⟩
  intro mnt km h1 h2
  have g1 : getMount (Ex.defs [Ex.procA]).mounts eProc.mount = some Ex.procA := by decide
  have g2 : topAt instA.mnts eProc.mount = some kProc := by decide
  rw [g1] at h1
  rw [g2] at h2
  cases h1
  cases h2
  decide
end Lc.Props.C08
