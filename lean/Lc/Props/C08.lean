/-
  C08 — a layer's reported state is the documented function of disk and mount table.

  Over the hand-written model of manage/probe.go (`findLayerstate`, the per-layer step of
  `ProbeAllLayerstate`) and manage/layers.go (`Makedirs`), for ALL configurations, trees,
  mount tables and layers:
  * `mounted_implies_nothing_missing`: "mounted (and ready / busy)" is reported only if
    nothing configured is missing (the clause repaired by fix a2e90fd);
  * `incomplete_iff`: "incomplete" is reported exactly when the build root or, for a
    derived layer, either overlay directory is missing (the clause repaired by 2d2b96a);
  * `makedirs_recreates`: mkdirs then recreates what is missing;
  * `partial_vs_mounted`: mountable / partially mounted / mounted = none / some / all of
    the overlay and the configured imports mounted.
  Sections 6-10 (refinement to the documented classification `Spec.World.stateOf` /
  `allStates`, and the whole probe):
  * `state_eq_spec_base`, `state_eq_spec_derived`: `findLayerstate` = `stateOf` for base layers
    with exports and for derived layers (after the fixes f9eff6a, 23c682d, eeedaf2 the only
    exclusion left is `ImportBridge.expected` / `SourceAgree`: finding
    nonbind-import-fstype-not-compared);
  * `mounted_only_if_fully_mounted_all`, `never_mounted_when_half_mounted` (+ `_getLayers`,
    `never_mounted_when_unmounted_in_kernel`): over `ProbeAllLayerstate` for every layer of
    any forest;
  * section 8: the bridge hypotheses between the `ProbeMounts` view and the kernel table
    discharged (`probe_gives_view_kwf`, `bridges_of_view`, `in_layers_agree`, …),
    `probe_round_eq_spec`: one whole round of the probe = `stateOf`;
  * section 9: the three regions the proofs exposed: two repaired (`fixed_*` witnesses), one
    recorded finding (`finding_nonbind_import_fstype_not_compared_witness`);
  * section 10: `getLayers_eq_allStates`: every state every command sees is the documented one.
-/
import Lc.Lemmas.StateProbeAll
import Lc.Lemmas.Makedirs
import Lc.Spec.World
import Lc.Lemmas.SpecBridge
import Lc.Lemmas.StateSpec
import Lc.Lemmas.ProbeLoop
import Lc.Lemmas.ProbeRound
import Lc.Lemmas.InLayers
import Lc.Lemmas.KernelWF
import Lc.Lemmas.ProbeAllSpec

namespace Lc.Props.C08
open Lc Lc.Layers Lc.Mountinfo Lc.StateProbe Lc.Hoare Lc.Spec.World

/-! ### a small world for the non-vacuity examples and the finding witnesses

  base layer `a` (import proc), derived layer `c` on `a` (imports proc and rbind /dev). -/

namespace Ex

def cfg : Config :=
  { basepath := b!"/b", layerdirs := b!"/b/l", buildRoot := b!"build", binPkg := b!"pk",
    generated := b!"gen", workdir := b!"work", upperdir := b!"upper", exportdirs := b!"/b/e",
    exportBinPkg := b!"pk", exportGenerated := b!"gen" }

def impProc : Layerfile.NeededMount := { mount := b!"/proc", source := b!"/proc", fstype := b!"proc" }
def impDev : Layerfile.NeededMount := { mount := b!"/dev", source := b!"/dev", fstype := b!"rbind" }

def layA : Layer :=
  { name := b!"a", cmounts := [impProc], layerPath := b!"/b/l/a", state := S_complete }
def layC : Layer :=
  { name := b!"c", base := b!"a", cmounts := [impProc, impDev], layerPath := b!"/b/l/c",
    state := S_complete }

def fhs (root : Bytes) : Fs.Tree :=
  (minimalBuildDirs ++ [b!"proc", b!"dev"]).map fun n => (root ++ b!"/" ++ n, Fs.Node.dir)

/-- everything there except `c`'s upper directory -/
def fs0 : Fs.Tree :=
  [(b!"/", .dir), (b!"/proc", .dir), (b!"/dev", .dir), (b!"/b", .dir), (b!"/b/l", .dir),
   (b!"/b/l/a", .dir), (b!"/b/l/a/build", .dir), (b!"/b/l/c", .dir), (b!"/b/l/c/build", .dir),
   (b!"/b/l/c/work", .dir)] ++ fhs b!"/b/l/a/build" ++ fhs b!"/b/l/c/build"
/-- everything there -/
def fs1 : Fs.Tree := fs0 ++ [(b!"/b/l/c/upper", .dir)]

def mnt (mp fstype stDev : Bytes) : MountType :=
  { source := [], mountpoint := mp, source2 := [], workdir := [], fstype := fstype,
    options := b!"rw", inShadow := false, stDev := stDev, root := b!"/" }
def ovlC : MountType :=
  { source := b!"/b/l/a/build", mountpoint := b!"/b/l/c/build", source2 := b!"/b/l/c/upper",
    workdir := b!"/b/l/c/work", fstype := b!"overlay", options := b!"rw", inShadow := false,
    stDev := b!"0:70", root := b!"/" }
def devs : List Device :=
  [⟨b!"0:5", b!"proc", [b!"/proc", b!"/b/l/a/build/proc", b!"/b/l/c/build/proc"], []⟩,
   ⟨b!"0:6", b!"devtmpfs", [b!"/dev", b!"/b/l/c/build/dev"], []⟩,
   ⟨b!"0:70", b!"overlay", [b!"/b/l/c/build"], []⟩]
def procA : MountType := mnt b!"/b/l/a/build/proc" b!"proc" b!"0:5"
def procC : MountType := mnt b!"/b/l/c/build/proc" b!"proc" b!"0:5"
def devC : MountType := mnt b!"/b/l/c/build/dev" b!"devtmpfs" b!"0:6"

/-- `a` already classified `mounted`, `c` to be classified; `ms` = the mount table -/
def defs (ms : List MountType) : Defs :=
  { layers := [{ layA with state := S_mounted }, layC], order := [b!"a", b!"c"],
    mounts := { list := ms, devices := devs } }

end Ex

/-! ### 1. mounted ⇒ nothing configured is missing -/

/-- If `findLayerstate` reports `mounted and ready` or `mounted, busy` then: the FHS
    directories are there; a derived layer has its overlay mounted on the build directory
    with exactly the configured lower/upper/work directories (and a parent that is at
    least mountable); the configuration expands; EVERY configured import has its
    mountpoint, its source (or a source inside the layers directory, which mount creates),
    something mounted on the mountpoint, and that mount has the expected source; every
    export source lies in the build directory, exists, and an existing link points at it;
    the number of mounted imports equals the number of configured ones. -/
theorem mounted_implies_nothing_missing (cfg : Config) (fs : Fs.Tree) (d : Defs) (l l' : Layer)
    (h : findLayerstate cfg fs d l = .ok l')
    (hm : l'.state = S_mounted ∨ l'.state = S_mounted_busy) :
    minimalBuildDirsPresent fs (buildPath cfg l) = true ∧
    (l.base.length > 0 → OverlayOk cfg d l) ∧
    ∃ imports exports,
      expandConfigMounts cfg d l = .ok imports ∧
      expandConfigExports cfg l = .ok exports ∧
      (∀ e ∈ imports,
        Fs.lexists fs e.mount = true ∧
        (isAbs e.source = true → Fs.lexists fs e.source = true ∨
            inAnyLayerDirectory cfg (e.source.length + 1) e.source = true) ∧
        ∃ mnt, getMount d.mounts e.mount = some mnt ∧
               mountSourceIsExpected d.mounts mnt e.source = .ok true) ∧
      (∀ e ∈ exports,
        (isDescendant (buildPath cfg l) e.source = true ∨ buildPath cfg l = e.source) ∧
        Fs.lexists fs e.source = true ∧
        (Fs.isSymlink fs e.mount = true → readlink fs e.mount = some e.source)) ∧
      imports.length = l.cmounts.length ∧
      imports.countP (impMounted cfg fs d.mounts) = l.cmounts.length := by
  have hm' : l'.state = 7 ∨ l'.state = 8 := hm
  rcases findLayerstate_cases cfg fs d l l' h with ⟨hs, rfl⟩ | ⟨hs, hc⟩
  · exfalso
    have : l.state < 3 := hs
    simp only at hm'
    omega
  rcases hc with ⟨_, rfl⟩ | hp | ⟨l2, n, hn, hp, hcl⟩
  · exfalso; simp [S_complete] at hm'
  · exfalso
    rcases (preCheck_ret cfg fs d _ _ hp).2 with rfl | rfl <;> simp [S_mountable, S_error] at hm'
  obtain ⟨rfl, hfhs, hn0⟩ := preCheck_go cfg fs d _ _ n hp hn
  refine ⟨hfhs, ?_, ?_⟩
  · intro hb
    rcases hn0 with ⟨h0, _⟩ | ⟨_, _, ho⟩
    · have : l.base.length = 0 := h0
      omega
    · exact ho
  rw [classify_eq] at hcl
  generalize hlc : ({ l with mounts := getMountAndSubmounts d.mounts (buildPath cfg l),
                             state := S_complete } : Layer) = lc at hcl hn0
  have hbase : lc.base = l.base := by subst hlc; rfl
  have hcm : lc.cmounts = l.cmounts := by subst hlc; rfl
  have hlp : lc.layerPath = l.layerPath := by subst hlc; rfl
  have hexp : expandConfigMounts cfg d lc = expandConfigMounts cfg d l :=
    expandConfigMounts_congr cfg d lc l hbase hcm hlp
  have hexs : exportsOf cfg lc = exportsOf cfg l := by subst hlc; rfl
  rw [hexp, hexs] at hcl
  split at hcl
  · cases hcl; exfalso; simp [S_inhabited] at hm'
  · cases hcl
  rename_i imports himp
  split at hcl
  · cases hcl
  rename_i hnp
  have hl' := (Except.ok.inj hcl).symm
  have hst := congrArg Layer.state hl'
  rw [finish_state] at hst
  have hlen := expandConfigMounts_length cfg d l imports himp
  have hcnt := List.countP_le_length (p := impMounted cfg fs d.mounts) (l := imports)
  have hne : numExpected lc = l.cmounts.length + (if l.base.length > 0 then 1 else 0) := by
    unfold numExpected; rw [hbase, hcm]
  -- read the if-chain backwards
  split at hst
  · exfalso; rw [hst] at hm'; simp [S_error] at hm'
  rename_i hbad
  split at hst
  · exfalso; rw [hst] at hm'; simp [S_inhabited] at hm'
  rename_i hmiss
  split at hst
  · exfalso; rw [hst] at hm'; simp [S_mountable] at hm'
  split at hst
  · exfalso; rw [hst] at hm'; simp [S_partialmount] at hm'
  rename_i hge
  simp only [Bool.or_eq_true, not_or, Bool.not_eq_true] at hbad hmiss
  obtain ⟨⟨hwi, hwe⟩, hfs⟩ := hbad
  obtain ⟨hmi, hme⟩ := hmiss
  have hall : imports.countP (impMounted cfg fs d.mounts) = imports.length := by
    rw [hne] at hge
    rcases hn0 with ⟨h0, hn0⟩ | ⟨h0, hn0, _⟩
    · have h0' : l.base.length = 0 := hbase ▸ h0
      simp only [h0', Nat.lt_irrefl, ↓reduceIte] at hge
      omega
    · have h0' : l.base.length > 0 := hbase ▸ h0
      simp only [h0', ↓reduceIte] at hge
      omega
  refine ⟨imports, (exportsOf cfg l).1, himp, exportsOf_ok cfg l hfs, ?_, ?_, hlen, by omega⟩
  · intro e he
    have h1 : impMounted cfg fs d.mounts e = true := (List.countP_eq_length.mp hall) e he
    have h2 : impWrong cfg fs d.mounts e = false := by
      have := List.any_eq_false.mp hwi e he
      simpa using this
    have h3 : impPanic cfg fs d.mounts e = false := by
      have hnp' : imports.any (impPanic cfg fs d.mounts) = false := by simpa using hnp
      have := List.any_eq_false.mp hnp' e he
      simpa using this
    exact imp_good cfg fs d.mounts e h1 h2 h3
  · intro e he
    have h1 : expMissing fs (buildPath cfg l) e = false := by
      have := List.any_eq_false.mp hme e he
      simpa using this
    have h2 : expWrong fs (buildPath cfg l) e = false := by
      have := List.any_eq_false.mp hwe e he
      simpa using this
    exact exp_good fs (buildPath cfg l) e h1 h2

/-! ### 4. mountable / partially mounted / mounted = none / some / all -/

/-- number of things mounted for the layer: the overlay (derived layer, already checked)
    plus the imports that have something mounted on their mountpoint -/
def numMounted (cfg : Config) (fs : Fs.Tree) (d : Defs) (l : Layer) (imports : List Expanded) : Nat :=
  (if l.base.length > 0 then 1 else 0) + imports.countP (impMounted cfg fs d.mounts)

/-- With all directories present (FHS directories, every import's mountpoint and source,
    every export source), the overlay of a derived layer mounted as configured, and no
    incorrect mount or export link, the reported state is `mountable` iff nothing is
    mounted, `partially mounted` iff some but not all of overlay + imports are mounted,
    `mounted` (ready or busy) iff all of them are (and there is at least one: a layer
    with nothing to mount is `mountable`, in the code and in the documented function). -/
theorem partial_vs_mounted (cfg : Config) (fs : Fs.Tree) (d : Defs) (l : Layer)
    (imports exports : List Expanded)
    (hs : ¬ l.state < S_complete)
    (hfhs : minimalBuildDirsPresent fs (buildPath cfg l) = true)
    (hov : l.base.length > 0 → OverlayOk cfg d l)
    (himp : expandConfigMounts cfg d l = .ok imports)
    (hexp : expandConfigExports cfg l = .ok exports)
    (hmi : imports.any (impMissing cfg fs) = false)
    (hwi : imports.any (impWrong cfg fs d.mounts) = false)
    (hpi : imports.any (impPanic cfg fs d.mounts) = false)
    (hme : exports.any (expMissing fs (buildPath cfg l)) = false)
    (hwe : exports.any (expWrong fs (buildPath cfg l)) = false) :
    ∃ l', findLayerstate cfg fs d l = .ok l' ∧
      numMounted cfg fs d l imports ≤ numExpected l ∧
      (l'.state = S_mountable ↔ numMounted cfg fs d l imports = 0) ∧
      (l'.state = S_partialmount ↔
        0 < numMounted cfg fs d l imports ∧ numMounted cfg fs d l imports < numExpected l) ∧
      (l'.state = S_mounted ∨ l'.state = S_mounted_busy ↔
        0 < numMounted cfg fs d l imports ∧ numMounted cfg fs d l imports = numExpected l) := by
  rw [findLayerstate_reached cfg fs d l hs hfhs hov, classify_eq]
  generalize hlc : ({ l with mounts := getMountAndSubmounts d.mounts (buildPath cfg l),
                             state := S_complete } : Layer) = lc
  have hbase : lc.base = l.base := by subst hlc; rfl
  have hcm : lc.cmounts = l.cmounts := by subst hlc; rfl
  have hlp : lc.layerPath = l.layerPath := by subst hlc; rfl
  have hexs : exportsOf cfg lc = (exports, false) := by
    subst hlc
    show exportsOf cfg l = _
    unfold exportsOf
    rw [hexp]
  rw [expandConfigMounts_congr cfg d lc l hbase hcm hlp, himp, hexs]
  simp only [hpi, hmi, hwi, hme, hwe, Bool.false_eq_true, ↓reduceIte, Bool.or_self]
  refine ⟨_, rfl, ?_⟩
  rw [finish_state]
  have hne : numExpected lc = numExpected l := by unfold numExpected; rw [hbase, hcm]
  have hlen := expandConfigMounts_length cfg d l imports himp
  have hcnt := List.countP_le_length (p := impMounted cfg fs d.mounts) (l := imports)
  have hle : numMounted cfg fs d l imports ≤ numExpected l := by
    unfold numMounted numExpected; omega
  refine ⟨hle, ?_⟩
  rw [hne]
  simp only [Bool.or_self, Bool.false_eq_true, ↓reduceIte]
  exact chain_iff (numMounted cfg fs d l imports) (numExpected l) _ hle

/-! ### 2. incomplete ⇔ build root or (derived) an overlay directory is missing -/

/-- One round of `ProbeAllLayerstate` for a layer that is not in the error state
    (`probeLayer` is that round, `Lc.StateProbe.probeStep_eq` / `probeAll_eq` tie it to the
    model's `probeAll`): the layer comes out `incomplete` exactly when its build root is
    not a directory or, for a derived layer, its work or its upper directory is not
    (`||`, fix 2d2b96a; the original `&&` fails the "one of the two missing" case). -/
theorem incomplete_iff (cfg : Config) (inuse : List (Bytes × List User)) (fs : Fs.Tree) (d : Defs)
    (name : Bytes) (l l' : Layer) (h : probeLayer cfg inuse fs d name l = .ok l') :
    l'.state = S_incomplete ↔
      (Fs.isDir fs (buildPath cfg l) = false ∨
       (l.base.length ≥ 1 ∧
         (Fs.isDir fs (workPath cfg l) = false ∨ Fs.isDir fs (upperPath cfg l) = false))) := by
  unfold probeLayer at h
  simp only [] at h
  have hsc := classifyUsers_sameCore cfg
    ({ l with mounts := getMountAndSubmounts d.mounts (buildPath cfg l) } : Layer) (StateProbe.usersOf inuse name)
  generalize classifyUsers cfg _ _ = lu at h hsc
  obtain ⟨-, hbase, -, -, hlp, -, -, -⟩ := hsc
  have hbase' : lu.base = l.base := hbase
  have hlp' : lu.layerPath = l.layerPath := hlp
  have hw : workPath cfg lu = workPath cfg l := by unfold workPath; rw [hlp']
  have hu : upperPath cfg lu = upperPath cfg l := by unfold upperPath; rw [hlp']
  rw [hw, hu, hbase'] at h
  split at h
  · rename_i hb
    cases h
    simp only [Bool.not_eq_true'] at hb
    simp [hb]
  · rename_i hb
    simp only [Bool.not_eq_true', Bool.not_eq_false] at hb
    split at h
    · rename_i hwu
      cases h
      simp only [Bool.and_eq_true, decide_eq_true_eq, Bool.or_eq_true, Bool.not_eq_true'] at hwu
      simp [hwu]
    · rename_i hwu
      simp only [Bool.and_eq_true, decide_eq_true_eq, Bool.or_eq_true, Bool.not_eq_true'] at hwu
      obtain ⟨s, rfl, -, hr⟩ := findLayerstate_shape cfg fs d _ _ h
      have := (hr (by show ¬ S_complete < S_complete; decide)).1
      constructor
      · intro hs; exact absurd hs this
      · rintro (h1 | h2)
        · rw [hb] at h1; cases h1
        · exact absurd h2 hwu

/-- tie to the monadic loop body: a round on an existing layer that is not in the error
    state does not touch the world, fails only if `findLayerstate` does, and stores the
    `probeLayer` record under the layer's name -/
theorem probeStep_run (cfg : Config) (inuse : List (Bytes × List User)) (fs : Fs.Tree) (d d' : Defs)
    (name : Bytes) (l : Layer) (w w' : World)
    (hl : findLayer d name = some l) (hne : l.state ≠ S_error)
    (hrun : (probeStep cfg inuse fs d name).run.run w = (.ok d', w')) :
    w' = w ∧ ∃ l', probeLayer cfg inuse fs d name l = .ok l' ∧ d' = setLayer d l' ∧
      l'.name = name ∧ findLayer d' name = some l' := by
  rw [probeStep_eq, hl] at hrun
  simp only [beq_iff_eq, hne, ↓reduceIte] at hrun
  cases hp : probeLayer cfg inuse fs d name l with
  | error e =>
    rw [hp] at hrun
    simp [liftRes, ExceptT.run, bind, ExceptT.bind, ExceptT.bindCont, ExceptT.mk, throw, throwThe,
      MonadExceptOf.throw, StateT.run, StateT.bind, StateT.pure, pure] at hrun
    exact absurd (congrArg Prod.fst hrun) (by simp)
  | ok l' =>
    rw [hp] at hrun
    simp [liftRes, ExceptT.run, bind, ExceptT.bind, ExceptT.bindCont, ExceptT.mk, ExceptT.pure,
      StateT.run, StateT.bind, StateT.pure, pure] at hrun
    obtain ⟨rfl, rfl⟩ := hrun
    have hname : l'.name = name := by
      have hn := findLayer_name d name l hl
      unfold probeLayer at hp
      simp only [] at hp
      have hsc := classifyUsers_sameCore cfg
        ({ l with mounts := getMountAndSubmounts d.mounts (buildPath cfg l) } : Layer) (StateProbe.usersOf inuse name)
      generalize classifyUsers cfg _ _ = lu at hp hsc
      have hlu : lu.name = l.name := hsc.1
      split at hp
      · cases hp; exact hlu.trans hn
      · split at hp
        · cases hp; exact hlu.trans hn
        · obtain ⟨s, rfl, -, -⟩ := findLayerstate_shape cfg fs d _ _ hp
          exact hlu.trans hn
    refine ⟨rfl, l', rfl, rfl, hname, ?_⟩
    subst hname
    exact findLayer_setLayer d l l' hl

/-! ### 3. mkdirs recreates what is missing -/

/-- After `makedirs` (the `mkdirs` command, also the first phase of `mount`) returns
    normally on a layer below `complete`, outside pretend mode, the build root and, for a
    derived layer, the overlay work and upper directories are directories — whatever the
    tree looked like before (any subset of them present), whatever fault/crash switch is
    armed (then the command does not return normally). -/
theorem makedirs_recreates (cfg : Config) (d d' : Defs) (name : Bytes) (l : Layer) (w : World)
    (hl : findLayer d name = some l) (hs : l.state < S_complete) (hp : w.pretend = false)
    (hok : ((makedirs cfg d name).run.run w).1 = .ok d') :
    Fs.isDir ((makedirs cfg d name).run.run w).2.fs (buildPath cfg l) = true ∧
    (l.base.length > 0 →
      Fs.isDir ((makedirs cfg d name).run.run w).2.fs (workPath cfg l) = true ∧
      Fs.isDir ((makedirs cfg d name).run.run w).2.fs (upperPath cfg l) = true) := by
  have h := extractOk (fun w => w.pretend = false)
    (fun _ w => ∀ q ∈ neededDirs cfg l, Fs.isDir w.fs q = true) (makedirs cfg d name)
    (makedirs_triple cfg d name l hl hs) w hp d' hok
  refine ⟨h _ (by simp [neededDirs]), fun hb => ⟨h _ ?_, h _ ?_⟩⟩ <;> simp [neededDirs, hb]

/-- Former finding `mount-source-behind-nonroot-mount` (repaired by fix 23c682d): the base
    path `/b` is a mount whose root is not `/` (a btrfs subvolume `/sub`).  `kt1` is the
    kernel table after layercake's own `mount --rbind /b/src /b/l/h/build/mnt/host` (kernel
    model); `mountsH` is what `ProbeMounts` makes of it (a `MountsView`; the corpus case
    `basepath-subvolume` re-checks it against the real code on every run).  The documented
    classification accepts the mount as the configured import (`importAsConfigured`);
    `findLayerstate` reported `error` before the fix and reports `mounted` now: the source is
    found through the subvolume mount (`Device.subroots`). -/
def layH : Layer :=
  { name := b!"h", cmounts := [{ mount := b!"/mnt/host", source := b!"/b/src", fstype := b!"rbind" }],
    layerPath := b!"/b/l/h", state := S_complete }
def fsH : Fs.Tree :=
  [(b!"/", .dir), (b!"/b", .dir), (b!"/b/src", .dir), (b!"/b/l", .dir), (b!"/b/l/h", .dir),
   (b!"/b/l/h/build", .dir), (b!"/b/l/h/build/mnt", .dir), (b!"/b/l/h/build/mnt/host", .dir)]
   ++ Ex.fhs b!"/b/l/h/build"
def kt0 : Kernel.KTable :=
  { mnts := [{ id := 1, parent := 0, dev := b!"8:1", root := b!"/", mp := b!"/", fstype := b!"ext4",
               source := b!"/dev/sda1" },
             { id := 2, parent := 1, dev := b!"8:2", root := b!"/sub", mp := b!"/b", fstype := b!"btrfs",
               source := b!"/dev/sdb1" }] }
def mntH : Kernel.KMnt :=
  { id := 100, parent := 2, dev := b!"8:2", root := b!"/sub/src", mp := b!"/b/l/h/build/mnt/host",
    fstype := b!"btrfs", source := b!"/dev/sdb1" }
def kt1 : Kernel.KTable := { mnts := kt0.mnts ++ [mntH], nextId := 101 }
def mountsH : Mounts :=
  { list := [{ source := [], mountpoint := b!"/", source2 := [], workdir := [], fstype := b!"ext4",
               options := b!"rw", inShadow := false, stDev := b!"8:1", root := b!"/" },
             { source := [], mountpoint := b!"/b", source2 := [], workdir := [], fstype := b!"btrfs",
               options := b!"rw", inShadow := false, stDev := b!"8:2", root := b!"/sub" },
             { source := [], mountpoint := b!"/b/l/h/build/mnt/host", source2 := [], workdir := [],
               fstype := b!"btrfs", options := b!"rw", inShadow := false, stDev := b!"8:2",
               root := b!"/sub/src" }],
    devices := [⟨b!"8:1", b!"/dev/sda1", [b!"/"], []⟩,
                ⟨b!"8:2", b!"/dev/sdb1", [], [(b!"/sub", b!"/b"), (b!"/sub/src", b!"/b/l/h/build/mnt/host")]⟩] }

theorem fixed_mount_source_behind_nonroot_mount_witness :
    Kernel.kmount kt0 b!"/b/src" b!"/b/l/h/build/mnt/host" b!"rbind" (Kernel.MS_BIND + Kernel.MS_REC) []
      = .ok kt1 ∧
    Kernel.topmostAt kt1.mnts b!"/b/l/h/build/mnt/host" = some mntH ∧
    Spec.World.importAsConfigured ⟨Ex.cfg, fsH, kt1.mnts⟩ mntH b!"rbind" b!"/b/src" = true ∧
    MountsView kt1.mnts mountsH ∧
    getMountSources mountsH mountsH.list[2] = .ok [b!"/b/src"] ∧
    st (findLayerstate Ex.cfg fsH { layers := [layH], order := [b!"h"], mounts := mountsH } layH)
      = some S_mounted := by
  refine ⟨by decide, by decide, by decide, by decide, by decide, by decide⟩

/-! ### 5. equality with the documented classification, on a region -/

/-- PARTIAL.  On base layers (no parent) without exports whose layerconfig was read without
    messages and whose build root is a directory, the state `findLayerstate` reports is
    the documented classification `Spec.World.stateOf` — for every tree, every set of
    imports, every subset of them mounted, wrong-source mounts included — PROVIDED:
    * `himp`: the documented resolution of the import list (mountpoint below the build
      root, `$$self`/`$$base` resolved, fstype) is the model's expansion `imports` (holds
      when the config expands without error: no other `$$` prefix, no relative source; not
      proved here);
    * `hbr`: per import, `ImportBridge`: the `ProbeMounts` view and the kernel table agree
      on "something is mounted there" and `MountSourceIsExpected` answers what the
      documented comparison `importAsConfigured` answers (false inside the recorded finding
      nonbind-import-fstype-not-compared), the source is absolute, and the two "inside the
      layers directory" tests agree;
    * `hbusy`: the busy flags handed to the probe are the documented ones.
    Missing for the full statement: derived layers (overlay arm), exports, proofs of the
    three bridge hypotheses from `Kernel.probe`. -/
theorem state_eq_spec_partial (i : Inst) (ls : List DLayer) (users : List (Bytes × List User))
    (dl : DLayer) (d : Defs) (l : Layer) (imports : List Expanded)
    (hn : dl.file.nmsgs = 0) (hb : dl.file.base = []) (he : dl.file.exports = [])
    (hdir : Fs.isDir i.fs (buildDir i dl.name) = true)
    (hlb : l.base = []) (hle : l.cexports = [])
    (hlp : buildPath i.cfg l = buildDir i dl.name) (hls : ¬ l.state < S_complete)
    (hexp : expandConfigMounts i.cfg d l = .ok imports)
    (himp : dl.file.mounts.map (fun imp => (pathJoin [buildDir i dl.name, imp.mount],
        resolveSource i ls dl.name imp.source, imp.fstype))
      = imports.map (fun e => (e.mount, some e.source, e.fstype)))
    (hbr : ∀ e ∈ imports, ImportBridge i d.mounts e)
    (hbusy : (l.mountBusy || l.overlain) = (mountBusy i users dl.name || overlain i dl.name)) :
    ∃ l', findLayerstate i.cfg i.fs d l = .ok l' ∧
      l'.state = (stateOf i ls users dl none).toNat := by
  have hfhs : (fhsDirs.all fun x => Fs.isDir i.fs (pathJoin [buildDir i dl.name, x]))
      = minimalBuildDirsPresent i.fs (buildPath i.cfg l) := by rw [hlp]; rfl
  have h3 : (imports.map (specCode i)).any (fun x => x == 3) = imports.any (impWrong i.cfg i.fs d.mounts) :=
    any_map_congr _ _ _ _ (fun e he => bridge_wrong i d.mounts e (hbr e he))
  have h0 : (imports.map (specCode i)).any (fun x => x == 0) = imports.any (impMissing i.cfg i.fs) :=
    any_map_congr _ _ _ _ (fun e he => bridge_missing i d.mounts e (hbr e he))
  have hpn : imports.any (impPanic i.cfg i.fs d.mounts) = false := by
    rw [List.any_eq_false]
    intro e he
    simp [bridge_panic i d.mounts e (hbr e he)]
  have hlen := expandConfigMounts_length i.cfg d l imports hexp
  rw [stateOf_base i ls users dl imports hn hb he hdir himp, hfhs, h3, h0]
  cases hf : minimalBuildDirsPresent i.fs (buildPath i.cfg l) with
  | false =>
    obtain ⟨l', h1, h2⟩ := findLayerstate_base_nofhs i.cfg i.fs d l hls (by simp [hlb]) hf
    exact ⟨l', h1, h2⟩
  | true =>
    rw [findLayerstate_reached i.cfg i.fs d l hls hf (by simp [hlb]), classify_eq]
    generalize hlc : ({ l with mounts := getMountAndSubmounts d.mounts (buildPath i.cfg l),
                               state := S_complete } : Layer) = lc
    have hbase : lc.base = l.base := by subst hlc; rfl
    have hcm : lc.cmounts = l.cmounts := by subst hlc; rfl
    have hlpp : lc.layerPath = l.layerPath := by subst hlc; rfl
    have hexs : exportsOf i.cfg lc = ([], false) := by
      subst hlc
      show exportsOf i.cfg l = _
      unfold exportsOf expandConfigExports
      rw [hle]
      rfl
    have hne : numExpected lc = imports.length := by
      unfold numExpected; rw [hbase, hcm, hlb, hlen]; simp
    have hmb : (lc.mountBusy || lc.overlain) = (mountBusy i users dl.name || overlain i dl.name) := by
      subst hlc; exact hbusy
    rw [expandConfigMounts_congr i.cfg d lc l hbase hcm hlpp, hexp, hexs]
    simp only [hpn, Bool.false_eq_true, ↓reduceIte, List.any_nil, Bool.or_false, hlb, List.length_nil,
      Nat.lt_irrefl, Nat.zero_add, Bool.not_true]
    refine ⟨_, rfl, ?_⟩
    rw [finish_state, hne]
    simp only [Bool.or_false]
    cases hw : imports.any (impWrong i.cfg i.fs d.mounts) with
    | true => rfl
    | false =>
      simp only [Bool.false_eq_true, ↓reduceIte]
      cases hmi : imports.any (impMissing i.cfg i.fs) with
      | true => rfl
      | false =>
        have h2 : ((imports.map (specCode i)).filter (fun x => x == 2)).length
            = imports.countP (impMounted i.cfg i.fs d.mounts) :=
          filter_map_length _ _ _ _ (fun e he => bridge_mounted i d.mounts e (hbr e he)
            (by simpa using List.any_eq_false.mp hw e he))
        simp only [Bool.false_eq_true, ↓reduceIte, h2, hmb]
        repeat' split
        all_goals first | rfl | (exfalso; simp_all)

/-! ### non-vacuity -/

/-- `mounted_implies_nothing_missing` is not vacuous: a base layer with its import mounted
    and a derived layer with overlay and both imports mounted are reported `mounted` -/
example : ∃ l', findLayerstate Ex.cfg Ex.fs1 (Ex.defs [Ex.procA]) Ex.layA = .ok l' ∧
    l'.state = S_mounted := st_ok (by decide)
example : ∃ l', findLayerstate Ex.cfg Ex.fs1 (Ex.defs [Ex.procA, Ex.ovlC, Ex.procC, Ex.devC]) Ex.layC
    = .ok l' ∧ l'.state = S_mounted := st_ok (by decide)

/-- the situation repaired by fix a2e90fd: overlay and one of two imports mounted is
    `partially mounted` (the old code said `mounted and ready`) -/
example : ∃ l', findLayerstate Ex.cfg Ex.fs1 (Ex.defs [Ex.procA, Ex.ovlC, Ex.procC]) Ex.layC
    = .ok l' ∧ l'.state = S_partialmount := st_ok (by decide)

/-- `partial_vs_mounted`: its hypotheses hold in that world (so the three iffs say: 2 of 3
    mounted ⇒ partially mounted) -/
example : ∃ imports exports,
    ¬ Ex.layC.state < S_complete ∧
    minimalBuildDirsPresent Ex.fs1 (buildPath Ex.cfg Ex.layC) = true ∧
    OverlayOk Ex.cfg (Ex.defs [Ex.procA, Ex.ovlC, Ex.procC]) Ex.layC ∧
    expandConfigMounts Ex.cfg (Ex.defs [Ex.procA, Ex.ovlC, Ex.procC]) Ex.layC = .ok imports ∧
    expandConfigExports Ex.cfg Ex.layC = .ok exports ∧
    imports.any (impMissing Ex.cfg Ex.fs1) = false ∧
    imports.any (impWrong Ex.cfg Ex.fs1 (Ex.defs [Ex.procA, Ex.ovlC, Ex.procC]).mounts) = false ∧
    imports.any (impPanic Ex.cfg Ex.fs1 (Ex.defs [Ex.procA, Ex.ovlC, Ex.procC]).mounts) = false ∧
    exports.any (expMissing Ex.fs1 (buildPath Ex.cfg Ex.layC)) = false ∧
    exports.any (expWrong Ex.fs1 (buildPath Ex.cfg Ex.layC)) = false ∧
    numMounted Ex.cfg Ex.fs1 (Ex.defs [Ex.procA, Ex.ovlC, Ex.procC]) Ex.layC imports = 2 ∧
    numExpected Ex.layC = 3 := by
  refine ⟨[⟨b!"/b/l/c/build/proc", b!"/proc", b!"proc", b!"/proc", b!"/proc"⟩,
           ⟨b!"/b/l/c/build/dev", b!"/dev", b!"rbind", b!"/dev", b!"/dev"⟩], [],
    by decide, by decide, ?_, by decide, by decide, by decide, by decide, by decide, by decide,
    by decide, by decide, by decide⟩
  exact ⟨{ Ex.layA with state := S_mounted }, Ex.ovlC, by decide, by decide, by decide, by decide,
    by decide, by decide, by decide⟩

/-- `incomplete_iff` is not vacuous: with `c`'s upper directory missing (work directory
    present: the case the original `&&` missed) the round answers `incomplete`; with all
    three directories present it goes on to `findLayerstate` -/
example : ∃ l', probeLayer Ex.cfg [] Ex.fs0 (Ex.defs [Ex.procA]) b!"c" Ex.layC = .ok l' ∧
    l'.state = S_incomplete := st_ok (by decide)
example : Fs.isDir Ex.fs0 (workPath Ex.cfg Ex.layC) = true ∧
    Fs.isDir Ex.fs0 (upperPath Ex.cfg Ex.layC) = false := by decide
example : ∃ l', probeLayer Ex.cfg [] Ex.fs1 (Ex.defs [Ex.procA]) b!"c" Ex.layC = .ok l' ∧
    l'.state = S_mountable := st_ok (by decide)

/-- `makedirs_recreates` is not vacuous: on the tree without `c`'s upper directory, with
    `c` recorded `incomplete`, `makedirs` returns normally -/
example :
    let d : Defs := { Ex.defs [Ex.procA] with
      layers := [{ Ex.layA with state := S_mounted }, { Ex.layC with state := S_incomplete }] }
    findLayer d b!"c" = some { Ex.layC with state := S_incomplete } ∧
    (((makedirs Ex.cfg d b!"c").run.run { fs := Ex.fs0 }).1.toOption.isSome = true) ∧
    Fs.isDir Ex.fs0 (upperPath Ex.cfg Ex.layC) = false ∧
    Fs.isDir ((makedirs Ex.cfg d b!"c").run.run { fs := Ex.fs0 }).2.fs (upperPath Ex.cfg Ex.layC) = true := by
  decide

/-! ### the former finding derived-imports-without-overlay, as theorems about the repaired code -/

/-- Former finding `derived-imports-without-overlay` (repaired by fix f9eff6a), general form:
    a derived layer whose overlay is not mounted (parent at least mountable) is reported
    `error` as soon as ANYTHING is mounted at or below its build root (mounting the overlay
    would hide it), and `mountable` only when nothing is.  Before the fix the report was
    `mountable` in both cases. -/
theorem derived_without_overlay (cfg : Config) (fs : Fs.Tree) (d : Defs)
    (l bl : Layer) (hs : ¬ l.state < S_complete) (hb : l.base.length > 0)
    (hbl : findLayer d l.base = some bl) (hst : ¬ bl.state < S_mountable)
    (hno : getMount d.mounts (buildPath cfg l) = none) :
    ∃ l', findLayerstate cfg fs d l = .ok l' ∧
      l'.state = if (getMountAndSubmounts d.mounts (buildPath cfg l)).length > 0 then S_error
                 else S_mountable := by
  rw [findLayerstate_derived cfg fs d l bl hs hb hbl]
  simp only [hst, ↓reduceIte, hno]
  split <;> exact ⟨_, rfl, rfl⟩

/-- … and the old witness world, in which an import IS mounted below the build root while
    the overlay is not: the report, `mountable` before the fix, is `error` now; with nothing
    mounted below the build root it is `mountable`. -/
theorem fixed_derived_imports_without_overlay_witness :
    st (findLayerstate Ex.cfg Ex.fs1 (Ex.defs [Ex.procA, Ex.procC]) Ex.layC) = some S_error ∧
    expandConfigMounts Ex.cfg (Ex.defs [Ex.procA, Ex.procC]) Ex.layC
      = .ok [⟨b!"/b/l/c/build/proc", b!"/proc", b!"proc", b!"/proc", b!"/proc"⟩,
             ⟨b!"/b/l/c/build/dev", b!"/dev", b!"rbind", b!"/dev", b!"/dev"⟩] ∧
    getMount (Ex.defs [Ex.procA, Ex.procC]).mounts b!"/b/l/c/build/proc" = some Ex.procC ∧
    st (findLayerstate Ex.cfg Ex.fs1 (Ex.defs [Ex.procA]) Ex.layC) = some S_mountable := by
  refine ⟨by decide, by decide, by decide, by decide⟩

def kProc : Kernel.KMnt :=
  { id := 20, parent := 1, dev := b!"0:5", root := b!"/", mp := b!"/b/l/a/build/proc", fstype := b!"proc", source := b!"proc" }
def instA : Inst :=
  ⟨Ex.cfg, Ex.fs1,
   [{ id := 1, parent := 0, dev := b!"8:1", root := b!"/", mp := b!"/", fstype := b!"ext4", source := b!"/dev/sda1" },
    { id := 2, parent := 1, dev := b!"0:5", root := b!"/", mp := b!"/proc", fstype := b!"proc", source := b!"proc" },
    kProc]⟩
def dlA : DLayer := ⟨b!"a", { base := [], mounts := [Ex.impProc], exports := [], nmsgs := 0 }⟩
def eProc : Expanded := ⟨b!"/b/l/a/build/proc", b!"/proc", b!"proc", b!"/proc", b!"/proc"⟩

/-- the hypotheses of `state_eq_spec_partial` hold for the base layer `a` with its proc import
    mounted (kernel table `instA`, ProbeMounts view `Ex.defs [Ex.procA]`); both sides say `mounted` -/
example : dlA.file.nmsgs = 0 ∧ dlA.file.base = [] ∧ dlA.file.exports = [] ∧
    Fs.isDir instA.fs (buildDir instA dlA.name) = true ∧ Ex.layA.base = [] ∧ Ex.layA.cexports = [] ∧
    buildPath instA.cfg Ex.layA = buildDir instA dlA.name ∧ ¬ Ex.layA.state < S_complete ∧
    expandConfigMounts instA.cfg (Ex.defs [Ex.procA]) Ex.layA = .ok [eProc] ∧
    dlA.file.mounts.map (fun imp => (pathJoin [buildDir instA dlA.name, imp.mount],
        resolveSource instA [dlA] dlA.name imp.source, imp.fstype))
      = [eProc].map (fun e => (e.mount, some e.source, e.fstype)) ∧
    (∀ e ∈ [eProc], ImportBridge instA (Ex.defs [Ex.procA]).mounts e) ∧
    (Ex.layA.mountBusy || Ex.layA.overlain) = (mountBusy instA [] dlA.name || overlain instA dlA.name) ∧
    (stateOf instA [dlA] [] dlA none).toNat = S_mounted := by
  refine ⟨by decide, by decide, by decide, by decide, by decide, by decide, by decide, by decide,
    by decide, by decide, ?_, by decide, by decide⟩
  intro e he
  have : e = eProc := by simpa using he
  subst this
  refine ⟨by decide, by decide, by decide, ?_⟩
  intro mnt km h1 h2
  have g1 : getMount (Ex.defs [Ex.procA]).mounts eProc.mount = some Ex.procA := by decide
  have g2 : topAt instA.mnts eProc.mount = some kProc := by decide
  rw [g1] at h1
  rw [g2] at h2
  cases h1
  cases h2
  decide

/-! ### 6. equality with the documented classification: base layers with exports, derived layers -/

/-- PARTIAL (bridge hypotheses only).  For every BASE layer — any imports, any EXPORT
    directives, any tree, any mount table, any subset of the imports mounted, wrong-source
    mounts included — whose layerconfig was read without messages and whose build root is a
    directory, the state `findLayerstate` reports is the documented classification
    `Spec.World.stateOf`.  `l` is the model's record of the disk layer `dl` (`Corr`: what
    `layerOfFile` produces), `dl` is the layer `ls` lists under its name.  The configuration
    need not expand: an import that does not resolve gives `inhabited` on both sides, an
    export that does not resolve gives `error` on both sides.  Remaining hypotheses:
    * `hbr`: per expanded import, `ImportBridge` between the `ProbeMounts` view and the kernel
      table (its `mounted`, `abs` and `inLayers` parts are proved in section 8:
      `bridges_of_view`, `in_layers_agree`; `expected` is false inside finding
      nonbind-import-fstype-not-compared and is the explicit exclusion of that region, reduced
      in section 8 to `SourceAgree`, a statement about the kernel table alone);
    * `hex`: per export, the code's `IsDescendant`-or-equal test and the manual's "the build
      directory or below" agree on the export source (since fix eeedaf2 this holds for every
      export: `export_src_agree_clean`, section 8; `fixed_export_dot_source_witness`);
    * `hbusy`: the busy flags handed to the probe are the documented ones. -/
theorem state_eq_spec_base (i : Inst) (ls : List DLayer) (users : List (Bytes × List User))
    (dl : DLayer) (d : Defs) (l : Layer)
    (hc : Corr i dl l) (hn : dl.file.nmsgs = 0) (hb : dl.file.base = [])
    (hfind : findD ls dl.name = some dl)
    (hdir : Fs.isDir i.fs (buildDir i dl.name) = true)
    (hls : ¬ l.state < S_complete)
    (hbr : ∀ imports, expandConfigMounts i.cfg d l = .ok imports →
      ∀ e ∈ imports, ImportBridge i d.mounts e)
    (hex : ∀ e ∈ dl.file.exports, ExportSrcAgree i dl.name e)
    (hbusy : (l.mountBusy || l.overlain) = (mountBusy i users dl.name || overlain i dl.name)) :
    ∃ l', findLayerstate i.cfg i.fs d l = .ok l' ∧
      l'.state = (stateOf i ls users dl none).toNat := by
  have hlb : l.base = [] := hc.base.trans hb
  have hbp : buildPath i.cfg l = buildDir i dl.name := by
    unfold buildPath buildDir; rw [hc.layerPath]
  have hfhs : specFhs i dl = minimalBuildDirsPresent i.fs (buildPath i.cfg l) := by rw [hbp]; rfl
  rw [stateOf_unfold]
  simp only [hn, hb, hdir, List.isEmpty_nil, Bool.not_true, Bool.false_and, Nat.lt_irrefl,
    ↓reduceIte, Bool.false_eq_true, gt_iff_lt, hfhs]
  cases hf : minimalBuildDirsPresent i.fs (buildPath i.cfg l) with
  | false =>
    obtain ⟨l', h1, h2⟩ := findLayerstate_base_nofhs i.cfg i.fs d l hls (by simp [hlb]) hf
    exact ⟨l', h1, h2⟩
  | true =>
    rw [findLayerstate_reached i.cfg i.fs d l hls hf (by simp [hlb])]
    have hz : (if l.base.length > 0 then 1 else 0) = 0 := by simp [hlb]
    rw [hz]
    have hroot : rootOf ls dl.name = dl.name := by
      unfold rootOf ancestorsOf
      simp [hfind, hb]
    have h := classify_eq_specTail_of i ls users dl d l
      (getMountAndSubmounts d.mounts (buildPath i.cfg l)) S_complete 0 hc
      (by
        rw [hroot]
        unfold findLayerBase
        simp [hlb, hc.layerPath])
      hbr hex hbusy (by simp [hb])
    simpa [hb] using h

/-- PARTIAL (bridge hypotheses only).  For every DERIVED
    layer whose layerconfig was read without messages and whose build, work and upper
    directories exist, with `bl` the model's record of its parent (state `ps`, whatever it
    is: a parent below `mountable` gives `complete` on both sides), the state
    `findLayerstate` reports is the documented classification — overlay missing, foreign
    mount or overlay with other lower/upper/work directories on the build root, mounts below
    the build root without the overlay (`error` on both sides since fix f9eff6a: the former
    finding derived-imports-without-overlay needs no exclusion any more), FHS directories
    visible or not through the overlay, every subset of the imports mounted, exports.
    Remaining hypotheses, besides those of `state_eq_spec_base`:
    * `hroot`: `$$base` names the same directory on both sides (the root of the chain; follows
      from the forest correspondence: `bridges_of_view`, section 8);
    * `hov`: `OverlayBridge` at the build directory (proved from the table conversion,
      section 8);
    * `hbr.expected`: what is still different between `MountSourceIsExpected` and the
      documented comparison (finding nonbind-import-fstype-not-compared; section 8 reduces it
      to `SourceAgree`). -/
theorem state_eq_spec_derived (i : Inst) (ls : List DLayer) (users : List (Bytes × List User))
    (dl : DLayer) (d : Defs) (l bl : Layer) (ps : St)
    (hc : Corr i dl l) (hn : dl.file.nmsgs = 0) (hb : dl.file.base ≠ [])
    (hdir : Fs.isDir i.fs (buildDir i dl.name) = true)
    (hwork : Fs.isDir i.fs (workDir i dl.name) = true)
    (hupper : Fs.isDir i.fs (upperDir i dl.name) = true)
    (hls : ¬ l.state < S_complete)
    (hbl : findLayer d l.base = some bl) (hblp : bl.layerPath = layerDir i dl.file.base)
    (hps : bl.state = ps.toNat)
    (hroot : (findLayerBase d (d.layers.length + 1) l).map (·.layerPath)
      = some (layerDir i (rootOf ls dl.name)))
    (hov : OverlayBridge i d.mounts (buildDir i dl.name))
    (hbr : ∀ imports, expandConfigMounts i.cfg d l = .ok imports →
      ∀ e ∈ imports, ImportBridge i d.mounts e)
    (hex : ∀ e ∈ dl.file.exports, ExportSrcAgree i dl.name e)
    (hbusy : (l.mountBusy || l.overlain) = (mountBusy i users dl.name || overlain i dl.name)) :
    ∃ l', findLayerstate i.cfg i.fs d l = .ok l' ∧
      l'.state = (stateOf i ls users dl (some ps)).toNat := by
  have hlb : l.base.length > 0 := by
    rw [hc.base]
    cases hx : dl.file.base with
    | nil => exact absurd hx hb
    | cons a as => simp
  have hemp : dl.file.base.isEmpty = false := by
    cases hx : dl.file.base with
    | nil => exact absurd hx hb
    | cons a as => rfl
  have hbp : buildPath i.cfg l = buildDir i dl.name := by
    unfold buildPath buildDir; rw [hc.layerPath]
  have hup : upperPath i.cfg l = upperDir i dl.name := by
    unfold upperPath upperDir; rw [hc.layerPath]
  have hwp : workPath i.cfg l = workDir i dl.name := by
    unfold workPath workDir; rw [hc.layerPath]
  have hblb : buildPath i.cfg bl = buildDir i dl.file.base := by
    unfold buildPath buildDir; rw [hblp]
  have hfhs : specFhs i dl = minimalBuildDirsPresent i.fs (buildPath i.cfg l) := by rw [hbp]; rfl
  rw [stateOf_unfold, findLayerstate_derived i.cfg i.fs d l bl hls hlb hbl]
  simp only [hn, hemp, hdir, hwork, hupper, Nat.lt_irrefl, ↓reduceIte, Bool.not_true, Bool.not_false,
    Bool.false_eq_true, Bool.true_and, Bool.or_self, gt_iff_lt]
  -- parent below mountable
  have hpm : specParentMountable (some ps) = !decide (bl.state < S_mountable) := by
    show decide (ps.toNat ≥ 5) = !decide (bl.state < 5)
    rw [hps]
    by_cases h5 : 5 ≤ ps.toNat
    · simp [h5]
    · simp [h5]; omega
  rw [hpm]
  by_cases hst : bl.state < S_mountable
  · simp only [hst, decide_true, Bool.not_true, Bool.not_false, ↓reduceIte]
    exact ⟨_, rfl, rfl⟩
  simp only [hst, decide_false, Bool.not_false, Bool.not_true, Bool.false_eq_true, ↓reduceIte]
  rw [hbp]
  have hm := hov.mounted
  cases hg : getMount d.mounts (buildDir i dl.name) with
  | none =>
    rw [hg] at hm
    have ht : topAt i.mnts (buildDir i dl.name) = none := by
      cases ht : topAt i.mnts (buildDir i dl.name) with
      | none => rfl
      | some km => rw [ht] at hm; simp at hm
    have hbel : decide ((getMountAndSubmounts d.mounts (buildDir i dl.name)).length > 0)
        = mountedAtOrBelow i dl.name := hov.below
    simp only [specOvlOk, ht, Bool.not_true, Bool.false_eq_true, ↓reduceIte, Option.isNone_none]
    cases hmb : mountedAtOrBelow i dl.name with
    | true =>
      have : (getMountAndSubmounts d.mounts (buildDir i dl.name)).length > 0 := by
        rw [hmb] at hbel; simpa using hbel
      simp only [this, ↓reduceIte]
      exact ⟨_, rfl, rfl⟩
    | false =>
      have : ¬ (getMountAndSubmounts d.mounts (buildDir i dl.name)).length > 0 := by
        rw [hmb] at hbel; simpa using hbel
      simp only [this, ↓reduceIte, Bool.false_eq_true]
      exact ⟨_, rfl, rfl⟩
  | some mnt =>
    rw [hg] at hm
    cases ht : topAt i.mnts (buildDir i dl.name) with
    | none => rw [ht] at hm; simp at hm
    | some km =>
      obtain ⟨hf1, hf2⟩ := hov.fields mnt km hg ht
      simp only [specOvlOk, ht, Option.isNone_some, Bool.false_eq_true, ↓reduceIte]
      by_cases hovl : km.fstype = b!"overlay"
      · obtain ⟨hl1, hl2, hl3⟩ := hf2 hovl
        rw [hf1, hl1, hl2, hl3, hblb, hup, hwp]
        simp only [hovl, bne_self_eq_false, Bool.false_or, BEq.rfl, Bool.true_and]
        by_cases hdirs : (km.lower == buildDir i dl.file.base && km.upper == upperDir i dl.name
            && km.work == workDir i dl.name) = true
        · have hne : (km.lower != buildDir i dl.file.base || km.upper != upperDir i dl.name
              || km.work != workDir i dl.name) = false := by
            revert hdirs
            simp only [bne]
            cases (km.lower == buildDir i dl.file.base) <;> cases (km.upper == upperDir i dl.name) <;>
              cases (km.work == workDir i dl.name) <;> simp
          simp only [hdirs, hne, Bool.not_true, Bool.false_eq_true, ↓reduceIte, hfhs, hbp]
          cases hf : minimalBuildDirsPresent i.fs (buildDir i dl.name) with
          | false =>
            simp only [Bool.not_false, ↓reduceIte]
            exact ⟨_, rfl, rfl⟩
          | true =>
            simp only [Bool.not_true, Bool.false_eq_true, ↓reduceIte]
            have h := classify_eq_specTail_of i ls users dl d l
              (getMountAndSubmounts d.mounts (buildDir i dl.name)) S_complete 1 hc hroot
              hbr hex hbusy (by simp [hemp])
            rw [hbp] at h
            simpa [hemp] using h
        · have hne : (km.lower != buildDir i dl.file.base || km.upper != upperDir i dl.name
              || km.work != workDir i dl.name) = true := by
            revert hdirs
            simp only [bne]
            cases (km.lower == buildDir i dl.file.base) <;> cases (km.upper == upperDir i dl.name) <;>
              cases (km.work == workDir i dl.name) <;> simp
          simp only [hdirs, hne, Bool.not_false, ↓reduceIte]
          exact ⟨_, rfl, rfl⟩
      · rw [hf1]
        have hne : (km.fstype != b!"overlay") = true := by simp [bne, hovl]
        have hne' : (km.fstype == b!"overlay") = false := by simp [hovl]
        simp only [hne, hne', Bool.true_or, Bool.false_and, Bool.not_false, ↓reduceIte]
        exact ⟨_, rfl, rfl⟩

/-! #### non-vacuity of `state_eq_spec_base` and `state_eq_spec_derived` -/

/-- base layer `a` with an export directive (`$$package_export` ← build/usr) whose link exists -/
def expUsr : Layerfile.NeededMount := { mount := b!"$$package_export", source := b!"/usr", fstype := b!"symlink" }
def layAx : Layer := { Ex.layA with cexports := [expUsr] }
def dlAx : DLayer := ⟨b!"a", { base := [], mounts := [Ex.impProc], exports := [expUsr], nmsgs := 0 }⟩
def instAx : Inst :=
  ⟨Ex.cfg, Ex.fs1 ++ [(b!"/b/e", .dir), (b!"/b/e/pk", .dir), (b!"/b/e/pk/a", .symlink b!"/b/l/a/build/usr")],
   instA.mnts⟩
/-- the same with the link pointing elsewhere -/
def instAxBad : Inst :=
  ⟨Ex.cfg, Ex.fs1 ++ [(b!"/b/e", .dir), (b!"/b/e/pk", .dir), (b!"/b/e/pk/a", .symlink b!"/elsewhere")],
   instA.mnts⟩

/-- the hypotheses of `state_eq_spec_base` hold for `a` with its export and its proc import
    mounted; both sides say `mounted`.  With the export link pointing elsewhere both say `error`
    (so the export clause is exercised). -/
example : Corr instAx dlAx layAx ∧ dlAx.file.nmsgs = 0 ∧ dlAx.file.base = [] ∧
    findD [dlAx] dlAx.name = some dlAx ∧
    Fs.isDir instAx.fs (buildDir instAx dlAx.name) = true ∧ ¬ layAx.state < S_complete ∧
    (∃ imports, expandConfigMounts instAx.cfg (Ex.defs [Ex.procA]) layAx = .ok imports ∧
      ∀ e ∈ imports, ImportBridge instAx (Ex.defs [Ex.procA]).mounts e) ∧
    (∀ e ∈ dlAx.file.exports, ExportSrcAgree instAx dlAx.name e) ∧
    (layAx.mountBusy || layAx.overlain) = (mountBusy instAx [] dlAx.name || overlain instAx dlAx.name) ∧
    (stateOf instAx [dlAx] [] dlAx none).toNat = S_mounted ∧
    (stateOf instAxBad [dlAx] [] dlAx none).toNat = S_error ∧
    st (findLayerstate instAxBad.cfg instAxBad.fs (Ex.defs [Ex.procA]) layAx) = some S_error := by
  refine ⟨by decide, by decide, by decide, rfl, by decide, by decide, ⟨[eProc], by decide, by decide⟩,
    by decide, by decide, by decide, by decide, by decide⟩

/-- derived layer `c` on `a`: kernel table with the overlay and both imports of `c` mounted -/
def kOvlC : Kernel.KMnt :=
  { id := 30, parent := 1, dev := b!"0:70", root := b!"/", mp := b!"/b/l/c/build", fstype := b!"overlay",
    source := b!"overlay", lower := b!"/b/l/a/build", upper := b!"/b/l/c/upper", work := b!"/b/l/c/work" }
def kHost : List Kernel.KMnt :=
  [{ id := 1, parent := 0, dev := b!"8:1", root := b!"/", mp := b!"/", fstype := b!"ext4", source := b!"/dev/sda1" },
   { id := 2, parent := 1, dev := b!"0:5", root := b!"/", mp := b!"/proc", fstype := b!"proc", source := b!"proc" },
   { id := 3, parent := 1, dev := b!"0:6", root := b!"/", mp := b!"/dev", fstype := b!"devtmpfs", source := b!"devtmpfs" },
   kProc]
def kProcC : Kernel.KMnt :=
  { id := 31, parent := 30, dev := b!"0:5", root := b!"/", mp := b!"/b/l/c/build/proc", fstype := b!"proc", source := b!"proc" }
def kDevC : Kernel.KMnt :=
  { id := 32, parent := 30, dev := b!"0:6", root := b!"/", mp := b!"/b/l/c/build/dev", fstype := b!"devtmpfs", source := b!"devtmpfs" }
def instC (ks : List Kernel.KMnt) : Inst := ⟨Ex.cfg, Ex.fs1, kHost ++ ks⟩
def dlC : DLayer := ⟨b!"c", { base := b!"a", mounts := [Ex.impProc, Ex.impDev], exports := [], nmsgs := 0 }⟩
def eProcC : Expanded := ⟨b!"/b/l/c/build/proc", b!"/proc", b!"proc", b!"/proc", b!"/proc"⟩
def eDevC : Expanded := ⟨b!"/b/l/c/build/dev", b!"/dev", b!"rbind", b!"/dev", b!"/dev"⟩

/-- the hypotheses of `state_eq_spec_derived` hold for `c` (parent `a` mounted) with the
    overlay and one of its two imports mounted; both sides say `partially mounted`.  With both
    imports mounted both say `mounted`; with a foreign lower directory both say `error`. -/
example :
    let i := instC [kOvlC, kProcC]
    let d := Ex.defs [Ex.procA, Ex.ovlC, Ex.procC]
    Corr i dlC Ex.layC ∧ dlC.file.nmsgs = 0 ∧ dlC.file.base ≠ [] ∧
    Fs.isDir i.fs (buildDir i dlC.name) = true ∧ Fs.isDir i.fs (workDir i dlC.name) = true ∧
    Fs.isDir i.fs (upperDir i dlC.name) = true ∧ ¬ Ex.layC.state < S_complete ∧
    findLayer d Ex.layC.base = some { Ex.layA with state := S_mounted } ∧
    Ex.layA.layerPath = layerDir i dlC.file.base ∧ S_mounted = St.mounted.toNat ∧
    (findLayerBase d (d.layers.length + 1) Ex.layC).map (·.layerPath)
      = some (layerDir i (rootOf [dlA, dlC] dlC.name)) ∧
    OverlayBridge i d.mounts (buildDir i dlC.name) ∧
    (∃ imports, expandConfigMounts i.cfg d Ex.layC = .ok imports ∧
      ∀ e ∈ imports, ImportBridge i d.mounts e) ∧
    (∀ e ∈ dlC.file.exports, ExportSrcAgree i dlC.name e) ∧
    (Ex.layC.mountBusy || Ex.layC.overlain) = (mountBusy i [] dlC.name || overlain i dlC.name) ∧
    (stateOf i [dlA, dlC] [] dlC (some .mounted)).toNat = S_partialmount := by
  refine ⟨by decide, by decide, by decide, by decide, by decide, by decide, by decide, by decide, by decide,
    by decide, by decide, by decide, ⟨[eProcC, eDevC], by decide, by decide⟩, by decide, by decide,
    by decide⟩

example :
    (stateOf (instC [kOvlC, kProcC, kDevC]) [dlA, dlC] [] dlC (some .mounted)).toNat = S_mounted ∧
    st (findLayerstate Ex.cfg Ex.fs1 (Ex.defs [Ex.procA, Ex.ovlC, Ex.procC, Ex.devC]) Ex.layC) = some S_mounted ∧
    (∀ e ∈ [eProcC, eDevC],
      ImportBridge (instC [kOvlC, kProcC, kDevC]) (Ex.defs [Ex.procA, Ex.ovlC, Ex.procC, Ex.devC]).mounts e) ∧
    (stateOf (instC [{ kOvlC with lower := b!"/b/l/x/build" }]) [dlA, dlC] [] dlC (some .mounted)).toNat = S_error ∧
    st (findLayerstate Ex.cfg Ex.fs1 (Ex.defs [Ex.procA, { Ex.ovlC with source := b!"/b/l/x/build" }]) Ex.layC)
      = some S_error := by
  refine ⟨by decide, by decide, by decide, by decide, by decide⟩

/-- The region of the former finding derived-imports-without-overlay (a derived layer, parent
    at least mountable, nothing mounted ON the build root but something mounted at or below
    it), after fix f9eff6a: the code reports `error` and the classification says `error` —
    `state_eq_spec_derived` needs no exclusion there; this is the region spelled out. -/
theorem state_in_derived_imports_without_overlay_region (i : Inst) (ls : List DLayer)
    (users : List (Bytes × List User)) (dl : DLayer) (d : Defs) (l bl : Layer) (ps : St)
    (hc : Corr i dl l) (hn : dl.file.nmsgs = 0) (hb : dl.file.base ≠ [])
    (hdir : Fs.isDir i.fs (buildDir i dl.name) = true)
    (hwork : Fs.isDir i.fs (workDir i dl.name) = true)
    (hupper : Fs.isDir i.fs (upperDir i dl.name) = true)
    (hls : ¬ l.state < S_complete)
    (hbl : findLayer d l.base = some bl) (hps : bl.state = ps.toNat) (hpm : ps.toNat ≥ 5)
    (hov : OverlayBridge i d.mounts (buildDir i dl.name))
    (hreg : topAt i.mnts (buildDir i dl.name) = none ∧ mountedAtOrBelow i dl.name = true) :
    (∃ l', findLayerstate i.cfg i.fs d l = .ok l' ∧ l'.state = S_error) ∧
    stateOf i ls users dl (some ps) = .error := by
  have hlb : l.base.length > 0 := by
    rw [hc.base]
    cases hx : dl.file.base with
    | nil => exact absurd hx hb
    | cons a as => simp
  have hemp : dl.file.base.isEmpty = false := by
    cases hx : dl.file.base with
    | nil => exact absurd hx hb
    | cons a as => rfl
  have hbp : buildPath i.cfg l = buildDir i dl.name := by
    unfold buildPath buildDir; rw [hc.layerPath]
  constructor
  · have hno : getMount d.mounts (buildPath i.cfg l) = none := by
      rw [hbp]
      have hm := hov.mounted
      rw [hreg.1] at hm
      cases hg : getMount d.mounts (buildDir i dl.name) with
      | none => rfl
      | some mnt => rw [hg] at hm; simp at hm
    obtain ⟨l', h1, h2⟩ := derived_without_overlay i.cfg i.fs d l bl hls hlb hbl
      (by rw [hps]; show ¬ ps.toNat < 5; omega) hno
    refine ⟨l', h1, ?_⟩
    have hbel : decide ((getMountAndSubmounts d.mounts (buildDir i dl.name)).length > 0)
        = mountedAtOrBelow i dl.name := hov.below
    rw [hreg.2] at hbel
    have : (getMountAndSubmounts d.mounts (buildPath i.cfg l)).length > 0 := by
      rw [hbp]; simpa using hbel
    rw [h2]
    simp [this]
  · rw [stateOf_unfold]
    have hpm' : specParentMountable (some ps) = true := by
      show decide (ps.toNat ≥ 5) = true
      simpa using hpm
    simp [hn, hemp, hdir, hwork, hupper, hpm', specOvlOk, hreg.1, hreg.2]

/-- the old witness world of the finding: `c` without its overlay, its proc import mounted —
    both sides `error` now (the hypotheses of the theorem above hold); with nothing below the
    build root both say `mountable` -/
example :
    let i := instC [kProcC]
    let d := Ex.defs [Ex.procA, Ex.procC]
    OverlayBridge i d.mounts (buildDir i dlC.name) ∧
    topAt i.mnts (buildDir i dlC.name) = none ∧ mountedAtOrBelow i dlC.name = true ∧
    st (findLayerstate i.cfg i.fs d Ex.layC) = some S_error ∧
    stateOf i [dlA, dlC] [] dlC (some .mounted) = .error ∧
    stateOf (instC []) [dlA, dlC] [] dlC (some .mounted) = .mountable ∧
    st (findLayerstate Ex.cfg Ex.fs1 (Ex.defs [Ex.procA]) Ex.layC) = some S_mountable := by
  refine ⟨by decide, by decide, by decide, by decide, by decide, by decide, by decide⟩

/-! ### 7. the whole probe: no layer of the forest is reported mounted while half mounted -/

/-- everything configured for `l` is in place, as the table `d` (forest skeleton and mount
    view) shows it: FHS directories; for a derived layer an overlay on the build root whose
    lower directory is the parent's build root and whose upper/work directories are the
    layer's; every configured import has its mountpoint and a mount on it whose source is
    the configured one -/
def FullyMounted (cfg : Config) (fs : Fs.Tree) (d : Defs) (l : Layer) : Prop :=
  minimalBuildDirsPresent fs (buildPath cfg l) = true ∧
  (l.base.length > 0 → ∃ bl mnt, findLayer d l.base = some bl ∧
    getMount d.mounts (buildPath cfg l) = some mnt ∧ mnt.fstype = b!"overlay" ∧
    mnt.source = buildPath cfg bl ∧ mnt.source2 = upperPath cfg l ∧ mnt.workdir = workPath cfg l) ∧
  ∃ imports, expandConfigMounts cfg d l = .ok imports ∧
    ∀ e ∈ imports, Fs.lexists fs e.mount = true ∧
      ∃ mnt, getMount d.mounts e.mount = some mnt ∧
        mountSourceIsExpected d.mounts mnt e.source = .ok true

/-- `FullyMounted` depends on the table only through the skeleton and the mount view -/
theorem fullyMounted_transport (cfg : Config) (fs : Fs.Tree) (d d' : Defs) (l : Layer)
    (hk : SameKeys d d') (hm : d.mounts = d'.mounts) (h : FullyMounted cfg fs d l) :
    FullyMounted cfg fs d' l := by
  obtain ⟨h1, h2, imports, h3, h4⟩ := h
  refine ⟨h1, ?_, imports, ?_, ?_⟩
  · intro hb
    obtain ⟨bl, mnt, a1, a2, a3, a4, a5, a6⟩ := h2 hb
    obtain ⟨bl', b1, b2⟩ := sameKeys_find hk _ _ a1
    have hbp : buildPath cfg bl' = buildPath cfg bl := by
      unfold lkey at b2
      simp only [Prod.mk.injEq] at b2
      unfold buildPath
      rw [b2.2.2]
    exact ⟨bl', mnt, b1, hm ▸ a2, a3, by rw [hbp]; exact a4, a5, a6⟩
  · rw [← expandConfigMounts_sameKeys cfg hk l]; exact h3
  · rw [← hm]; exact h4

/-- one round of the loop: a record that comes out `mounted` has everything in place -/
theorem probeLayer_mounted (cfg : Config) (inuse : List (Bytes × List User)) (fs : Fs.Tree) (d : Defs)
    (name : Bytes) (l l' : Layer) (h : probeLayer cfg inuse fs d name l = .ok l')
    (hm : l'.state = S_mounted ∨ l'.state = S_mounted_busy) : FullyMounted cfg fs d l' := by
  unfold probeLayer at h
  simp only [] at h
  generalize classifyUsers cfg _ _ = lu at h
  split at h
  · cases h; rcases hm with hm | hm <;> simp [S_incomplete, S_mounted, S_mounted_busy] at hm
  · split at h
    · cases h; rcases hm with hm | hm <;> simp [S_incomplete, S_mounted, S_mounted_busy] at hm
    · obtain ⟨g1, g2, imports, exports, g3, -, g4, -, -, -⟩ :=
        mounted_implies_nothing_missing cfg fs d _ l' h hm
      obtain ⟨s, rfl, -, -⟩ := findLayerstate_shape cfg fs d _ _ h
      refine ⟨g1, ?_, imports, ?_, ?_⟩
      · intro hb
        obtain ⟨bl, mnt, a1, -, a3, a4, a5, a6, a7⟩ := g2 hb
        exact ⟨bl, mnt, a1, a3, a4, a5, a6, a7⟩
      · rw [← g3]
        exact expandConfigMounts_congr cfg d _ _ rfl rfl rfl
      · intro e he
        obtain ⟨b1, -, b3⟩ := g4 e he
        exact ⟨b1, b3⟩

/-- **Every layer, whole forest.**  Whatever table `d0` of layers is handed to
    `ProbeAllLayerstate` (any forest, any order list, any initial states), whatever the tree,
    the kernel mount table and the processes: if the probe returns (table `d`), the world is
    untouched, `d.mounts` is what `ProbeMounts` reads from the kernel table, and EVERY layer
    named in the order list has a record in `d` which is reported `mounted and ready` or
    `mounted, busy` only if everything configured for it is in place (`FullyMounted`: FHS
    directories, overlay with the parent's build root below and the layer's own upper and
    work directories, every import mounted with the configured source).  Layers that entered
    in the error state keep it (their mounts and users are recorded since fix e3cb7aa). -/
theorem mounted_only_if_fully_mounted_all (cfg : Config) (inuse : List (Bytes × List User))
    (d0 d : Defs) (w w' : World) (hrun : (probeAll cfg inuse d0).run.run w = (.ok d, w'))
    (name : Bytes) (hord : name ∈ d0.order) :
    w' = w ∧ Kernel.probe w.kt = .ok d.mounts ∧ SameKeys d0 d ∧
    ∃ l, findLayer d name = some l ∧
      (l.state = S_mounted ∨ l.state = S_mounted_busy → FullyMounted cfg w.fs d l) := by
  obtain ⟨m, hm, hloop⟩ := probeAll_run cfg inuse d0 d w w' hrun
  obtain ⟨h1, h2, h3, -, h5⟩ := probeLoop_inv cfg inuse w.fs
    (fun d l => l.state = S_mounted ∨ l.state = S_mounted_busy → FullyMounted cfg w.fs d l)
    (fun d name l l' _ _ hp hm => probeLayer_mounted cfg inuse w.fs d name l l' hp hm)
    (fun d name l _ he hm => by
      have hst : (probeErr cfg inuse d name l).state = l.state := (probeErr_key cfg inuse d name l).2.2.2.2.2.1
      rcases hm with hm | hm <;> rw [hst, he] at hm <;> simp [S_error, S_mounted, S_mounted_busy] at hm)
    (fun d d' l hk hm hv hs => fullyMounted_transport cfg w.fs d d' l hk hm (hv hs))
    d0.order _ d w w' hloop
  refine ⟨h1, ?_, (sameKeys_refresh d0 m _).trans h2, h5 name hord⟩
  rw [h3]
  exact hm

/-- **Never `mounted` while half mounted** (contrapositive, in the words of the property):
    after `ProbeAllLayerstate`, for every layer of the forest (so for every layer of every
    chain), if some configured import of the layer has nothing mounted on its mountpoint or
    a mount with another source, or the layer is derived and its build root carries no
    overlay with the configured lower/upper/work directories, then the state reported for
    that layer is neither `mounted and ready` nor `mounted, busy`. -/
theorem never_mounted_when_half_mounted (cfg : Config) (inuse : List (Bytes × List User))
    (d0 d : Defs) (w w' : World) (hrun : (probeAll cfg inuse d0).run.run w = (.ok d, w'))
    (name : Bytes) (hord : name ∈ d0.order) (l : Layer) (hl : findLayer d name = some l)
    (imports : List Expanded) (himp : expandConfigMounts cfg d l = .ok imports)
    (hhalf :
      (∃ e ∈ imports, ∀ mnt, getMount d.mounts e.mount = some mnt →
        mountSourceIsExpected d.mounts mnt e.source ≠ .ok true) ∨
      (l.base.length > 0 ∧ ∀ bl mnt, findLayer d l.base = some bl →
        getMount d.mounts (buildPath cfg l) = some mnt →
        ¬ (mnt.fstype = b!"overlay" ∧ mnt.source = buildPath cfg bl ∧
           mnt.source2 = upperPath cfg l ∧ mnt.workdir = workPath cfg l))) :
    l.state ≠ S_mounted ∧ l.state ≠ S_mounted_busy := by
  obtain ⟨-, -, -, l1, hl1, hv⟩ := mounted_only_if_fully_mounted_all cfg inuse d0 d w w' hrun name hord
  rw [hl] at hl1
  cases hl1
  have hnot : ¬ (l.state = S_mounted ∨ l.state = S_mounted_busy) := by
    intro hm
    obtain ⟨-, g2, imports', g3, g4⟩ := hv hm
    rw [himp] at g3
    cases g3
    rcases hhalf with ⟨e, he, hno⟩ | ⟨hb, hno⟩
    · obtain ⟨-, mnt, a1, a2⟩ := g4 e he
      exact hno mnt a1 a2
    · obtain ⟨bl, mnt, a1, a2, a3, a4, a5, a6⟩ := g2 hb
      exact hno bl mnt a1 a2 ⟨a3, a4, a5, a6⟩
  exact ⟨fun h => hnot (Or.inl h), fun h => hnot (Or.inr h)⟩


/-- **What every command sees.**  `getLayers` is what cmd/layercake runs before every
    command (`FindLayers`, then `ProbeAllLayerstate`).  Whenever it returns, for EVERY layer
    it found — whatever the tree, the kernel mount table, the processes — a layer some of
    whose configured mounts is missing or has another source (same `hhalf` as above) is not
    reported `mounted and ready` / `mounted, busy`.  No hypothesis on order lists or initial
    states is left: `FindLayers` provides them. -/
theorem never_mounted_when_half_mounted_getLayers (cfg : Config) (inuse : List (Bytes × List User))
    (d : Defs) (w w' : World) (hrun : (getLayers cfg inuse).run.run w = (.ok d, w'))
    (name : Bytes) (l : Layer) (hl : findLayer d name = some l)
    (imports : List Expanded) (himp : expandConfigMounts cfg d l = .ok imports)
    (hhalf :
      (∃ e ∈ imports, ∀ mnt, getMount d.mounts e.mount = some mnt →
        mountSourceIsExpected d.mounts mnt e.source ≠ .ok true) ∨
      (l.base.length > 0 ∧ ∀ bl mnt, findLayer d l.base = some bl →
        getMount d.mounts (buildPath cfg l) = some mnt →
        ¬ (mnt.fstype = b!"overlay" ∧ mnt.source = buildPath cfg bl ∧
           mnt.source2 = upperPath cfg l ∧ mnt.workdir = workPath cfg l))) :
    w' = w ∧ l.state ≠ S_mounted ∧ l.state ≠ S_mounted_busy := by
  obtain ⟨d0, -, hp, hord⟩ := getLayers_run cfg inuse w w' d hrun
  have h1 := (mounted_only_if_fully_mounted_all cfg inuse d0 d w w' hp name (hord name l hl)).1
  exact ⟨h1, never_mounted_when_half_mounted cfg inuse d0 d w w' hp name (hord name l hl) l hl imports himp hhalf⟩

/-- The same on the KERNEL table (no parsed view in the statement): for every printable
    kernel table (`KWF`), after `getLayers`, a layer one of whose configured imports has no
    mount at all on its mountpoint in the kernel's table, or (derived layer) whose build root
    carries no mount at all, is not reported `mounted and ready` / `mounted, busy`. -/
theorem never_mounted_when_unmounted_in_kernel (cfg : Config) (inuse : List (Bytes × List User))
    (d : Defs) (w w' : World) (hrun : (getLayers cfg inuse).run.run w = (.ok d, w'))
    (hk : ∀ k ∈ w.kt.mnts, Lc.KernelWF.KWF k)
    (name : Bytes) (l : Layer) (hl : findLayer d name = some l)
    (imports : List Expanded) (himp : expandConfigMounts cfg d l = .ok imports)
    (hhalf : (∃ e ∈ imports, Kernel.topmostAt w.kt.mnts e.mount = none) ∨
      (l.base.length > 0 ∧ Kernel.topmostAt w.kt.mnts (buildPath cfg l) = none)) :
    l.state ≠ S_mounted ∧ l.state ≠ S_mounted_busy := by
  obtain ⟨d0, -, hp, hord⟩ := getLayers_run cfg inuse w w' d hrun
  obtain ⟨-, hpr, -, -⟩ := mounted_only_if_fully_mounted_all cfg inuse d0 d w w' hp name (hord name l hl)
  obtain ⟨m, hm, hv⟩ := probe_view w.kt (fun k hk' => Lc.KernelWF.toSpec_wf k (hk k hk'))
  rw [hpr] at hm
  cases hm
  have hnone : ∀ p, Kernel.topmostAt w.kt.mnts p = none → getMount d.mounts p = none := by
    intro p hp'
    have := getMount_view_isSome hv p
    have ht : topAt w.kt.mnts p = none := hp'
    rw [ht] at this
    cases hg : getMount d.mounts p with
    | none => rfl
    | some x => rw [hg] at this; simp at this
  refine (never_mounted_when_half_mounted_getLayers cfg inuse d w w' hrun name l hl imports himp ?_).2
  rcases hhalf with ⟨e, he, hno⟩ | ⟨hb, hno⟩
  · exact Or.inl ⟨e, he, fun mnt hg => by rw [hnone _ hno] at hg; cases hg⟩
  · exact Or.inr ⟨hb, fun bl mnt _ hg => by rw [hnone _ hno] at hg; cases hg⟩

/-- the loop on the example forest (mount view given directly): `a` with its import mounted,
    `c` with overlay and one of two imports → `[mounted, partially mounted]`; the `/dev` import
    of `c` has no mount (first disjunct of `hhalf`) -/
example :
    let d := Ex.defs [Ex.procA, Ex.ovlC, Ex.procC]
    (((d.order.foldlM (probeStep Ex.cfg [] Ex.fs1) d).run.run { fs := Ex.fs1 }).1.toOption.map
        fun d' => d'.layers.map (·.state)) = some [S_mounted, S_partialmount] ∧
    expandConfigMounts Ex.cfg d Ex.layC = .ok [eProcC, eDevC] ∧
    getMount d.mounts eDevC.mount = none := by decide

/-- `probeAll` itself returns on a world with an empty kernel table (the only table `decide`
    can push through `Kernel.probe`): both layers `mountable`, every name of the order list
    has a record — the hypotheses `hrun`, `hord` of the two theorems above are satisfiable -/
example :
    (((probeAll Ex.cfg [] (Ex.defs [])).run.run { fs := Ex.fs1 }).1.toOption.map
        fun d' => d'.layers.map (·.state)) = some [S_mountable, S_mountable] ∧
    b!"c" ∈ (Ex.defs []).order := by decide

/-- `getLayers` returns on a world with two layerconfig files on disk (empty kernel table):
    `hrun` of `never_mounted_when_half_mounted_getLayers` is satisfiable, both layers found
    and classified -/
def fsG : Fs.Tree := Ex.fs1 ++ [(b!"/b/l/a/layerconfig", .file b!"import proc /proc /proc\n"),
  (b!"/b/l/c/layerconfig", .file b!"base a\n\nimport proc /proc /proc\nimport rbind /dev /dev\n")]
example :
    (((getLayers Ex.cfg []).run.run { fs := fsG }).1.toOption.map
        fun d' => d'.layers.map (fun l => (l.name, l.state)))
      = some [(b!"a", S_mountable), (b!"c", S_mountable)] := by decide

/-! ### 8. the bridge hypotheses discharged: forest correspondence and the model's own view

  `MountsView mnts m` (Lemmas/MountsView) says that `m` has one entry per mount of the kernel
  table `mnts`, in table order, with the mount's mountpoint, type, device, root and overlay
  directories, and the device table `ProbeMounts` builds; it is decidable and does not
  mention the text rendering.  `ForestCorr i ls d` (Lemmas/SpecForest) says that every record
  of the model's table is the record `FindLayers` makes of the disk layer of the same name. -/

/-- **The model's own conversion yields a view**: for every kernel table that is printable
    as the kernel prints it (C12's precondition `WF` on every line), `Kernel.probe` (render
    as /proc/self/mountinfo, parse with the model of `ProbeMounts`) succeeds with a view of
    the table. -/
theorem probe_gives_view (kt : Kernel.KTable) (wf : ∀ k ∈ kt.mnts, (Kernel.toSpec k).WF) :
    ∃ m, Kernel.probe kt = .ok m ∧ MountsView kt.mnts m := probe_view kt wf

/-- … and `WF` follows from a condition on the table itself (`KWF`: device number and type
    are tokens, paths / source / overlay directories are byte strings, an overlay's work
    directory does not end in a carriage return): the decimal ids the model prints are
    always tokens. -/
theorem probe_gives_view_kwf (kt : Kernel.KTable) (h : ∀ k ∈ kt.mnts, Lc.KernelWF.KWF k) :
    ∃ m, Kernel.probe kt = .ok m ∧ MountsView kt.mnts m :=
  probe_view kt (fun k hk => Lc.KernelWF.toSpec_wf k (h k hk))

/-- **`FindLayers` yields a corresponding forest**: the table read from the tree of an
    installation corresponds to the forest the specification reads from the same tree. -/
theorem findLayers_gives_forest (i : Inst) (order : List Bytes) (m : Mounts) :
    ForestCorr i (diskLayers i)
      { layers := readLayerFiles i.cfg i.fs (Fs.children i.fs i.cfg.layerdirs), order := order, mounts := m } :=
  forestCorr_diskLayers i order m

/-- The three bridge hypotheses of `state_eq_spec_base` / `state_eq_spec_derived` that relate
    the parsed view to the kernel table, proved for every view: `GetMount` sees a mount on a
    path iff the table has one (topmost), with its type and overlay directories
    (`OverlayBridge`, `ImportBridge.mounted`); `MountSourceIsExpected` is `kSources … contains`
    evaluated on the kernel table, so that `ImportBridge.expected` becomes the statement
    `SourceAgree` about the installation alone; expanded sources are absolute
    (`ImportBridge.abs`) when no configured source is empty; `$$base` agrees (`hroot`). -/
theorem bridges_of_view (i : Inst) (ls : List DLayer) (d : Defs)
    (hforest : ForestCorr i ls d) (hview : MountsView i.mnts d.mounts)
    (dl : DLayer) (l : Layer) (hc : Corr i dl l) (hdl : findD ls dl.name = some dl)
    (hrootsome : (findLayerBase d (d.layers.length + 1) l).isSome = true)
    (hld : i.cfg.layerdirs ≠ [])
    (hsrc : ∀ m ∈ dl.file.mounts, m.source ≠ [])
    (hin : ∀ imports, expandConfigMounts i.cfg d l = .ok imports → ∀ e ∈ imports,
      inAnyLayerDirectory i.cfg (e.source.length + 1) e.source = underLayers i e.source)
    (hsa : ∀ imports, expandConfigMounts i.cfg d l = .ok imports → ∀ e ∈ imports, SourceAgree i e) :
    OverlayBridge i d.mounts (buildDir i dl.name) ∧
    (findLayerBase d (d.layers.length + 1) l).map (·.layerPath) = some (layerDir i (rootOf ls dl.name)) ∧
    (∀ bl, findLayer d l.base = some bl → bl.layerPath = layerDir i dl.file.base) ∧
    ∀ imports, expandConfigMounts i.cfg d l = .ok imports → ∀ e ∈ imports, ImportBridge i d.mounts e :=
  ⟨overlayBridge_of_view i d.mounts hview _,
   root_agree i ls d hforest l dl hc hdl hrootsome,
   fun bl hbl => parent_path i ls d hforest l bl dl hc hbl,
   importBridges_of_view i ls d hforest hview dl l hc hdl hrootsome hld hsrc hin hsa⟩

/-- `ImportBridge.inLayers` proved: for every clean absolute path and every clean absolute
    `Layerdirs` other than "/", walking up with path.Dir while the path is at least as long
    as `Layerdirs` (the code) finds `Layerdirs` exactly when the path is `Layerdirs` or has the
    prefix `Layerdirs/` (the manual). -/
theorem in_layers_agree (i : Inst) (p : Bytes)
    (hlc : pathClean i.cfg.layerdirs = i.cfg.layerdirs) (hla : isAbs i.cfg.layerdirs = true)
    (hlr : i.cfg.layerdirs ≠ [47]) (hpc : pathClean p = p) (hpa : isAbs p = true) :
    inAnyLayerDirectory i.cfg (p.length + 1) p = underLayers i p :=
  Lc.InLayers.inLayers_agree i.cfg p hlc hla hlr hpc hpa

/-- the layerconfig reader stores `path.Clean` of the source field: every import source of
    every layer the specification reads from the disk is clean and not empty -/
theorem diskLayers_sources_clean (i : Inst) :
    ∀ dl ∈ diskLayers i, ∀ m ∈ dl.file.mounts, m.source ≠ [] ∧ pathClean m.source = m.source :=
  Lc.InLayers.diskLayers_sources i

/-- `hex` of the classification theorems in plain terms (after fix eeedaf2): an export
    source that is outside the build directory, the build directory itself, or below it with
    a relative path that is not "", ".", ".." or "../…" satisfies `ExportSrcAgree` (and
    conversely). -/
theorem export_src_agree (i : Inst) (n : Bytes) (e : Layerfile.NeededMount) (hd : buildDir i n ≠ [47]) :
    ExportSrcAgree i n e ↔
      relProper (buildDir i n) (pathJoin [layerDir i n, i.cfg.buildRoot, e.source]) = true :=
  export_src_agree_iff i n e hd

/-- **`hex` discharged** (possible since fix eeedaf2; before it a source like `build/.cache`
    was a counterexample): with an absolute `Layerdirs` and a build directory other than "/"
    EVERY export source satisfies `ExportSrcAgree` — export sources are `path.Join`s, hence
    clean, and a clean path below a clean directory is a proper relative path. -/
theorem export_src_agree_clean (i : Inst) (n : Bytes) (e : Layerfile.NeededMount)
    (hla : isAbs i.cfg.layerdirs = true) (hbd : buildDir i n ≠ [47]) : ExportSrcAgree i n e :=
  Lc.InLayers.exportSrcAgree_clean i n e hla hbd

/-- **One round of `ProbeAllLayerstate` = the documented classification.**  PARTIAL only by
    `hsa` (what is still different: finding nonbind-import-fstype-not-compared) and
    configuration sanity; the exclusions `hnf` and `hex` of the version before the fixes
    f9eff6a, 23c682d, eeedaf2 are gone.
    For every installation `i` (configuration, tree, kernel mount table), every forest `ls`
    and corresponding table `d` whose mount view is a `MountsView` of the kernel table, every
    process list, every layer `dl` of the forest whose layerconfig was read without messages
    — base or derived, with or without exports, any subset of its directories present, any
    subset of overlay and imports mounted, foreign and wrong-source mounts included — the
    state the round `probeLayer` stores for it (process classification, `incomplete` tests,
    `findLayerstate`) is `Spec.World.stateOf`, where `ps` is the state already stored for the
    parent.  Hypotheses:
    * `hps`, `hrootsome`: the parent's record exists and carries state `ps`; the chain walk
      for `$$base` ends (both hold after `FindLayers`: checkInheritance);
    * configuration sanity: `Layerdirs` a clean absolute path other than "/", the three
      directory names not ending in '/'; every configured import source clean and not empty
      (what the reader stores: `diskLayers_sources_clean`).  With that the code's walk up with
      path.Dir and the manual's prefix test agree on "inside the layers directory"
      (`in_layers_agree`), so `ImportBridge.inLayers` is no hypothesis any more;
    * `hmb0`, `hov0`: the flags as `FindLayers`/`refreshMountInfo` leave them;
    * `hbd`: the build directory is not "/";
    * `hsa`: `SourceAgree` — `GetMountSources`, evaluated on the kernel table, contains the
      source iff the mount on the mountpoint is the configured import.  False inside finding
      nonbind-import-fstype-not-compared (section 9); since fix 23c682d no longer false for
      sources behind bind mounts, subvolumes or on an overlay (`fixed_*` witnesses). -/
theorem probe_round_eq_spec (i : Inst) (ls : List DLayer) (users : List (Bytes × List User)) (d : Defs)
    (hforest : ForestCorr i ls d) (hview : MountsView i.mnts d.mounts)
    (dl : DLayer) (l0 : Layer)
    (hdl : findD ls dl.name = some dl) (hl0 : findLayer d dl.name = some l0)
    (hn : dl.file.nmsgs = 0)
    (ps : Option St)
    (hps : match ps with
      | none => dl.file.base = []
      | some s => dl.file.base ≠ [] ∧ ∃ bl, findLayer d dl.file.base = some bl ∧ bl.state = s.toNat)
    (hrootsome : (findLayerBase d (d.layers.length + 1) l0).isSome = true)
    (hlc : pathClean i.cfg.layerdirs = i.cfg.layerdirs) (hla : isAbs i.cfg.layerdirs = true)
    (hlr : i.cfg.layerdirs ≠ [47])
    (hcb : i.cfg.buildRoot.getLast? ≠ some 47) (hcw : i.cfg.workdir.getLast? ≠ some 47)
    (hcu : i.cfg.upperdir.getLast? ≠ some 47)
    (hsrc : ∀ m ∈ dl.file.mounts, m.source ≠ [] ∧ pathClean m.source = m.source)
    (hmb0 : l0.mountBusy = false)
    (hov0 : l0.overlain = (overlayLowerdirs d.mounts).contains (buildPath i.cfg l0))
    (hbd : buildDir i dl.name ≠ [47])
    (hsa : ∀ imports, expandConfigMounts i.cfg d l0 = .ok imports → ∀ e ∈ imports, SourceAgree i e) :
    ∃ l', probeLayer i.cfg users i.fs d dl.name l0 = .ok l' ∧
      l'.state = (stateOf i ls users dl ps).toNat := by
  have hex : ∀ e ∈ dl.file.exports, ExportSrcAgree i dl.name e :=
    fun e _ => export_src_agree_clean i dl.name e hla hbd
  -- the record is the model's record of `dl`
  obtain ⟨dl', hd', hc0⟩ := hforest.find _ _ hl0
  rw [hdl] at hd'
  cases hd'
  have hbp0 : buildPath i.cfg l0 = buildDir i dl.name := by
    unfold buildPath buildDir; rw [hc0.layerPath]
  have hld : i.cfg.layerdirs ≠ [] := by
    intro e; rw [e] at hla; cases hla
  -- "inside the layers directory": the two tests agree on every expanded source
  have hin : ∀ imports, expandConfigMounts i.cfg d l0 = .ok imports → ∀ e ∈ imports,
      inAnyLayerDirectory i.cfg (e.source.length + 1) e.source = underLayers i e.source := by
    intro imports himp e he
    have hroot0 := root_agree i ls d hforest l0 dl hc0 hdl hrootsome
    have hself : l0.layerPath ≠ [] := by rw [hc0.layerPath]; exact layerDir_ne_nil i _ hld
    have hrootne : ∀ p, (findLayerBase d (d.layers.length + 1) l0).map (·.layerPath) = some p → p ≠ [] := by
      intro p hp
      rw [hroot0] at hp
      cases hp
      exact layerDir_ne_nil i _ hld
    have habs := expanded_source_abs i.cfg d l0 imports himp
      (by rw [hc0.cmounts]; exact fun m hm => (hsrc m hm).1) hself hrootne e he
    have hcl := Lc.InLayers.expanded_source_clean i.cfg d l0 imports himp
      (by rw [hc0.cmounts]; exact hsrc) hself hrootne e he
    exact Lc.InLayers.inLayers_agree i.cfg e.source hlc hla hlr hcl habs
  unfold probeLayer
  simp only []
  have hsc := classifyUsers_sameCore i.cfg
    ({ l0 with mounts := getMountAndSubmounts d.mounts (buildPath i.cfg l0) } : Layer)
    (StateProbe.usersOf users dl.name)
  have hmb := mountBusy_classify i users dl.name
    ({ l0 with mounts := getMountAndSubmounts d.mounts (buildPath i.cfg l0) } : Layer) hmb0 hcb hcw hcu
  generalize classifyUsers i.cfg _ _ = lu at hsc hmb
  obtain ⟨s1, s2, s3, s4, s5, -, s7, -⟩ := hsc
  have s1' : lu.name = l0.name := s1
  have s2' : lu.base = l0.base := s2
  have s3' : lu.cmounts = l0.cmounts := s3
  have s4' : lu.cexports = l0.cexports := s4
  have s5' : lu.layerPath = l0.layerPath := s5
  have s7' : lu.overlain = l0.overlain := s7
  have hwp : workPath i.cfg lu = workDir i dl.name := by
    unfold workPath workDir; rw [s5', hc0.layerPath]
  have hupp : upperPath i.cfg lu = upperDir i dl.name := by
    unfold upperPath upperDir; rw [s5', hc0.layerPath]
  rw [hbp0, hwp, hupp]
  have hlb : lu.base = dl.file.base := s2'.trans hc0.base
  cases hdir : Fs.isDir i.fs (buildDir i dl.name) with
  | false =>
    refine ⟨_, rfl, ?_⟩
    rw [stateOf_unfold]
    simp [hn, hdir, St.toNat, S_incomplete]
  | true =>
    simp only [Bool.not_true, Bool.false_eq_true, ↓reduceIte]
    -- the record `findLayerstate` is called with
    have hc : Corr i dl ({ lu with state := S_complete } : Layer) :=
      ⟨s1'.trans hc0.name, hlb, s3'.trans hc0.cmounts, s4'.trans hc0.cexports, s5'.trans hc0.layerPath⟩
    have hexpc : ∀ imports, expandConfigMounts i.cfg d ({ lu with state := S_complete } : Layer) = .ok imports →
        expandConfigMounts i.cfg d l0 = .ok imports := fun imports h =>
      (expandConfigMounts_congr i.cfg d ({ lu with state := S_complete } : Layer) l0 s2' s3' s5').symm.trans h
    have hrs : (findLayerBase d (d.layers.length + 1) ({ lu with state := S_complete } : Layer)).isSome = true := by
      have := findLayerBase_path d (d.layers.length) ({ lu with state := S_complete } : Layer) l0 s2' s5'
      have h2 := congrArg Option.isSome this
      simp only [Option.isSome_map] at h2
      rw [h2]; exact hrootsome
    obtain ⟨hovb, hroot, hpar, hbr⟩ := bridges_of_view i ls d hforest hview dl _ hc hdl hrs hld
      (fun m hm => (hsrc m hm).1)
      (fun imports h => hin imports (hexpc imports h)) (fun imports h => hsa imports (hexpc imports h))
    have hbusy : (({ lu with state := S_complete } : Layer).mountBusy || ({ lu with state := S_complete } : Layer).overlain)
        = (mountBusy i users dl.name || overlain i dl.name) :=
      busy_of_view i users dl l0 _ hview hbp0 hmb (s7'.trans hov0)
    cases ps with
    | none =>
      have hb : dl.file.base = [] := hps
      have hlen : ¬ (lu.base.length ≥ 1) := by rw [hlb, hb]; simp
      simp only [hlen, decide_false, Bool.false_and, Bool.false_eq_true, ↓reduceIte]
      exact state_eq_spec_base i ls users dl d _ hc hn hb hdl hdir (by show ¬ S_complete < S_complete; decide) hbr hex hbusy
    | some s =>
      obtain ⟨hb, bl, hbl, hbs⟩ := hps
      have hlen : lu.base.length ≥ 1 := by
        rw [hlb]
        cases hx : dl.file.base with
        | nil => exact absurd hx hb
        | cons a as => simp
      have hemp : dl.file.base.isEmpty = false := by
        cases hx : dl.file.base with
        | nil => exact absurd hx hb
        | cons a as => rfl
      simp only [hlen, decide_true, Bool.true_and]
      cases hwd : Fs.isDir i.fs (workDir i dl.name) with
      | false =>
        refine ⟨_, rfl, ?_⟩
        rw [stateOf_unfold]
        simp [hn, hdir, hwd, hemp, St.toNat, S_incomplete]
      | true =>
        cases hud : Fs.isDir i.fs (upperDir i dl.name) with
        | false =>
          refine ⟨_, rfl, ?_⟩
          rw [stateOf_unfold]
          simp [hn, hdir, hwd, hud, hemp, St.toNat, S_incomplete]
        | true =>
          simp only [Bool.not_true, Bool.or_self, Bool.false_eq_true, ↓reduceIte]
          have hbl' : findLayer d ({ lu with state := S_complete } : Layer).base = some bl := by
            show findLayer d lu.base = some bl
            rw [hlb]; exact hbl
          exact state_eq_spec_derived i ls users dl d _ bl s hc hn hb hdir hwd hud (by show ¬ S_complete < S_complete; decide) hbl'
            (hpar bl hbl') hbs hroot hovb hbr hex hbusy

/-- `KWF` holds for every mount of the example kernel table (so `probe_gives_view_kwf` applies
    to it: `Kernel.probe` of that table succeeds with a view) -/
example : ∀ k ∈ (instC [kOvlC, kProcC]).mnts, Lc.KernelWF.KWF k := by decide

/-- the table of the example forest with the view of a kernel table -/
def dView (ks : List Kernel.KMnt) : Defs :=
  { layers := [{ Ex.layA with state := S_mounted }, Ex.layC], order := [b!"a", b!"c"],
    mounts := viewOf (kHost ++ ks) }

/-- the hypotheses of `probe_round_eq_spec` hold for `c` (overlay and one of two imports
    mounted, parent `a` mounted); both sides say `partially mounted` -/
example :
    let i := instC [kOvlC, kProcC]
    let d := dView [kOvlC, kProcC]
    ForestCorr i [dlA, dlC] d ∧ MountsView i.mnts d.mounts ∧
    findD [dlA, dlC] dlC.name = some dlC ∧ findLayer d dlC.name = some Ex.layC ∧ dlC.file.nmsgs = 0 ∧
    (dlC.file.base ≠ [] ∧ ∃ bl, findLayer d dlC.file.base = some bl ∧ bl.state = St.mounted.toNat) ∧
    (findLayerBase d (d.layers.length + 1) Ex.layC).isSome = true ∧
    pathClean i.cfg.layerdirs = i.cfg.layerdirs ∧ isAbs i.cfg.layerdirs = true ∧ i.cfg.layerdirs ≠ [47] ∧
    i.cfg.buildRoot.getLast? ≠ some 47 ∧ i.cfg.workdir.getLast? ≠ some 47 ∧
    i.cfg.upperdir.getLast? ≠ some 47 ∧
    (∀ m ∈ dlC.file.mounts, m.source ≠ [] ∧ pathClean m.source = m.source) ∧
    Ex.layC.mountBusy = false ∧
    Ex.layC.overlain = (overlayLowerdirs d.mounts).contains (buildPath i.cfg Ex.layC) ∧
    buildDir i dlC.name ≠ [47] ∧
    (∃ imports, expandConfigMounts i.cfg d Ex.layC = .ok imports ∧ ∀ e ∈ imports, SourceAgree i e) ∧
    st (probeLayer i.cfg [] i.fs d dlC.name Ex.layC) = some S_partialmount ∧
    (stateOf i [dlA, dlC] [] dlC (some .mounted)).toNat = S_partialmount := by
  refine ⟨forestCorr_of_list _ _ _ (by decide), viewOf_view _, rfl, by decide, by decide,
    ⟨by decide, { Ex.layA with state := S_mounted }, by decide, by decide⟩, by decide, by decide, by decide, by decide,
    by decide, by decide, by decide, by decide, by decide, by decide, by decide,
    ⟨[eProcC, eDevC], by decide, by decide⟩, by decide, by decide⟩


/-! ### 9. the regions found while proving section 8, after the repairs

  Three regions in which the code's report and the classification differed without being
  recorded findings were found with the bridge hypotheses of section 8 (witnesses by kernel
  evaluation, each replayed against the real implementation).  Two have been repaired in the
  Go code (eeedaf2, 23c682d) and are "now agrees" theorems here; the specification was too lax
  on the third in one direction (a mount of the configured type but made from another source:
  `importAsConfigured` now looks at the source too), and the other direction is the recorded
  finding `nonbind-import-fstype-not-compared`.  All of them are corpus cases
  (`corpus/C08/suspects.jsonl`). -/

def expDot : Layerfile.NeededMount := { mount := b!"$$file_export", source := b!"/.cache", fstype := b!"symlink" }
def layAd : Layer := { Ex.layA with cexports := [expDot] }
def dlAd : DLayer := ⟨b!"a", { base := [], mounts := [Ex.impProc], exports := [expDot], nmsgs := 0 }⟩
def instAd : Inst := ⟨Ex.cfg, Ex.fs1 ++ [(b!"/b/l/a/build/.cache", .dir)], instA.mnts⟩

/-- Repaired by fix eeedaf2.  An export whose source below the build root begins with '.'
    (`export symlink /.cache $$file_export`, the directory exists): `fs.IsDescendant` was
    `len(rel) > 0 && rel[0] != '.'`, so the source counted as outside the build directory and
    the layer was reported `error`; now it is `rel` not ".", ".." or "../…": the layer is
    reported `mounted`, as the classification ("the build directory or below it") says, and
    `ExportSrcAgree` holds for it (`export_src_agree_clean`). -/
theorem fixed_export_dot_source_witness :
    st (findLayerstate instAd.cfg instAd.fs (Ex.defs [Ex.procA]) layAd) = some S_mounted ∧
    stateOf instAd [dlAd] [] dlAd none = .mounted ∧
    Fs.isDir instAd.fs b!"/b/l/a/build/.cache" = true ∧
    ExportSrcAgree instAd dlAd.name expDot := by
  refine ⟨by decide, by decide, by decide, by decide⟩

def kt0o : Kernel.KTable :=
  { mnts := [{ id := 1, parent := 0, dev := b!"8:1", root := b!"/", mp := b!"/", fstype := b!"ext4",
               source := b!"/dev/sda1" },
             { id := 2, parent := 1, dev := b!"0:40", root := b!"/", mp := b!"/b", fstype := b!"overlay",
               source := b!"overlay", lower := b!"/lo", upper := b!"/up", work := b!"/wk" }] }
def mntHo : Kernel.KMnt :=
  { id := 100, parent := 2, dev := b!"0:40", root := b!"/src", mp := b!"/b/l/h/build/mnt/host",
    fstype := b!"overlay", source := b!"overlay", lower := b!"/lo", upper := b!"/up", work := b!"/wk" }
def kt1o : Kernel.KTable := { mnts := kt0o.mnts ++ [mntHo], nextId := 101 }
def dlH : DLayer := ⟨b!"h", { base := [], mounts := layH.cmounts, exports := [], nmsgs := 0 }⟩

/-- Repaired by fix 23c682d.  A bind import whose source lies on an OVERLAY filesystem (here
    the base path `/b` is an overlay mount with root `/`; likewise a host root on overlay, or
    a source inside another layer's mounted build root): the kernel shows the bind mount with
    type `overlay` and the overlay's `lowerdir`, `ProbeMounts` stores the lower directory as
    `Source`; `GetMountSources` answered `[lowerdir]` only and layercake reported its OWN
    rbind as `error`.  Now the lower directory is one candidate among the others
    (`/b` + `/src` through the root mount of the same device), `SourceAgree` holds and the
    layer is reported `mounted`, as classified. -/
theorem fixed_bind_source_on_overlay_witness :
    Kernel.kmount kt0o b!"/b/src" b!"/b/l/h/build/mnt/host" b!"rbind" (Kernel.MS_BIND + Kernel.MS_REC) []
      = .ok kt1o ∧
    MountsView kt1o.mnts (viewOf kt1o.mnts) ∧
    (Kernel.findContaining kt1o.mnts b!"/b/src").map (·.root) = some b!"/" ∧
    importAsConfigured ⟨Ex.cfg, fsH, kt1o.mnts⟩ mntHo b!"rbind" b!"/b/src" = true ∧
    stateOf ⟨Ex.cfg, fsH, kt1o.mnts⟩ [dlH] [] dlH none = .mounted ∧
    kSources kt1o.mnts mntHo = [b!"/lo", b!"/b/src"] ∧
    SourceAgree ⟨Ex.cfg, fsH, kt1o.mnts⟩
      ⟨b!"/b/l/h/build/mnt/host", b!"/b/src", b!"rbind", b!"/mnt/host", b!"/b/src"⟩ ∧
    st (findLayerstate Ex.cfg fsH { layers := [layH], order := [b!"h"], mounts := viewOf kt1o.mnts } layH)
      = some S_mounted := by
  refine ⟨by decide, viewOf_view _, by decide, by decide, by decide, by decide, by decide, by decide⟩

def impTmp : Layerfile.NeededMount := { mount := b!"/tmp", source := b!"/mytmp", fstype := b!"tmpfs" }
def layT : Layer := { name := b!"a", cmounts := [impTmp], layerPath := b!"/b/l/a", state := S_complete }
def dlT : DLayer := ⟨b!"a", { base := [], mounts := [impTmp], exports := [], nmsgs := 0 }⟩
def fsT : Fs.Tree := Ex.fs1 ++ [(b!"/mytmp", .dir), (b!"/b/l/a/build/tmp", .dir)]
def kRoot : Kernel.KMnt :=
  { id := 1, parent := 0, dev := b!"8:1", root := b!"/", mp := b!"/", fstype := b!"ext4", source := b!"/dev/sda1" }
def kTmp (fstype source : Bytes) : Kernel.KMnt :=
  { id := 50, parent := 1, dev := b!"0:61", root := b!"/", mp := b!"/b/l/a/build/tmp", fstype := fstype, source := source }
def instT (k : Kernel.KMnt) : Inst := ⟨Ex.cfg, fsT, [kRoot, k]⟩
def dT (k : Kernel.KMnt) : Defs := { layers := [layT], order := [b!"a"], mounts := viewOf [kRoot, k] }

/-- Finding `nonbind-import-fstype-not-compared` (not repaired).  Imports that are not bind
    mounts: the code recognises them by SOURCE only (device name, mounts of the same device),
    the classification asks for the configured file-system TYPE and the configured source (or a
    mount showing the file system found at the source path).  A foreign mount of another type
    made from the configured source string is reported `mounted` and classified `error`:
    `SourceAgree` fails exactly there.  A mount of the configured type made from another
    source string is `error` on both sides (the classification was too lax before:
    it looked at the type only), layercake's own mount `mounted` on both. -/
theorem finding_nonbind_import_fstype_not_compared_witness :
    -- a foreign mount of another type with the configured source string: reported `mounted`,
    -- classified `error`
    st (findLayerstate Ex.cfg fsT (dT (kTmp b!"ramfs" b!"/mytmp")) layT) = some S_mounted ∧
    stateOf (instT (kTmp b!"ramfs" b!"/mytmp")) [dlT] [] dlT none = .error ∧
    ¬ SourceAgree (instT (kTmp b!"ramfs" b!"/mytmp"))
      ⟨b!"/b/l/a/build/tmp", b!"/mytmp", b!"tmpfs", b!"/tmp", b!"/mytmp"⟩ ∧
    -- a mount of the configured type with another source string: `error` on both sides
    st (findLayerstate Ex.cfg fsT (dT (kTmp b!"tmpfs" b!"none")) layT) = some S_error ∧
    stateOf (instT (kTmp b!"tmpfs" b!"none")) [dlT] [] dlT none = .error ∧
    -- layercake's own mount (configured type and source): both `mounted`
    st (findLayerstate Ex.cfg fsT (dT (kTmp b!"tmpfs" b!"/mytmp")) layT) = some S_mounted ∧
    stateOf (instT (kTmp b!"tmpfs" b!"/mytmp")) [dlT] [] dlT none = .mounted := by
  refine ⟨by decide, by decide, by decide, by decide, by decide, by decide, by decide⟩


/-! ### 10. every command, every layer: the reported states are the documented classification -/

/-- **The property, end to end** (PARTIAL only by `hsa`, the region of the one finding that is
    left, and configuration sanity; the exclusions `hex` and `hnf` of the version before the
    fixes eeedaf2 and f9eff6a are gone, and `hsa` no longer excludes sources behind bind
    mounts, subvolumes or on an overlay: fix 23c682d).  `getLayers` is
    what cmd/layercake runs before every command: `FindLayers` on the tree, then
    `ProbeAllLayerstate` on the kernel's mount table (rendered as /proc/self/mountinfo and
    parsed by the model of `ProbeMounts`) and the process list.  For EVERY world `w`
    (tree, kernel table, switches), every configuration and process list: if it returns,
    the world is untouched and EVERY layer it lists carries exactly the state the documented
    classification `Spec.World.allStates` gives that layer on the installation
    `⟨cfg, w.fs, w.kt.mnts⟩` — the comparison the oracle `c08` makes on every step of every
    scenario, as a theorem.  Hypotheses, all decidable statements about the installation:
    * `hk`: the kernel table is printable (`KWF`);
    * `hwf`, `hnd`: the forest on disk is well-formed (what the oracle requires too) and the
      layer directories have distinct names;
    * configuration sanity: `Layerdirs` a clean absolute path other than "/", the three
      directory names not ending in '/', no build directory is "/";
    * `hsa : SourceAgreeAll` — excludes finding nonbind-import-fstype-not-compared: for every
      resolvable configured import with a mount on its mountpoint, `GetMountSources`
      (evaluated on the kernel table) contains the source iff the mount is the configured
      import. -/
theorem getLayers_eq_allStates (cfg : Config) (users : List (Bytes × List User)) (w w' : World) (d : Defs)
    (hrun : (getLayers cfg users).run.run w = (.ok d, w'))
    (hk : ∀ k ∈ w.kt.mnts, Lc.KernelWF.KWF k)
    (hwf : forestWF (diskLayers ⟨cfg, w.fs, w.kt.mnts⟩) = true)
    (hnd : ((diskLayers ⟨cfg, w.fs, w.kt.mnts⟩).map (·.name)).Nodup)
    (hlc : pathClean cfg.layerdirs = cfg.layerdirs) (hla : isAbs cfg.layerdirs = true)
    (hlr : cfg.layerdirs ≠ [47])
    (hcb : cfg.buildRoot.getLast? ≠ some 47) (hcw : cfg.workdir.getLast? ≠ some 47)
    (hcu : cfg.upperdir.getLast? ≠ some 47)
    (hbd : ∀ dl ∈ diskLayers ⟨cfg, w.fs, w.kt.mnts⟩, buildDir ⟨cfg, w.fs, w.kt.mnts⟩ dl.name ≠ [47])
    (hsa : SourceAgreeAll ⟨cfg, w.fs, w.kt.mnts⟩ (diskLayers ⟨cfg, w.fs, w.kt.mnts⟩)) :
    w' = w ∧ ∀ name l, findLayer d name = some l →
      ∃ st, (allStates ⟨cfg, w.fs, w.kt.mnts⟩ (diskLayers ⟨cfg, w.fs, w.kt.mnts⟩) users).find? (·.1 == name)
          = some (name, st) ∧ l.state = st.toNat := by
  have hmain := getLayers_spec cfg users w w' d hrun hwf hnd ?_
  · exact ⟨hmain.1, fun name l hl => ⟨_, (hmain.2 name l hl).1, (hmain.2 name l hl).2⟩⟩
  -- the per-round equation, from `probe_round_eq_spec`
  intro m d0 hm hlay0 hci d dl l0 ps hforest hmounts hkeys hdl hl0 hn hps hmb0 hov0
  obtain ⟨m', hm', hview⟩ := probe_view w.kt (fun k hk' => Lc.KernelWF.toSpec_wf k (hk k hk'))
  rw [hm] at hm'
  cases hm'
  have hmem : dl ∈ diskLayers ⟨cfg, w.fs, w.kt.mnts⟩ := findD_mem _ _ dl hdl
  have hkr : SameKeys { layers := readLayerFiles cfg w.fs (Fs.children w.fs cfg.layerdirs) } d :=
    ((sameKeys_refresh { layers := readLayerFiles cfg w.fs (Fs.children w.fs cfg.layerdirs) } m _).trans
      (sameKeys_of_layers_eq (by rw [hlay0]))).trans hkeys
  have hrs := rootsome_of_check _ hci d hkr dl.name l0 hl0
  obtain ⟨dl', hd', hc0⟩ := hforest.find _ _ hl0
  rw [hdl] at hd'
  cases hd'
  have hroot := root_agree _ _ d hforest l0 dl hc0 hdl hrs
  refine probe_round_eq_spec ⟨cfg, w.fs, w.kt.mnts⟩ _ users d hforest (hmounts ▸ hview) dl l0 hdl hl0 hn ps hps
    hrs hlc hla hlr hcb hcw hcu (Lc.InLayers.diskLayers_sources _ dl hmem) hmb0 (by rw [hmounts]; exact hov0)
    (hbd dl hmem) ?_
  intro imports himp e he
  obtain ⟨imp, himp', hres, hmp, hft⟩ := import_of_spec _ _ dl d l0 imports hc0 hroot himp e he
  refine sourceAgree_congr _ e
    ⟨pathJoin [buildDir ⟨cfg, w.fs, w.kt.mnts⟩ dl.name, imp.mount], e.source, imp.fstype, imp.mount, imp.source⟩
    hmp rfl hft (hsa dl hmem imp himp' e.source ?_)
  rw [hres]
  simp

/-- the hypotheses of `getLayers_eq_allStates` hold on the world with two layerconfig files
    and an empty kernel table; `getLayers` returns and lists `a` and `c` as `mountable`, which
    is what `allStates` says -/
example :
    let w : World := { fs := fsG }
    (∀ k ∈ w.kt.mnts, Lc.KernelWF.KWF k) ∧
    forestWF (diskLayers ⟨Ex.cfg, w.fs, w.kt.mnts⟩) = true ∧
    ((diskLayers ⟨Ex.cfg, w.fs, w.kt.mnts⟩).map (·.name)).Nodup ∧
    pathClean Ex.cfg.layerdirs = Ex.cfg.layerdirs ∧ isAbs Ex.cfg.layerdirs = true ∧ Ex.cfg.layerdirs ≠ [47] ∧
    Ex.cfg.buildRoot.getLast? ≠ some 47 ∧ Ex.cfg.workdir.getLast? ≠ some 47 ∧
    Ex.cfg.upperdir.getLast? ≠ some 47 ∧
    (∀ dl ∈ diskLayers ⟨Ex.cfg, w.fs, w.kt.mnts⟩, buildDir ⟨Ex.cfg, w.fs, w.kt.mnts⟩ dl.name ≠ [47]) ∧
    SourceAgreeAll ⟨Ex.cfg, w.fs, w.kt.mnts⟩ (diskLayers ⟨Ex.cfg, w.fs, w.kt.mnts⟩) ∧
    (allStates ⟨Ex.cfg, w.fs, w.kt.mnts⟩ (diskLayers ⟨Ex.cfg, w.fs, w.kt.mnts⟩) []).map (fun p => (p.1, p.2.toNat))
      = [(b!"a", S_mountable), (b!"c", S_mountable)] := by
  refine ⟨by decide, by decide, by decide, by decide, by decide, by decide, by decide, by decide, by decide,
    by decide, by decide, by decide⟩

/-- … and with mounts in the kernel table the classification side of the equation is not
    trivial: the example installation `instC` (overlay and one import of `c` mounted) has the
    hypothesis `hsa` and classifies `[mounted (busy: overlain), partially mounted]`; without the
    overlay (`c`'s proc import left mounted) `c` is classified `error` -/
example :
    let i := instC [kOvlC, kProcC]
    SourceAgreeAll i [dlA, dlC] ∧
    (allStates i [dlA, dlC] []).map (fun p => (p.1, p.2.toNat))
      = [(b!"a", S_mounted_busy), (b!"c", S_partialmount)] ∧
    SourceAgreeAll (instC [kProcC]) [dlA, dlC] ∧
    (allStates (instC [kProcC]) [dlA, dlC] []).map (fun p => (p.1, p.2.toNat))
      = [(b!"a", S_mounted), (b!"c", S_error)] := by
  refine ⟨by decide, by decide, by decide, by decide⟩

open Lc.Spec.World in
/-- (specification level) a derived layer whose build root carries a mount that is not exactly
    the configured overlay — another type, or a lower, upper or work directory that differs from
    the configured one in any way, be it only by a suffix — is in the error state, whatever else
    is mounted or missing -/
theorem wrong_overlay_is_error (i : Inst) (ls : List DLayer) (users : List (Bytes × List Layers.User))
    (l : DLayer) (s : St) (m : Kernel.KMnt)
    (h1 : l.file.nmsgs = 0) (h2 : Fs.isDir i.fs (buildDir i l.name) = true)
    (h3 : l.file.base.isEmpty = false)
    (h4 : Fs.isDir i.fs (workDir i l.name) = true) (h5 : Fs.isDir i.fs (upperDir i l.name) = true)
    (h6 : s.toNat ≥ 5) (h7 : topAt i.mnts (buildDir i l.name) = some m)
    (h8 : (m.fstype == b!"overlay" && m.lower == buildDir i l.file.base
            && m.upper == upperDir i l.name && m.work == workDir i l.name) = false) :
    stateOf i ls users l (some s) = .error := by
  unfold stateOf
  simp only [h1, h2, h3, h4, h5, h7, h8]
  simp [h6]

open Lc.Spec.World in
/-- … in particular a work directory that merely extends the configured one (`…/workdir_old`;
    seeded change C08-agent7-1 compared with `HasPrefix`) -/
theorem overlay_workdir_extended_is_error (i : Inst) (ls : List DLayer) (users : List (Bytes × List Layers.User))
    (l : DLayer) (s : St) (m : Kernel.KMnt) (suffix : Bytes)
    (h1 : l.file.nmsgs = 0) (h2 : Fs.isDir i.fs (buildDir i l.name) = true)
    (h3 : l.file.base.isEmpty = false)
    (h4 : Fs.isDir i.fs (workDir i l.name) = true) (h5 : Fs.isDir i.fs (upperDir i l.name) = true)
    (h6 : s.toNat ≥ 5) (h7 : topAt i.mnts (buildDir i l.name) = some m)
    (hw : m.work = workDir i l.name ++ suffix) (hs : suffix ≠ []) :
    stateOf i ls users l (some s) = .error := by
  apply wrong_overlay_is_error i ls users l s m h1 h2 h3 h4 h5 h6 h7
  have : (m.work == workDir i l.name) = false := by
    rw [hw]; simp [hs]
  simp [this]
open Lc.Spec.World in
/-- (specification level) a base layer one of whose import mountpoints carries a mount that is not
    the configured one is in the error state even when another import lacks its mountpoint
    directory or its host source: the wrong mount outranks the missing piece -/
theorem wrong_import_outranks_missing (i : Inst) (ls : List DLayer) (users : List (Bytes × List Layers.User))
    (l : DLayer) (imp : Layerfile.NeededMount) (src : Bytes) (m : Kernel.KMnt)
    (h1 : l.file.nmsgs = 0) (h2 : Fs.isDir i.fs (buildDir i l.name) = true)
    (h3 : l.file.base.isEmpty = true)
    (hf : (fhsDirs.all fun d => Fs.isDir i.fs (pathJoin [buildDir i l.name, d])) = true)
    (hr : ∀ x ∈ l.file.mounts, (resolveSource i ls l.name x.source).isSome)
    (hi : imp ∈ l.file.mounts) (hsrc : resolveSource i ls l.name imp.source = some src)
    (hmp : Fs.lexists i.fs (pathJoin [buildDir i l.name, imp.mount]) = true)
    (hse : Fs.lexists i.fs src = true)
    (ht : topAt i.mnts (pathJoin [buildDir i l.name, imp.mount]) = some m)
    (hw : importAsConfigured i m imp.fstype src = false) :
    stateOf i ls users l none = .error := by
  unfold stateOf
  simp only [h1, h2, h3, hf]
  simp
  have hnone : ¬ ∃ x, x ∈ l.file.mounts ∧ resolveSource i ls l.name x.source = none := by
    rintro ⟨x, hx, h⟩; have := hr x hx; rw [h] at this; cases this
  rw [if_neg hnone, if_pos]
  left
  refine ⟨imp, hi, ?_⟩
  simp [hmp, hsrc, hse, ht, hw]
end Lc.Props.C08
