/-
  C18 — configuration resolves by documented precedence for every file chain.

  Property theorems over the model `Lc.Config.load` (config.go as it is after the two
  `fix:` commits) against the specification `Lc.Spec.Precedence`.  Helper lemmas live in
  Lc/Lemmas/Config.lean and Lc/Lemmas/Path.lean.  All statements quantify over every
  file system (a function from names to nodes), every environment, every switch
  combination; chains are of any length and shape.
-/
import Lc.Model.Config
import Lc.Spec.Precedence
import Lc.Lemmas.Config
import Lc.Lemmas.Path

namespace Lc.Props.C18
open Lc Lc.Config Lc.Spec.Precedence Lc.Lemmas.Config Lc.Lemmas.Path

deriving instance DecidableEq for Except

/-! ### a small world used by the non-vacuity examples -/

/-- /a.conf → /b.conf, two relative directory settings, a comment, odd spacing and case -/
def exFiles : List (Bytes × Node) :=
  [(b!"/a.conf", .file b!"# first\n layers = l\nCONFIGFILE=/b.conf\nBuildRoot = one\n"),
   (b!"/b.conf", .file b!"BASEPATH=/srv//x/\nbuildroot=two\nEXPORTS=../e\n"),
   (b!"/loop.conf", .file b!"CONFIGFILE = /loop2.conf\n"),
   (b!"/loop2.conf", .file b!"configfile=/loop.conf\n"),
   (b!"/bad.conf", .file b!"LAYERS=x\nBOGUS =\n")]

def exFs : Fs := fsOf exFiles
def exSw (f : Bytes) : Switches := { configfile := f }
def exEnv : Env := { argv0 := b!"/usr/bin/layercake" }

/-! ### 1. Load is the specified precedence -/

/-- The model of `config.Load` equals the specification on EVERY input: every file system
    (any number of files, any chain shape including cycles, missing files, directories),
    every environment, every switch combination, every amount of fuel — value and error
    class alike. -/
theorem load_eq_spec (fs : Fs) (env : Env) (sw : Switches) (fuel : Nat) :
    Config.load fs env sw fuel = Spec.Precedence.load fs env sw fuel := by
  unfold Config.load Spec.Precedence.load
  rw [loadSetup_eq]
  cases follow fs fuel (selectFile fs env sw) [] with
  | error f => rfl
  | ok cs =>
    simp only []
    cases resolve { switchBase := sw.basepath, envBase := env.layerroot, files := cs } <;> rfl

example : Config.load exFs exEnv (exSw b!"/a.conf") 6 =
    .ok { basepath := b!"/srv/x", layerdirs := b!"/srv/x/l", layerBuildRoot := b!"one",
          layerBinPkgdir := b!"packages", layerGeneratedir := b!"generated",
          layerOvfsWorkdir := b!"overlayfs/workdir", layerOvfsUpperdir := b!"overlayfs/upperdir",
          exportdirs := b!"/srv/e", exportBinPkgdir := b!"packages",
          exportGeneratedir := b!"generated", chrootExec := b!"/usr/bin/chroot" } := by
  decide

/-- For every chain of configuration files without a cycle — of any length — `Load`
    succeeds or fails exactly as the precedence rule says when applied to the chain's files
    in order: per key the switch, else the environment (base path only), else the first
    file of the chain that sets it, else the default; then the path treatment.  The chain
    is given relationally (`IsChain`, no fuel); `names.length` units of fuel suffice. -/
theorem load_chain_eq_spec (fs : Fs) (env : Env) (sw : Switches) (names contents : List Bytes)
    (fuel : Nat) (hchain : IsChain fs (selectFile fs env sw) names contents)
    (hacyclic : names.Nodup) (hfuel : names.length ≤ fuel) :
    Config.load fs env sw fuel =
      (resolve { switchBase := sw.basepath, envBase := env.layerroot, files := contents }).map
        toConfig := by
  rw [load_eq_spec]
  unfold Spec.Precedence.load
  obtain ⟨k, rfl⟩ : ∃ k, fuel = names.length + k := ⟨fuel - names.length, by omega⟩
  rw [follow_walk hchain [] k hacyclic (by simp), follow_nil]
  simp only [List.append_nil]
  cases resolve { switchBase := sw.basepath, envBase := env.layerroot, files := contents } <;> rfl

example : IsChain exFs (selectFile exFs exEnv (exSw b!"/a.conf")) [b!"/a.conf", b!"/b.conf"]
    [b!"# first\n layers = l\nCONFIGFILE=/b.conf\nBuildRoot = one\n",
     b!"BASEPATH=/srv//x/\nbuildroot=two\nEXPORTS=../e\n"] ∧
    [b!"/a.conf", b!"/b.conf"].Nodup := by
  refine ⟨?_, by decide⟩
  refine Walk.cons (by decide) (by decide) (by decide) ?_
  refine Walk.cons (by decide) (by decide) (by decide) ?_
  exact Walk.nil

/-! ### 2. loops -/

/-- A chain that revisits a file is reported as a loop — for any amount of fuel that lets
    the walk come back (one more than the number of files walked). -/
theorem loop_reported (fs : Fs) (env : Env) (sw : Switches) (names contents : List Bytes)
    (next : Bytes) (fuel : Nat)
    (hwalk : Walk fs (selectFile fs env sw) names contents next) (hnd : names.Nodup)
    (hback : next ∈ names) (hfuel : names.length < fuel) :
    Config.load fs env sw fuel = Res.err "loop" := by
  rw [load_eq_spec]
  unfold Spec.Precedence.load
  obtain ⟨k, rfl⟩ : ∃ k, fuel = names.length + (k + 1) := ⟨fuel - names.length - 1, by omega⟩
  rw [follow_walk hwalk [] (k + 1) hnd (by simp)]
  have hne : next ≠ [] := walk_names_ne_nil hwalk next hback
  have hmem : next ∈ names.reverse ++ [] := by simp [hback]
  conv => lhs; unfold follow
  simp [hne, hback, Res.err]

/-- `Load` reports a loop exactly when the chain revisits a file.  `support` lists every
    name at which the file system has something; with `|support| + 1` units of fuel the
    equivalence holds for every chain shape. -/
theorem loop_detected (fs : Fs) (env : Env) (sw : Switches) (support : List Bytes) (fuel : Nat)
    (hsup : ∀ n, fs n ≠ none → n ∈ support) (hfuel : support.length + 1 ≤ fuel) :
    Config.load fs env sw fuel = Res.err "loop" ↔ Revisits fs (selectFile fs env sw) := by
  constructor
  · intro h
    rw [load_eq_spec] at h
    unfold Spec.Precedence.load at h
    cases hf : follow fs fuel (selectFile fs env sw) [] with
    | error f =>
      rw [hf] at h
      dsimp only at h
      have hfe : f = Fault.err "loop" := by simpa [Res.err] using h
      have hf' : follow fs fuel (selectFile fs env sw) [] = Res.err "loop" := by rw [hf, hfe]; rfl
      obtain ⟨names, cs, next, hw, hnd, _, hnext⟩ := follow_loop_walk fs fuel _ [] hf'
      rcases hnext with hx | hx
      · exact ⟨names, cs, next, hw, hnd, hx⟩
      · simp at hx
    | ok cs =>
      rw [hf] at h
      simp only [resolve] at h
      cases hr : resolveFrom (raw { switchBase := sw.basepath, envBase := env.layerroot, files := cs }) with
      | error f =>
        rw [hr] at h
        have := resolveFrom_error _ f hr
        subst this
        simp [Res.err] at h
      | ok s => rw [hr] at h; simp [Res.err] at h
  · rintro ⟨names, cs, next, hw, hnd, hback⟩
    have hlen : names.length ≤ support.length :=
      nodup_subset_length names support hnd
        (fun n hn => hsup n (walk_names_present hw n hn))
    exact loop_reported fs env sw names cs next fuel hw hnd hback (by omega)

example : Config.load exFs exEnv (exSw b!"/loop.conf") 6 = Res.err "loop" := by decide

example : Revisits exFs (selectFile exFs exEnv (exSw b!"/loop.conf")) := by
  refine ⟨[b!"/loop.conf", b!"/loop2.conf"],
    [b!"CONFIGFILE = /loop2.conf\n", b!"configfile=/loop.conf\n"], b!"/loop.conf", ?_, by decide, by decide⟩
  refine Walk.cons (by decide) (by decide) (by decide) ?_
  refine Walk.cons (by decide) (by decide) (by decide) ?_
  exact Walk.nil

/-- `Load` terminates: with fuel = (number of names present in the file system) + 1 the
    chain walk never runs out of fuel, whatever the shape of the chain. -/
theorem load_terminates (fs : Fs) (env : Env) (sw : Switches) (support : List Bytes) (fuel : Nat)
    (hsup : ∀ n, fs n ≠ none → n ∈ support) (hfuel : support.length + 1 ≤ fuel) :
    Config.load fs env sw fuel ≠ Res.err "out-of-fuel" := by
  rw [load_eq_spec]
  unfold Spec.Precedence.load
  have hno := follow_fuel_suffices fs support hsup fuel (selectFile fs env sw) []
    List.nodup_nil (by simp) (by simpa using hfuel)
  cases hf : follow fs fuel (selectFile fs env sw) [] with
  | error f =>
    intro e
    dsimp only at e
    have hfe : f = Fault.err "out-of-fuel" := by simpa [Res.err] using e
    apply hno
    rw [hf, hfe]; rfl
  | ok cs =>
    simp only [resolve]
    cases hr : resolveFrom (raw { switchBase := sw.basepath, envBase := env.layerroot, files := cs }) with
    | error f =>
      have := resolveFrom_error _ f hr
      subst this
      simp [Res.err]
    | ok s => simp [Res.err]

example : Config.load exFs exEnv (exSw b!"/loop.conf") (exFiles.length + 1) ≠ Res.err "out-of-fuel" :=
  load_terminates exFs exEnv _ (exFiles.map Prod.fst) _ (fsOf_support exFiles) (by simp)

/-! ### 3. directory settings are absolute -/

/-- On success the base path, the layers directory, the exports directory and the chroot
    executable are absolute and clean (fixed points of `path.Clean`). -/
theorem dirs_clean_absolute (fs : Fs) (env : Env) (sw : Switches) (fuel : Nat) (c : ConfigType)
    (h : Config.load fs env sw fuel = .ok c) :
    (isAbs c.basepath = true ∧ pathClean c.basepath = c.basepath) ∧
    (isAbs c.layerdirs = true ∧ pathClean c.layerdirs = c.layerdirs) ∧
    (isAbs c.exportdirs = true ∧ pathClean c.exportdirs = c.exportdirs) ∧
    (isAbs c.chrootExec = true ∧ pathClean c.chrootExec = c.chrootExec) := by
  have fix : ∀ v : Bytes, CleanImage v → pathClean v = v := by
    rintro v ⟨x, rfl⟩; exact pathClean_idem x
  suffices hs :
      (isAbs c.basepath = true ∧ CleanImage c.basepath) ∧
      (isAbs c.layerdirs = true ∧ CleanImage c.layerdirs) ∧
      (isAbs c.exportdirs = true ∧ CleanImage c.exportdirs) ∧
      (isAbs c.chrootExec = true ∧ CleanImage c.chrootExec) by
    obtain ⟨⟨a1, b1⟩, ⟨a2, b2⟩, ⟨a3, b3⟩, ⟨a4, b4⟩⟩ := hs
    exact ⟨⟨a1, fix _ b1⟩, ⟨a2, fix _ b2⟩, ⟨a3, fix _ b3⟩, ⟨a4, fix _ b4⟩⟩
  rw [load_eq_spec] at h
  unfold Spec.Precedence.load at h
  cases hf : follow fs fuel (selectFile fs env sw) [] with
  | error f => rw [hf] at h; simp at h
  | ok cs =>
    rw [hf] at h
    simp only [resolve] at h
    cases hr : resolveFrom (raw { switchBase := sw.basepath, envBase := env.layerroot, files := cs }) with
    | error f => rw [hr] at h; simp at h
    | ok s =>
      rw [hr] at h
      have hc := (Except.ok.inj h).symm
      subst hc
      obtain ⟨h1, h2, h3, h4⟩ := resolve_dirs _ s hr
      refine ⟨h1, h2, h3, h4 ?_⟩
      -- the chroot path is never empty: its default is not
      have hraw := raw_ne_nil { switchBase := sw.basepath, envBase := env.layerroot, files := cs }
        .chrootexec (by decide)
      unfold resolveFrom at hr
      cases hb : effectiveBase (raw { switchBase := sw.basepath, envBase := env.layerroot, files := cs }) with
      | none => simp [hb, Res.err] at hr
      | some base =>
        simp only [hb] at hr
        split at hr
        · have hs := (Except.ok.inj hr).symm
          subst hs
          simp only [resolveKey, kind, hraw, if_false]
          by_cases ha : isAbs (pathClean (raw { switchBase := sw.basepath, envBase := env.layerroot, files := cs } .chrootexec)) = true
          · simp only [ha, if_true, Option.getD]
            exact pathClean_ne_nil _
          · rename_i hall
            simp [allKeys, resolveKey, kind, hraw, ha] at hall
        · simp [Res.err] at hr

example : (Config.load exFs exEnv (exSw b!"/a.conf") 6).map (·.layerdirs) = .ok b!"/srv/x/l" := by
  decide

/-! ### 4. unknown keys -/

/-- Unknown keys are errors: when the chain reaches — after any number of well-formed
    files — a file one of whose non-comment lines has a key that is not a setting name,
    `Load` fails with the unknown-key error, whatever the line's value is (empty, or no
    `=` at all, included). -/
theorem unknown_key_error (fs : Fs) (env : Env) (sw : Switches) (names contents : List Bytes)
    (bad c line : Bytes) (fuel : Nat)
    (hwalk : Walk fs (selectFile fs env sw) names contents bad) (hnd : names.Nodup)
    (hnew : bad ∉ names) (hne : bad ≠ []) (hfile : fs bad = some (.file c))
    (hline : line ∈ Mountinfo.scanLines c) (hnc : isSkipped line = false)
    (hunk : keyOfName (lineKey line) = none) (hfuel : names.length < fuel) :
    Config.load fs env sw fuel = Res.err "unknown-key" := by
  rw [load_eq_spec]
  unfold Spec.Precedence.load
  obtain ⟨k, rfl⟩ : ∃ k, fuel = names.length + (k + 1) := ⟨fuel - names.length - 1, by omega⟩
  rw [follow_walk hwalk [] (k + 1) hnd (by simp)]
  have hwf : wellFormed (assignments c) = false :=
    (wellFormed_false_iff _).mpr ⟨line, hline, hnc, hunk⟩
  have hmem : bad ∉ names.reverse ++ [] := by simp [hnew]
  conv => lhs; unfold follow
  simp [hne, hnew, hfile, hwf, Res.err]

example : Config.load exFs exEnv (exSw b!"/bad.conf") 6 = Res.err "unknown-key" := by decide

example : b!"BOGUS =" ∈ Mountinfo.scanLines b!"LAYERS=x\nBOGUS =\n" ∧ isSkipped b!"BOGUS =" = false ∧
    keyOfName (lineKey b!"BOGUS =") = none := by decide

end Lc.Props.C18
