/-
  C10 (a) — call-site facts regenerated from /repo's source on every run: no statement of
  packages fs, manage and cmd/layercake builds an error value and discards it, discards the
  result of a fallible fs primitive, or returns nil inside `if err != nil`.
-/
import Lc.Generated.Guards

namespace Lc.Props.C10Facts
open Lc.Generated

theorem no_dropped_errors : droppedErrors = [] := by decide

end Lc.Props.C10Facts
