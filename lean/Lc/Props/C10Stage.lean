/-
  C10 (stagemaker half): exit status 0 only if the complete output was written, for every
  sequence of writes and every byte limit.
-/
import Lc.Model.OutFault
import Lc.Lemmas.OutFault

namespace Lc.Props.C10Stage
open Lc.OutFault Lc.OutFaultLemmas

/-- success ⇔ everything fits -/
theorem emit_ok_iff (limit written : Nat) (chunks : List Nat) (hw : written ≤ limit) :
    (emit limit written chunks).isSome = true ↔ written + total chunks ≤ limit := by
  induction chunks generalizing written with
  | nil => simp [emit, total, hw]
  | cons c rest ih =>
    rw [total_cons]
    simp only [emit]
    split
    · rename_i h
      rw [ih (written + c) h]
      omega
    · rename_i h
      simp
      omega

/-- a successful run has written every byte of every chunk -/
theorem emit_ok_complete (limit written : Nat) (chunks : List Nat) (n : Nat)
    (h : emit limit written chunks = some n) : n = written + total chunks := by
  induction chunks generalizing written with
  | nil => simp [emit] at h; simp [total, h]
  | cons c rest ih =>
    simp only [emit] at h
    split at h
    · have := ih (written + c) h
      rw [total_cons]
      omega
    · simp at h

/-- for every limit below the size of the output the run fails: exit 0 ⇒ complete output -/
theorem short_output_fails (limit : Nat) (chunks : List Nat) (h : limit < total chunks) :
    emit limit 0 chunks = none := by
  cases hc : emit limit 0 chunks with
  | none => rfl
  | some n =>
    have h1 := (emit_ok_iff limit 0 chunks (Nat.zero_le _)).mp (by simp [hc])
    omega

/-- the unfixed code reported success with a truncated output (witness) -/
theorem unchecked_reports_success : emitUnchecked 0 0 [512, 1024] = some 0 := by decide

end Lc.Props.C10Stage
