/-
  C03 — unmount removes all of a layer's mounts, deepest first, and nothing else.

  Theorems over the command model (`unmountLayer`, `unmountCmd` of Lc/Model/Layers.lean) for
  EVERY configuration, `Defs`, layer name and world, on every exit.  `Emitted m w s`: the run
  of `m` from world `w` appended exactly the operations `s` to the trace.
  Master results in Lc/Lemmas/UmountTrace.lean: `unmountLayer_run` (status, returned `Defs`
  and trace of one layer: with the pretend switch nothing, without it exactly the unmount
  calls of `l.mounts` in reverse order, an error exit having issued an initial part),
  `unmountCmd_all_run` (the `-all` loop over `d.order.reverse`).
-/
import Lc.Lemmas.UmountTrace

namespace Lc.Props.C03
open Lc.SortByAux
open Lc Lc.Layers Lc.Mountinfo Lc.Trace Lc.UmountTrace

/-! ### what `getMountAndSubmounts` returns -/

/-- every listed mount sits on the path or below it (`path/…`) and is a mount of the table -/
theorem getMountAndSubmounts_inside (m : Mounts) (path : Bytes) (x : MountType)
    (hx : x ∈ getMountAndSubmounts m path) :
    x ∈ m.list ∧ (x.mountpoint = path ∨ hasPrefix x.mountpoint (path ++ [47]) = true) := by
  unfold getMountAndSubmounts at hx
  have := (mem_sortBy _ _ x).mp hx
  simp only [List.mem_filter, Bool.or_eq_true, beq_iff_eq] at this
  exact this

/-- every mount of the table on the path or below it is listed, as often as it occurs
    (stacked mounts are separate entries): the result is a permutation of the filtered table -/
theorem getMountAndSubmounts_complete (m : Mounts) (path : Bytes) :
    (getMountAndSubmounts m path).Perm
      (m.list.filter fun x => x.mountpoint == path || hasPrefix x.mountpoint (path ++ [47])) := by
  unfold getMountAndSubmounts
  exact sortBy_perm _ _

/-- sorted by mountpoint, non-strictly (stacked mounts repeat a mountpoint) -/
theorem getMountAndSubmounts_sorted (m : Mounts) (path : Bytes) :
    (getMountAndSubmounts m path).Pairwise (fun a b => bytesLt b.mountpoint a.mountpoint = false) := by
  unfold getMountAndSubmounts
  exact sortBy_sorted (fun a b : MountType => bytesLt a.mountpoint b.mountpoint)
    (fun a => bytesLt_irrefl _) (fun a b c h1 h2 => bytesLt_trans h1 h2) _

/-- `later` is a proper extension of `earlier` (as a byte string; a mount beneath
    `earlier` has mountpoint `earlier ++ "/" ++ …`) -/
def ProperExt (earlier later : Bytes) : Prop := ∃ s, s ≠ [] ∧ later = earlier ++ s

/-- **umount_leaf_order (list form)**: in the issue order of a layer whose `mounts` field
    was filled by `getMountAndSubmounts`, no later target properly extends an earlier one:
    when a target is unmounted every listed mount beneath it has already been unmounted. -/
theorem issueOrder_children_first (l : Layer) (m : Mounts) (path : Bytes)
    (hm : l.mounts = getMountAndSubmounts m path) :
    (issueOrder l).Pairwise (fun earlier later => ¬ ProperExt earlier later) := by
  unfold issueOrder
  rw [List.pairwise_map, List.pairwise_reverse, hm]
  refine List.Pairwise.imp ?_ (getMountAndSubmounts_sorted m path)
  intro a b hab ⟨s, hs, he⟩
  -- a before b in the sorted list: ¬ b < a; in issue order b is earlier, a later
  have := prefix_lt b.mountpoint s hs
  rw [← he] at this
  rw [this] at hab
  cases hab

/-! ### one layer -/

/-- **umount_targets_inside**: `unmountLayer` issues nothing but unmount calls, each on the
    mountpoint of an entry of the named layer's `mounts` list; when that list was filled by
    `getMountAndSubmounts m (buildPath l)` every target is the layer's build path or lies
    below it (`buildPath l ++ "/" ++ …`) — for the named layer only — and is a mountpoint
    of the table `m`. -/
theorem umount_targets_inside (cfg : Config) (d : Defs) (name : Bytes) (w : World) (s : List Op)
    (h : Emitted (unmountLayer cfg d name) w s) :
    s = [] ∨ ∃ l, findLayer d name = some l ∧ isBusy l false = false ∧
      ∀ op ∈ s, ∃ t fl, op = Op.umount t fl ∧ (∃ x ∈ l.mounts, x.mountpoint = t) ∧
        ∀ m, l.mounts = getMountAndSubmounts m (buildPath cfg l) →
          (t = buildPath cfg l ∨ hasPrefix t (buildPath cfg l ++ [47]) = true) ∧
          ∃ x ∈ m.list, x.mountpoint = t := by
  obtain ⟨s0, he, _, hN, hE⟩ := unmountLayer_run cfg d name w
  have := h.unique he
  subst this
  have key : ∀ l pre rest, issueOrder l = pre ++ rest → UmountsOf pre s →
      ∀ op ∈ s, ∃ t fl, op = Op.umount t fl ∧ (∃ x ∈ l.mounts, x.mountpoint = t) ∧
        ∀ m, l.mounts = getMountAndSubmounts m (buildPath cfg l) →
          (t = buildPath cfg l ∨ hasPrefix t (buildPath cfg l ++ [47]) = true) ∧
          ∃ x ∈ m.list, x.mountpoint = t := by
    intro l pre rest hio hu op hop
    obtain ⟨t, fl, ho, ht⟩ := hu.only op hop
    have ht2 : t ∈ issueOrder l := by rw [hio]; exact List.mem_append.mpr (.inl ht)
    unfold issueOrder at ht2
    obtain ⟨x, hx, hxt⟩ := List.mem_map.mp ht2
    have hx' : x ∈ l.mounts := List.mem_reverse.mp hx
    refine ⟨t, fl, ho, ⟨x, hx', hxt⟩, ?_⟩
    intro m hm
    rw [hm] at hx'
    obtain ⟨h1, h2⟩ := getMountAndSubmounts_inside m _ x hx'
    rw [hxt] at h2
    exact ⟨h2, x, h1, hxt⟩
  generalize hr : ((unmountLayer cfg d name).run.run w).1 = r at hN hE
  cases r with
  | ok a =>
    obtain ⟨l, hl, hc⟩ := hN a rfl
    rcases hc with ⟨_, _, hs, _⟩ | ⟨_, _, _, hs, _⟩ | ⟨_, hb, _, hs⟩
    · exact .inl hs
    · exact .inl hs
    · rcases hs with ⟨_, hs⟩ | ⟨_, hs⟩
      · exact .inl hs
      · exact .inr ⟨l, hl, hb, key l _ [] (by simp) hs⟩
  | error e =>
    rcases hE e rfl with hs | ⟨l, hl, hb, _, pre, rest, hio, hs⟩
    · exact .inl hs
    · exact .inr ⟨l, hl, hb, key l pre rest hio hs⟩

/-- **umount_leaf_order**: without the pretend switch, the unmount calls of `unmountLayer`
    are issued exactly in the order `l.mounts.reverse` (an error exit stops somewhere in it),
    and — the list having been filled by `getMountAndSubmounts` — no target issued later lies
    beneath (properly extends) a target issued earlier. -/
theorem umount_leaf_order (cfg : Config) (d : Defs) (name : Bytes) (w : World) (s : List Op)
    (hp : w.pretend = false) (h : Emitted (unmountLayer cfg d name) w s)
    (l : Layer) (hl : findLayer d name = some l) (m : Mounts) (path : Bytes)
    (hm : l.mounts = getMountAndSubmounts m path) :
    (∃ pre rest, issueOrder l = pre ++ rest ∧ UmountsOf pre s ∧
      (∀ d', ((unmountLayer cfg d name).run.run w).1 = .ok (.ok, d') → rest = [])) ∧
    (issueOrder l).Pairwise (fun earlier later => ¬ ProperExt earlier later) := by
  refine ⟨?_, issueOrder_children_first l m path hm⟩
  obtain ⟨s0, he, _, hN, hE⟩ := unmountLayer_run cfg d name w
  have := h.unique he
  subst this
  rw [hp] at hN hE
  generalize hr : ((unmountLayer cfg d name).run.run w).1 = r at hN hE
  cases r with
  | ok a =>
    obtain ⟨l', hl', hc⟩ := hN a rfl
    rw [hl] at hl'; cases hl'
    rcases hc with ⟨hst, _, hs, _⟩ | ⟨hst, _, _, hs, _⟩ | ⟨_, _, _, hs⟩
    · refine ⟨[], _, rfl, by rw [hs]; exact UmountsOf.nil, ?_⟩
      intro d' hd; cases hd; cases hst
    · refine ⟨[], _, rfl, by rw [hs]; exact UmountsOf.nil, ?_⟩
      intro d' hd; cases hd; cases hst
    · rcases hs with ⟨hpt, _⟩ | ⟨_, hs⟩
      · cases hpt
      · exact ⟨_, [], by simp, hs, fun _ _ => rfl⟩
  | error e =>
    rcases hE e rfl with hs | ⟨l', hl', _, _, pre, rest, hio, hs⟩
    · exact ⟨[], _, rfl, by rw [hs]; exact UmountsOf.nil, fun _ hd => by cases hd⟩
    · rw [hl] at hl'; cases hl'
      exact ⟨pre, rest, hio, hs, fun _ hd => by cases hd⟩

/-! ### argument errors -/

/-- **umount_noargs_fails**: neither a layer nor `-all`: an error, and the world (file system,
    mount table, trace, fault counter) is exactly as before -/
theorem umount_noargs_fails (cfg : Config) (d : Defs) (w : World) :
    (unmountCmd cfg d [] false).run.run w = (.error (.err "needarg"), w) := rfl

/-- **umount_both_fails**: a layer name together with `-all`: an error, world unchanged -/
theorem umount_both_fails (cfg : Config) (d : Defs) (name : Bytes) (hn : name ≠ []) (w : World) :
    (unmountCmd cfg d name true).run.run w = (.error (.err "both"), w) := by
  cases name with
  | nil => exact absurd rfl hn
  | cons c cs => rfl

/-! ### busy layers -/

/-- **umount_all_skips_busy (one layer)**: a busy layer is reported and left alone — status
    `busy`, same `Defs`, same world -/
theorem unmountLayer_busy_noop (cfg : Config) (d : Defs) (name : Bytes) (l : Layer) (w : World)
    (hl : findLayer d name = some l) (hb : isBusy l false = true) :
    (unmountLayer cfg d name).run.run w = (.ok (.busy, d), w) := by
  unfold unmountLayer getL
  rw [hl]
  simp [hb]
  rfl

/-- the status is `busy` exactly for a busy layer; otherwise `notMounted` / `ok` by the list -/
theorem unmountLayer_status (cfg : Config) (d : Defs) (name : Bytes) (w : World) (st : UStatus) (d' : Defs)
    (h : ((unmountLayer cfg d name).run.run w).1 = .ok (st, d')) :
    ∃ l, findLayer d name = some l ∧ (st = .busy ↔ isBusy l false = true) ∧
      (st = .notMounted ↔ (isBusy l false = false ∧ l.mounts.length = 0)) := by
  obtain ⟨s, _, _, hN, _⟩ := unmountLayer_run cfg d name w
  obtain ⟨l, hl, hc⟩ := hN (st, d') h
  refine ⟨l, hl, ?_⟩
  rcases hc with ⟨hst, hb, _⟩ | ⟨hst, hb, hm, _⟩ | ⟨hst, hb, hm, _⟩
  · simp only at hst; subst hst; simp [hb]
  · simp only at hst; subst hst; simp [hb, hm]
  · simp only at hst; subst hst; simp [hb, hm]

/-! ### `umount -all` -/

/-- generic: the segment of an element precedes the segments of everything after it -/
theorem FoldOk.split {σ ι : Type} {Seg : σ → ι → List Op → σ → Prop} :
    ∀ (a : List ι) (c : ι) (b : List ι) (acc acc' : σ) (s : List Op),
    FoldOk Seg acc (a ++ c :: b) s acc' →
    ∃ sa sc sb acc1 acc2, s = sa ++ sc ++ sb ∧ FoldOk Seg acc a sa acc1 ∧ Seg acc1 c sc acc2 ∧
      FoldOk Seg acc2 b sb acc' := by
  intro a
  induction a with
  | nil =>
    intro c b acc acc' s h
    cases h with
    | cons hseg hrest => exact ⟨[], _, _, acc, _, by simp, FoldOk.nil acc, hseg, hrest⟩
  | cons x a ih =>
    intro c b acc acc' s h
    cases h with
    | cons hseg hrest =>
      obtain ⟨sa, sc, sb, acc1, acc2, hs, h1, h2, h3⟩ := ih c b _ acc' _ hrest
      exact ⟨_ ++ sa, sc, sb, acc1, acc2, by rw [hs]; simp [List.append_assoc], FoldOk.cons hseg h1, h2, h3⟩

/-- in `d.order` every layer's base occurs before the layer (what `normalizeOrder`
    guarantees: `ancestor_precedes`, Props/C02) -/
def ParentsFirst (d : Defs) : Prop :=
  ∀ l1 c l2, d.order = l1 ++ c :: l2 → ∀ lc, findLayer d c = some lc → lc.base.length > 0 → lc.base ∈ l1

/-- **umount_all_children_first**: `umount -all` goes through `d.order.reverse`, one segment
    per layer in this order (`unmountCmd_all_run`); under `ParentsFirst` the base of every
    derived layer comes later in that order, so by `FoldOk.split` all unmounts of a derived
    layer precede those of the layers it sits on. -/
theorem umount_all_children_first (cfg : Config) (d : Defs) (w : World) (hpf : ParentsFirst d) :
    (∃ s, Emitted (unmountCmd cfg d [] true) w s ∧
      (∀ d', ((unmountCmd cfg d [] true).run.run w).1 = .ok d' →
        FoldOk (AllSeg w.pretend) (d, false) d.order.reverse s (d', false)) ∧
      (∀ e, ((unmountCmd cfg d [] true).run.run w).1 = .error e →
        (e = .err "busylayers" ∧ ∃ d', FoldOk (AllSeg w.pretend) (d, false) d.order.reverse s (d', true)) ∨
        FoldErr (AllSeg w.pretend) (AllSegE w.pretend) (d, false) d.order.reverse s)) ∧
    (∀ a c b, d.order.reverse = a ++ c :: b → ∀ lc, findLayer d c = some lc → lc.base.length > 0 →
      lc.base ∈ b) := by
  refine ⟨unmountCmd_all_run cfg d w, ?_⟩
  intro a c b hrev lc hlc hb
  have : d.order = b.reverse ++ c :: a.reverse := by
    have := congrArg List.reverse hrev
    simpa using this
  have := hpf _ _ _ this lc hlc hb
  exact List.mem_reverse.mp this

/-- the busy flag, once up, stays up -/
theorem flag_mono {p : Bool} : ∀ (xs : List Bytes) (d0 d' : Defs) (b' : Bool) (s : List Op),
    FoldOk (AllSeg p) (d0, true) xs s (d', b') → b' = true := by
  intro xs
  induction xs with
  | nil => intro d0 d' b' s h; cases h; rfl
  | cons x xs ih =>
    intro d0 d' b' s h
    cases h with
    | cons hseg hrest =>
      rename_i acc1 _ _
      obtain ⟨st, _, hflag⟩ := hseg
      obtain ⟨d1, b1⟩ := acc1
      simp only [Bool.true_or] at hflag
      subst hflag
      exact ih d1 d' b' _ hrest

/-- **umount_all_skips_busy (success)**: if the loop ends with the flag down, no layer was busy
    at its turn: every step had an idle layer (status `notMounted` or `ok`) -/
theorem all_success_all_idle {p : Bool} : ∀ (xs : List Bytes) (d0 d' : Defs) (s : List Op),
    FoldOk (AllSeg p) (d0, false) xs s (d', false) →
    FoldOk (fun acc n seg acc' => AllSeg p acc n seg acc' ∧
      ∃ l, findLayer acc.1 n = some l ∧ isBusy l false = false) (d0, false) xs s (d', false) := by
  intro xs
  induction xs with
  | nil => intro d0 d' s h; cases h; exact FoldOk.nil _
  | cons x xs ih =>
    intro d0 d' s h
    cases h with
    | cons hseg hrest =>
      rename_i acc1 _ _
      obtain ⟨d1, b1⟩ := acc1
      have hseg' := hseg
      obtain ⟨st, ⟨l, hl, hc⟩, hflag⟩ := hseg
      simp only [Bool.false_or] at hflag
      cases b1 with
      | true => have := flag_mono xs d1 d' false _ hrest; cases this
      | false =>
        refine FoldOk.cons ⟨hseg', l, hl, ?_⟩ (ih d1 d' _ hrest)
        rcases hc with ⟨hst, _⟩ | ⟨_, hb, _⟩ | ⟨_, hb, _⟩
        · subst hst; exact absurd hflag (by decide)
        · exact hb
        · exact hb

/-- **umount_all_skips_busy (failure "busylayers")**: if the loop ends with the flag up some
    layer was busy at its turn — it was skipped (empty segment, `Defs` unchanged) and the loop
    went on with the remaining layers (the `FoldOk` covers the whole list) -/
theorem all_busy_some_busy {p : Bool} : ∀ (xs : List Bytes) (d0 d' : Defs) (s : List Op),
    FoldOk (AllSeg p) (d0, false) xs s (d', true) →
    ∃ n ∈ xs, ∃ dn l, findLayer dn n = some l ∧ isBusy l false = true := by
  intro xs
  induction xs with
  | nil => intro d0 d' s h; cases h
  | cons x xs ih =>
    intro d0 d' s h
    cases h with
    | cons hseg hrest =>
      rename_i acc1 _ _
      obtain ⟨d1, b1⟩ := acc1
      obtain ⟨st, ⟨l, hl, hc⟩, hflag⟩ := hseg
      simp only [Bool.false_or] at hflag
      cases b1 with
      | true =>
        rcases hc with ⟨_, hb, _⟩ | ⟨hst, _⟩ | ⟨hst, _⟩
        · exact ⟨x, List.mem_cons_self, d0, l, hl, hb⟩
        · subst hst; exact absurd hflag (by decide)
        · subst hst; exact absurd hflag (by decide)
      | false =>
        obtain ⟨n, hn, dn, l', hl', hb'⟩ := ih d1 d' _ hrest
        exact ⟨n, List.mem_cons_of_mem _ hn, dn, l', hl', hb'⟩

/-- **umount_all_skips_busy (result)**: `umount -all` fails with "busylayers" exactly when the
    loop went through all layers and at least one was busy; it succeeds exactly when the loop
    went through all layers and none was busy; any other failure is that of an unmount call. -/
theorem umount_all_skips_busy (cfg : Config) (d : Defs) (w : World) :
    ∃ s, Emitted (unmountCmd cfg d [] true) w s ∧
      (∀ d', ((unmountCmd cfg d [] true).run.run w).1 = .ok d' →
        FoldOk (fun acc n seg acc' => AllSeg w.pretend acc n seg acc' ∧
          ∃ l, findLayer acc.1 n = some l ∧ isBusy l false = false) (d, false) d.order.reverse s (d', false)) ∧
      (((unmountCmd cfg d [] true).run.run w).1 = .error (.err "busylayers") →
        (∃ d', FoldOk (AllSeg w.pretend) (d, false) d.order.reverse s (d', true)) ∧
        (∃ n ∈ d.order.reverse, ∃ dn l, findLayer dn n = some l ∧ isBusy l false = true) ∨
        FoldErr (AllSeg w.pretend) (AllSegE w.pretend) (d, false) d.order.reverse s) := by
  obtain ⟨s, he, hN, hE⟩ := unmountCmd_all_run cfg d w
  refine ⟨s, he, ?_, ?_⟩
  · intro d' hd
    exact all_success_all_idle _ d d' s (hN d' hd)
  · intro herr
    rcases hE _ herr with ⟨_, d', hf⟩ | hf
    · exact .inl ⟨⟨d', hf⟩, all_busy_some_busy _ d d' s hf⟩
    · exact .inr hf

/-! ### non-vacuity -/

namespace Example
def cfg0 : Config := { basepath := b!"/b", layerdirs := b!"/b/L", buildRoot := b!"build", binPkg := b!"pk", generated := b!"gen", workdir := b!"work", upperdir := b!"upper", exportdirs := b!"/b/E", exportBinPkg := b!"p", exportGenerated := b!"g" }
/-- cached table: overlay on the build path, a mount beneath it, and a foreign mount whose
    path merely starts with the same bytes (`/b/L/xy`) -/
def m1 : Mounts := { list := [⟨b!"devtmpfs", b!"/b/L/x/build/dev", [], [], b!"devtmpfs", [], false, b!"0:5", [47]⟩, ⟨b!"overlay", b!"/b/L/x/build", [], [], b!"overlay", [], false, b!"0:9", [47]⟩, ⟨b!"x", b!"/b/L/xy", [], [], b!"tmpfs", [], false, b!"0:7", [47]⟩] }
def lm : Layer := { name := b!"x", layerPath := b!"/b/L/x", state := S_mounted, mounts := getMountAndSubmounts m1 b!"/b/L/x/build" }
def d1 : Defs := { layers := [lm], order := [b!"x"] }
def w1 : World := { faultAt := some 2 }

example : lm.mounts = getMountAndSubmounts m1 (buildPath cfg0 lm) := by rfl
/-- deepest first, the foreign mount is not touched -/
example : issueOrder lm = [b!"/b/L/x/build/dev", b!"/b/L/x/build"] := by rfl
/-- a real run of the model issues the first of them (and is then stopped by the kernel
    model, nothing being mounted in `w1`) -/
example : Emitted (unmountLayer cfg0 d1 b!"x") w1 [.umount b!"/b/L/x/build/dev" 0] := by
  unfold Emitted; rfl
example : findLayer d1 b!"x" = some lm ∧ isBusy lm false = false := ⟨rfl, rfl⟩
example : ParentsFirst d1 := by
  intro l1 c l2 h lc hlc hb
  have hc : c = b!"x" := by
    cases l1 with
    | nil => simp [d1] at h; exact h.1.symm
    | cons y ys => cases ys <;> simp [d1] at h
  subst hc
  have : lc = lm := by
    have h2 : findLayer d1 b!"x" = some lm := rfl
    rw [h2] at hlc; cases hlc; rfl
  subst this
  exact absurd hb (by decide)
end Example

end Lc.Props.C03
