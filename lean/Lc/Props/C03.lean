/-
  C03 — unmount removes all of a layer's mounts, deepest first, and nothing else.

  Theorems over the command model (`unmountLayer`, `unmountCmd` of Lc/Model/Layers.lean) for
  EVERY configuration, `Defs`, layer name and world, on every exit.  `Emitted m w s`: the run
  of `m` from world `w` appended exactly the operations `s` to the trace.
  Master results in Lc/Lemmas/UmountTrace.lean: `unmountLayer_run` (status, returned `Defs`
  and trace of one layer: with the pretend switch nothing, without it exactly the unmount
  calls of `l.mounts` in reverse order, an error exit having issued an initial part),
  `unmountCmd_all_run` (the `-all` loop over `d.order.reverse`).
-/
import Lc.Lemmas.UmountTrace
import Lc.Lemmas.UmountState
import Lc.Lemmas.TreeOrder
import Lc.Lemmas.KernelProbe
import Lc.Lemmas.RunM
import Lc.Lemmas.Probe
import Lc.Lemmas.TreeGlue
import Lc.Props.C12

namespace Lc.Props.C03
open Lc.SortByAux
open Lc Lc.Layers Lc.Mountinfo Lc.Trace Lc.UmountTrace Lc.Kernel Lc.KernelUmount Lc.UmountState Lc.KernelResolve
open Lc.TreeOrder (NoCovered)
open Lc.TreeUmount (TreeS ClosedRegion)

/-! ### what `getMountAndSubmounts` returns -/

/-- every listed mount sits on the path or below it (`path/…`) and is a mount of the table -/
theorem getMountAndSubmounts_inside (m : Mounts) (path : Bytes) (x : MountType)
    (hx : x ∈ getMountAndSubmounts m path) :
    x ∈ m.list ∧ (x.mountpoint = path ∨ hasPrefix x.mountpoint (path ++ [47]) = true) :=
  (TreeOrder.mem_getMountAndSubmounts m path x).mp hx

/-- every mount of the table on the path or below it is listed, as often as it occurs
    (stacked mounts are separate entries): the result is a permutation of the filtered table -/
theorem getMountAndSubmounts_complete (m : Mounts) (path : Bytes) :
    (getMountAndSubmounts m path).Perm
      (m.list.filter fun x => x.mountpoint == path || hasPrefix x.mountpoint (path ++ [47])) :=
  TreeOrder.getMountAndSubmounts_perm_region m path

/-- the mounts at/below the path, sorted by mountpoint: what `GetMountAndSubmounts` returned
    before fix e546b99, and still returns when no listed mount covers a listed sibling -/
def pathSorted (m : Mounts) (path : Bytes) : List MountType := TreeOrder.sortedRegion m path

/-- **getMountAndSubmounts_perm**: in every case — also when the list is re-ordered along the
    mount tree — a permutation of the path-sorted list -/
theorem getMountAndSubmounts_perm (m : Mounts) (path : Bytes) :
    (getMountAndSubmounts m path).Perm (pathSorted m path) :=
  TreeOrder.getMountAndSubmounts_perm_sorted m path

/-- `NoCovered m path` (Lemmas/TreeOrder): no mount listed at/below `path` covers another one
    (`Mountinfo.covers a b`: same parent id, `b`'s mountpoint below `a`'s).  Then the list is
    the path-sorted one; always so when the entries carry no ids. -/
theorem getMountAndSubmounts_pathSorted (m : Mounts) (path : Bytes) (hnc : NoCovered m path) :
    getMountAndSubmounts m path = pathSorted m path :=
  TreeOrder.getMountAndSubmounts_noCovered m path hnc

/-- nothing covered: sorted by mountpoint, non-strictly (stacked mounts repeat a mountpoint) -/
theorem getMountAndSubmounts_sorted (m : Mounts) (path : Bytes) (hnc : NoCovered m path) :
    (getMountAndSubmounts m path).Pairwise (fun a b => bytesLt b.mountpoint a.mountpoint = false) := by
  rw [getMountAndSubmounts_pathSorted m path hnc]
  exact Lc.SortByAux.sortBy_sorted (fun a b : MountType => bytesLt a.mountpoint b.mountpoint)
    (fun a => bytesLt_irrefl _) (fun a b c h1 h2 => bytesLt_trans h1 h2) _

/-- **treeOrder_parent_first**: when the list is re-ordered along the mount tree, every mount
    still precedes the mounts hanging below it (nothing listed after an entry has the id that is
    the entry's parent id), provided this is so in the path-sorted list (it is when a child's
    mountpoint extends its parent's), ids are unique and nobody is its own parent -/
theorem treeOrder_parent_first (l : List MountType) (hnd : (l.map (·.id)).Nodup)
    (hns : ∀ x ∈ l, x.id ≠ x.parent) (hl : l.Pairwise (fun x y => y.id ≠ x.parent)) :
    (inTreeOrder l).Pairwise (fun x y => y.id ≠ x.parent) :=
  TreeOrder.inTreeOrder_parent_first l hnd hns hl

/-- **treeOrder_covered_first**: … and a covered mount precedes the mount that covers it, so that
    going through the list from its end the covering mount is unmounted first.  (That the
    submounts of the covered mount precede the covering one as well is not proved in general; it
    is evaluated on the witness `umount_hidden_submount_fixed_witness` and judged by the oracle.) -/
theorem treeOrder_covered_first (pre rest : List MountType) (a b : MountType) (ha : a ∈ pre)
    (hc : covers a b = true) : [b, a].Sublist (inTreeOrder (pre ++ b :: rest)) :=
  TreeOrder.inTreeOrder_covered_first pre rest a b ha hc

/-- `later` is a proper extension of `earlier` (as a byte string; a mount beneath
    `earlier` has mountpoint `earlier ++ "/" ++ …`) -/
def ProperExt (earlier later : Bytes) : Prop := ∃ s, s ≠ [] ∧ later = earlier ++ s

/-- **umount_leaf_order (list form)**: in the issue order of a layer whose `mounts` field
    was filled by `getMountAndSubmounts` from a table in which nothing listed is covered, no
    later target properly extends an earlier one: when a target is unmounted every listed mount
    beneath it has already been unmounted. -/
theorem issueOrder_children_first (l : Layer) (m : Mounts) (path : Bytes)
    (hm : l.mounts = getMountAndSubmounts m path) (hnc : NoCovered m path) :
    (issueOrder l).Pairwise (fun earlier later => ¬ ProperExt earlier later) := by
  unfold issueOrder
  rw [List.pairwise_map, List.pairwise_reverse, hm]
  refine List.Pairwise.imp ?_ (getMountAndSubmounts_sorted m path hnc)
  intro a b hab ⟨s, hs, he⟩
  -- a before b in the sorted list: ¬ b < a; in issue order b is earlier, a later
  have := prefix_lt b.mountpoint s hs
  rw [← he] at this
  rw [this] at hab
  cases hab

/-! ### one layer -/

/-- **umount_targets_inside**: `unmountLayer` issues nothing but unmount calls, each on the
    mountpoint of an entry of the named layer's `mounts` list; when that list was filled by
    `getMountAndSubmounts m (buildPath l)` every target is the layer's build path or lies
    below it (`buildPath l ++ "/" ++ …`) — for the named layer only — and is a mountpoint
    of the table `m`. -/
theorem umount_targets_inside (cfg : Config) (d : Defs) (name : Bytes) (w : World) (s : List Op)
    (h : Emitted (unmountLayer cfg d name) w s) :
    s = [] ∨ ∃ l, findLayer d name = some l ∧ isBusy l false = false ∧
      ∀ op ∈ s, ∃ t fl, op = Op.umount t fl ∧ (∃ x ∈ l.mounts, x.mountpoint = t) ∧
        ∀ m, l.mounts = getMountAndSubmounts m (buildPath cfg l) →
          (t = buildPath cfg l ∨ hasPrefix t (buildPath cfg l ++ [47]) = true) ∧
          ∃ x ∈ m.list, x.mountpoint = t := by
  obtain ⟨s0, he, _, hN, hE⟩ := unmountLayer_run cfg d name w
  have := h.unique he
  subst this
  have key : ∀ l pre rest, issueOrder l = pre ++ rest → UmountsOf pre s →
      ∀ op ∈ s, ∃ t fl, op = Op.umount t fl ∧ (∃ x ∈ l.mounts, x.mountpoint = t) ∧
        ∀ m, l.mounts = getMountAndSubmounts m (buildPath cfg l) →
          (t = buildPath cfg l ∨ hasPrefix t (buildPath cfg l ++ [47]) = true) ∧
          ∃ x ∈ m.list, x.mountpoint = t := by
    intro l pre rest hio hu op hop
    obtain ⟨t, fl, ho, ht⟩ := hu.only op hop
    have ht2 : t ∈ issueOrder l := by rw [hio]; exact List.mem_append.mpr (.inl ht)
    unfold issueOrder at ht2
    obtain ⟨x, hx, hxt⟩ := List.mem_map.mp ht2
    have hx' : x ∈ l.mounts := List.mem_reverse.mp hx
    refine ⟨t, fl, ho, ⟨x, hx', hxt⟩, ?_⟩
    intro m hm
    rw [hm] at hx'
    obtain ⟨h1, h2⟩ := getMountAndSubmounts_inside m _ x hx'
    rw [hxt] at h2
    exact ⟨h2, x, h1, hxt⟩
  generalize hr : ((unmountLayer cfg d name).run.run w).1 = r at hN hE
  cases r with
  | ok a =>
    obtain ⟨l, hl, hc⟩ := hN a rfl
    rcases hc with ⟨_, _, hs, _⟩ | ⟨_, _, _, hs, _⟩ | ⟨_, hb, _, hs⟩
    · exact .inl hs
    · exact .inl hs
    · rcases hs with ⟨_, hs⟩ | ⟨_, hs⟩
      · exact .inl hs
      · exact .inr ⟨l, hl, hb, key l _ [] (by simp) hs⟩
  | error e =>
    rcases hE e rfl with hs | ⟨l, hl, hb, _, pre, rest, hio, hs⟩
    · exact .inl hs
    · exact .inr ⟨l, hl, hb, key l pre rest hio hs⟩

/-- **umount_leaf_order**: without the pretend switch, the unmount calls of `unmountLayer`
    are issued exactly in the order `l.mounts.reverse` (an error exit stops somewhere in it),
    and — the list having been filled by `getMountAndSubmounts` from a table in which nothing
    listed is covered (`NoCovered`; otherwise the list follows the mount tree) — no target issued
    later lies beneath (properly extends) a target issued earlier. -/
theorem umount_leaf_order (cfg : Config) (d : Defs) (name : Bytes) (w : World) (s : List Op)
    (hp : w.pretend = false) (h : Emitted (unmountLayer cfg d name) w s)
    (l : Layer) (hl : findLayer d name = some l) (m : Mounts) (path : Bytes)
    (hm : l.mounts = getMountAndSubmounts m path) (hnc : NoCovered m path) :
    (∃ pre rest, issueOrder l = pre ++ rest ∧ UmountsOf pre s ∧
      (∀ d', ((unmountLayer cfg d name).run.run w).1 = .ok (.ok, d') → rest = [])) ∧
    (issueOrder l).Pairwise (fun earlier later => ¬ ProperExt earlier later) := by
  refine ⟨?_, issueOrder_children_first l m path hm hnc⟩
  obtain ⟨s0, he, _, hN, hE⟩ := unmountLayer_run cfg d name w
  have := h.unique he
  subst this
  rw [hp] at hN hE
  generalize hr : ((unmountLayer cfg d name).run.run w).1 = r at hN hE
  cases r with
  | ok a =>
    obtain ⟨l', hl', hc⟩ := hN a rfl
    rw [hl] at hl'; cases hl'
    rcases hc with ⟨hst, _, hs, _⟩ | ⟨hst, _, _, hs, _⟩ | ⟨_, _, _, hs⟩
    · refine ⟨[], _, rfl, by rw [hs]; exact UmountsOf.nil, ?_⟩
      intro d' hd; cases hd; cases hst
    · refine ⟨[], _, rfl, by rw [hs]; exact UmountsOf.nil, ?_⟩
      intro d' hd; cases hd; cases hst
    · rcases hs with ⟨hpt, _⟩ | ⟨_, hs⟩
      · cases hpt
      · exact ⟨_, [], by simp, hs, fun _ _ => rfl⟩
  | error e =>
    rcases hE e rfl with hs | ⟨l', hl', _, _, pre, rest, hio, hs⟩
    · exact ⟨[], _, rfl, by rw [hs]; exact UmountsOf.nil, fun _ hd => by cases hd⟩
    · rw [hl] at hl'; cases hl'
      exact ⟨pre, rest, hio, hs, fun _ hd => by cases hd⟩

/-! ### argument errors -/

/-- **umount_noargs_fails**: neither a layer nor `-all`: an error, and the world (file system,
    mount table, trace, fault counter) is exactly as before -/
theorem umount_noargs_fails (cfg : Config) (d : Defs) (w : World) :
    (unmountCmd cfg d [] false).run.run w = (.error (.err "needarg"), w) := rfl

/-- **umount_both_fails**: a layer name together with `-all`: an error, world unchanged -/
theorem umount_both_fails (cfg : Config) (d : Defs) (name : Bytes) (hn : name ≠ []) (w : World) :
    (unmountCmd cfg d name true).run.run w = (.error (.err "both"), w) := by
  cases name with
  | nil => exact absurd rfl hn
  | cons c cs => rfl

/-! ### busy layers -/

/-- **umount_all_skips_busy (one layer)**: a busy layer is reported and left alone — status
    `busy`, same `Defs`, same world -/
theorem unmountLayer_busy_noop (cfg : Config) (d : Defs) (name : Bytes) (l : Layer) (w : World)
    (hl : findLayer d name = some l) (hb : isBusy l false = true) :
    (unmountLayer cfg d name).run.run w = (.ok (.busy, d), w) := by
  unfold unmountLayer getL
  rw [hl]
  simp [hb]
  rfl

/-- the status is `busy` exactly for a busy layer; otherwise `notMounted` / `ok` by the list -/
theorem unmountLayer_status (cfg : Config) (d : Defs) (name : Bytes) (w : World) (st : UStatus) (d' : Defs)
    (h : ((unmountLayer cfg d name).run.run w).1 = .ok (st, d')) :
    ∃ l, findLayer d name = some l ∧ (st = .busy ↔ isBusy l false = true) ∧
      (st = .notMounted ↔ (isBusy l false = false ∧ l.mounts.length = 0)) := by
  obtain ⟨s, _, _, hN, _⟩ := unmountLayer_run cfg d name w
  obtain ⟨l, hl, hc⟩ := hN (st, d') h
  refine ⟨l, hl, ?_⟩
  rcases hc with ⟨hst, hb, _⟩ | ⟨hst, hb, hm, _⟩ | ⟨hst, hb, hm, _⟩
  · simp only at hst; subst hst; simp [hb]
  · simp only at hst; subst hst; simp [hb, hm]
  · simp only at hst; subst hst; simp [hb, hm]

/-! ### `umount -all` -/

/-- generic: the segment of an element precedes the segments of everything after it -/
theorem FoldOk.split {σ ι : Type} {Seg : σ → ι → List Op → σ → Prop} :
    ∀ (a : List ι) (c : ι) (b : List ι) (acc acc' : σ) (s : List Op),
    FoldOk Seg acc (a ++ c :: b) s acc' →
    ∃ sa sc sb acc1 acc2, s = sa ++ sc ++ sb ∧ FoldOk Seg acc a sa acc1 ∧ Seg acc1 c sc acc2 ∧
      FoldOk Seg acc2 b sb acc' := by
  intro a
  induction a with
  | nil =>
    intro c b acc acc' s h
    cases h with
    | cons hseg hrest => exact ⟨[], _, _, acc, _, by simp, FoldOk.nil acc, hseg, hrest⟩
  | cons x a ih =>
    intro c b acc acc' s h
    cases h with
    | cons hseg hrest =>
      obtain ⟨sa, sc, sb, acc1, acc2, hs, h1, h2, h3⟩ := ih c b _ acc' _ hrest
      exact ⟨_ ++ sa, sc, sb, acc1, acc2, by rw [hs]; simp [List.append_assoc], FoldOk.cons hseg h1, h2, h3⟩

/-- in `d.order` every layer's base occurs before the layer (what `normalizeOrder`
    guarantees: `ancestor_precedes`, Props/C02) -/
def ParentsFirst (d : Defs) : Prop :=
  ∀ l1 c l2, d.order = l1 ++ c :: l2 → ∀ lc, findLayer d c = some lc → lc.base.length > 0 → lc.base ∈ l1

/-- **umount_all_children_first**: `umount -all` goes through `d.order.reverse`, one segment
    per layer in this order (`unmountCmd_all_run`); under `ParentsFirst` the base of every
    derived layer comes later in that order, so by `FoldOk.split` all unmounts of a derived
    layer precede those of the layers it sits on. -/
theorem umount_all_children_first (cfg : Config) (d : Defs) (w : World) (hpf : ParentsFirst d) :
    (∃ s, Emitted (unmountCmd cfg d [] true) w s ∧
      (∀ d', ((unmountCmd cfg d [] true).run.run w).1 = .ok d' →
        FoldOk (AllSeg w.pretend) (d, false) d.order.reverse s (d', false)) ∧
      (∀ e, ((unmountCmd cfg d [] true).run.run w).1 = .error e →
        (e = .err "busylayers" ∧ ∃ d', FoldOk (AllSeg w.pretend) (d, false) d.order.reverse s (d', true)) ∨
        FoldErr (AllSeg w.pretend) (AllSegE w.pretend) (d, false) d.order.reverse s)) ∧
    (∀ a c b, d.order.reverse = a ++ c :: b → ∀ lc, findLayer d c = some lc → lc.base.length > 0 →
      lc.base ∈ b) := by
  refine ⟨unmountCmd_all_run cfg d w, ?_⟩
  intro a c b hrev lc hlc hb
  have : d.order = b.reverse ++ c :: a.reverse := by
    have := congrArg List.reverse hrev
    simpa using this
  have := hpf _ _ _ this lc hlc hb
  exact List.mem_reverse.mp this

/-- the busy flag, once up, stays up -/
theorem flag_mono {p : Bool} : ∀ (xs : List Bytes) (d0 d' : Defs) (b' : Bool) (s : List Op),
    FoldOk (AllSeg p) (d0, true) xs s (d', b') → b' = true := by
  intro xs
  induction xs with
  | nil => intro d0 d' b' s h; cases h; rfl
  | cons x xs ih =>
    intro d0 d' b' s h
    cases h with
    | cons hseg hrest =>
      rename_i acc1 _ _
      obtain ⟨st, _, hflag⟩ := hseg
      obtain ⟨d1, b1⟩ := acc1
      simp only [Bool.true_or] at hflag
      subst hflag
      exact ih d1 d' b' _ hrest

/-- **umount_all_skips_busy (success)**: if the loop ends with the flag down, no layer was busy
    at its turn: every step had an idle layer (status `notMounted` or `ok`) -/
theorem all_success_all_idle {p : Bool} : ∀ (xs : List Bytes) (d0 d' : Defs) (s : List Op),
    FoldOk (AllSeg p) (d0, false) xs s (d', false) →
    FoldOk (fun acc n seg acc' => AllSeg p acc n seg acc' ∧
      ∃ l, findLayer acc.1 n = some l ∧ isBusy l false = false) (d0, false) xs s (d', false) := by
  intro xs
  induction xs with
  | nil => intro d0 d' s h; cases h; exact FoldOk.nil _
  | cons x xs ih =>
    intro d0 d' s h
    cases h with
    | cons hseg hrest =>
      rename_i acc1 _ _
      obtain ⟨d1, b1⟩ := acc1
      have hseg' := hseg
      obtain ⟨st, ⟨l, hl, hc⟩, hflag⟩ := hseg
      simp only [Bool.false_or] at hflag
      cases b1 with
      | true => have := flag_mono xs d1 d' false _ hrest; cases this
      | false =>
        refine FoldOk.cons ⟨hseg', l, hl, ?_⟩ (ih d1 d' _ hrest)
        rcases hc with ⟨hst, _⟩ | ⟨_, hb, _⟩ | ⟨_, hb, _⟩
        · subst hst; exact absurd hflag (by decide)
        · exact hb
        · exact hb

/-- **umount_all_skips_busy (failure "busylayers")**: if the loop ends with the flag up some
    layer was busy at its turn — it was skipped (empty segment, `Defs` unchanged) and the loop
    went on with the remaining layers (the `FoldOk` covers the whole list) -/
theorem all_busy_some_busy {p : Bool} : ∀ (xs : List Bytes) (d0 d' : Defs) (s : List Op),
    FoldOk (AllSeg p) (d0, false) xs s (d', true) →
    ∃ n ∈ xs, ∃ dn l, findLayer dn n = some l ∧ isBusy l false = true := by
  intro xs
  induction xs with
  | nil => intro d0 d' s h; cases h
  | cons x xs ih =>
    intro d0 d' s h
    cases h with
    | cons hseg hrest =>
      rename_i acc1 _ _
      obtain ⟨d1, b1⟩ := acc1
      obtain ⟨st, ⟨l, hl, hc⟩, hflag⟩ := hseg
      simp only [Bool.false_or] at hflag
      cases b1 with
      | true =>
        rcases hc with ⟨_, hb, _⟩ | ⟨hst, _⟩ | ⟨hst, _⟩
        · exact ⟨x, List.mem_cons_self, d0, l, hl, hb⟩
        · subst hst; exact absurd hflag (by decide)
        · subst hst; exact absurd hflag (by decide)
      | false =>
        obtain ⟨n, hn, dn, l', hl', hb'⟩ := ih d1 d' _ hrest
        exact ⟨n, List.mem_cons_of_mem _ hn, dn, l', hl', hb'⟩

/-- **umount_all_skips_busy (result)**: `umount -all` fails with "busylayers" exactly when the
    loop went through all layers and at least one was busy; it succeeds exactly when the loop
    went through all layers and none was busy; any other failure is that of an unmount call. -/
theorem umount_all_skips_busy (cfg : Config) (d : Defs) (w : World) :
    ∃ s, Emitted (unmountCmd cfg d [] true) w s ∧
      (∀ d', ((unmountCmd cfg d [] true).run.run w).1 = .ok d' →
        FoldOk (fun acc n seg acc' => AllSeg w.pretend acc n seg acc' ∧
          ∃ l, findLayer acc.1 n = some l ∧ isBusy l false = false) (d, false) d.order.reverse s (d', false)) ∧
      (((unmountCmd cfg d [] true).run.run w).1 = .error (.err "busylayers") →
        (∃ d', FoldOk (AllSeg w.pretend) (d, false) d.order.reverse s (d', true)) ∧
        (∃ n ∈ d.order.reverse, ∃ dn l, findLayer dn n = some l ∧ isBusy l false = true) ∨
        FoldErr (AllSeg w.pretend) (AllSegE w.pretend) (d, false) d.order.reverse s) := by
  obtain ⟨s, he, hN, hE⟩ := unmountCmd_all_run cfg d w
  refine ⟨s, he, ?_, ?_⟩
  · intro d' hd
    exact all_success_all_idle _ d d' s (hN d' hd)
  · intro herr
    rcases hE _ herr with ⟨_, d', hf⟩ | hf
    · exact .inl ⟨⟨d', hf⟩, all_busy_some_busy _ d d' s hf⟩
    · exact .inr hf

/-! ### non-vacuity -/

namespace Example
def cfg0 : Config := { basepath := b!"/b", layerdirs := b!"/b/L", buildRoot := b!"build", binPkg := b!"pk", generated := b!"gen", workdir := b!"work", upperdir := b!"upper", exportdirs := b!"/b/E", exportBinPkg := b!"p", exportGenerated := b!"g" }
/-- cached table: overlay on the build path, a mount beneath it, and a foreign mount whose
    path merely starts with the same bytes (`/b/L/xy`) -/
def m1 : Mounts := { list := [⟨b!"devtmpfs", b!"/b/L/x/build/dev", [], [], b!"devtmpfs", [], false, b!"0:5", [47], [], []⟩, ⟨b!"overlay", b!"/b/L/x/build", [], [], b!"overlay", [], false, b!"0:9", [47], [], []⟩, ⟨b!"x", b!"/b/L/xy", [], [], b!"tmpfs", [], false, b!"0:7", [47], [], []⟩] }
def lm : Layer := { name := b!"x", layerPath := b!"/b/L/x", state := S_mounted, mounts := getMountAndSubmounts m1 b!"/b/L/x/build" }
def d1 : Defs := { layers := [lm], order := [b!"x"] }
def w1 : World := { faultAt := some 2 }

example : lm.mounts = getMountAndSubmounts m1 (buildPath cfg0 lm) := by rfl
/-- deepest first, the foreign mount is not touched -/
example : issueOrder lm = [b!"/b/L/x/build/dev", b!"/b/L/x/build"] := by rfl
/-- a real run of the model issues the first of them (and is then stopped by the kernel
    model, nothing being mounted in `w1`) -/
example : Emitted (unmountLayer cfg0 d1 b!"x") w1 [.umount b!"/b/L/x/build/dev" 0] := by
  unfold Emitted; rfl
example : findLayer d1 b!"x" = some lm ∧ isBusy lm false = false := ⟨rfl, rfl⟩
example : ParentsFirst d1 := by
  intro l1 c l2 h lc hlc hb
  have hc : c = b!"x" := by
    cases l1 with
    | nil => simp [d1] at h; exact h.1.symm
    | cons y ys => cases ys <;> simp [d1] at h
  subst hc
  have : lc = lm := by
    have h2 : findLayer d1 b!"x" = some lm := rfl
    rw [h2] at hlc; cases hlc; rfl
  subst this
  exact absurd hb (by decide)
end Example

/-! ### the END STATE in the kernel model

  `Plain w`: no pretend switch, no injected fault or crash.  `atOrBelow bp q`: `q` is `bp` or
  starts with `bp ++ "/"` — the region test of `getMountAndSubmounts`.  `kumountSeq t ts`: the
  kernel model's `kumount` applied to the targets `ts` in order, stopping at the first refusal:
  (targets done, table reached, error).  The kernel model resolves a path through the mount
  tree (`Kernel.resolve`): a mount below a mount stacked later on one of its ancestors is hidden
  and cannot be unmounted by path (EINVAL).  `KWF` (= `KernelResolve.Tree`): ids unique, nobody
  its own parent, parents listed before children, an entry at/below its parent's mountpoint — an
  invariant of the kernel model (`KTWF_empty`, `kmount_KTWF`, `kumount_KTWF` in
  Lemmas/KernelUmount).  `NoHidden`: moreover the mountpoints of two entries below the same
  parent are never nested, i.e. nothing is covered; kept by `kumount` (`kumount_noHidden`) and by
  every mount on a target below which nothing is mounted (`addMount_noHidden`, `kmount_noHidden`);
  on such tables the lookup is the flat reading of the table (`resolve_eq_findContaining`,
  `mountedAt_eq_topmostAt`). -/

/-- **ViewAgrees**: the layer's `mounts` list was filled by `getMountAndSubmounts` from a
    cached table `view` that shows, at or below the build root `bp`, the same mounts in the same
    order as the kernel table `t` — mount id, parent id (as the kernel prints them) and
    mountpoint; stacked mounts as often as they occur.  This is what `getLayers` establishes:
    `probeAll` sets `l.mounts := getMountAndSubmounts d.mounts (buildPath l)` with `d.mounts =
    Kernel.probe w.kt`, and `probe_render` (Props/C12) says the probe returns one entry per
    kernel mount, in table order, with its ids and mountpoint (`viewAgrees_of_probe`). -/
def ViewAgrees (l : Layer) (bp : Bytes) (t : KTable) : Prop :=
  ∃ view : Mounts, l.mounts = getMountAndSubmounts view bp ∧
    (view.list.filter (fun x => atOrBelow bp x.mountpoint)).map (fun x => (x.id, x.parent, x.mountpoint)) =
      (t.mnts.filter (fun m => atOrBelow bp m.mp)).map (fun m => (natBytes m.id, natBytes m.parent, m.mp))

theorem ViewAgrees.mountpoints {l : Layer} {bp : Bytes} {t : KTable} (h : ViewAgrees l bp t) :
    ∃ view : Mounts, l.mounts = getMountAndSubmounts view bp ∧
      (view.list.filter (fun x => atOrBelow bp x.mountpoint)).map (·.mountpoint) =
        (t.mnts.filter (fun m => atOrBelow bp m.mp)).map (·.mp) := by
  obtain ⟨view, hm, hv⟩ := h
  refine ⟨view, hm, ?_⟩
  have := congrArg (List.map (fun (x : Bytes × Bytes × Bytes) => x.2.2)) hv
  simpa [List.map_map, Function.comp_def] using this

/-- under `ViewAgrees` the issue order is a permutation of the kernel's mountpoints of the region -/
theorem ViewAgrees.perm {l : Layer} {bp : Bytes} {t : KTable} (h : ViewAgrees l bp t) :
    (issueOrder l).Perm ((t.mnts.filter (fun m => atOrBelow bp m.mp)).map (·.mp)) := by
  obtain ⟨view, hm, hv⟩ := h.mountpoints
  rw [← hv]
  unfold issueOrder
  rw [hm]
  exact ((List.reverse_perm _).trans (getMountAndSubmounts_complete view bp)).map _

/-- no listed mount of the layer covers a listed sibling -/
def NoCoveredL (l : Layer) : Prop := ∀ a ∈ l.mounts, ∀ b ∈ l.mounts, covers a b = false

theorem NoCoveredL.of_view {l : Layer} {view : Mounts} {bp : Bytes} (hm : l.mounts = getMountAndSubmounts view bp)
    (h : NoCoveredL l) : NoCovered view bp := by
  intro a ha b hb
  have hmem : ∀ x ∈ TreeOrder.regionOf view bp, x ∈ l.mounts := by
    intro x hx
    rw [hm]
    exact (TreeOrder.getMountAndSubmounts_perm_region view bp).mem_iff.mpr hx
  exact h a (hmem a ha) b (hmem b hb)

/-- … and leaf-first, when nothing listed is covered: no target properly extends an earlier one
    (`issueOrder_children_first`) -/
theorem ViewAgrees.leafFirst {l : Layer} {bp : Bytes} {t : KTable} (h : ViewAgrees l bp t)
    (hnc : NoCoveredL l) : (issueOrder l).Pairwise (fun earlier later => ¬ Ext earlier later) := by
  obtain ⟨view, hm, _⟩ := h
  exact issueOrder_children_first l view bp hm (hnc.of_view hm)

/-- **a kernel table without hidden mounts shows no covered mount**: under `ViewAgrees`,
    `NoHidden` of the kernel table (siblings never nested) gives `NoCoveredL` of the layer's
    list — mount ids are printed injectively (`natBytes_injective`) -/
theorem noCoveredL_of_noHidden {l : Layer} {bp : Bytes} {t : KTable} (h : ViewAgrees l bp t)
    (hnh : NoHidden t.mnts) : NoCoveredL l := by
  obtain ⟨view, hm, hv⟩ := h
  -- every listed mount is the image of a kernel entry
  have himg : ∀ x ∈ l.mounts, ∃ k ∈ t.mnts, x.id = natBytes k.id ∧ x.parent = natBytes k.parent ∧
      x.mountpoint = k.mp := by
    intro x hx
    rw [hm] at hx
    have hx' : x ∈ view.list.filter (fun x => atOrBelow bp x.mountpoint) := by
      have := (TreeOrder.getMountAndSubmounts_perm_region view bp).mem_iff.mp hx
      exact this
    have h1 : (x.id, x.parent, x.mountpoint) ∈
        (view.list.filter (fun x => atOrBelow bp x.mountpoint)).map (fun x => (x.id, x.parent, x.mountpoint)) :=
      List.mem_map.mpr ⟨x, hx', rfl⟩
    rw [hv] at h1
    obtain ⟨k, hk, hke⟩ := List.mem_map.mp h1
    simp only [Prod.mk.injEq] at hke
    exact ⟨k, (List.mem_filter.mp hk).1, hke.1.symm, hke.2.1.symm, hke.2.2.symm⟩
  intro a ha b hb
  cases hc : covers a b with
  | false => rfl
  | true =>
    exfalso
    obtain ⟨ka, hka, ia, pa, ma⟩ := himg a ha
    obtain ⟨kb, hkb, ib, pb, mb⟩ := himg b hb
    unfold covers at hc
    simp only [Bool.and_eq_true, decide_eq_true_eq, bne_iff_ne, ne_eq, beq_iff_eq] at hc
    obtain ⟨⟨⟨⟨_, hid⟩, _⟩, hpar⟩, hpre⟩ := hc
    have hne : ka ≠ kb := by
      intro e; apply hid; rw [ia, ib, e]
    have hsib : Siblings t.mnts ka kb := .inl (KernelProbe.natBytes_injective (by rw [← pa, ← pb, hpar]))
    have hu : pathUnder ka.mp kb.mp = true := by
      rw [ma, mb] at hpre
      rw [pathUnder_iff]
      right
      obtain ⟨r, hr⟩ := (ExportFs.hasPrefix_iff _ _).mp hpre
      unfold sl
      by_cases h47 : ka.mp = [47]
      · rw [h47] at hr ⊢
        exact ⟨[47] ++ r, by rw [hr]; rfl⟩
      · have : (ka.mp == [47]) = false := by simpa using h47
        rw [this]
        exact ⟨r, hr⟩
    rw [hnh.sib ka hka kb hkb hne hsib] at hu
    cases hu

theorem entries_keys (ts : List Spec.KMount) :
    (C12.entries ts).map (fun x => (x.id, x.parent, x.mountpoint)) = ts.map (fun m => (m.id, m.parent, m.mp)) := by
  have h : ∀ (sh : Bool) (m : Spec.KMount), (C12.entryWith sh m).mountpoint = m.mp ∧
      (C12.entryWith sh m).id = m.id ∧ (C12.entryWith sh m).parent = m.parent := by
    intro sh m
    unfold C12.entryWith Spec.expectedOf
    split <;> exact ⟨rfl, rfl, rfl⟩
  unfold C12.entries
  apply List.ext_getElem?
  intro i
  simp only [List.getElem?_map, List.getElem?_mapIdx, C12.entryOf]
  cases ts[i]? with
  | none => rfl
  | some m => simp [h]

theorem entries_mountpoints (ts : List Spec.KMount) :
    (C12.entries ts).map (·.mountpoint) = ts.map (·.mp) := by
  have := congrArg (List.map (fun (x : Bytes × Bytes × Bytes) => x.2.2)) (entries_keys ts)
  simpa [List.map_map, Function.comp_def] using this

/-- **what `getLayers` establishes**: if the probe of the kernel table (the mountinfo text the
    kernel model renders, read by the model of `ProbeMounts`) returns `view` and the layer's
    list was filled from it, the view agrees with the table — ids, parent ids, mountpoints.  By
    `probe_render` (Props/C12); `hwf` is its well-formedness condition on the rendered lines
    (token fields free of blanks, no carriage return at a line end). -/
theorem viewAgrees_of_probe (t : KTable) (view : Mounts) (l : Layer) (bp : Bytes)
    (hwf : ∀ m ∈ t.mnts, (toSpec m).WF) (hp : Kernel.probe t = .ok view)
    (hm : l.mounts = getMountAndSubmounts view bp) : ViewAgrees l bp t := by
  refine ⟨view, hm, ?_⟩
  unfold Kernel.probe Kernel.render at hp
  rw [C12.probe_render (t.mnts.map toSpec) (by
    intro m hm
    obtain ⟨x, hx, rfl⟩ := List.mem_map.mp hm
    exact hwf x hx)] at hp
  injection hp with hp
  subst hp
  simp only
  have h1 : ∀ (xs : List MountType),
      (xs.filter (fun x => atOrBelow bp x.mountpoint)).map (fun x => (x.id, x.parent, x.mountpoint)) =
      (xs.map (fun x => (x.id, x.parent, x.mountpoint))).filter (fun k => atOrBelow bp k.2.2) := by
    intro xs; rw [List.filter_map]; rfl
  have h2 : (t.mnts.filter (fun m => atOrBelow bp m.mp)).map (fun m => (natBytes m.id, natBytes m.parent, m.mp)) =
      (t.mnts.map (fun m => (natBytes m.id, natBytes m.parent, m.mp))).filter (fun k => atOrBelow bp k.2.2) := by
    rw [List.filter_map]; rfl
  rw [h1, h2, entries_keys, List.map_map]
  rfl

/-- `ViewAgrees` with the ids written as digit strings (`natBytes` goes through `toString`,
    which `decide` cannot evaluate; `KernelProbe.natBytes_eq`) -/
theorem viewAgrees_intro {l : Layer} {bp : Bytes} {t : KTable} (view : Mounts)
    (hm : l.mounts = getMountAndSubmounts view bp)
    (hv : (view.list.filter (fun x => atOrBelow bp x.mountpoint)).map (fun x => (x.id, x.parent, x.mountpoint)) =
      (t.mnts.filter (fun m => atOrBelow bp m.mp)).map
        (fun m => (KernelProbe.digitBytes m.id, KernelProbe.digitBytes m.parent, m.mp))) :
    ViewAgrees l bp t := by
  refine ⟨view, hm, ?_⟩
  rw [hv]
  apply List.map_congr_left
  intro m _
  rw [KernelProbe.natBytes_eq, KernelProbe.natBytes_eq]

/-- **umount_clears_buildroot** (GOAL A1): in a plain world whose kernel table has unique
    mount ids and agrees with the layer's cached view on the region at/below the build root,
    if `unmountLayer` returns normally with status `ok` ("unmounted") then the kernel table
    afterwards is the initial one WITHOUT the entries at or below the build root: no mount is
    left there, and every other mount is still there, unchanged and in the same order; the
    file system is untouched.  (Stacked mounts count as often as they occur.) -/
theorem umount_clears_buildroot (cfg : Config) (d : Defs) (name : Bytes) (w : World) (l : Layer) (d' : Defs)
    (hl : findLayer d name = some l) (hw : Plain w)
    (hids : (w.kt.mnts.map (·.id)).Nodup)
    (hview : ViewAgrees l (buildPath cfg l) w.kt)
    (hok : ((unmountLayer cfg d name).run.run w).1 = .ok (.ok, d')) :
    ((unmountLayer cfg d name).run.run w).2.kt.mnts =
        w.kt.mnts.filter (fun m => !atOrBelow (buildPath cfg l) m.mp) ∧
    (∀ m ∈ ((unmountLayer cfg d name).run.run w).2.kt.mnts, atOrBelow (buildPath cfg l) m.mp = false) ∧
    ((unmountLayer cfg d name).run.run w).2.fs = w.fs := by
  have hidle : isBusy l false = false ∧ l.mounts.length ≠ 0 := by
    rcases unmountLayer_run_cases cfg d name w l hl with ⟨_, h⟩ | ⟨_, _, h⟩ | ⟨h1, h2, _⟩
    · rw [h] at hok; cases hok
    · rw [h] at hok; cases hok
    · exact ⟨h1, h2⟩
  obtain ⟨hkt, hfs, _, hst, _⟩ := unmountLayer_plain cfg d name w l hl hw hidle.1 hidle.2
  have hnone := (hst .ok d' hok).2
  have hcl := kumountSeq_cleared w.kt (issueOrder l) (atOrBelow (buildPath cfg l)) hids hview.perm hnone
  have heq : ((unmountLayer cfg d name).run.run w).2.kt.mnts =
      w.kt.mnts.filter (fun m => !atOrBelow (buildPath cfg l) m.mp) := by rw [hkt, hcl]
  refine ⟨heq, ?_, hfs⟩
  intro m hm
  rw [heq] at hm
  simpa using (List.mem_filter.mp hm).2

/-- the same for the command `umount <name>`: a normal return means status `ok` -/
theorem umountCmd_clears_buildroot (cfg : Config) (d : Defs) (name : Bytes) (w : World) (l : Layer) (d' : Defs)
    (hn : name ≠ []) (hl : findLayer d name = some l) (hw : Plain w)
    (hids : (w.kt.mnts.map (·.id)).Nodup)
    (hview : ViewAgrees l (buildPath cfg l) w.kt)
    (hok : ((unmountCmd cfg d name false).run.run w).1 = .ok d') :
    ((unmountCmd cfg d name false).run.run w).2.kt.mnts =
        w.kt.mnts.filter (fun m => !atOrBelow (buildPath cfg l) m.mp) ∧
    (∀ m ∈ ((unmountCmd cfg d name false).run.run w).2.kt.mnts, atOrBelow (buildPath cfg l) m.mp = false) ∧
    ((unmountCmd cfg d name false).run.run w).2.fs = w.fs := by
  rcases unmountCmd_one cfg d name w hn with ⟨_, e, he⟩ | ⟨hw2, hN, _, _⟩
  · rw [he] at hok; cases hok
  · rw [hw2]
    exact umount_clears_buildroot cfg d name w l d' hl hw hids hview (hN d' hok)

/-- **umount_no_call_refused** (GOAL A1, the part "kumount succeeds on a leaf"): plain world,
    kernel table without hidden mounts (`NoHidden`; `umount_hidden_submount_witness` shows that
    the tree discipline alone does not suffice), view agreeing with the table on the region,
    build root not "/", idle layer.  Then the kernel refuses NONE of the unmount calls (no EBUSY because of
    `umount_leaf_order`: when a target's turn comes nothing is mounted beneath it any more; no
    EINVAL because every target is a current mountpoint), so on EVERY exit of `unmountLayer`
    the table is the initial one without the region; and when the layer had mounts a normal
    return has status `ok`.  (The only error exit left is a panic of the re-probe after the
    loop, which does not touch the world.) -/
theorem umount_no_call_refused (cfg : Config) (d : Defs) (name : Bytes) (w : World) (l : Layer)
    (hl : findLayer d name = some l) (hw : Plain w) (hwf : NoHidden w.kt.mnts)
    (hview : ViewAgrees l (buildPath cfg l) w.kt) (hbp : buildPath cfg l ≠ b!"/")
    (hb : isBusy l false = false) :
    (kumountSeq w.kt (issueOrder l)).2.2 = none ∧
    ((unmountLayer cfg d name).run.run w).2.kt.mnts =
        w.kt.mnts.filter (fun m => !atOrBelow (buildPath cfg l) m.mp) ∧
    (l.mounts.length ≠ 0 → ∀ st d', ((unmountLayer cfg d name).run.run w).1 = .ok (st, d') → st = .ok) := by
  have hnone := kumountSeq_succeeds (buildPath cfg l) hbp (issueOrder l) w.kt hwf hview.perm
    (hview.leafFirst (noCoveredL_of_noHidden hview hwf))
  have hcl := kumountSeq_cleared w.kt (issueOrder l) (atOrBelow (buildPath cfg l)) hwf.ids hview.perm hnone
  refine ⟨hnone, ?_, ?_⟩
  · by_cases hm : l.mounts.length = 0
    · -- nothing listed: nothing mounted in the region, nothing done
      rcases unmountLayer_run_cases cfg d name w l hl with ⟨h1, _⟩ | ⟨_, _, h⟩ | ⟨_, h2, _⟩
      · rw [hb] at h1; cases h1
      · rw [h]
        have hnil : issueOrder l = [] := by
          unfold issueOrder
          rw [List.length_eq_zero_iff.mp hm]; rfl
        rw [hnil] at hcl
        exact hcl
      · exact absurd hm h2
    · obtain ⟨hkt, _, _, _, _⟩ := unmountLayer_plain cfg d name w l hl hw hb hm
      rw [hkt, hcl]
  · intro hm st d' hr
    exact ((unmountLayer_plain cfg d name w l hl hw hb hm).2.2.2.1 st d' hr).1

/-- **umount_failure_keeps_prefix** (GOAL A2): plain world, unique mount ids, idle layer with
    a non-empty `mounts` list whose entries lie at/below the build root (true of every list
    `getMountAndSubmounts` returns: `getMountAndSubmounts_inside`) — NO agreement between view
    and kernel table is assumed.  If the kernel refuses one of the calls (say a mount the view
    did not know about keeps a target busy, or a listed mount is already gone), then
    * the command reports failure, with the kernel's errno — it does not report success;
    * the calls before it (`done`) succeeded, the refused target is the next of the issue order;
    * the table reached is a sublist of the initial one (nothing changed, added or reordered),
      its mountpoints together with `done` are exactly the initial mountpoints — the initial
      table minus one (the topmost) entry per successfully unmounted target —, and every mount
      outside the build root is still there;
    * the refusal is EINVAL with no lookup ending on a mount at the target (nothing mounted there
      or, `mountedAt_none_noHidden` excluding it only for tables without hidden mounts, what is
      mounted there is hidden), or EBUSY with a mount whose parent is the mount found at the
      target;  the file system is untouched. -/
theorem umount_failure_keeps_prefix (cfg : Config) (d : Defs) (name : Bytes) (w : World) (l : Layer)
    (hl : findLayer d name = some l) (hw : Plain w) (hids : (w.kt.mnts.map (·.id)).Nodup)
    (hb : isBusy l false = false) (hm : l.mounts.length ≠ 0)
    (hin : ∀ x ∈ l.mounts, atOrBelow (buildPath cfg l) x.mountpoint = true)
    (e : KErr) (hfail : (kumountSeq w.kt (issueOrder l)).2.2 = some e) :
    ((unmountLayer cfg d name).run.run w).1 = .error (.err ("sys:" ++ e.str)) ∧
    (∃ p rest, issueOrder l = (kumountSeq w.kt (issueOrder l)).1 ++ p :: rest ∧
      kumount ((unmountLayer cfg d name).run.run w).2.kt p = .error e ∧
      ((e = .einval ∧ mountedAt ((unmountLayer cfg d name).run.run w).2.kt.mnts p = none) ∨
       (e = .ebusy ∧ ∃ m, mountedAt ((unmountLayer cfg d name).run.run w).2.kt.mnts p = some m ∧
          ∃ c ∈ ((unmountLayer cfg d name).run.run w).2.kt.mnts, c.parent = m.id))) ∧
    ((unmountLayer cfg d name).run.run w).2.kt.mnts.Sublist w.kt.mnts ∧
    (w.kt.mnts.map (·.mp)).Perm ((kumountSeq w.kt (issueOrder l)).1 ++
      ((unmountLayer cfg d name).run.run w).2.kt.mnts.map (·.mp)) ∧
    ((unmountLayer cfg d name).run.run w).2.kt.mnts.filter (fun m => !atOrBelow (buildPath cfg l) m.mp) =
      w.kt.mnts.filter (fun m => !atOrBelow (buildPath cfg l) m.mp) ∧
    ((unmountLayer cfg d name).run.run w).2.fs = w.fs := by
  obtain ⟨hkt, hfs, _, _, herr⟩ := unmountLayer_plain cfg d name w l hl hw hb hm
  obtain ⟨rest, hpre, _, hstop⟩ := kumountSeq_prefix w.kt (issueOrder l)
  obtain ⟨p, rest', hrest, hkp⟩ := hstop e hfail
  obtain ⟨hsub, hperm, _, _, hfil⟩ := kumountSeq_spec w.kt (issueOrder l) hids
  rw [hkt]
  refine ⟨herr e hfail, ⟨p, rest', by rw [← hrest]; exact hpre, hkp, kumount_error hkp⟩, hsub, hperm, ?_, hfs⟩
  apply hfil
  intro q hq
  have hq' : q ∈ issueOrder l := by rw [hpre]; exact List.mem_append_left _ hq
  unfold issueOrder at hq'
  obtain ⟨x, hx, rfl⟩ := List.mem_map.mp hq'
  exact hin x (List.mem_reverse.mp hx)

/-- the command `umount <name>` passes that failure on -/
theorem umountCmd_failure_reported (cfg : Config) (d : Defs) (name : Bytes) (w : World) (l : Layer)
    (hn : name ≠ []) (hl : findLayer d name = some l) (hw : Plain w) (hb : isBusy l false = false)
    (hm : l.mounts.length ≠ 0) (e : KErr) (hfail : (kumountSeq w.kt (issueOrder l)).2.2 = some e) :
    ∃ f, ((unmountCmd cfg d name false).run.run w).1 = .error f ∧
      (((unmountCmd cfg d name false).run.run w).2.kt = (kumountSeq w.kt (issueOrder l)).2.1 ∨
       ((unmountCmd cfg d name false).run.run w).2 = w) := by
  obtain ⟨hkt, _, _, _, herr⟩ := unmountLayer_plain cfg d name w l hl hw hb hm
  rcases unmountCmd_one cfg d name w hn with ⟨h1, f, hf⟩ | ⟨hw2, _, hE, _⟩
  · exact ⟨f, hf, .inr h1⟩
  · exact ⟨_, hE _ (herr e hfail), .inl (by rw [hw2, hkt])⟩

/-! ### non-vacuity of the end-state theorems -/

namespace Example2
/-- kernel table: the host's root and /home, a mount on a sibling of the layer whose path
    starts with the same bytes (`/b/L/xy`), and below the build root of layer `x`: /proc, /dev
    and TWO stacked mounts on /dev/shm (the second has the first as its parent) -/
def kt2 : KTable :=
  { mnts := [ { id := 1, parent := 0, dev := b!"8:1", root := b!"/", mp := b!"/", fstype := b!"ext4", source := b!"/dev/sda1" },
              { id := 25, parent := 1, dev := b!"8:2", root := b!"/", mp := b!"/home", fstype := b!"ext4", source := b!"/dev/sda2" },
              { id := 30, parent := 1, dev := b!"0:4", root := b!"/", mp := b!"/b/L/x/build/proc", fstype := b!"proc", source := b!"proc" },
              { id := 31, parent := 1, dev := b!"0:5", root := b!"/", mp := b!"/b/L/x/build/dev", fstype := b!"devtmpfs", source := b!"udev" },
              { id := 32, parent := 31, dev := b!"0:20", root := b!"/", mp := b!"/b/L/x/build/dev/shm", fstype := b!"tmpfs", source := b!"shm" },
              { id := 33, parent := 32, dev := b!"0:21", root := b!"/", mp := b!"/b/L/x/build/dev/shm", fstype := b!"tmpfs", source := b!"shm2" },
              { id := 34, parent := 1, dev := b!"0:22", root := b!"/", mp := b!"/b/L/xy", fstype := b!"tmpfs", source := b!"x" } ],
    nextId := 35 }
/-- what the probe makes of it (one entry per kernel mount, table order) -/
def view2 : Mounts :=
  { list := [ ⟨[], b!"/", [], [], b!"ext4", b!"rw", false, b!"8:1", [47], b!"1", b!"0"⟩,
              ⟨[], b!"/home", [], [], b!"ext4", b!"rw", false, b!"8:2", [47], b!"25", b!"1"⟩,
              ⟨[], b!"/b/L/x/build/proc", [], [], b!"proc", b!"rw", false, b!"0:4", [47], b!"30", b!"1"⟩,
              ⟨[], b!"/b/L/x/build/dev", [], [], b!"devtmpfs", b!"rw", false, b!"0:5", [47], b!"31", b!"1"⟩,
              ⟨[], b!"/b/L/x/build/dev/shm", [], [], b!"tmpfs", b!"rw", true, b!"0:20", [47], b!"32", b!"31"⟩,
              ⟨[], b!"/b/L/x/build/dev/shm", [], [], b!"tmpfs", b!"rw", true, b!"0:21", [47], b!"33", b!"32"⟩,
              ⟨[], b!"/b/L/xy", [], [], b!"tmpfs", b!"rw", false, b!"0:22", [47], b!"34", b!"1"⟩ ] }
def l2 : Layer := { name := b!"x", layerPath := b!"/b/L/x", state := S_mounted,
                    mounts := getMountAndSubmounts view2 b!"/b/L/x/build" }
def d2 : Defs := { layers := [l2], order := [b!"x"], mounts := view2 }
def w2 : World := { kt := kt2 }

-- the hypotheses of `umount_clears_buildroot` / `umount_no_call_refused` hold here
example : findLayer d2 b!"x" = some l2 ∧ isBusy l2 false = false ∧ l2.mounts.length = 4 := ⟨rfl, rfl, rfl⟩
example : Plain w2 := ⟨rfl, rfl, rfl⟩
example : buildPath Example.cfg0 l2 = b!"/b/L/x/build" := by decide
example : ViewAgrees l2 (buildPath Example.cfg0 l2) w2.kt := (viewAgrees_intro view2 (by rfl) (by decide))
example : NoHidden w2.kt.mnts := ⟨⟨by decide, by decide, by decide, by decide⟩, by decide⟩
/-- deepest first; the two stacked mounts are two calls on the same target -/
example : issueOrder l2 = [b!"/b/L/x/build/proc", b!"/b/L/x/build/dev/shm", b!"/b/L/x/build/dev/shm",
    b!"/b/L/x/build/dev"] := by rfl
/-- the kernel model evaluated on that order: every call succeeds, … -/
example : (kumountSeq w2.kt (issueOrder l2)).2.2 = none ∧ (kumountSeq w2.kt (issueOrder l2)).1 = issueOrder l2 := by
  decide
/-- … and the conclusion is not trivial: four of the seven mounts are gone, the host's mounts
    and the sibling `/b/L/xy` are left, in their order -/
example : (w2.kt.mnts.filter (fun m => !atOrBelow (buildPath Example.cfg0 l2) m.mp)).map (·.mp) =
    [b!"/", b!"/home", b!"/b/L/xy"] := by decide
/-- the theorem applied: on every exit of the model's `unmountLayer` (its re-probe goes through
    `toString`, which `decide` cannot evaluate) the table holds exactly these three -/
example : ((unmountLayer Example.cfg0 d2 b!"x").run.run w2).2.kt.mnts.map (·.mp) =
    [b!"/", b!"/home", b!"/b/L/xy"] := by
  rw [(umount_no_call_refused Example.cfg0 d2 b!"x" w2 l2 rfl ⟨rfl, rfl, rfl⟩
    ⟨⟨by decide, by decide, by decide, by decide⟩, by decide⟩ (viewAgrees_intro view2 (by rfl) (by decide)) (by decide) rfl).2.1]
  decide

/-- GOAL A2: the administrator mounted something on `/b/L/x/build/dev/pts` after the probe: the
    view (still `view2`) does not know it -/
def pts : KMnt :=
  { id := 35, parent := 31, dev := b!"0:23", root := b!"/", mp := b!"/b/L/x/build/dev/pts", fstype := b!"devpts", source := b!"devpts" }
def kt3 : KTable := { kt2 with mnts := kt2.mnts ++ [pts], nextId := 36 }
def w3 : World := { kt := kt3 }
example : (w3.kt.mnts.map (·.id)).Nodup ∧ (∀ x ∈ l2.mounts, atOrBelow (buildPath Example.cfg0 l2) x.mountpoint = true) := by
  decide
/-- /proc and both /dev/shm go, then /dev is refused with EBUSY -/
example : kumountSeq w3.kt (issueOrder l2) =
    ([b!"/b/L/x/build/proc", b!"/b/L/x/build/dev/shm", b!"/b/L/x/build/dev/shm"],
     { kt3 with mnts := kt3.mnts.filter (fun m => m.id != 30 && m.id != 32 && m.id != 33) }, some .ebusy) := by
  decide
/-- the theorem applied: failure is reported, /dev and the unknown /dev/pts are still mounted,
    the host's mounts untouched -/
example : ((unmountLayer Example.cfg0 d2 b!"x").run.run w3).1 = .error (.err "sys:EBUSY") ∧
    ((unmountLayer Example.cfg0 d2 b!"x").run.run w3).2.kt.mnts.filter
        (fun m => !atOrBelow (buildPath Example.cfg0 l2) m.mp) =
      w3.kt.mnts.filter (fun m => !atOrBelow (buildPath Example.cfg0 l2) m.mp) := by
  have h := umount_failure_keeps_prefix Example.cfg0 d2 b!"x" w3 l2 rfl ⟨rfl, rfl, rfl⟩ (by decide) rfl
    (by decide) (by decide) .ebusy (by decide)
  exact ⟨h.1, h.2.2.2.2.1⟩
end Example2

/-- **umount_keeps_noHidden**: on every exit of `unmountLayer` a kernel table in which no mount
    is hidden is still such a table (each successful `kumount` takes out a childless entry);
    with `sysMount_noHidden` (Lemmas/UmountState: a mount on a target below which nothing is
    mounted hides nothing, recursive binds included) the tables layercake produces by its own
    calls from a table without hidden mounts have none, provided the configured imports name
    a mountpoint before the mountpoints below it. -/
theorem umount_keeps_noHidden (cfg : Config) (d : Defs) (name : Bytes) (w : World)
    (h : NoHidden w.kt.mnts) : NoHidden ((unmountLayer cfg d name).run.run w).2.kt.mnts :=
  Lc.Hoare.extract _ _ (unmountLayer_noHidden cfg d name) w h

/-! ### a hidden submount: the order "deepest path first" does not work (finding
    `umount-order-hidden-submount`, reproduced with the real binary on the real kernel) -/

namespace Example3
def hostP : Bytes := b!"/b/L/x/build/mnt/host"
def subP : Bytes := b!"/b/L/x/build/mnt/host/sub"
/-- the import on `mnt/host`, a mount made by hand on `mnt/host/sub`, then a second one stacked
    on `mnt/host`: it covers the first and what hangs below it -/
def m41 : KMnt := { id := 41, parent := 40, dev := b!"8:1", root := b!"/a", mp := subP, fstype := b!"ext4", source := b!"/dev/sda1" }
def m42 : KMnt := { id := 42, parent := 40, dev := b!"8:1", root := b!"/b", mp := hostP, fstype := b!"ext4", source := b!"/dev/sda1" }
def kt4 : KTable :=
  { mnts := [ { id := 1, parent := 0, dev := b!"8:1", root := b!"/", mp := b!"/", fstype := b!"ext4", source := b!"/dev/sda1" },
              { id := 40, parent := 1, dev := b!"8:1", root := b!"/src", mp := hostP, fstype := b!"ext4", source := b!"/dev/sda1" },
              m41, m42 ],
    nextId := 43 }
def v41 : MountType := ⟨[], subP, [], [], b!"ext4", b!"rw", false, b!"8:1", b!"/a", b!"41", b!"40"⟩
def v42 : MountType := ⟨[], hostP, [], [], b!"ext4", b!"rw", false, b!"8:1", b!"/b", b!"42", b!"40"⟩
def view4 : Mounts :=
  { list := [ ⟨[], b!"/", [], [], b!"ext4", b!"rw", false, b!"8:1", [47], b!"1", b!"0"⟩,
              ⟨[], hostP, [], [], b!"ext4", b!"rw", false, b!"8:1", b!"/src", b!"40", b!"1"⟩,
              v41, v42 ] }
def l4 : Layer := { name := b!"x", layerPath := b!"/b/L/x", state := S_mounted,
                    mounts := getMountAndSubmounts view4 b!"/b/L/x/build" }
def d4 : Defs := { layers := [l4], order := [b!"x"], mounts := view4 }
def w4 : World := { kt := kt4 }
end Example3

/-- the kernel table after the three unmounts: the host's root only -/
def Example3.ktF : KTable := { Example3.kt4 with mnts := [Example3.kt4.mnts.headD Example3.m41] }

theorem Example3.ktF_wf : KernelProbe.KWF Example3.ktF := by
  intro m hm
  simp only [Example3.ktF, Example3.kt4, List.headD_cons, List.mem_cons, List.not_mem_nil, or_false] at hm
  subst hm
  constructor <;> simp [Spec.TokenOK, Spec.IsB]

/-- **umount_hidden_submount_fixed_witness** (after fix e546b99; before it this table was the
    witness of finding `umount-order-hidden-submount`: `umount` failed with EINVAL on every
    retry).  The table obeys the tree discipline, has a hidden mount (`¬ NoHidden`: the second
    mount on `mnt/host` covers `mnt/host/sub`), agrees with the layer's view, the layer is idle.
    One listed mount covers a listed sibling, so `getMountAndSubmounts` lists along the mount
    tree: the issue order asks for the covering mount first (the path-sorted order would ask for
    the covered mountpoint first, which the kernel refuses), the kernel accepts every call, and
    the whole `unmountLayer` run — re-probe included — ends `.ok` with status "unmounted" and
    nothing left at or below the build root, the rest of the table untouched. -/
theorem umount_hidden_submount_fixed_witness :
    Plain Example3.w4 ∧ KWF Example3.w4.kt.mnts ∧ ¬ NoHidden Example3.w4.kt.mnts ∧
    ViewAgrees Example3.l4 (buildPath Example.cfg0 Example3.l4) Example3.w4.kt ∧
    findLayer Example3.d4 b!"x" = some Example3.l4 ∧ isBusy Example3.l4 false = false ∧
    ¬ NoCoveredL Example3.l4 ∧
    issueOrder Example3.l4 = [Example3.hostP, Example3.subP, Example3.hostP] ∧
    ((pathSorted Example3.view4 b!"/b/L/x/build").reverse.map (·.mountpoint) =
        [Example3.subP, Example3.hostP, Example3.hostP] ∧
      (kumountSeq Example3.w4.kt [Example3.subP, Example3.hostP, Example3.hostP]).2.2 = some .einval) ∧
    (∃ d', ((unmountLayer Example.cfg0 Example3.d4 b!"x").run.run Example3.w4).1 = .ok (.ok, d')) ∧
    ((unmountLayer Example.cfg0 Example3.d4 b!"x").run.run Example3.w4).2.kt.mnts =
      Example3.w4.kt.mnts.filter (fun m => !atOrBelow (buildPath Example.cfg0 Example3.l4) m.mp) ∧
    ((unmountLayer Example.cfg0 Example3.d4 b!"x").run.run Example3.w4).2.kt.mnts.map (·.mp) = [b!"/"] := by
  have hplain : Plain Example3.w4 := ⟨rfl, rfl, rfl⟩
  have hseq : kumountSeq Example3.w4.kt (issueOrder Example3.l4) =
      (issueOrder Example3.l4, Example3.ktF, none) := by decide
  have hcov : ¬ NoCoveredL Example3.l4 := by
    intro h
    have hl4 : Example3.l4.mounts = [Example3.view4.list.getD 1 Example3.v41, Example3.v41, Example3.v42] := by rfl
    have := h Example3.v42 (by rw [hl4]; simp) Example3.v41 (by rw [hl4]; simp)
    exact absurd this (by decide)
  obtain ⟨hkt, _, _, _, _⟩ := unmountLayer_plain Example.cfg0 Example3.d4 b!"x" Example3.w4 Example3.l4 rfl
    hplain rfl (by decide)
  rw [hseq] at hkt
  have hktm : ((unmountLayer Example.cfg0 Example3.d4 b!"x").run.run Example3.w4).2.kt = Example3.ktF := hkt
  refine ⟨hplain, ⟨by decide, by decide, by decide, by decide⟩, ?_, viewAgrees_intro Example3.view4 (by rfl) (by decide),
    rfl, rfl, hcov, by rfl, ⟨by rfl, by decide⟩, ?_, by rw [hktm]; decide, by rw [hktm]; decide⟩
  · intro h
    have := h.sib Example3.m42 (by simp [Example3.w4, Example3.kt4]) Example3.m41 (by simp [Example3.w4, Example3.kt4])
      (by decide) (.inl rfl)
    exact absurd this (by decide)
  · -- the run: the loop succeeds, the re-probe of the remaining table succeeds
    rcases unmountLayer_run_cases Example.cfg0 Example3.d4 b!"x" Example3.w4 Example3.l4 rfl with
      ⟨hb, _⟩ | ⟨_, hm0, _⟩ | ⟨_, _, hrunOk, _⟩
    · exact absurd hb (by decide)
    · exact absurd hm0 (by decide)
    · have hloop := unmountMounts_run Example3.l4.mounts.reverse Example3.w4 hplain
      obtain ⟨_, hfs, hlk, hok, _⟩ := hloop
      have hnone : (kumountSeq Example3.w4.kt (Example3.l4.mounts.reverse.map (·.mountpoint))).2.2 = none := by
        show (kumountSeq Example3.w4.kt (issueOrder Example3.l4)).2.2 = none
        rw [hseq]
      have hkf : (kumountSeq Example3.w4.kt (Example3.l4.mounts.reverse.map (·.mountpoint))).2.1 = Example3.ktF := by
        show (kumountSeq Example3.w4.kt (issueOrder Example3.l4)).2.1 = Example3.ktF
        rw [hseq]
      have hok' := hok hnone
      generalize hr1 : (unmountMounts Example3.l4.mounts.reverse).run.run Example3.w4 = r1 at hfs hlk hok' hrunOk
      obtain ⟨x, w1⟩ := r1
      simp only at hfs hlk hok'
      subst hok'
      rw [hrunOk PUnit.unit w1 rfl]
      rw [hkf] at hlk
      have hM := KernelProbe.probe_ok (t := w1.kt) (by rw [hlk]; exact Example3.ktF_wf)
      unfold unmountTail
      rw [Lc.RunM.run_bind, Probe.refresh_run Example.cfg0 Example3.d4 w1 _ hM]
      have hfs' : w1.fs = [] := hfs
      generalize ({ list := C12.entries (List.map toSpec w1.kt.mnts),
                    devices := C12.devicesOf (List.map toSpec w1.kt.mnts) } : Mounts) = M
      simp only []
      have hfl : findLayer { Example3.d4 with mounts := M, layers := Example3.d4.layers.map fun l =>
            { l with overlain := (overlayLowerdirs M).contains (buildPath Example.cfg0 l) } } b!"x" =
          some { Example3.l4 with overlain := (overlayLowerdirs M).contains (buildPath Example.cfg0 Example3.l4) } := rfl
      rw [Lc.RunM.run_bind]
      unfold getL
      rw [hfl]
      simp only [Lc.RunM.run_pure]
      rw [Lc.RunM.run_bind, Lc.RunM.run_getW]
      simp only []
      rw [Lc.RunM.run_bind, Lc.RunM.run_liftRes, hfs']
      exact ⟨_, rfl⟩

/-! ### unmounting along the mount tree is never refused (no `NoHidden`)

  `TreeS` (Lemmas/TreeUmount): the tree discipline `KWF` plus what the kernel model's `addMount`
  also guarantees — no two entries below one mount on the same mountpoint (a lookup of that
  mountpoint ends on the first, so the second hangs below it), roots not nested (a namespace
  has one).  `ClosedRegion mnts bp`: an entry that blocks (same parent, mountpoint equal to or a
  path-prefix of the other's) an entry inside the region at/below `bp`, or on the way to it,
  lies in the region itself: nothing mounted OUTSIDE the build root covers it.  Both decidable. -/

/-- **treeOrder_subtree_first**: in the tree order of a path-sorted list (unique ids, nobody its
    own parent, nothing listed before the mount it hangs below) the WHOLE SUBTREE of a covered
    mount precedes the mount that covers it: no entry `v` is listed after an entry `u` that
    covers `v` or an entry `v` hangs below (`TreeOrder.UBV`, chains over the listed mounts) -/
theorem treeOrder_subtree_first (l : List MountType) (hnd : (l.map (·.id)).Nodup)
    (hns : ∀ x ∈ l, x.id ≠ x.parent) (hpf : l.Pairwise (fun x y => y.id ≠ x.parent))
    (hsorted : l.Pairwise (fun a b => bytesLt b.mountpoint a.mountpoint = false)) :
    (inTreeOrder l).Pairwise (fun u v => ¬ TreeOrder.UBV l u v) :=
  TreeOrder.inTreeOrder_subtree_first l hnd hns hpf hsorted

/-- **kumount_unblocked_leaf** (the `kumountSeq` argument against `Kernel.resolve`, one call): in
    a strict-tree table the lookup of the mountpoint of `x` ends on `x` — so `kumount` takes out
    exactly `x` — when nothing hangs below `x` and no entry blocks `x` or one of the entries it
    hangs below.  No `NoHidden`. -/
theorem kumount_unblocked_leaf (t : KTable) (x : KMnt) (ht : TreeS t.mnts) (hx : x ∈ t.mnts)
    (hleaf : ∀ c ∈ t.mnts, c.parent ≠ x.id)
    (hnb : ∀ a, TreeUmount.Chain t.mnts a x → ∀ k ∈ t.mnts, ¬ TreeUmount.Blocks k a) :
    mountedAt t.mnts x.mp = some x :=
  TreeUmount.mountedAt_unblocked ht hx hleaf hnb

/-- **umount_tree_order_no_call_refused**: plain world, kernel table with the strict tree
    discipline `TreeS` — hidden mounts allowed, NOT `NoHidden` —, view agreeing with the table on
    the region (ids, parent ids, mountpoints), build root neither "/" nor empty, the region
    closed (`ClosedRegion`: nothing outside the build root covers it), idle layer.  Then the
    kernel refuses NONE of the unmount calls of `unmountLayer`: in the order of
    `getMountAndSubmounts` read from its end — path order, or the mount-tree order when a listed
    mount covers a listed sibling — every target's lookup ends on the intended mount, which has
    nothing mounted below it any more; on every exit the table is the initial one without the
    region, and when the layer had mounts a normal return has status `ok`. -/
theorem umount_tree_order_no_call_refused (cfg : Config) (d : Defs) (name : Bytes) (w : World) (l : Layer)
    (hl : findLayer d name = some l) (hw : Plain w) (ht : TreeS w.kt.mnts)
    (hcl : ClosedRegion w.kt.mnts (buildPath cfg l))
    (hview : ViewAgrees l (buildPath cfg l) w.kt) (hbp : buildPath cfg l ≠ b!"/")
    (hbp2 : buildPath cfg l ≠ []) (hb : isBusy l false = false) :
    (kumountSeq w.kt (issueOrder l)).2.2 = none ∧
    ((unmountLayer cfg d name).run.run w).2.kt.mnts =
        w.kt.mnts.filter (fun m => !atOrBelow (buildPath cfg l) m.mp) ∧
    (l.mounts.length ≠ 0 → ∀ st d', ((unmountLayer cfg d name).run.run w).1 = .ok (st, d') → st = .ok) := by
  have hnone : (kumountSeq w.kt (issueOrder l)).2.2 = none := by
    obtain ⟨view, hm, hv⟩ := hview
    unfold issueOrder
    rw [hm]
    exact TreeGlue.issueOrder_tree_never_refused w.kt view (buildPath cfg l) ht hcl hbp hbp2 hv
  have hcl' := kumountSeq_cleared w.kt (issueOrder l) (atOrBelow (buildPath cfg l)) ht.ids hview.perm hnone
  refine ⟨hnone, ?_, ?_⟩
  · by_cases hm : l.mounts.length = 0
    · rcases unmountLayer_run_cases cfg d name w l hl with ⟨h1, _⟩ | ⟨_, _, h⟩ | ⟨_, h2, _⟩
      · rw [hb] at h1; cases h1
      · rw [h]
        have hnil : issueOrder l = [] := by
          unfold issueOrder
          rw [List.length_eq_zero_iff.mp hm]; rfl
        rw [hnil] at hcl'
        exact hcl'
      · exact absurd hm h2
    · obtain ⟨hkt, _, _, _, _⟩ := unmountLayer_plain cfg d name w l hl hw hb hm
      rw [hkt, hcl']
  · intro hm st d' hr
    exact ((unmountLayer_plain cfg d name w l hl hw hb hm).2.2.2.1 st d' hr).1

/-! evaluated instances -/

namespace Example4
def bp4 : Bytes := b!"/b/L/x/build"
def root4 : KMnt := { id := 1, parent := 0, dev := b!"8:1", root := b!"/", mp := b!"/", fstype := b!"ext4", source := b!"/dev/sda1" }
def km (i p : Nat) (mp : Bytes) : KMnt := { id := i, parent := p, dev := b!"0:9", root := b!"/", mp := mp, fstype := b!"tmpfs", source := b!"t" }
def vm (i p mp : Bytes) : MountType := ⟨[], mp, [], [], b!"tmpfs", b!"rw", false, b!"0:9", [47], i, p⟩

/-- nested covers below the build root: A on `m` (40), s1 on `m/s` (41), s2 on `m/s/t` (42); then C1
    stacked on `m` (43: covers s1 and s2 with it); inside C1: D on `m/s` (44), E on `m/s/u` (45);
    then C2 stacked on C1's `m` (46: covers D and E); and proc (47) beside them -/
def ktN : KTable :=
  { mnts := [root4, km 40 1 b!"/b/L/x/build/m", km 41 40 b!"/b/L/x/build/m/s", km 42 41 b!"/b/L/x/build/m/s/t",
             km 43 40 b!"/b/L/x/build/m", km 44 43 b!"/b/L/x/build/m/s", km 45 44 b!"/b/L/x/build/m/s/u",
             km 46 43 b!"/b/L/x/build/m", km 47 1 b!"/b/L/x/build/proc"], nextId := 48 }
def viewN : Mounts :=
  { list := [⟨[], b!"/", [], [], b!"ext4", b!"rw", false, b!"8:1", [47], b!"1", b!"0"⟩,
             vm b!"40" b!"1" b!"/b/L/x/build/m", vm b!"41" b!"40" b!"/b/L/x/build/m/s", vm b!"42" b!"41" b!"/b/L/x/build/m/s/t",
             vm b!"43" b!"40" b!"/b/L/x/build/m", vm b!"44" b!"43" b!"/b/L/x/build/m/s", vm b!"45" b!"44" b!"/b/L/x/build/m/s/u",
             vm b!"46" b!"43" b!"/b/L/x/build/m", vm b!"47" b!"1" b!"/b/L/x/build/proc"] }
def lN : Layer := { name := b!"x", layerPath := b!"/b/L/x", state := S_mounted, mounts := getMountAndSubmounts viewN bp4 }
def dN : Defs := { layers := [lN], order := [b!"x"], mounts := viewN }
def wN : World := { kt := ktN }

/-- shaped history 20 of the scenario suite: the layer's mounts, then by hand a mount over the whole
    layer directory `/b/L/x` (50) — it hangs below the root like the layer's own mounts and covers
    them from OUTSIDE the build root -/
def ktCov : KTable :=
  { mnts := [root4, km 30 1 b!"/b/L/x/build/proc", km 31 1 b!"/b/L/x/build/dev", km 50 1 b!"/b/L/x"], nextId := 51 }
def ktUncov : KTable := { ktCov with mnts := ktCov.mnts.filter (·.id != 50) }
end Example4

set_option maxRecDepth 4000 in
/-- the hypotheses of `umount_tree_order_no_call_refused` hold on the nested-cover table (which is
    not `NoHidden`); the issue order is evaluated; the kernel model accepts all seven calls; by the
    theorem the table afterwards holds the root only -/
theorem tree_order_nested_instance :
    TreeS Example4.wN.kt.mnts ∧ ClosedRegion Example4.wN.kt.mnts (buildPath Example.cfg0 Example4.lN) ∧
    ¬ NoHidden Example4.wN.kt.mnts ∧
    ViewAgrees Example4.lN (buildPath Example.cfg0 Example4.lN) Example4.wN.kt ∧
    (Example4.lN.mounts.map (·.id)) = [b!"40", b!"41", b!"42", b!"43", b!"44", b!"45", b!"46", b!"47"] ∧
    (kumountSeq Example4.wN.kt (issueOrder Example4.lN)).2.2 = none ∧
    ((unmountLayer Example.cfg0 Example4.dN b!"x").run.run Example4.wN).2.kt.mnts = [Example4.root4] := by
  have hts : TreeS Example4.wN.kt.mnts :=
    { ids := by decide +kernel, parentFirst := by decide +kernel, noSelf := by decide +kernel,
      under := by decide +kernel, noTwins := by decide +kernel, rootsApart := by decide +kernel }
  have hcl : ClosedRegion Example4.wN.kt.mnts (buildPath Example.cfg0 Example4.lN) := by decide +kernel
  have hva : ViewAgrees Example4.lN (buildPath Example.cfg0 Example4.lN) Example4.wN.kt :=
    viewAgrees_intro Example4.viewN (by rfl) (by decide +kernel)
  have hthm := umount_tree_order_no_call_refused Example.cfg0 Example4.dN b!"x" Example4.wN Example4.lN rfl
    ⟨rfl, rfl, rfl⟩ hts hcl hva (by decide) (by decide) rfl
  refine ⟨hts, hcl, ?_, hva, by decide +kernel, hthm.1, ?_⟩
  · intro h
    have := h.sib (Example4.km 43 40 b!"/b/L/x/build/m") (by simp [Example4.wN, Example4.ktN])
      (Example4.km 41 40 b!"/b/L/x/build/m/s") (by simp [Example4.wN, Example4.ktN]) (by decide) (.inl rfl)
    exact absurd this (by decide)
  · rw [hthm.2.1]
    decide +kernel

/-- cross-check by evaluating the kernel model on the issue order (independent of the theorem) -/
example : (kumountSeq Example4.wN.kt (issueOrder Example4.lN)) =
    (issueOrder Example4.lN, { Example4.ktN with mnts := [Example4.root4] }, none) := by decide +kernel

/-- **`ClosedRegion` fails exactly for the "layer directory covered from outside" table** (shaped
    history 20): strict tree, but the cover on `/b/L/x` blocks the layer's mounts from outside
    the build root — and indeed every unmount call is refused (EINVAL) there; without the cover
    the region is closed -/
theorem closedRegion_fails_when_covered_from_outside :
    TreeS Example4.ktCov.mnts ∧ ¬ ClosedRegion Example4.ktCov.mnts Example4.bp4 ∧
    (kumountSeq Example4.ktCov [b!"/b/L/x/build/proc", b!"/b/L/x/build/dev"]).2.2 = some .einval ∧
    (kumountSeq Example4.ktCov [b!"/b/L/x/build/dev", b!"/b/L/x/build/proc"]).2.2 = some .einval ∧
    TreeS Example4.ktUncov.mnts ∧ ClosedRegion Example4.ktUncov.mnts Example4.bp4 := by
  refine ⟨{ ids := by decide +kernel, parentFirst := by decide +kernel, noSelf := by decide +kernel,
            under := by decide +kernel, noTwins := by decide +kernel, rootsApart := by decide +kernel },
    by decide +kernel, by decide +kernel, by decide +kernel,
    { ids := by decide +kernel, parentFirst := by decide +kernel, noSelf := by decide +kernel,
      under := by decide +kernel, noTwins := by decide +kernel, rootsApart := by decide +kernel },
    by decide +kernel⟩

/-- the binman-shaped table of `umount_hidden_submount_fixed_witness` is an instance too -/
example : TreeS Example3.w4.kt.mnts ∧ ClosedRegion Example3.w4.kt.mnts (buildPath Example.cfg0 Example3.l4) := by
  exact ⟨{ ids := by decide +kernel, parentFirst := by decide +kernel, noSelf := by decide +kernel,
           under := by decide +kernel, noTwins := by decide +kernel, rootsApart := by decide +kernel },
    by decide +kernel⟩

end Lc.Props.C03
