/-
  C01 — mount brings a layer stack to exactly its configured mounts, only as needed.

  Theorems over the command model (`Lc/Model/Layers.lean`): for EVERY configuration, `Defs`
  (forest, cached mount table), layer name and world (file system, kernel table, pretend /
  fault / crash switches), and for every exit of the run (normal or error).  The
  operations a run issues are what it appends to `World.trace`; `Emitted m w s` says the
  run of `m` from `w` appended exactly `s`.

  Master results (Lc/Lemmas/MountTrace.lean): `mountOne_run` — the trace of `mountOne` is
  `[overlay call]? ++ seg(import 1) ++ … ++ seg(import n)` in configuration order, a
  segment being `[mkdir source]? ++ ([] | mount call [propagation call]?)` and non-empty
  only if the cached table has no mount on the mountpoint; an error exit has issued a
  prefix of such a trace.  `mountCmd_run` — the trace of `mountCmd` is
  mkdirs ++ one `mountOne` segment per chain layer, root base layer first, each run with the
  `Defs` returned by the previous layer's `mountOne` ++ export-link operations.
-/
import Lc.Lemmas.MountShape
import Lc.Lemmas.Expand
import Lc.Lemmas.KernelProbe
import Lc.Lemmas.MountKernel
import Lc.Lemmas.MountArgs
import Lc.Lemmas.MountTwice
import Lc.Lemmas.InputBytes

namespace Lc.Props.C01
open Lc Lc.Layers Lc.Mountinfo Lc.Trace Lc.MountTrace Lc.Expand

/-- the run appends some list of operations and never shortens the trace -/
theorem mountOne_emits_something (cfg : Config) (d : Defs) (name : Bytes) (w : World) :
    ∃ s, Emitted (mountOne cfg d name) w s := by
  obtain ⟨s, h, _⟩ := mountOne_run cfg d name w
  exact ⟨s, h⟩

/-- the option string and arguments of the overlay call, spelled out -/
theorem overlayOp_eq (cfg : Config) (bl l : Layer) :
    overlayOp cfg bl l = Op.mount b!"overlay" (buildPath cfg l) b!"overlay" 0
      (b!"lowerdir=" ++ buildPath cfg bl ++ b!",upperdir=" ++ upperPath cfg l
        ++ b!",workdir=" ++ workPath cfg l) := by
  simp [overlayOp, mountOp, mountFlags, ovData]

/-- **mount_trace_subset_config** ("exactly, nothing else is mounted"): every structural
    mount call of `mountOne` (any exit) is the overlay of that layer on its build path with
    the prescribed arguments, or the mount of one configured import `m` of that layer:
    target `pathJoin [buildPath l, m.mount]`, type `m.fstype`, source `m.source` resolved by
    `adjustPrefixedPath`, flags determined by the type as in `fs.Mount`, no data.  In both
    cases the cached table held no mount on the target. -/
theorem mount_trace_subset_config (cfg : Config) (d : Defs) (name : Bytes) (w : World) (s : List Op)
    (h : Emitted (mountOne cfg d name) w s) (src tgt fs : Bytes) (fl : Nat) (data : Bytes)
    (hop : Op.mount src tgt fs fl data ∈ s) (hs : isPropCall (.mount src tgt fs fl data) = false) :
    ∃ l, findLayer d name = some l ∧ getMount d.mounts tgt = none ∧
      ((l.base.length > 0 ∧ ∃ bl, findLayer d l.base = some bl ∧ src = b!"overlay" ∧
          tgt = buildPath cfg l ∧ fs = b!"overlay" ∧ fl = 0 ∧
          data = b!"lowerdir=" ++ buildPath cfg bl ++ b!",upperdir=" ++ upperPath cfg l
                  ++ b!",workdir=" ++ workPath cfg l) ∨
       (∃ ex e m, expandConfigMounts cfg d l = .ok ex ∧ e ∈ ex ∧ m ∈ l.cmounts ∧
          ExpandsTo cfg d l m e ∧ src = e.source ∧ tgt = e.mount ∧ fs = e.fstype ∧
          tgt = pathJoin [buildPath cfg l, m.mount] ∧ fs = m.fstype ∧
          fl = mountFlags fs ∧ data = [])) := by
  obtain ⟨s0, he, hE, _⟩ := mountOne_run cfg d name w
  have := h.unique he
  subst this
  obtain ⟨l, hl, hal⟩ := hE.ops _ hop
  refine ⟨l, hl, ?_⟩
  rcases hal with ⟨hb, hg, bl, hbl, hov⟩ | ⟨ex, e, hex, hee, hi⟩
  · rw [overlayOp_eq] at hov
    simp only [Op.mount.injEq] at hov
    obtain ⟨rfl, rfl, rfl, rfl, rfl⟩ := hov
    exact ⟨hg, .inl ⟨hb, bl, hbl, rfl, rfl, rfl, rfl, rfl⟩⟩
  · rcases hi with hi | ⟨hg, hi | ⟨_, hi⟩⟩
    · cases hi
    · simp only [mountOp, Op.mount.injEq] at hi
      obtain ⟨rfl, rfl, rfl, rfl, rfl⟩ := hi
      obtain ⟨m, hm, hme⟩ := expand_mem hex e hee
      exact ⟨hg, .inr ⟨ex, e, m, hex, hee, hm, hme, rfl, rfl, rfl, hme.1, hme.2.1, rfl, rfl⟩⟩
    · rw [hi, propOp_is_prop] at hs
      cases hs

/-- **mountOne_targets_unmounted**: every mount call of `mountOne` that is not a propagation
    call targets a path on which the cached table (`d.mounts`, as it was when `mountOne`
    started) has no mount — on every exit. -/
theorem mountOne_targets_unmounted (cfg : Config) (d : Defs) (name : Bytes) (w : World) (s : List Op)
    (h : Emitted (mountOne cfg d name) w s) (src tgt fs : Bytes) (fl : Nat) (data : Bytes)
    (hop : Op.mount src tgt fs fl data ∈ s) (hs : isPropCall (.mount src tgt fs fl data) = false) :
    getMount d.mounts tgt = none := by
  obtain ⟨_, _, hg, _⟩ := mount_trace_subset_config cfg d name w s h src tgt fs fl data hop hs
  exact hg

/-- nothing but mkdir and mount operations is issued by `mountOne`; a propagation call only
    on the mountpoint of a configured import whose source is /dev, /sys or /run -/
theorem mountOne_only_mkdir_mount (cfg : Config) (d : Defs) (name : Bytes) (w : World) (s : List Op)
    (h : Emitted (mountOne cfg d name) w s) (op : Op) (hop : op ∈ s) :
    (∃ p, op = .mkdir p) ∨ isMountOp op = true := by
  obtain ⟨s0, he, hE, _⟩ := mountOne_run cfg d name w
  have := h.unique he
  subst this
  obtain ⟨l, _, hal⟩ := hE.ops _ hop
  rcases hal with ⟨_, _, bl, _, hov⟩ | ⟨ex, e, _, _, hi⟩
  · rw [hov]; exact .inr rfl
  · rcases hi with hi | ⟨_, hi | ⟨_, hi⟩⟩
    · exact .inl ⟨_, hi⟩
    · rw [hi]; exact .inr rfl
    · rw [hi]; exact .inr rfl

/-- **mount_overlay_args**: the only call of `mountOne` that carries mount data is the overlay
    call, and its data is exactly `lowerdir=<parent build>,upperdir=<own upper>,workdir=<own work>`,
    source and type "overlay", target the layer's build path, flags 0. -/
theorem mount_overlay_args (cfg : Config) (d : Defs) (name : Bytes) (w : World) (s : List Op)
    (h : Emitted (mountOne cfg d name) w s) (src tgt fs : Bytes) (fl : Nat) (data : Bytes)
    (hop : Op.mount src tgt fs fl data ∈ s) (hdata : data ≠ []) :
    ∃ l bl, findLayer d name = some l ∧ findLayer d l.base = some bl ∧
      src = b!"overlay" ∧ tgt = buildPath cfg l ∧ fs = b!"overlay" ∧ fl = 0 ∧
      data = b!"lowerdir=" ++ buildPath cfg bl ++ b!",upperdir=" ++ upperPath cfg l
              ++ b!",workdir=" ++ workPath cfg l := by
  obtain ⟨s0, he, hE, _⟩ := mountOne_run cfg d name w
  have := h.unique he
  subst this
  obtain ⟨l, hl, hal⟩ := hE.ops _ hop
  rcases hal with ⟨hb, hg, bl, hbl, hov⟩ | ⟨ex, e, hex, hee, hi⟩
  · rw [overlayOp_eq] at hov
    simp only [Op.mount.injEq] at hov
    obtain ⟨rfl, rfl, rfl, rfl, rfl⟩ := hov
    exact ⟨l, bl, hl, hbl, rfl, rfl, rfl, rfl, rfl⟩
  · exfalso
    rcases hi with hi | ⟨hg, hi | ⟨_, hi⟩⟩
    · cases hi
    · simp only [mountOp, Op.mount.injEq] at hi
      exact hdata hi.2.2.2.2
    · simp only [propOp, Op.mount.injEq] at hi
      exact hdata hi.2.2.2.2

/-- an operation of an import is never the overlay call -/
theorem itemOp_ne_overlay (cfg : Config) (d : Defs) (e : Expanded) (bl l : Layer) (op : Op)
    (hi : IsItemOp d e op) : op ≠ overlayOp cfg bl l := by
  intro heq
  rw [overlayOp_eq] at heq
  rcases hi with hi | ⟨_, hi | ⟨_, hi⟩⟩
  · rw [hi] at heq; cases heq
  · rw [hi] at heq
    simp only [mountOp, Op.mount.injEq] at heq
    have := heq.2.2.2.2
    simp at this
  · rw [hi] at heq
    simp only [propOp, Op.mount.injEq] at heq
    have := heq.2.2.1
    simp at this

/-- **mount_order (overlay before imports)**: on every exit the trace of `mountOne` is either
    made of import operations only, or it is the overlay call followed by import operations
    only; so the overlay call — if issued — precedes every import mount. -/
theorem mount_order_overlay_first (cfg : Config) (d : Defs) (name : Bytes) (w : World) (s : List Op)
    (h : Emitted (mountOne cfg d name) w s) :
    s = [] ∨ ∃ l, findLayer d name = some l ∧
      ∃ it, (s = it ∨ ∃ bl, findLayer d l.base = some bl ∧ s = overlayOp cfg bl l :: it) ∧
        ∀ op ∈ it, (∃ ex e, expandConfigMounts cfg d l = .ok ex ∧ e ∈ ex ∧ IsItemOp d e op) ∧
                   ∀ bl, op ≠ overlayOp cfg bl l := by
  obtain ⟨s0, he, hE, _⟩ := mountOne_run cfg d name w
  have := h.unique he
  subst this
  rcases hE.shape with h0 | ⟨l, hl, it, hs, hit⟩
  · exact .inl h0
  · refine .inr ⟨l, hl, it, ?_, ?_⟩
    · rcases hs with hs | ⟨bl, _, hbl, hs⟩
      · exact .inl hs
      · exact .inr ⟨bl, hbl, hs⟩
    · intro op hop
      obtain ⟨ex, e, hex, hee, hi⟩ := hit op hop
      exact ⟨⟨ex, e, hex, hee, hi⟩, fun bl => itemOp_ne_overlay cfg d e bl l op hi⟩

/-- **mount_order (propagation)**: in the trace of `mountOne` every mount whose source is
    /dev, /sys or /run is immediately followed by `mount("", sameTarget, "", MS_SLAVE|MS_REC)`;
    on an error exit the only exception is such a mount being the very last operation (the
    kernel refused it, the run stopped).  On a normal exit there is no exception. -/
theorem mount_order_propagation (cfg : Config) (d : Defs) (name : Bytes) (w : World) (s : List Op)
    (h : Emitted (mountOne cfg d name) w s) :
    SlaveAdj false s ∧ (∀ d', ((mountOne cfg d name).run.run w).1 = .ok d' → SlaveAdj true s) := by
  obtain ⟨s0, he, hE, hN⟩ := mountOne_run cfg d name w
  have := h.unique he
  subst this
  refine ⟨hE.slave, ?_⟩
  intro d' hd
  obtain ⟨l, _, ht⟩ := hN d' hd
  exact ht.slave

/-- `SlaveAdj` read at a position: the successor of a /dev, /sys, /run mount -/
theorem SlaveAdj.at {strict : Bool} {s : List Op} (h : SlaveAdj strict s) (a b : List Op)
    (src tgt fs : Bytes) (fl : Nat) (data : Bytes) (hs : s = a ++ Op.mount src tgt fs fl data :: b)
    (hn : needsSlave src = true) :
    (b = [] ∧ strict = false) ∨ ∃ b', b = propOp tgt data :: b' := by
  subst hs
  induction a with
  | nil =>
    have := h.1 src tgt fs fl data rfl hn
    cases b with
    | nil => exact .inl ⟨rfl, this⟩
    | cons x b' => exact .inr ⟨b', by rw [this]⟩
  | cons x a ih => exact ih h.2

/-- **mount_order (chain)** and the lift of the per-layer results to the whole command:
    on every exit the trace of `mountCmd` consists of file-system operations only (early
    failure), or it is  pre ++ segs ++ post  where pre (directory creation) and post (export
    links) contain no mount/umount call, `chain` is the base chain of the named layer in `d`
    with the root base layer first, and `segs` is the concatenation, in chain order, of one
    `mountOne` trace per chain layer (the last one possibly cut short by an error), the first
    run with the cached table the command started with, each further one with the `Defs` the
    previous layer's `mountOne` returned. -/
theorem mountCmd_trace (cfg : Config) (d : Defs) (name : Bytes) (w : World) (s : List Op)
    (h : Emitted (mountCmd cfg d name) w s) :
    MountCmdE cfg d name s ∧
      (∀ d', ((mountCmd cfg d name).run.run w).1 = .ok d' → MountCmdN cfg d name s) := by
  obtain ⟨s0, he, hE, hN⟩ := mountCmd_run cfg d name w
  have := h.unique he
  subst this
  exact ⟨hE, hN⟩

theorem BaseChain.nil_inv {d : Defs} {c : List Layer} {n : Bytes} (h : BaseChain d c n) (hc : c = []) :
    n.length = 0 := by
  cases h with
  | nil h0 => exact h0
  | snoc _ _ _ => simp at hc

/-- the chain starts at a layer without base (the root base layer) … -/
theorem BaseChain.root_first {d : Defs} {chain : List Layer} {n : Bytes} (h : BaseChain d chain n) :
    ∀ a rest, chain = a :: rest → a.base.length = 0 := by
  induction h with
  | nil _ => intro a rest h; cases h
  | snoc hl hn hc ih =>
    rename_i c l n'
    intro a rest heq
    cases c with
    | nil =>
      simp only [List.nil_append, List.cons.injEq] at heq
      rw [← heq.1]
      exact BaseChain.nil_inv hc rfl
    | cons x c' =>
      simp only [List.cons_append, List.cons.injEq] at heq
      exact ih a c' (by rw [heq.1])

theorem BaseChain.last_aux {d : Defs} {c' : List Layer} {n : Bytes} (h : BaseChain d c' n) :
    ∀ c l, c' = c ++ [l] → findLayer d n = some l ∧ BaseChain d c l.base := by
  cases h with
  | nil _ => intro c l h; simp at h
  | snoc hl hn hc =>
    intro c l heq
    obtain ⟨h1, h2⟩ := List.append_inj' heq rfl
    simp only [List.cons.injEq, and_true] at h2
    subst h1; subst h2
    exact ⟨hl, hc⟩

/-- … and ends at the named layer, every element being the `d`-entry of its name and the
    base of each element being the name of its predecessor -/
theorem BaseChain.last {d : Defs} {c : List Layer} {l : Layer} {n : Bytes}
    (h : BaseChain d (c ++ [l]) n) : findLayer d n = some l ∧ BaseChain d c l.base :=
  BaseChain.last_aux h c l rfl

/-- every operation of the per-layer segments lies in the segment of some chain layer `a`,
    run with some `Defs` `d'` handed to that layer's `mountOne` -/
theorem FoldErr.mem {cfg : Config} {d0 : Defs} {chain : List Layer} {s : List Op}
    (h : FoldErr (SegN cfg) (SegE cfg) d0 chain s) :
    ∀ op ∈ s, ∃ d' a seg, a ∈ chain ∧ MountOneE cfg d' a.name seg ∧ op ∈ seg := by
  induction h with
  | here hseg => intro op hop; exact ⟨_, _, _, List.mem_cons_self, hseg, hop⟩
  | later hseg _ ih =>
    intro op hop
    rcases List.mem_append.mp hop with hop | hop
    · exact ⟨_, _, _, List.mem_cons_self, MountOneN.toE hseg.1, hop⟩
    · obtain ⟨d', a, seg, ha, hs, ho⟩ := ih op hop
      exact ⟨d', a, seg, List.mem_cons_of_mem _ ha, hs, ho⟩

theorem FoldOk.mem {cfg : Config} {d0 d1 : Defs} {chain : List Layer} {s : List Op}
    (h : FoldOk (SegN cfg) d0 chain s d1) :
    ∀ op ∈ s, ∃ d' a seg, a ∈ chain ∧ MountOneE cfg d' a.name seg ∧ op ∈ seg := by
  induction h with
  | nil _ => intro op hop; cases hop
  | cons hseg _ ih =>
    intro op hop
    rcases List.mem_append.mp hop with hop | hop
    · exact ⟨_, _, _, List.mem_cons_self, MountOneN.toE hseg.1, hop⟩
    · obtain ⟨d', a, seg, ha, hs, ho⟩ := ih op hop
      exact ⟨d', a, seg, List.mem_cons_of_mem _ ha, hs, ho⟩

/-- **mountCmd_targets_unmounted**: every structural mount call of the whole command belongs
    to the `mountOne` of a chain layer `a` and targets a path that was not a mountpoint in the
    cached table of the `Defs` `d'` held during that layer's `mountOne`; it is the overlay of
    `a` or one of its configured imports (all of `mount_trace_subset_config` applies to it). -/
theorem mountCmd_targets_unmounted (cfg : Config) (d : Defs) (name : Bytes) (w : World) (s : List Op)
    (h : Emitted (mountCmd cfg d name) w s) (src tgt fs : Bytes) (fl : Nat) (data : Bytes)
    (hop : Op.mount src tgt fs fl data ∈ s) (hs : isPropCall (.mount src tgt fs fl data) = false) :
    ∃ d' l, (∃ chain, BaseChain d chain name ∧ ∃ a ∈ chain, findLayer d' a.name = some l) ∧
      getMount d'.mounts tgt = none ∧ OpAllowed cfg d' l (.mount src tgt fs fl data) := by
  obtain ⟨hE, _⟩ := mountCmd_trace cfg d name w s h
  rcases hE with hns | ⟨chain, pre, segs, post, d0, rfl, hpre, hpost, hchain, _, hsegs⟩
  · have := hns _ hop
    simp [isSys, isMountOp] at this
  · have hin : Op.mount src tgt fs fl data ∈ segs := by
      rcases List.mem_append.mp hop with hop | hop
      · rcases List.mem_append.mp hop with hop | hop
        · have := hpre _ hop; simp [isSys, isMountOp] at this
        · exact hop
      · have := hpost _ hop; simp [isSys, isMountOp] at this
    have hmem : ∃ d' a seg, a ∈ chain ∧ MountOneE cfg d' a.name seg ∧ Op.mount src tgt fs fl data ∈ seg := by
      rcases hsegs with ⟨d1, hok⟩ | herr
      · exact FoldOk.mem hok _ hin
      · exact FoldErr.mem herr _ hin
    obtain ⟨d', a, seg, ha, hseg, hopseg⟩ := hmem
    obtain ⟨l, hl, hal⟩ := hseg.ops _ hopseg
    refine ⟨d', l, ⟨chain, hchain, a, ha, hl⟩, ?_, hal⟩
    rcases hal with ⟨_, hg, bl, _, hov⟩ | ⟨ex, e, _, _, hi⟩
    · rw [overlayOp_eq] at hov
      simp only [Op.mount.injEq] at hov
      rw [hov.2.1]; exact hg
    · rcases hi with hi | ⟨hg, hi | ⟨_, hi⟩⟩
      · cases hi
      · simp only [mountOp, Op.mount.injEq] at hi
        rw [hi.2.1]; exact hg
      · rw [hi, propOp_is_prop] at hs; cases hs

/-- **mount_idempotent_partial**: if, when `mountOne` starts, the cached table already shows a
    mount on the build path (derived layer) and on every expanded mountpoint, then `mountOne`
    issues no mount call at all (any exit).
    PARTIAL: the hypothesis speaks about the cache; that the cache is in this state after a
    successful earlier `mount` of the same layer is `mountOne_establishes_cache`, and the
    statement about two runs of the command without a cache hypothesis is `mount_idempotent`
    (both below, through the kernel model and the probe round-trip). -/
theorem mount_idempotent_partial (cfg : Config) (d : Defs) (name : Bytes) (w : World) (s : List Op)
    (h : Emitted (mountOne cfg d name) w s)
    (hov : ∀ l, findLayer d name = some l → l.base.length > 0 → getMount d.mounts (buildPath cfg l) ≠ none)
    (himp : ∀ l ex, findLayer d name = some l → expandConfigMounts cfg d l = .ok ex →
      ∀ e ∈ ex, getMount d.mounts e.mount ≠ none) :
    ∀ op ∈ s, isMountOp op = false := by
  obtain ⟨s0, he, hE, _⟩ := mountOne_run cfg d name w
  have := h.unique he
  subst this
  intro op hop
  obtain ⟨l, hl, hal⟩ := hE.ops _ hop
  rcases hal with ⟨hb, hg, _⟩ | ⟨ex, e, hex, hee, hi⟩
  · exact absurd hg (hov l hl hb)
  · rcases hi with hi | ⟨hg, _⟩
    · rw [hi]; rfl
    · exact absurd hg (himp l ex hl hex e hee)

/-! ### where configured imports go and what `$$self` / `$$base` mean -/

/-- every expanded import of `l` sits at `pathJoin [buildPath l, m.mount]` for a configured
    import `m`, keeps its type, and has the source `adjustPrefixedPath` computes -/
theorem expand_places_under_buildpath (cfg : Config) (d : Defs) (l : Layer) (ex : List Expanded)
    (h : expandConfigMounts cfg d l = .ok ex) :
    ex.length = l.cmounts.length ∧
    ∀ e ∈ ex, ∃ m ∈ l.cmounts, e.mount = pathJoin [buildPath cfg l, m.mount] ∧ e.fstype = m.fstype ∧
      adjustPrefixedPath m.source (resolver d l) = .ok e.source := by
  refine ⟨expand_length h, ?_⟩
  intro e he
  obtain ⟨m, hm, h1, h2, _, _, h5⟩ := expand_mem h e he
  exact ⟨m, hm, h1, h2, h5⟩

/-- `$$self[/tail]` is the layer's own directory joined with the tail -/
theorem resolve_self (d : Defs) (l : Layer) (tail : Bytes) (ht : tail = [] ∨ ∃ t, tail = 47 :: t)
    (src : Bytes) (h : adjustPrefixedPath (b!"$$self" ++ tail) (resolver d l) = .ok src) :
    src = pathJoin [l.layerPath, tail] := by
  rw [adjust_self tail ht] at h
  unfold absCheck at h
  split at h
  · cases h
  · cases h; rfl

/-- `$$base[/tail]` is the directory of the root base layer of `l` (reached over base links,
    itself without base) joined with the tail -/
theorem resolve_base (d : Defs) (l : Layer) (tail : Bytes) (ht : tail = [] ∨ ∃ t, tail = 47 :: t)
    (src : Bytes) (h : adjustPrefixedPath (b!"$$base" ++ tail) (resolver d l) = .ok src) :
    ∃ r, UpChain d l r ∧ r.base.length = 0 ∧ src = pathJoin [r.layerPath, tail] := by
  cases hr : findLayerBase d (d.layers.length + 1) l with
  | none =>
    unfold adjustPrefixedPath at h
    rw [decompose_base tail ht] at h
    simp [resolver, hr] at h
    cases h
  | some r =>
    obtain ⟨h1, h2⟩ := findLayerBase_root d _ l r hr
    rw [adjust_base tail ht d l r hr] at h
    unfold absCheck at h
    split at h
    · cases h
    · cases h; exact ⟨r, h2, h1, rfl⟩

/-! ### non-vacuity: a derived layer with a /dev rbind and a `$$base` import -/

namespace Example
def cfg0 : Config := { basepath := b!"/b", layerdirs := b!"/b/L", buildRoot := b!"build", binPkg := b!"pk", generated := b!"gen", workdir := b!"work", upperdir := b!"upper", exportdirs := b!"/b/E", exportBinPkg := b!"p", exportGenerated := b!"g" }
def lb : Layer := { name := b!"b0", layerPath := b!"/b/L/b0", state := S_mountable, cmounts := [⟨b!"/dev", b!"/dev", b!"rbind"⟩] }
def lx : Layer := { name := b!"x", base := b!"b0", layerPath := b!"/b/L/x", state := S_mountable, cmounts := [⟨b!"/dev", b!"/dev", b!"rbind"⟩, ⟨b!"/pk", b!"$$base/pk", b!"bind"⟩] }
def d0 : Defs := { layers := [lb, lx], order := [b!"b0", b!"x"] }
/-- host with / and /dev mounted, /dev present; the fourth fault point (the mkdir after the propagation call, which is a fault point of its own) is made to fail -/
def w0 : World := { fs := [(b!"/dev", .dir)], kt := { mnts := [⟨1, 0, b!"0:1", [47], [47], b!"ext4", b!"/dev/sda", [], [], []⟩, ⟨2, 1, b!"0:5", [47], b!"/dev", b!"devtmpfs", b!"devtmpfs", [], [], []⟩] }, faultAt := some 4 }
def exX : List Expanded := [⟨b!"/b/L/x/build/dev", b!"/dev", b!"rbind", b!"/dev", b!"/dev"⟩, ⟨b!"/b/L/x/build/pk", b!"/b/L/b0/pk", b!"bind", b!"/pk", b!"$$base/pk"⟩]

set_option maxHeartbeats 2000000 in
/-- a real run of the model: overlay call, /dev rbind, propagation call, then the injected
    fault stops it (the hypotheses `Emitted … s`, `op ∈ s`, structural / propagation are all
    inhabited) -/
example : Emitted (mountOne cfg0 d0 b!"x") w0
    [overlayOp cfg0 lb lx, mountOp b!"/dev" b!"/b/L/x/build/dev" b!"rbind" [], propOp b!"/b/L/x/build/dev" []] := by
  unfold Emitted; rfl

example : expandConfigMounts cfg0 d0 lx = .ok exX := by rfl

/-- the complete trace shape of the same layer is an instance of the grammar -/
example : MountOneN cfg0 d0 b!"x"
    ([overlayOp cfg0 lb lx] ++ (([] ++ ([] ++ fsMountOps b!"/dev" b!"/b/L/x/build/dev" b!"rbind" [])) ++
      ([Op.mkdir b!"/b/L/b0/pk"] ++ fsMountOps b!"/b/L/b0/pk" b!"/b/L/x/build/pk" b!"bind" []))) :=
  ⟨lx, rfl, _, _, rfl, .inr ⟨by decide, rfl, lb, rfl, rfl⟩, .inr ⟨exX, rfl,
    ItemSegs.snoc (ms := [_]) (ItemSegs.snoc (ms := []) ItemSegs.nil ⟨[], _, rfl, .inl rfl, .inr ⟨rfl, rfl⟩⟩)
      ⟨_, _, rfl, .inr rfl, .inr ⟨rfl, rfl⟩⟩⟩⟩

/-- `$$base/pk` of the derived layer resolves into the root base layer's directory -/
example : adjustPrefixedPath (b!"$$base" ++ b!"/pk") (resolver d0 lx) = .ok b!"/b/L/b0/pk" := by rfl
example : BaseChain d0 ([] ++ [lb] ++ [lx]) b!"x" :=
  BaseChain.snoc (l := lx) rfl (by decide) (BaseChain.snoc (l := lb) rfl (by decide) (BaseChain.nil rfl))
end Example

/-! ## The kernel table, its probe, and idempotence

  `Kernel.probe t` renders the kernel-table model as /proc/self/mountinfo text and parses it
  with the model of `fs.ProbeMounts`; C12 proves that parser against the kernel's escaping.
  The theorems below connect the three (`probe_sees_table`, `kmount_then_probe`), show what a
  successful `mountOne` leaves in the kernel table and in the cache it returns
  (`mountOne_mounts_all`, `mountOne_establishes_cache`), and compose them over the chain and
  over two consecutive runs of the command (`mount_idempotent`). -/

open Lc.Kernel Lc.KernelProbe Lc.MountKernel Lc.MountArgs Lc.Spec Lc.MountChain Lc.InputBytes Lc.FsGrow

/-- **probe_sees_table**: for every well-formed kernel table (device numbers and types are
    tokens; root, mountpoint, source, overlay directories any byte strings; no overlay workdir
    ending in CR) the probe succeeds, and `GetMount` on the result finds a mount at a path
    exactly when the table has a mount with that mountpoint; with stacked mounts it reports the
    topmost (latest) one, with its type, device, root and overlay directories. -/
theorem probe_sees_table {t : KTable} (h : KWF t) :
    ∃ M, Kernel.probe t = .ok M ∧
      (∀ mp, getMount M mp = none ↔ topmostAt t.mnts mp = none) ∧
      (∀ mp km, topmostAt t.mnts mp = some km → ∃ e, getMount M mp = some e ∧ Reports e km) :=
  KernelProbe.probe_sees_table h

/-- `kmount` keeps a well-formed table well-formed (remounts and propagation changes need no
    condition: they do not change the table) -/
theorem kmount_keeps_wf {t t' : KTable} {src tgt fstype : Bytes} {flags : Nat} {data : Bytes}
    (ht : KWF t) (ha : isStructural flags = true → ArgsOK src tgt fstype flags data)
    (h : kmount t src tgt fstype flags data = .ok t') : KWF t' :=
  kmount_wf' ht ha h

/-- **kmount_then_probe**: after a successful `mount(2)` on a well-formed table the probe of
    the new table succeeds and shows a mount at the target; every mountpoint the probe of the
    old table showed is still shown; for an overlay mount the entry found has type "overlay"
    and the lower/upper/work directories the option parser reads from the mount data. -/
theorem kmount_then_probe {t t' : KTable} {src tgt fstype : Bytes} {flags : Nat} {data : Bytes}
    (ht : KWF t) (ha : isStructural flags = true → ArgsOK src tgt fstype flags data)
    (h : kmount t src tgt fstype flags data = .ok t') :
    ∃ M e, Kernel.probe t' = .ok M ∧ getMount M tgt = some e ∧ e.mountpoint = tgt ∧
      (∀ M0 mp, Kernel.probe t = .ok M0 → getMount M0 mp ≠ none → getMount M mp ≠ none) ∧
      (isStructural flags = true → hasFlag flags MS_BIND = false → fstype = b!"overlay" →
        e.fstype = b!"overlay" ∧ e.source = (parseOverlayOpts data).lower ∧
        e.source2 = (parseOverlayOpts data).upper ∧ e.workdir = (parseOverlayOpts data).work) := by
  have ht' := kmount_wf' ht ha h
  obtain ⟨M, hM, hnone, hsome⟩ := KernelProbe.probe_sees_table ht'
  have hhas := kmount_has h
  rw [hasMount_iff_topmost] at hhas
  cases hk : topmostAt t'.mnts tgt with
  | none => exact absurd hk hhas
  | some km =>
    obtain ⟨e, he, hr⟩ := hsome tgt km hk
    obtain ⟨_, _, _, hmp, _⟩ := topmostAt_some hk
    refine ⟨M, e, hM, he, hr.mountpoint.trans hmp, ?_, ?_⟩
    · intro M0 mp hM0 hg
      rw [probe_getMount_iff ht' hM]
      exact (kmount_ext h).hasMount ((probe_getMount_iff ht hM0 mp).mp hg)
    · intro hs hb hf
      obtain ⟨km', hk', h1, _, h3, h4, h5⟩ := kmount_overlay_top hs hb hf h
      rw [hk] at hk'
      cases hk'
      obtain ⟨e1, e2, e3⟩ := hr.overlay h1
      exact ⟨hr.fstype.trans h1, e1.trans h3, e2.trans h4, e3.trans h5⟩

namespace Example
/-- host table: / on ext4, /dev on devtmpfs -/
def kt0 : KTable := { mnts := [⟨1, 0, b!"8:1", [47], [47], b!"ext4", b!"/dev/sda", [], [], []⟩,
                               ⟨2, 1, b!"0:5", [47], b!"/dev", b!"devtmpfs", b!"devtmpfs", [], [], []⟩] }

end Example

theorem Example.kt0_wf : KWF Example.kt0 := by
  intro m hm
  simp only [Example.kt0, List.mem_cons, List.not_mem_nil, or_false] at hm
  rcases hm with rfl | rfl <;> constructor <;> simp [TokenOK, IsB]

namespace Example
/-- the overlay mount of layer x below a base path with a blank: hypotheses of
    `kmount_then_probe` hold and the call succeeds -/
def ovArgs : Bytes := b!"lowerdir=/my b/L/b0/build,upperdir=/my b/L/x/upper,workdir=/my b/L/x/work"
end Example

theorem Example.ovArgs_ok : ArgsOK b!"overlay" b!"/my b/L/x/build" b!"overlay" 0 Example.ovArgs := by
  refine ⟨by simp [IsB], by simp [IsB], fun _ => by simp [TokenOK], by simp [IsB, Example.ovArgs], by decide⟩

namespace Example

example : ∃ t', kmount kt0 b!"overlay" b!"/my b/L/x/build" b!"overlay" 0 ovArgs = .ok t' ∧
    ∃ M e, Kernel.probe t' = .ok M ∧ getMount M b!"/my b/L/x/build" = some e ∧
      e.source = b!"/my b/L/b0/build" ∧ e.workdir = b!"/my b/L/x/work" ∧ getMount M b!"/dev" ≠ none := by
  refine ⟨_, rfl, ?_⟩
  obtain ⟨M, e, hM, he, _, hmono, hov⟩ := kmount_then_probe kt0_wf (fun _ => ovArgs_ok) rfl
  obtain ⟨_, h2, _, h4⟩ := hov (by decide) (by decide) rfl
  obtain ⟨M0, hM0, hn, _⟩ := probe_sees_table kt0_wf
  refine ⟨M, e, hM, he, h2.trans (by decide), h4.trans (by decide), hmono M0 _ hM0 ?_⟩
  rw [Ne, hn]
  decide
end Example

/-- **mountOne_mounts_all**: after a successful `mountOne` that is not pretending, started with
    a cache that shows no mountpoint the kernel table does not have, the kernel table of the
    resulting world carries a mount on the build path (derived layer) and on every expanded
    import mountpoint of the layer; it lost no entry. -/
theorem mountOne_mounts_all (cfg : Config) (d : Defs) (name : Bytes) (w w' : World) (d' : Defs)
    (hp : w.pretend = false) (hrun : (mountOne cfg d name).run.run w = (.ok d', w'))
    (hcache : ∀ p, getMount d.mounts p ≠ none → HasMount w.kt p) :
    Ext w.kt w'.kt ∧ ∃ l ex, findLayer d name = some l ∧ expandConfigMounts cfg d l = .ok ex ∧
      (l.base.length > 0 → HasMount w'.kt (buildPath cfg l)) ∧ ∀ e ∈ ex, HasMount w'.kt e.mount := by
  obtain ⟨_, hext, _, l, ex, hl, hex, hov, hit, _⟩ := mountOne_run_ok cfg d name w w' d' hp hrun
  refine ⟨hext, l, ex, hl, hex, ?_, ?_⟩
  · intro hb
    rcases hov hb with hc | hm
    · exact hext.hasMount (hcache _ hc)
    · exact hm
  · intro e he
    rcases hit e he with hc | hm
    · exact hext.hasMount (hcache _ hc)
    · exact hm

/-- **mountOne_establishes_cache**: if moreover the kernel table is well-formed and the layer
    records are byte strings (`DefsOK`), the table stays well-formed, the cache `mountOne`
    returns is the probe of the final table, it shows a mount exactly where the table has one,
    and therefore it shows a mount on the build path (derived layer) and on every expanded
    import mountpoint — the hypotheses of `mount_idempotent_partial` for the next `mountOne`
    of this layer. -/
theorem mountOne_establishes_cache (cfg : Config) (d : Defs) (name : Bytes) (w w' : World) (d' : Defs)
    (hp : w.pretend = false) (hrun : (mountOne cfg d name).run.run w = (.ok d', w'))
    (hcache : ∀ p, getMount d.mounts p ≠ none → HasMount w.kt p)
    (hwf : KWF w.kt) (hd : DefsOK cfg d) :
    KWF w'.kt ∧ Kernel.probe w'.kt = .ok d'.mounts ∧
    (∀ p, getMount d'.mounts p ≠ none ↔ HasMount w'.kt p) ∧
    ∃ l ex, findLayer d name = some l ∧ expandConfigMounts cfg d l = .ok ex ∧
      (l.base.length > 0 → getMount d'.mounts (buildPath cfg l) ≠ none) ∧
      ∀ e ∈ ex, getMount d'.mounts e.mount ≠ none := by
  obtain ⟨_, _, hprobe, _⟩ := mountOne_run_ok cfg d name w w' d' hp hrun
  obtain ⟨_, l, ex, hl, hex, hov, hit⟩ := mountOne_mounts_all cfg d name w w' d' hp hrun hcache
  have hwf' : KWF w'.kt := by
    have := Hoare.extract KW _ (mountOne_kw hd name) w hwf
    rw [hrun] at this
    exact this
  have hiff := fun p => probe_getMount_iff hwf' hprobe p
  exact ⟨hwf', hprobe, hiff, l, ex, hl, hex, fun hb => (hiff _).mpr (hov hb),
    fun e he => (hiff _).mpr (hit e he)⟩

/-- **mount_complete** (the first run, whole command): a successful `mountCmd` that is not
    pretending, on a well-formed kernel table, with well-formed layer records and a cache that
    shows no mountpoint the table does not have, leaves a mount on the build path of every
    derived layer and on every configured import mountpoint of every layer of the base chain
    (root base layer … named layer); kernel table and tree only gained entries. -/
theorem mount_complete (cfg : Config) (d d' : Defs) (name : Bytes) (w w' : World)
    (hp : w.pretend = false) (hwf : KWF w.kt) (hd : DefsOK cfg d)
    (hcache : ∀ p, getMount d.mounts p ≠ none → HasMount w.kt p)
    (h : (mountCmd cfg d name).run.run w = (.ok d', w')) :
    KWF w'.kt ∧ Ext w.kt w'.kt ∧ FsExt w.fs w'.fs ∧ ∃ chain, BaseChain d chain name ∧
      ∀ a ∈ chain, ∀ l, findLayer d a.name = some l →
        (l.base.length > 0 → HasMount w'.kt (buildPath cfg l)) ∧
        ∀ m ∈ l.cmounts, HasMount w'.kt (pathJoin [buildPath cfg l, m.mount]) := by
  obtain ⟨_, hwf', hk, chain, hc, hpts⟩ := MountTwice.mountCmd_first hp hwf hd hcache h
  exact ⟨hwf', hk.2.1, hk.2.2, chain, hc, hpts⟩

/-- **mount_idempotent**: for every configuration, in-use map, layer name and world `w`: if
    `layercake mount name` succeeds from `w`, then running the same command again from the
    resulting world `w1` issues no mount operation — whatever the second run returns, what it
    appends to the trace contains no `Op.mount` (only directory creation and export links can
    occur) — and leaves the kernel mount table as it is.
    Hypotheses, all about the inputs of the FIRST run: the kernel table is well-formed as the
    kernel prints it (`KWF`: device numbers and types are tokens, paths any byte strings, no
    overlay workdir ending in CR), and `InputsOK`: configuration paths, tree paths and file
    contents are byte strings (representation invariant of `Bytes = List Nat`), and no layer's
    overlay workdir read back from the mount data ends in a carriage return (C12's recorded
    finding `mountinfo-cr-at-line-end`; `workCR_of_plain` gives a plain sufficient condition).
    No condition on the layerconfig contents: duplicate, nested or escaping import mountpoints
    (finding `mount-config-not-sane`) do not affect idempotence.  Pretend mode, fault and crash
    switches are covered: under `-p` neither run attempts anything; a first run that hit the
    injected fault did not succeed. -/
theorem mount_idempotent (cfg : Config) (inuse : List (Bytes × List User)) (name : Bytes)
    (w w1 : World) (d1 : Defs) (hrun : run cfg inuse (.mount name) w = (.ok d1, w1))
    (hwf : KWF w.kt) (hin : InputsOK cfg w) :
    (run cfg inuse (.mount name) w1).2.kt = w1.kt ∧
    ∃ s, Emitted (runCmd cfg inuse (.mount name)) w1 s ∧ ∀ op ∈ s, isMountOp op = false :=
  MountTwice.mount_twice hrun hwf (fun _ h => getLayers_defsOK hin h)

namespace Example
def dirs (p : List Bytes) : Fs.Tree := p.map fun x => (x, Fs.Node.dir)
/-- base layer b0 (rbind of /dev) and derived layer x (rbind of /dev, bind of `$$base/pk`),
    build roots populated, nothing mounted yet -/
def fsF : Fs.Tree :=
  dirs [b!"/", b!"/b", b!"/b/L", b!"/dev", b!"/b/L/b0", b!"/b/L/b0/build",
        b!"/b/L/b0/build/bin", b!"/b/L/b0/build/etc", b!"/b/L/b0/build/lib", b!"/b/L/b0/build/opt",
        b!"/b/L/b0/build/root", b!"/b/L/b0/build/sbin", b!"/b/L/b0/build/usr", b!"/b/L/b0/build/dev",
        b!"/b/L/x", b!"/b/L/x/build", b!"/b/L/x/work", b!"/b/L/x/upper",
        b!"/b/L/x/build/bin", b!"/b/L/x/build/etc", b!"/b/L/x/build/lib", b!"/b/L/x/build/opt",
        b!"/b/L/x/build/root", b!"/b/L/x/build/sbin", b!"/b/L/x/build/usr", b!"/b/L/x/build/dev",
        b!"/b/L/x/build/pk"] ++
  [(b!"/b/L/b0/layerconfig", .file b!"import rbind /dev /dev\n"),
   (b!"/b/L/x/layerconfig", .file b!"base b0\n\nimport rbind /dev /dev\nimport bind $$base/pk /pk\n")]
def wF : World := { fs := fsF, kt := kt0 }

end Example

theorem Example.wF_inputsOK : InputsOK Example.cfg0 Example.wF :=
  ⟨by simp [IsB, Example.cfg0], by simp [IsB, Example.cfg0], by simp [IsB, Example.cfg0],
    by simp [IsB, Example.cfg0], treeB_of_check (by decide +kernel), by decide +kernel⟩

/-- the hypotheses of `mount_idempotent` are satisfiable: `mount x` on this world succeeds (the
    model run is evaluated by the kernel), the first run issues six mount calls (rbind + slave
    for b0; overlay, rbind + slave, bind for x), and the theorem applies -/
theorem Example.wF_first_run :
    (run Example.cfg0 [] (.mount b!"x") Example.wF).1.toOption.isSome = true := by decide +kernel

namespace Example

example : (((run cfg0 [] (.mount b!"x") wF).2.trace.filter isMountOp).length = 6) := by decide +kernel

/-- what `getLayers` returns on that world -/
def dF : Defs := match (getLayers cfg0 []).run.run wF with
  | (.ok d, _) => d
  | _ => {}
end Example

theorem Example.dF_run : (getLayers Example.cfg0 []).run.run Example.wF = (.ok Example.dF, Example.wF) := by
  have h : ((getLayers Example.cfg0 []).run.run Example.wF).1.toOption.isSome = true := by decide +kernel
  have hd : Example.dF = match (getLayers Example.cfg0 []).run.run Example.wF with
    | (.ok d, _) => d
    | _ => {} := rfl
  generalize hr : (getLayers Example.cfg0 []).run.run Example.wF = r at h hd
  obtain ⟨res, w'⟩ := r
  cases res with
  | error e => simp [Except.toOption] at h
  | ok d =>
    obtain ⟨hw, _⟩ := MountTwice.getLayers_run hr
    simp only [] at hd
    rw [hd, hw]

namespace Example
/-- `mountOne_mounts_all` / `mountOne_establishes_cache` on a real run: the base layer b0 from
    the freshly probed `Defs`; afterwards the returned cache shows the /dev import mounted -/
example : ∃ d' w', (mountOne cfg0 dF b!"b0").run.run wF = (.ok d', w') ∧
    HasMount w'.kt b!"/b/L/b0/build/dev" ∧ getMount d'.mounts b!"/b/L/b0/build/dev" ≠ none := by
  have h : ((mountOne cfg0 dF b!"b0").run.run wF).1.toOption.isSome = true := by decide +kernel
  generalize hr : (mountOne cfg0 dF b!"b0").run.run wF = r at h
  obtain ⟨res, w'⟩ := r
  cases res with
  | error e => simp [Except.toOption] at h
  | ok d' =>
    obtain ⟨_, hprobe, _⟩ := MountTwice.getLayers_run dF_run
    have hcache : ∀ p, getMount dF.mounts p ≠ none → HasMount wF.kt p :=
      fun p hp => (probe_getMount_iff kt0_wf hprobe p).mp hp
    obtain ⟨_, _, hiff, l, ex, hl, hex, _, hit⟩ := mountOne_establishes_cache cfg0 dF b!"b0" wF w' d' rfl hr
      hcache kt0_wf (getLayers_defsOK wF_inputsOK dF_run)
    have hl' : (findLayer dF b!"b0").map (·.cmounts) = some [⟨b!"/dev", b!"/dev", b!"rbind"⟩] := by
      decide +kernel
    have hex' : ∀ e ∈ ex, e.mount = b!"/b/L/b0/build/dev" := by
      intro e he
      obtain ⟨m, hm, hme⟩ := expand_mem hex e he
      rw [hl] at hl'
      simp only [Option.map_some, Option.some.injEq] at hl'
      rw [hl'] at hm
      simp only [List.mem_singleton] at hm
      rw [hme.1, hm]
      have hlp : (findLayer dF b!"b0").map (·.layerPath) = some b!"/b/L/b0" := by decide +kernel
      rw [hl] at hlp
      simp only [Option.map_some, Option.some.injEq] at hlp
      unfold buildPath
      rw [hlp]
      decide
    have hne : ex ≠ [] := by
      intro e
      have := expand_length hex
      rw [hl] at hl'
      simp only [Option.map_some, Option.some.injEq] at hl'
      rw [e, hl'] at this
      simp at this
    obtain ⟨e, he⟩ := List.exists_mem_of_ne_nil ex hne
    have hg := hit e he
    rw [hex' e he] at hg
    exact ⟨d', w', rfl, (hiff _).mp hg, hg⟩

example : ∃ d1 w1, run cfg0 [] (.mount b!"x") wF = (.ok d1, w1) ∧
    (run cfg0 [] (.mount b!"x") w1).2.kt = w1.kt ∧
    ∃ s, Emitted (runCmd cfg0 [] (.mount b!"x")) w1 s ∧ ∀ op ∈ s, isMountOp op = false := by
  have h := wF_first_run
  generalize hr : run cfg0 [] (.mount b!"x") wF = r at h
  obtain ⟨res, w1⟩ := r
  cases res with
  | error e => simp [Except.toOption] at h
  | ok d1 => exact ⟨d1, w1, rfl, mount_idempotent cfg0 [] b!"x" wF w1 d1 hr kt0_wf wF_inputsOK⟩
end Example

end Lc.Props.C01
