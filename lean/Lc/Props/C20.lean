/-
  C20 — concurrent layercake invocations leave a serially explainable mount table.
  The property is FALSE for the code as it is (there is no lock between reading the mount
  table and mounting): recorded finding `no-lock-between-check-and-mount`.  Proved here,
  over the interleaving model Lc/Model/Concurrent.lean:
  * the negation, with a concrete schedule (kept in the corpus and replayed against the
    real code on every run);
  * what does hold for EVERY schedule: a process mounts a target only if its own last
    reading of the table did not show it (so stacking needs a stale reading), one turn
    changes the table by at most one mount, and a reading is an exact snapshot;
  * the serial case of the counterexample family.
-/
import Lc.Model.Concurrent

namespace Lc.Props.C20
open Lc Lc.Concurrent

def t1 : Bytes := b!"/VB/layers/b0/build/mnt/a"

/-- The full statement fails: schedule probe₀ probe₁ mount₀ mount₁ stacks two mounts on one
    mountpoint, which no serial order of the two commands produces. -/
theorem c20_counterexample :
    (run [] (mountActs [t1]) (mountActs [t1]) [false, true, false, true]).kernel = [t1, t1] ∧
    (serial01 [] (mountActs [t1]) (mountActs [t1])).kernel = [t1] ∧
    (serial10 [] (mountActs [t1]) (mountActs [t1])).kernel = [t1] := by
  decide

/-- mount/umount: a umount that read the table before the concurrent mount finished leaves
    a partly mounted layer, again not serially explainable -/
theorem c20_counterexample_mount_umount :
    (run [t1] (mountActs [t1, b!"/VB/layers/b0/build/mnt/b"]) (umountActs b!"/VB/layers/b0/build")
        [false, true, false, true]).kernel = [b!"/VB/layers/b0/build/mnt/b"] ∧
    (serial01 [t1] (mountActs [t1, b!"/VB/layers/b0/build/mnt/b"]) (umountActs b!"/VB/layers/b0/build")).kernel = [] ∧
    (serial10 [t1] (mountActs [t1, b!"/VB/layers/b0/build/mnt/b"]) (umountActs b!"/VB/layers/b0/build")).kernel
      = [t1, b!"/VB/layers/b0/build/mnt/b"] := by
  decide

/-- with the fix 8d11829 (stacked mounts are listed individually) one later umount does
    remove both stacked mounts of the counterexample -/
theorem later_umount_cleans_counterexample :
    (serial01 [t1, t1] (umountActs b!"/VB/layers/b0/build") []).kernel = [] := by
  decide

/-- a reading of the table is an exact snapshot -/
theorem probe_is_snapshot (fuel : Nat) (p : Proc) (rest : List Act) (k : List Bytes)
    (h : p.pending = .probe :: rest) :
    turn (fuel + 1) p k = ({ p with cache := k, pending := rest }, k) := by
  simp [turn, h]

/-- For EVERY process state and table: in one turn the table is left alone, or exactly one
    target is mounted — and then the process's cache did not contain it — or exactly one
    mount is removed, or the process gives up.  Stacking therefore requires a stale cache. -/
theorem turn_effect (fuel : Nat) (p : Proc) (k : List Bytes) :
    let r := turn fuel p k
    r.2 = k ∨ (∃ t, r.2 = k ++ [t] ∧ p.cache.contains t = false) ∨ (∃ t, removeLast t k = some r.2) := by
  induction fuel generalizing p with
  | zero => simp [turn]
  | succ n ih =>
    simp only
    unfold turn
    split
    · simp
    · simp
    · rename_i t rest hp
      split
      · rename_i hc
        have := ih { p with pending := rest }
        simpa using this
      · rename_i hc
        right; left
        exact ⟨t, by simp, by simpa using hc⟩
    · rename_i pre rest hp
      dsimp only
      split
      · simp
      · have := ih { p with pending := (List.map Act.umount
            (sortBy bytesLt (List.filter (atOrBelow pre) p.cache)).reverse ++ rest) }
        simpa using this
    · rename_i t rest hp
      split
      · simp
      · have := ih { p with pending := rest }
        simpa using this
    · rename_i ts rest hp
      split
      · simp
      · have := ih { p with pending := rest }
        simpa using this
    · simp
    · rename_i pre kids rest hp
      dsimp only
      split
      · have := ih { p with pending := rest, busy := true }
        simpa using this
      · split
        · have := ih { p with pending := rest }
          simpa using this
        · have := ih { p with pending := (List.map Act.umount
              (sortBy bytesLt (List.filter (atOrBelow pre) p.snap)).reverse ++ [Act.probe] ++ rest) }
          simpa using this
    · rename_i rest hp
      split
      · simp
      · have := ih { p with pending := rest }
        simpa using this
    · rename_i t rest hp
      split
      · simp
      · split
        · rename_i k' hk
          right; right
          exact ⟨t, hk⟩
        · simp

/-- a process never mounts what its own cache shows as mounted -/
theorem ensure_skips_cached (fuel : Nat) (p : Proc) (t : Bytes) (rest : List Act) (k : List Bytes)
    (hp : p.pending = .ensure t :: rest) (hc : p.cache.contains t = true) :
    turn (fuel + 1) p k = turn fuel { p with pending := rest } k := by
  have hm : t ∈ p.cache := by simpa using hc
  simp [turn, hp, hm]

/-- without interference the check is sound: a process that reads the table, finds its
    target mounted and re-reads afterwards issues no mount at all (two turns: the reading,
    then — the ensure being skipped — the closing reading) -/
theorem fresh_cache_no_mount (fuel : Nat) (p : Proc) (t : Bytes) (rest : List Act) (k : List Bytes)
    (hp : p.pending = .probe :: .ensure t :: .probe :: rest) (hk : k.contains t = true) :
    (turn (fuel + 2) (turn (fuel + 1) p k).1 (turn (fuel + 1) p k).2).2 = k := by
  have hm : t ∈ k := by simpa using hk
  simp [turn, hp, hm]

/-- chroot into a layer whose own mounts the freshly read table all shows performs no further
    kernel interaction at all: no mount call and no second reading (two turns leave the table
    as it is and the process finished) -/
theorem chroot_mounted_no_mount (fuel : Nat) (p : Proc) (layers : List (List Bytes)) (k : List Bytes)
    (hp : p.pending = chrootChainActs layers) (hk : ∀ x, x ∈ layers.getLast?.getD [] → x ∈ k) :
    (turn (fuel + 2) (turn (fuel + 1) p k).1 k).2 = k ∧
    (turn (fuel + 2) (turn (fuel + 1) p k).1 k).1.pending = [] := by
  have h1 : turn (fuel + 1) p k =
      ({ p with cache := k, pending := [.doneIfCached (layers.getLast?.getD [])] ++
          layers.flatMap fun ts => ts.map .ensure ++ [.probe] }, k) := by
    simp [turn, hp, chrootChainActs]
  rw [h1]
  have hc : (∀ x, x ∈ layers.getLast?.getD [] → x ∈ k) = True := eq_true hk
  simp [turn, hc]

/-- chroot into a layer that the freshly read table does NOT show fully mounted continues
    exactly as `mount` of the same chain does after its first reading of the table: same
    kernel interactions, same final process state (Layerdefs.Chroot → Layerdefs.Mount) -/
theorem chroot_unmounted_as_mount (fuel : Nat) (p q : Proc) (layers : List (List Bytes)) (k : List Bytes)
    (hp : p.pending = chrootChainActs layers) (hq : q.pending = mountChainActs layers)
    (hf : q.failed = p.failed) (hs : q.snap = p.snap) (hb : q.busy = p.busy)
    (hk : ¬ ∀ x, x ∈ layers.getLast?.getD [] → x ∈ k) :
    turn (fuel + 2) (turn (fuel + 1) p k).1 k = turn (fuel + 1) (turn (fuel + 1) q k).1 k := by
  have h1 : turn (fuel + 1) p k =
      ({ p with cache := k, pending := [.doneIfCached (layers.getLast?.getD [])] ++
          layers.flatMap fun ts => ts.map .ensure ++ [.probe] }, k) := by
    simp [turn, hp, chrootChainActs]
  have h2 : turn (fuel + 1) q k =
      ({ q with cache := k, pending := layers.flatMap fun ts => ts.map .ensure ++ [.probe] }, k) := by
    simp [turn, hq, mountChainActs]
  rw [h1, h2]
  have hc : (∀ x, x ∈ layers.getLast?.getD [] → x ∈ k) = False := eq_false hk
  conv => lhs; unfold turn
  simp [hc, hf, hs, hb]

/-- `umount -all` skips a layer on which the latest reading of the table shows a child's
    overlay: no unmount call for it, no kernel interaction, the command is marked busy -/
theorem allLayer_busy_skipped (fuel : Nat) (p : Proc) (pre : Bytes) (kids : List Bytes) (rest : List Act)
    (k : List Bytes) (hp : p.pending = .allLayer pre kids :: rest)
    (hk : kids.any p.cache.contains = true) :
    turn (fuel + 1) p k = turn fuel { p with pending := rest, busy := true } k := by
  simp only [turn, hp]
  rw [if_pos hk]

/-- … and a layer of which the FIRST reading showed no mount is passed over without any
    kernel interaction either (its list of mounts is not refreshed: a mount another process
    made meanwhile is left alone — and the race of finding `no-lock-between-check-and-mount`
    is exactly that such a mount can appear after the check) -/
theorem allLayer_unmounted_passed (fuel : Nat) (p : Proc) (pre : Bytes) (kids : List Bytes) (rest : List Act)
    (k : List Bytes) (hp : p.pending = .allLayer pre kids :: rest)
    (hk : kids.any p.cache.contains = false) (hs : p.snap.filter (atOrBelow pre) = []) :
    turn (fuel + 1) p k = turn fuel { p with pending := rest } k := by
  simp [turn, hp, hk, hs, sortBy]

/-- a command that skipped a busy layer ends in failure without touching the table -/
theorem failIfBusy_fails (fuel : Nat) (p : Proc) (rest : List Act) (k : List Bytes)
    (hp : p.pending = .failIfBusy :: rest) (hb : p.busy = true) :
    turn (fuel + 1) p k = ({ p with pending := [], failed := true }, k) := by
  simp [turn, hp, hb]

end Lc.Props.C20
