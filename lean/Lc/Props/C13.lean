/-
  C13 — atom matching agrees with the Package Manager Specification.

  Model: Lc/Model/Version.lean (compare.go), Lc/Model/Atom.lean (parse.go, use.go,
  useDependencies.go, depend/atom.go).  Specification: Lc/Spec/Pms.lean.
  Helper lemmas: Lc/Lemmas/Version.lean.

  What is proved in full, what only on a sub-domain (`…_partial`), and where the unchanged
  code violates the property (negation theorems with concrete witnesses) is said at each
  theorem.
-/
import Lc.Lemmas.Version

set_option linter.unusedSimpArgs false

namespace Lc.Props.C13
open Lc Lc.Version Lc.Atom Lc.Spec.Pms Lc.Lemmas.Version

/-! ## (b) version order -/

/-- The comparison string `CompVer` the code builds for an installed package or for the
    version of a `<`, `<=`, `=`, `>=`, `>` atom: the model's normalisation applied to the
    three regexp groups of the rendered version. -/
def compVer (v : Spec.Pms.Version) : Bytes :=
  compVerOf v.renderBase v.renderSufs v.renderRev false

/-- **numeric-run lemma**: equal-length digit strings order bytewise like the numbers -/
theorem numeric_run_order (x y : Bytes) (hl : x.length = y.length)
    (hx : allDigits x = true) (hy : allDigits y = true) :
    strCmp x y = compare (natOf x) (natOf y) :=
  digits_order x y hl (digits_of_allDigits x hx) (digits_of_allDigits y hy)

/-- **padding lemma**: `padNumericSegment` makes digit strings of at most five digits
    order bytewise like the numbers (leading zeros in the input allowed) -/
theorem padded_run_order (a b : Bytes) (ha : allDigits a = true) (hb : allDigits b = true)
    (la : a.length ≤ 5) (lb : b.length ≤ 5) :
    strCmp (padNumericSegment a) (padNumericSegment b) = compare (natOf a) (natOf b) :=
  pad5_order a b (digits_of_allDigits a ha) (digits_of_allDigits b hb) la lb

example : strCmp (padNumericSegment b!"00042") (padNumericSegment b!"7") = .gt := by decide

/-- **compver_order_partial** — on Dom5 the byte order of the comparison strings is the PMS
    version order (Algorithm 3.1), for versions with any number of components.
    Proof: shape of the comparison string (`compVer_shape`), then induction over the
    component lists (`encRest_order`): equal-length padded runs order like numbers, the
    blank that follows a shorter component list is below the dot, a letter is above the
    `_` that starts the suffix field, the suffix letters are a<b<c<d<n<p, a blank is
    below every digit.

    PARTIAL: needs `dom5` for both versions.  Outside Dom5 the statement is false, see
    `over5_violates`, `leading_zero_violates`, `multi_suffix_violates`,
    `suffix_zero_violates` below.  (The first component could also be allowed leading
    zeros; not done.)  The hypothesis-free part is the tie of `compVer` to the text: the
    regexp split of the rendered text into the three groups is checked differentially. -/
theorem compver_order_partial (a b : Spec.Pms.Version) (ha : dom5 a = true) (hb : dom5 b = true) :
    strCmp (compVer a) (compVer b) = vercmp a b := by
  obtain ⟨n, ra, ena, sha⟩ := compVer_shape a ha
  obtain ⟨m, rb, enb, shb⟩ := compVer_shape b hb
  obtain ⟨ta, tb, eta, etb, ht⟩ := tailOf_order a b ha hb
  have ha' := ha
  have hb' := hb
  simp only [dom5, Bool.and_eq_true, Bool.not_eq_true', decide_eq_true_eq, List.all_eq_true] at ha' hb'
  have hna : ∀ x ∈ a.nums, cleanNum x = true := ha'.1.1.1.1.2
  have hnb : ∀ x ∈ b.nums, cleanNum x = true := hb'.1.1.1.1.2
  have fn := cleanNum_facts n (hna n (by simp [ena]))
  have fm := cleanNum_facts m (hnb m (by simp [enb]))
  have hra : ∀ x ∈ ra, cleanNum x = true := fun x hx => hna x (by simp [ena, hx])
  have hrb : ∀ x ∈ rb, cleanNum x = true := fun x hx => hnb x (by simp [enb, hx])
  unfold compVer
  rw [sha, shb, eta, etb,
    strCmp_append _ _ _ _ (by rw [length_pad n fn.2.2, length_pad m fm.2.2]),
    pad5_order n m fn.1 fm.1 fn.2.2 fm.2.2, encRest_order ra rb ta tb hra hrb, ht,
    vercmp_then, ena, enb]
  have hnums : cmpNums (n :: ra) (m :: rb) =
      (compare (natOf n) (natOf m)).then (lexNum ra rb) := by
    simp only [cmpNums]
    rw [cmpLaterComponents_clean ra rb hra hrb]
    cases compare (natOf n) (natOf m) <;> rfl
  rw [hnums, Ordering.then_assoc]

/-- the comparison string the model computes from the TEXT of a version: the version
    regexp (`matchVerTail`, groups 2-4 of `pkgVerRE`) followed by the normalisation -/
def compVerOfText (text : Bytes) : Option Bytes :=
  (matchVerTail text).map fun g => compVerOf g.basever g.suffix g.revision false

/-- **compver_of_text_partial** — for every Dom5 version the regexp splits the rendered text
    into exactly the groups `compVer` is built from (`matchVerTail_render`: the greedy
    scan of `\d+(\.\d+)*`, letter, `_\w+`, `-r\d+` stages, any number of components).
    PARTIAL: Dom5; what stays differential is only the search for the leftmost `-` in
    `category/name-version`, which depends on the package name. -/
theorem compver_of_text_partial (v : Spec.Pms.Version) (h : dom5 v = true) :
    compVerOfText v.render = some (compVer v) := by
  simp [compVerOfText, matchVerTail_render v h, compVer]

/-- **compver_order_text_partial** — the order theorem stated on texts: for Dom5 versions
    the comparison strings computed from the rendered texts order bytewise as PMS orders
    the versions. -/
theorem compver_order_text_partial (a b : Spec.Pms.Version) (ha : dom5 a = true) (hb : dom5 b = true) :
    ∃ ca cb, compVerOfText a.render = some ca ∧ compVerOfText b.render = some cb ∧
      strCmp ca cb = vercmp a b :=
  ⟨compVer a, compVer b, compver_of_text_partial a ha, compver_of_text_partial b hb,
    compver_order_partial a b ha hb⟩

example : compVerOfText b!"1.10.3b_rc2-r1" = some b!"00001.00010.00003 b _d00002 r00001" := by
  decide

/-- tie of `compVer` to the text on an instance: parsing the installed package
    `c/p-1.10.3b_rc2-r1` (regexp split included) yields exactly `compVer` of the structure,
    and that string is what DESIGN.md describes -/
theorem compver_parse_instance :
    matchVerTail b!"1.10.3b_rc2-r1" = some ⟨b!"1.10.3b", b!"_rc2", b!"r1", false⟩ ∧
    (mkCand b!"c/p-1.10.3b_rc2-r1" b!"0" [] []).map (·.compVer) =
      some (compVer ⟨[b!"1", b!"10", b!"3"], some 98, [⟨.rc, some b!"2"⟩], some b!"1"⟩) ∧
    compVer ⟨[b!"1", b!"10", b!"3"], some 98, [⟨.rc, some b!"2"⟩], some b!"1"⟩ =
      b!"00001.00010.00003 b _d00002 r00001" := by decide

/-- a non-trivial instance of the hypotheses: 1.10.3b_rc2-r1 and 1.9 -/
example : dom5 ⟨[b!"1", b!"10", b!"3"], some 98, [⟨.rc, some b!"2"⟩], some b!"1"⟩ = true
    ∧ dom5 ⟨[b!"1", b!"9"], none, [], none⟩ = true := by decide

/-- the relational operator codes of parse.go -/
def relopOf : Op → Nat
  | .lt => relopLt | .le => relopLe | .eq => relopEq | .ge => relopGe | .gt => relopGt
  | .tilde => relopRange | .glob => relopRange

/-- **relops_agree_partial** — hence on Dom5 the five relational operators decide as PMS
    says: the closure `makeVersionComparer relop (CompVer of the atom)` applied to the
    candidate's CompVer equals the PMS operator table.
    PARTIAL: Dom5 for both versions (see `compver_order_partial`). -/
theorem relops_agree_partial (op : Op) (hop : op ≠ .tilde ∧ op ≠ .glob)
    (pat cand : Spec.Pms.Version) (hp : dom5 pat = true) (hc : dom5 cand = true) :
    versionComparer (relopOf op) (compVer pat) (compVer cand) = some (opMatch op pat cand) := by
  have h1 := compver_order_partial cand pat hc hp
  have h2 := strCmp_swap (compVer cand) (compVer pat)
  cases op with
  | tilde => exact absurd rfl hop.1
  | glob => exact absurd rfl hop.2
  | lt =>
    simp only [relopOf, versionComparer, opMatch, relopLt, relopLe, relopEq, relopGe, relopGt,
      relopRange, bytesLt_iff, h1]
    simp
  | le =>
    simp only [relopOf, versionComparer, opMatch, relopLt, relopLe, relopEq, relopGe, relopGt,
      relopRange, bytesLe, bytesLt_iff, h2, h1]
    cases vercmp cand pat <;> simp [Ordering.swap]
  | eq =>
    simp only [relopOf, versionComparer, opMatch, relopLt, relopLe, relopEq, relopGe, relopGt,
      relopRange, beq_iff, h1]
    simp
  | ge =>
    simp only [relopOf, versionComparer, opMatch, relopLt, relopLe, relopEq, relopGe, relopGt,
      relopRange, bytesLe, bytesLt_iff, h1]
    cases vercmp cand pat <;> simp
  | gt =>
    simp only [relopOf, versionComparer, opMatch, relopLt, relopLe, relopEq, relopGe, relopGt,
      relopRange, bytesLt_iff, h2, h1]
    cases vercmp cand pat <;> simp [Ordering.swap]

/-! ## `~v` and `=v*` -/

/-- the comparison string of a `~v` / `=v*` atom (`Relop_range`) -/
def compVerRange (v : Spec.Pms.Version) : Bytes :=
  compVerOf v.renderBase v.renderSufs v.renderRev true

/-- **range_accepts_extensions_partial** — why `~v` matches longer versions: the code tests
    `CompVer(v) <= c < MakeNextVer(CompVer(v))`, and EVERY byte string that extends
    `CompVer(v)` passes that test.  (The comparison strings of `v.1`, `va`, `v_p1`, `v-r3`
    all extend the one of `v`.)
    PARTIAL: Dom5; revision absent or no suffix (otherwise the code keeps the revision,
    finding `tilde-revision-not-ignored`); letter not `z`; no carry out of the last digit
    group (`noCarry`: the last component / suffix number is not 99999 — then MakeNextVer
    needs a second pass, covered only by `makeNextVer_terminates` and the differential
    runs). -/
theorem range_accepts_extensions_partial (v : Spec.Pms.Version) (h : dom5 v = true)
    (hr : v.sufs = [] ∨ v.rev = none) (hz : v.letter ≠ some 122) (hnc : noCarry v = true)
    (x : Bytes) :
    versionComparer relopRange (compVerRange v) (compVerRange v ++ x) = some true :=
  range_accepts_ext v h hr hz hnc x

/-- **tilde_partial** — `~v` agrees with PMS among the candidates that have v's components,
    letter and suffix (any revision): the code says yes, and so does PMS.
    PARTIAL: as `range_accepts_extensions_partial`; for candidates with OTHER components the
    code is wrong exactly on the extensions (`tilde_violates`). -/
theorem tilde_partial (pat cand : Spec.Pms.Version) (hp : dom5 pat = true) (hc : dom5 cand = true)
    (hr : pat.sufs = [] ∨ pat.rev = none) (hz : pat.letter ≠ some 122) (hnc : noCarry pat = true)
    (h1 : cand.nums = pat.nums) (h2 : cand.letter = pat.letter) (h3 : cand.sufs = pat.sufs) :
    versionComparer relopRange (compVerRange pat) (compVer cand) = some (opMatch .tilde pat cand) := by
  obtain ⟨x, hx⟩ := compVer_extends_range pat cand hp hc hr h1 h2 h3
  have hspec : opMatch .tilde pat cand = true := by
    simp [opMatch, vercmpNoRev_same cand pat h1 h2 h3]
  rw [hspec, compVer, hx]
  exact range_accepts_ext pat hp hr hz hnc x

/-- non-trivial instance: `~1.10b_rc2` and the installed `1.10b_rc2-r3` -/
example :
    dom5 ⟨[b!"1", b!"10"], some 98, [⟨.rc, some b!"2"⟩], none⟩ = true ∧
    noCarry ⟨[b!"1", b!"10"], some 98, [⟨.rc, some b!"2"⟩], none⟩ = true ∧
    versionComparer relopRange (compVerRange ⟨[b!"1", b!"10"], some 98, [⟨.rc, some b!"2"⟩], none⟩)
      (compVer ⟨[b!"1", b!"10"], some 98, [⟨.rc, some b!"2"⟩], some b!"3"⟩) = some true := by
  decide

/-! ## MakeNextVer terminates (after the fix) -/

/-- **makeNextVer_terminates** (full): `MakeNextVer` returns for every byte string; the
    fuel `len+1` of the model is never exhausted.  Before the `fix:` commit this was false:
    `~cat/pkg-1.99999` looped forever (corpus witness w13). -/
theorem makeNextVer_terminates (v : Bytes) : (makeNextVer v).isSome = true :=
  makeNextVerFuel_some _ v (by omega)

example : makeNextVer b!"00001.99999" = some b!"00002" := by decide

/-! ## (a) the USE-dependency table -/

def typeOf : UseForm → Nat
  | .enabled => useDepEnabled | .disabled => useDepDisabled | .same => useDepSame
  | .opposite => useDepOpposite | .ifSet => useDepSetOnlyIf | .ifUnset => useDepUnsetOnlyIf

def dfltOf : UseDefault → Nat
  | .none => useDefaultNone | .plus => useDefaultEnabled | .minus => useDefaultDisabled

/-- the candidate's flag set: the flag absent / off / on -/
def flagsOf (flag : Bytes) : Option Bool → FlagSet
  | none => []
  | some s => [(flag, s)]

/-- the parent's flag map: the flag absent / false / true -/
def ctxOf (flag : Bytes) : Option Bool → List (Bytes × Bool)
  | none => []
  | some s => [(flag, s)]

/-- the candidate's effective state of the flag (state, else the `(+)`/`(-)` default) -/
def effective (d : UseDefault) (t : Option Bool) : Option Bool :=
  match t, d with
  | some s, _ => some s
  | none, .plus => some true
  | none, .minus => some false
  | none, .none => none

/-- **usedep_table_partial** — the whole finite table: six forms × three defaults × three
    candidate states (absent/off/on) × three parent states (absent/false/true), for every
    flag name: `FlagsMatch` on the single dependency says yes exactly when PMS 8.3.4 says
    the dependency holds.  The quantifier *is* the table; every row is checked.
    PARTIAL: the `[!flag?]` rows with the flag effectively enabled in the candidate are
    excluded — there the code is wrong, see `usedep_not_conditional_inverted`. -/
theorem usedep_table_partial (flag : Bytes) (f : UseForm) (d : UseDefault) (t p : Option Bool)
    (hrow : ¬ (f = .ifUnset ∧ effective d t = some true)) :
    (flagsMatch [⟨typeOf f, dfltOf d, flag⟩] (flagsOf flag t) (ctxOf flag p) == .yes) =
      useDepHolds f d t (p.getD false) := by
  have hb : (flag == flag) = true := by simp
  cases f <;> cases d <;> rcases t with _ | _ | _ <;> rcases p with _ | _ | _ <;>
    first
    | (exfalso; apply hrow; exact ⟨rfl, rfl⟩)
    | simp [flagsMatch, flagsMatchOne, flagState, ctxLookup, flagsOf, ctxOf, typeOf, dfltOf,
        useDepHolds, useFormHolds, useDepEnabled, useDepSame, useDepOpposite, useDepSetOnlyIf,
        useDepUnsetOnlyIf, useDepDisabled, useDefaultNone, useDefaultEnabled, useDefaultDisabled,
        List.find?, hb]

/-- the rows of the table outside the excluded one are not vacuous -/
example : ¬ (UseForm.ifUnset = .ifUnset ∧ effective .minus none = some true) := by decide

/-- several dependencies: `FlagsMatch` says yes iff every single dependency passes
    (full, by induction over the dependency list) -/
theorem flagsMatch_all (deps : List Atom.UseDep) (fl : FlagSet) (ctx : List (Bytes × Bool)) :
    (flagsMatch deps fl ctx == .yes) = deps.all (fun d => (flagsMatchOne fl ctx d).isNone) := by
  induction deps with
  | nil => simp [flagsMatch]
  | cons d ds ih =>
    simp only [flagsMatch, List.all_cons]
    cases h : flagsMatchOne fl ctx d with
    | none => simpa using ih
    | some r =>
      have hne : r ≠ .yes := by
        intro e
        exact flagsMatchOne_ne_yes fl ctx d (by rw [h, e])
      cases r with
      | yes => exact absurd rfl hne
      | no => simp
      | err => simp

/-- the text of each form parses to the type the table is about, in both spellings of the
    default (PMS `flag(+)=` and the older `flag=(+)`) -/
theorem usedep_parse_table :
    parseUseDependencies b!"nls" = some [⟨useDepEnabled, useDefaultNone, b!"nls"⟩] ∧
    parseUseDependencies b!"-nls(+)" = some [⟨useDepDisabled, useDefaultEnabled, b!"nls"⟩] ∧
    parseUseDependencies b!"nls(-)=" = some [⟨useDepSame, useDefaultDisabled, b!"nls"⟩] ∧
    parseUseDependencies b!"nls=(-)" = some [⟨useDepSame, useDefaultDisabled, b!"nls"⟩] ∧
    parseUseDependencies b!"!nls(+)=" = some [⟨useDepOpposite, useDefaultEnabled, b!"nls"⟩] ∧
    parseUseDependencies b!"nls(+)?" = some [⟨useDepSetOnlyIf, useDefaultEnabled, b!"nls"⟩] ∧
    parseUseDependencies b!"!nls?(-)" = some [⟨useDepUnsetOnlyIf, useDefaultDisabled, b!"nls"⟩] ∧
    parseUseDependencies b!"!nls(-)?,ssl" =
      some [⟨useDepUnsetOnlyIf, useDefaultDisabled, b!"nls"⟩, ⟨useDepEnabled, useDefaultNone, b!"ssl"⟩] := by
  decide

/-! ## (c) where the unchanged code violates the property: negations with witnesses -/

/-- decision of the model on texts: parse the dependency atom and the installed package
    (slot as given, no USE flags), `VersionAndSlotMatch` -/
def decideVS (atomText candText candSlot : Bytes) : Option Bool :=
  match rawParseAtom atomText true true, mkCand candText candSlot [] [] with
  | some da, some c => versionAndSlotMatch da c.compVer c.slot
  | _, _ => none

def v (nums : List Bytes) : Spec.Pms.Version := ⟨nums, none, [], none⟩

/-- components of more than 5 digits are not padded: `100000 < 20000` for the code -/
theorem over5_violates :
    decideVS b!"<c/p-20000" b!"c/p-100000" b!"0" = some true ∧
    opMatch .lt (v [b!"20000"]) (v [b!"100000"]) = false ∧
    hasLongRun (v [b!"100000"]) = true := by decide

/-- leading zeros: the code says `1.01 = 1.1`, PMS compares "01" and "1" as strings -/
theorem leading_zero_violates :
    decideVS b!"=c/p-1.1" b!"c/p-1.01" b!"0" = some true ∧
    opMatch .eq (v [b!"1", b!"1"]) (v [b!"1", b!"01"]) = false ∧
    hasLeadingZeroComponent (v [b!"1", b!"01"]) = true := by decide

/-- `~1.2` matches `1.2.1` and `1.2_p1` (PMS: equal when the revision is ignored) -/
theorem tilde_violates :
    decideVS b!"~c/p-1.2" b!"c/p-1.2.1" b!"0" = some true ∧
    opMatch .tilde (v [b!"1", b!"2"]) (v [b!"1", b!"2", b!"1"]) = false ∧
    regionTildeLonger .tilde (v [b!"1", b!"2"]) (v [b!"1", b!"2", b!"1"]) = true ∧
    decideVS b!"~c/p-1.2" b!"c/p-1.2_p1" b!"0" = some true ∧
    opMatch .tilde (v [b!"1", b!"2"]) ⟨[b!"1", b!"2"], none, [⟨.p, some b!"1"⟩], none⟩ = false ∧
    regionTildeLonger .tilde (v [b!"1", b!"2"]) ⟨[b!"1", b!"2"], none, [⟨.p, some b!"1"⟩], none⟩ = true := by
  decide

/-- several suffixes: the code has `1_p < 1_p_alpha`, PMS `1_p_alpha < 1_p` -/
theorem multi_suffix_violates :
    decideVS b!"<c/p-1_p_alpha" b!"c/p-1_p" b!"0" = some true ∧
    opMatch .lt ⟨[b!"1"], none, [⟨.p, none⟩, ⟨.alpha, none⟩], none⟩ ⟨[b!"1"], none, [⟨.p, none⟩], none⟩ = false ∧
    hasMultiSuffix ⟨[b!"1"], none, [⟨.p, none⟩, ⟨.alpha, none⟩], none⟩ = true := by decide

/-- `_alpha0` and `_alpha` are the same version for PMS, different for the code -/
theorem suffix_zero_violates :
    decideVS b!"=c/p-1_alpha" b!"c/p-1_alpha0" b!"0" = some false ∧
    opMatch .eq ⟨[b!"1"], none, [⟨.alpha, none⟩], none⟩ ⟨[b!"1"], none, [⟨.alpha, some b!"0"⟩], none⟩ = true ∧
    hasSuffixZero ⟨[b!"1"], none, [⟨.alpha, some b!"0"⟩], none⟩ = true := by decide

/-- `~v-rN` with a suffix keeps the revision; `=v-rN*` without suffix drops it -/
theorem range_revision_violates :
    decideVS b!"~c/p-1.2_p1-r1" b!"c/p-1.2_p1" b!"0" = some false ∧
    opMatch .tilde ⟨[b!"1", b!"2"], none, [⟨.p, some b!"1"⟩], some b!"1"⟩
      ⟨[b!"1", b!"2"], none, [⟨.p, some b!"1"⟩], none⟩ = true ∧
    decideVS b!"=c/p-1.2-r1*" b!"c/p-1.2" b!"0" = some true ∧
    opMatch .glob ⟨[b!"1", b!"2"], none, [], some b!"1"⟩ (v [b!"1", b!"2"]) = false := by decide

/-- the sub-slot of `:0/1.2` is ignored; `:1` matches slot `01` -/
theorem slot_violates :
    (match rawParseAtom b!"c/p:0/1.2" true true with
     | some da => slotComparer da (setSlot b!"0")
     | none => none) = some true ∧
    slotMatch (.slot b!"0" (some b!"1.2") false) b!"0" b!"1.3" = false ∧
    regionSubslot (.slot b!"0" (some b!"1.2") false) b!"0" b!"1.3" = true ∧
    decideVS b!"c/p:1" b!"c/p-1" b!"01" = some true ∧
    slotMatch (.slot b!"1" none false) b!"01" b!"01" = false ∧
    regionSlotPadding (.slot b!"1" none false) b!"01" = true := by decide

/-- `[!flag?]` is evaluated with the parent's flag inverted: both rows where the candidate
    has the flag enabled are wrong (portage/depend/filter_test.go asserts the first) -/
theorem usedep_not_conditional_inverted :
    flagsMatch [⟨useDepUnsetOnlyIf, useDefaultNone, b!"nss"⟩] [(b!"nss", true)] [(b!"nss", true)] = .no ∧
    useDepHolds .ifUnset .none (some true) true = true ∧
    flagsMatch [⟨useDepUnsetOnlyIf, useDefaultNone, b!"nss"⟩] [(b!"nss", true)] [(b!"nss", false)] = .yes ∧
    useDepHolds .ifUnset .none (some true) false = false := by decide

/-- the defects that were fixed stay fixed in the model: the all-nines range atom now
    matches, and the PMS spelling `[flag(-)?]` parses -/
theorem fixed_witnesses :
    decideVS b!"~c/p-1.99999" b!"c/p-1.99999-r2" b!"0" = some true ∧
    decideVS b!"=c/p-99999*" b!"c/p-99999.1" b!"0" = some true ∧
    (rawParseAtom b!"dev-python/six[python_targets_python3_11(-)?,ssl(+)]" true true).isSome = true := by
  decide

end Lc.Props.C13
