/-
  C04 — layers that are mounted, in use or overlain are protected from change.

  Level 1 (guards): for EVERY configuration, layer table `d`, name, world: when the target
  layer (or, for rename / rebase, a direct child) is busy in the sense of `isBusy · true`
  (a mount at/below its build root ∨ MountBusy ∨ NonMountBusy ∨ Overlain), or is in the
  error state, remove / rename / rebase return an error and the world — file system,
  mount table, operation trace, fault-point counter — is exactly the initial one.
  umount refuses iff MountBusy ∨ Overlain; NonMountBusy alone does not block it.

  Level 2 (probe → flags): how `ProbeAllLayerstate` derives those flags from the mount
  table and the process list, per layer.

  Level 3 (end to end, `*_end_to_end_partial`): composed through FindLayers and the probe
  loop — if the WORLD has a mount at/below the layer's build root, a process attributed to
  the layer or a mounted overlay on it, `run … (.remove/.rename/.rebase name …) w` fails
  and returns `w` itself.  Hypotheses: FindLayers succeeds, the layer is in its table, the
  mount table parses (otherwise the command fails even earlier).  The child-busy case is
  not composed end to end (it holds at level 1 for every probed table).
-/
import Lc.Lemmas.RunM
import Lc.Lemmas.Busy
import Lc.Lemmas.Probe
import Lc.Lemmas.TreeOrder

namespace Lc.Props.C04
open Lc Lc.Layers Lc.RunM Lc.Mountinfo Lc.Busy Lc.Hoare Lc.Probe Lc.Forest

/-- the command was refused: an `error` return (never a panic) and nothing happened -/
def Refused {α} (r : Except Fault α × World) (w : World) (classes : List String) : Prop :=
  ∃ c, c ∈ classes ∧ r = (.error (.err c), w)

/-! ### 1. the target layer is busy -/

/-- **remove refuses a busy layer** (any mount at/below the build root, any user, or a
    mounted overlay on top) without doing anything. -/
theorem remove_refuses (cfg : Config) (d : Defs) (name : Bytes) (files : Bool) (w : World)
    (l : Layer) (hl : findLayer d name = some l) (hb : isBusy l true = true) :
    Refused ((removeLayer cfg d name files).run.run w) w ["name", "errorstate", "haschild", "busy"] := by
  unfold Refused removeLayer testName getL errorIfError errorIfBusy fail
  simp only [hl, hb, run_bind, run_ite, run_pure, run_throw]
  by_cases h1 : testName1 d name NAME_NEED = true <;> by_cases h2 : l.state = S_error <;>
    by_cases h3 : hasChild d name = true <;> simp [h1, h2, h3]

/-- remove refuses a layer in the error state -/
theorem remove_refuses_error (cfg : Config) (d : Defs) (name : Bytes) (files : Bool) (w : World)
    (l : Layer) (hl : findLayer d name = some l) (he : l.state = S_error) :
    Refused ((removeLayer cfg d name files).run.run w) w ["name", "errorstate"] := by
  unfold Refused removeLayer testName getL errorIfError fail
  simp only [hl, he, run_bind, run_ite, run_pure, run_throw]
  by_cases h1 : testName1 d name NAME_NEED = true <;> simp [h1]

/-- **rename refuses a busy layer** -/
theorem rename_refuses (cfg : Config) (d : Defs) (old new : Bytes) (co : List Bytes) (w : World)
    (l : Layer) (hl : findLayer d old = some l) (hb : isBusy l true = true) :
    Refused ((renameLayer cfg d old new co).run.run w) w ["name", "errorstate", "busy"] := by
  unfold Refused renameLayer testName getL errorIfError errorIfBusy fail
  simp only [hl, hb, run_bind, run_ite, run_pure, run_throw]
  by_cases h1 : (List.all [(old, NAME_NEED), (new, NAME_FREE)] fun t => testName1 d t.fst t.snd) = true <;>
    by_cases h2 : l.state = S_error <;> simp [h1, h2]

theorem rename_refuses_error (cfg : Config) (d : Defs) (old new : Bytes) (co : List Bytes) (w : World)
    (l : Layer) (hl : findLayer d old = some l) (he : l.state = S_error) :
    Refused ((renameLayer cfg d old new co).run.run w) w ["name", "errorstate"] := by
  unfold Refused renameLayer testName getL errorIfError fail
  simp only [hl, he, run_bind, run_ite, run_pure, run_throw]
  by_cases h1 : (List.all [(old, NAME_NEED), (new, NAME_FREE)] fun t => testName1 d t.fst t.snd) = true <;>
    simp [h1]

/-- **rebase refuses a busy layer** -/
theorem rebase_refuses (cfg : Config) (d : Defs) (name newbase : Bytes) (w : World)
    (l : Layer) (hl : findLayer d name = some l) (hb : isBusy l true = true) :
    Refused ((rebaseLayer cfg d name newbase).run.run w) w ["name", "errorstate", "busy"] := by
  unfold Refused rebaseLayer testName getL errorIfError errorIfBusy fail
  simp only [hl, hb, run_bind, run_ite, run_pure, run_throw]
  by_cases h1 : (List.all [(name, NAME_NEED), (newbase, NAME_NEED + NAME_OPTIONAL)] fun t => testName1 d t.fst t.snd) = true <;>
    by_cases h2 : l.state = S_error <;> simp [h1, h2]

theorem rebase_refuses_error (cfg : Config) (d : Defs) (name newbase : Bytes) (w : World)
    (l : Layer) (hl : findLayer d name = some l) (he : l.state = S_error) :
    Refused ((rebaseLayer cfg d name newbase).run.run w) w ["name", "errorstate"] := by
  unfold Refused rebaseLayer testName getL errorIfError fail
  simp only [hl, he, run_bind, run_ite, run_pure, run_throw]
  by_cases h1 : (List.all [(name, NAME_NEED), (newbase, NAME_NEED + NAME_OPTIONAL)] fun t => testName1 d t.fst t.snd) = true <;>
    simp [h1]

/-! ### 2. a direct child is busy -/

/-- **rename refuses when a direct child is busy** (the child `k` is the layer registered
    under its own name — `d.layers` is Go's `layermap` — and has `old` as base), whatever
    order Go's map iteration visits the children in. -/
theorem rename_child_refuses (cfg : Config) (d : Defs) (old new : Bytes) (co : List Bytes) (w : World)
    (l k : Layer) (hl : findLayer d old = some l)
    (hk : findLayer d k.name = some k) (hkb : k.base = old) (hb : isBusy k true = true) :
    Refused ((renameLayer cfg d old new co).run.run w) w ["name", "errorstate", "busy"] := by
  have hany := kids_any d old co k hk hkb hb
  unfold Refused renameLayer testName getL errorIfError errorIfBusy fail
  simp only [hl, hany, run_bind, run_ite, run_pure, run_throw]
  by_cases h1 : (List.all [(old, NAME_NEED), (new, NAME_FREE)] fun t => testName1 d t.fst t.snd) = true <;>
    by_cases h2 : l.state = S_error <;> by_cases h3 : isBusy l true = true <;> simp [h1, h2, h3]

/-- **rebase refuses when a direct child is busy** (or earlier, with "orphan", when the new
    parent would close a cycle) -/
theorem rebase_child_refuses (cfg : Config) (d : Defs) (name newbase : Bytes) (w : World)
    (l k : Layer) (hl : findLayer d name = some l)
    (hk : k ∈ d.layers) (hkb : k.base = name) (hb : isBusy k true = true) :
    Refused ((rebaseLayer cfg d name newbase).run.run w) w ["name", "errorstate", "busy", "orphan"] := by
  have hany : (d.layers.filter (·.base == name)).any (fun k => isBusy k true) = true := by
    rw [List.any_eq_true]
    exact ⟨k, by simp [List.mem_filter, hk, hkb], hb⟩
  unfold Refused rebaseLayer testName getL errorIfError errorIfBusy fail
  simp only [hl, hany, run_bind, run_ite, run_pure, run_throw]
  by_cases h1 : (List.all [(name, NAME_NEED), (newbase, NAME_NEED + NAME_OPTIONAL)] fun t => testName1 d t.fst t.snd) = true <;>
    by_cases h2 : l.state = S_error <;> by_cases h3 : isBusy l true = true <;>
    by_cases h4 : checkInheritance (setLayer d { l with base := newbase }).layers = true <;> simp [h1, h2, h3, h4]

/-! ### 3. umount -/

/-- umount of a layer with a user inside build/upper/work, or with a mounted derived
    layer on top, answers "busy" and does nothing -/
theorem umount_refuses (cfg : Config) (d : Defs) (name : Bytes) (w : World) (l : Layer)
    (hl : findLayer d name = some l) (hb : (l.mountBusy || l.overlain) = true) :
    (unmountLayer cfg d name).run.run w = (.ok (.busy, d), w) := by
  have hb' : isBusy l false = true := by simpa [isBusy] using hb
  unfold unmountLayer getL
  simp only [hl, hb', run_bind, run_pure]
  rfl

/-- … and the command `umount <name>` then fails with "busy", world unchanged -/
theorem umountCmd_refuses (cfg : Config) (d : Defs) (name : Bytes) (w : World) (l : Layer)
    (hl : findLayer d name = some l) (hb : (l.mountBusy || l.overlain) = true) :
    Refused ((unmountCmd cfg d name false).run.run w) w ["needarg", "name", "busy"] := by
  have h := umount_refuses cfg d name w l hl hb
  unfold Refused unmountCmd testName fail
  simp only [run_bind, run_ite, run_pure, run_throw, Bool.and_false]
  by_cases h0 : name.length > 0 <;>
    by_cases h1 : (List.all [(name, NAME_NEED)] fun t => testName1 d t.fst t.snd) = true <;>
    simp [h0, h1, h] <;> (right; right; rfl)

/-- **umount refuses iff MountBusy ∨ Overlain**: the status is "busy" exactly then (and then
    nothing happened); NonMountBusy and `mounts` play no role in the decision. -/
theorem umount_refuses_iff (cfg : Config) (d : Defs) (name : Bytes) (w : World) (l : Layer)
    (hl : findLayer d name = some l) :
    (∃ d', ((unmountLayer cfg d name).run.run w).1 = .ok (.busy, d')) ↔
      (l.mountBusy || l.overlain) = true := by
  constructor
  · rintro ⟨d', hd'⟩
    cases hb : (l.mountBusy || l.overlain) with
    | true => rfl
    | false =>
      exfalso
      have hb' : isBusy l false = false := by simpa [isBusy] using hb
      have h := extractOk _ _ _ (unmount_status cfg d name l hl hb') w trivial _ hd'
      exact h rfl
  · intro hb
    exact ⟨d, by rw [umount_refuses cfg d name w l hl hb]⟩

/-- **processes elsewhere in the layer directory do not block umount**: with
    MountBusy = Overlain = false (NonMountBusy arbitrary) and at least one mount, the first
    thing `umount` does (not pretending, fault point not armed) is the unmount system call
    on the last = deepest entry of `l.mounts`. -/
theorem umount_nonMountBusy_proceeds (cfg : Config) (d : Defs) (name : Bytes) (w : World) (l : Layer)
    (m : MountType) (hl : findLayer d name = some l)
    (hmb : l.mountBusy = false) (hov : l.overlain = false) (hm : l.mounts.getLast? = some m)
    (hp : w.pretend = false) (hc : w.crashAt ≠ some (w.nops + 1)) (hf : w.faultAt ≠ some (w.nops + 1)) :
    ∃ rest, ((unmountLayer cfg d name).run.run w).2.trace =
      w.trace ++ Op.umount m.mountpoint (if w.force then 1 else 0) :: rest := by
  have h := extractFrom _ _ w (unmount_first cfg d name w l m hl hmb hov hm hp hc hf)
  obtain ⟨rest, hr⟩ := h
  exact ⟨rest, by rw [← hr]; simp⟩

/-! ### 4. from the probe to the flags -/

/-- every process attributed to the layer makes it busy for remove / rename / rebase -/
theorem classify_any_user_busy (cfg : Config) (l : Layer) (users : List User) (hne : users ≠ []) :
    (classifyUsers cfg l users).mountBusy = true ∨ (classifyUsers cfg l users).nonMountBusy = true := by
  obtain ⟨_, h1, h2⟩ := classifyUsers_spec cfg users l
  cases users with
  | nil => exact absurd rfl hne
  | cons u rest =>
    rw [h1, h2]
    by_cases hs : sameDirOrDesc u.file cfg.buildRoot = true
    · left; simp [hs]
    · right; simp [hs]

/-- MountBusy ⇔ some process sits in (or below) the build, work or upper directory -/
theorem classify_mountBusy_iff (cfg : Config) (l : Layer) (users : List User) (h0 : l.mountBusy = false) :
    (classifyUsers cfg l users).mountBusy = true ↔
      ∃ u ∈ users, ∃ mp ∈ [cfg.buildRoot, cfg.workdir, cfg.upperdir], sameDirOrDesc u.file mp = true := by
  obtain ⟨_, h1, _⟩ := classifyUsers_spec cfg users l
  rw [h1, h0, Bool.false_or, List.any_eq_true]
  constructor
  · rintro ⟨u, hu, h⟩
    rw [List.any_eq_true] at h
    exact ⟨u, hu, h⟩
  · rintro ⟨u, hu, h⟩
    exact ⟨u, hu, by rw [List.any_eq_true]; exact h⟩

/-- the classification touches nothing but the three process flags (MountBusy,
    NonMountBusy, Chroot) and never clears one -/
theorem classify_rest (cfg : Config) (l : Layer) (users : List User) :
    (classifyUsers cfg l users).name = l.name ∧ (classifyUsers cfg l users).base = l.base ∧
    (classifyUsers cfg l users).state = l.state ∧ (classifyUsers cfg l users).overlain = l.overlain ∧
    (classifyUsers cfg l users).mounts = l.mounts ∧ (classifyUsers cfg l users).layerPath = l.layerPath ∧
    (l.mountBusy = true → (classifyUsers cfg l users).mountBusy = true) ∧
    (l.nonMountBusy = true → (classifyUsers cfg l users).nonMountBusy = true) := by
  obtain ⟨hr, h1, h2⟩ := classifyUsers_spec cfg users l
  unfold SameRest at hr
  refine ⟨hr.1, hr.2.1, hr.2.2.2.2.2.1, hr.2.2.2.2.2.2.1, hr.2.2.2.2.2.2.2, hr.2.2.2.2.1, ?_, ?_⟩
  · intro h; rw [h1, h]; rfl
  · intro h; rw [h2, h]; rfl

/-- `Mounts` of a layer is non-empty iff the table has a mount at the build root or below -/
theorem mounts_listed (m : Mounts) (path : Bytes) :
    getMountAndSubmounts m path ≠ [] ↔
      ∃ x ∈ m.list, x.mountpoint = path ∨ hasPrefix x.mountpoint (path ++ [47]) = true := by
  constructor
  · intro h
    obtain ⟨x, hx⟩ := List.exists_mem_of_ne_nil _ h
    exact ⟨x, ((TreeOrder.mem_getMountAndSubmounts m path x).mp hx).1,
      ((TreeOrder.mem_getMountAndSubmounts m path x).mp hx).2⟩
  · rintro ⟨x, hx, hp⟩
    exact List.ne_nil_of_mem ((TreeOrder.mem_getMountAndSubmounts m path x).mpr ⟨hx, hp⟩)

/-- … and it lists exactly those mounts -/
theorem mounts_listed_mem (m : Mounts) (path : Bytes) (x : MountType) :
    x ∈ getMountAndSubmounts m path ↔
      x ∈ m.list ∧ (x.mountpoint = path ∨ hasPrefix x.mountpoint (path ++ [47]) = true) :=
  TreeOrder.mem_getMountAndSubmounts m path x

/-- refreshMountInfo reads the table and sets Overlain per layer, nothing else -/
theorem refresh_sets_overlain (cfg : Config) (d : Defs) (w : World) (m : Mounts)
    (hm : Kernel.probe w.kt = .ok m) :
    (refreshMountInfo cfg d).run.run w =
      (.ok { d with mounts := m,
                    layers := d.layers.map fun l =>
                      { l with overlain := (overlayLowerdirs m).contains (buildPath cfg l) } }, w) := by
  unfold refreshMountInfo
  simp only [run_bind, run_getW, run_liftRes, hm, run_pure]

/-- Overlain ⇔ some mounted overlay has the layer's build root as its lower directory -/
theorem overlain_iff (m : Mounts) (p : Bytes) :
    (overlayLowerdirs m).contains p = true ↔
      ∃ x ∈ m.list, x.fstype = b!"overlay" ∧ x.source = p := by
  unfold overlayLowerdirs
  simp only [List.contains_iff_mem, List.mem_map, List.mem_filter]
  constructor
  · rintro ⟨x, ⟨hx, hf⟩, hs⟩
    exact ⟨x, hx, by simpa using hf, hs⟩
  · rintro ⟨x, hx, hf, hs⟩
    exact ⟨x, ⟨hx, by simpa using hf⟩, hs⟩

/-! ### 5. end to end: from the world to the refusal -/

/-- a successful FindLayers only read, and its order is normalizeOrder of its table -/
theorem findLayers_ok (cfg : Config) (w w' : World) (d0 : Defs)
    (h : (findLayers cfg).run.run w = (.ok d0, w')) :
    w' = w ∧ normalizeOrder d0.layers = .ok d0.order := by
  unfold findLayers fail reorder at h
  simp only [run_bind, run_getW, run_ite, run_throw] at h
  by_cases h1 : Fs.isDir w.fs cfg.layerdirs = true
  · by_cases h2 : checkInheritance (readLayerFiles cfg w.fs (Fs.children w.fs cfg.layerdirs)) = true
    · simp only [h1, h2, Bool.not_true, Bool.false_eq_true, if_false] at h
      cases hn : normalizeOrder (readLayerFiles cfg w.fs (Fs.children w.fs cfg.layerdirs)) with
      | error e => rw [hn] at h; simp only at h; cases h
      | ok o =>
        rw [hn] at h
        simp only at h
        injection h with ha hb
        injection ha with ha
        subst ha
        exact ⟨hb.symm, hn⟩
    · simp [h1, h2] at h
      injection h with ha _; cases ha
  · simp [h1] at h
    injection h with ha _; cases ha

/-- the busy condition of the property, read off the world: a mount at or below the build
    root, a process attributed to the layer, or a mounted overlay with the build root as
    lower directory -/
def WorldBusy (cfg : Config) (inuse : List (Bytes × List User)) (m : Mounts) (l0 : Layer) : Prop :=
  (∃ x ∈ m.list, x.mountpoint = buildPath cfg l0 ∨ hasPrefix x.mountpoint (buildPath cfg l0 ++ [47]) = true) ∨
  usersOf inuse l0.name ≠ [] ∨
  (∃ x ∈ m.list, x.fstype = b!"overlay" ∧ x.source = buildPath cfg l0)

theorem probed_busy (cfg : Config) (inuse : List (Bytes × List User)) (m : Mounts) (l0 l : Layer)
    (hb : WorldBusy cfg inuse m l0) (hlp : l.layerPath = l0.layerPath)
    (hov : l.overlain = (overlayLowerdirs m).contains (buildPath cfg l0))
    (hp : Probed cfg m (usersOf inuse l0.name) l) : l.state = S_error ∨ isBusy l true = true := by
  rcases hp with he | ⟨hmn, hus⟩
  · exact Or.inl he
  · right
    have hbp : buildPath cfg l = buildPath cfg l0 := by unfold buildPath; rw [hlp]
    rcases hb with h | h | h
    · have := (mounts_listed m (buildPath cfg l0)).mpr h
      rw [← hbp, ← hmn] at this
      have hl : l.mounts.length > 0 := List.length_pos_iff.mpr this
      simp [isBusy, hl]
    · rcases hus h with h | h <;> simp [isBusy, h]
    · have := (overlain_iff m (buildPath cfg l0)).mpr h
      rw [← hov] at this
      simp [isBusy, this]

/-- **end to end** for any command of the shape "load and probe, then a guarded
    operation on `name`": if the layer exists on disk, the listing succeeds, the mount table
    is readable and the WORLD makes the layer busy, the whole CLI step fails and leaves
    file system, mount table, trace and fault counter exactly as they were. -/
theorem guarded_end_to_end (cfg : Config) (inuse : List (Bytes × List User)) (w : World)
    (d0 : Defs) (l0 : Layer) (m : Mounts) (k : Defs → M Defs)
    (hfl : (findLayers cfg).run.run w = (.ok d0, w))
    (hl0 : findLayer d0 l0.name = some l0) (hm : Kernel.probe w.kt = .ok m)
    (hb : WorldBusy cfg inuse m l0)
    (hk : ∀ (d : Defs) (l : Layer) (w : World), findLayer d l0.name = some l →
      (l.state = S_error ∨ isBusy l true = true) → ∃ e, (k d).run.run w = (.error e, w)) :
    ∃ e, ((getLayers cfg inuse >>= k).run.run w) = (.error e, w) := by
  have hord : l0.name ∈ d0.order := by
    have hp := order_perm d0.layers d0.order (findLayers_ok cfg w w d0 hfl).2
    rw [hp.mem_iff]
    exact List.mem_map.mpr ⟨l0, List.mem_of_find?_eq_some hl0, rfl⟩
  have hpr := probeAll_layer cfg inuse d0 w m l0.name l0 hm hl0 hord
  unfold getLayers
  rw [run_bind, run_bind, hfl]
  simp only
  revert hpr
  generalize (StateT.run (ExceptT.run (probeAll cfg inuse d0)) w) = r
  obtain ⟨a, s⟩ := r
  cases a with
  | error e => rintro rfl; exact ⟨e, rfl⟩
  | ok d =>
    rintro ⟨rfl, l, hl, hlp, hov, hp⟩
    exact hk d l _ hl (probed_busy cfg inuse m l0 l hb hlp hov hp)

/-- **remove, end to end** (named `_partial`: it assumes that FindLayers succeeds on the
    world, that the layer is in the table it returns, and that the mount table parses; layers
    whose layerconfig is broken are covered through the error-state guard; an error — even
    a panic — inside the probe also leaves the world unchanged and is included) -/
theorem remove_end_to_end_partial (cfg : Config) (inuse : List (Bytes × List User)) (w : World)
    (d0 : Defs) (l0 : Layer) (m : Mounts) (files : Bool)
    (hfl : (findLayers cfg).run.run w = (.ok d0, w))
    (hl0 : findLayer d0 l0.name = some l0) (hm : Kernel.probe w.kt = .ok m)
    (hb : WorldBusy cfg inuse m l0) :
    ∃ e, run cfg inuse (.remove l0.name files) w = (.error e, w) := by
  refine guarded_end_to_end cfg inuse w d0 l0 m (fun d => removeLayer cfg d l0.name files) hfl hl0 hm hb ?_
  intro d l w' hl hs
  rcases hs with he | hbz
  · obtain ⟨c, _, h⟩ := remove_refuses_error cfg d l0.name files w' l hl he
    exact ⟨_, h⟩
  · obtain ⟨c, _, h⟩ := remove_refuses cfg d l0.name files w' l hl hbz
    exact ⟨_, h⟩

theorem rename_end_to_end_partial (cfg : Config) (inuse : List (Bytes × List User)) (w : World)
    (d0 : Defs) (l0 : Layer) (m : Mounts) (new : Bytes) (co : List Bytes)
    (hfl : (findLayers cfg).run.run w = (.ok d0, w))
    (hl0 : findLayer d0 l0.name = some l0) (hm : Kernel.probe w.kt = .ok m)
    (hb : WorldBusy cfg inuse m l0) :
    ∃ e, run cfg inuse (.rename l0.name new co) w = (.error e, w) := by
  refine guarded_end_to_end cfg inuse w d0 l0 m (fun d => renameLayer cfg d l0.name new co) hfl hl0 hm hb ?_
  intro d l w' hl hs
  rcases hs with he | hbz
  · obtain ⟨c, _, h⟩ := rename_refuses_error cfg d l0.name new co w' l hl he
    exact ⟨_, h⟩
  · obtain ⟨c, _, h⟩ := rename_refuses cfg d l0.name new co w' l hl hbz
    exact ⟨_, h⟩

theorem rebase_end_to_end_partial (cfg : Config) (inuse : List (Bytes × List User)) (w : World)
    (d0 : Defs) (l0 : Layer) (m : Mounts) (nb : Bytes)
    (hfl : (findLayers cfg).run.run w = (.ok d0, w))
    (hl0 : findLayer d0 l0.name = some l0) (hm : Kernel.probe w.kt = .ok m)
    (hb : WorldBusy cfg inuse m l0) :
    ∃ e, run cfg inuse (.rebase l0.name nb) w = (.error e, w) := by
  refine guarded_end_to_end cfg inuse w d0 l0 m (fun d => rebaseLayer cfg d l0.name nb) hfl hl0 hm hb ?_
  intro d l w' hl hs
  rcases hs with he | hbz
  · obtain ⟨c, _, h⟩ := rebase_refuses_error cfg d l0.name nb w' l hl he
    exact ⟨_, h⟩
  · obtain ⟨c, _, h⟩ := rebase_refuses cfg d l0.name nb w' l hl hbz
    exact ⟨_, h⟩
/-! ### non-vacuity: concrete busy layers -/

def exCfg : Config :=
  { basepath := b!"/lc", layerdirs := b!"/lc/layers", buildRoot := b!"build", binPkg := b!"packages",
    generated := b!"generated", workdir := b!"overlayfs/workdir", upperdir := b!"overlayfs/upperdir",
    exportdirs := b!"/lc/exports", exportBinPkg := b!"packages", exportGenerated := b!"generated" }

def exMount : MountType :=
  { source := b!"proc", mountpoint := b!"/lc/layers/a/build/proc", source2 := [], workdir := [],
    fstype := b!"proc", options := b!"rw", inShadow := false, stDev := b!"0:5", root := b!"/" }

/-- layer `a` with a mount below its build root; child `b`, used by a process -/
def exA : Layer := { name := b!"a", layerPath := b!"/lc/layers/a", state := S_mounted, mounts := [exMount] }
def exB : Layer := { name := b!"b", base := b!"a", layerPath := b!"/lc/layers/b", state := S_mountable,
                     nonMountBusy := true }
def exD : Defs := { layers := [exA, exB], order := [b!"a", b!"b"] }

example : findLayer exD b!"a" = some exA ∧ isBusy exA true = true := by decide
example (w : World) :=
  remove_refuses exCfg exD b!"a" false w exA (by decide) (by decide)
example (w : World) :=
  rename_refuses exCfg exD b!"a" b!"c" [] w exA (by decide) (by decide)
/-- the child-only case: `b` is busy through a process, its parent `a` taken without mounts -/
def exA0 : Layer := { exA with mounts := [] }
def exD0 : Defs := { layers := [exA0, exB], order := [b!"a", b!"b"] }
example : isBusy exA0 true = false ∧ isBusy exB true = true := by decide
example (w : World) :=
  rename_child_refuses exCfg exD0 b!"a" b!"c" [b!"b"] w exA0 exB (by decide) (by decide) (by decide) (by decide)
example (w : World) :=
  rebase_child_refuses exCfg exD0 b!"a" [] w exA0 exB (by decide) (by simp [exD0]) (by decide) (by decide)
/-- umount: NonMountBusy does not block, the deepest mount goes first -/
def exA1 : Layer := { exA with nonMountBusy := true }
example (w : World) (hp : w.pretend = false) (hc : w.crashAt = none) (hf : w.faultAt = none) :
    ∃ rest, ((unmountLayer exCfg { layers := [exA1] } b!"a").run.run w).2.trace =
      w.trace ++ Op.umount b!"/lc/layers/a/build/proc" (if w.force then 1 else 0) :: rest :=
  umount_nonMountBusy_proceeds exCfg { layers := [exA1] } b!"a" w exA1 exMount (by decide) (by decide) (by decide)
    (by decide) hp (by simp [hc]) (by simp [hf])
/-- a process with cwd in the build root → MountBusy; one in "packages" → only NonMountBusy -/
example : (classifyUsers exCfg exA0 [⟨1, b!"build/usr"⟩]).mountBusy = true := by decide
example : (classifyUsers exCfg exA0 [⟨1, b!"packages"⟩]).mountBusy = false ∧
          (classifyUsers exCfg exA0 [⟨1, b!"packages"⟩]).nonMountBusy = true := by decide
example : getMountAndSubmounts { list := [exMount] } b!"/lc/layers/a/build" = [exMount] := by decide

/-- non-vacuity of the end-to-end statement: a disk with one layer `a`, no mounts, and a
    process whose cwd is inside the layer's build root -/
def exFs : Fs.Tree :=
  [(b!"/lc", .dir), (b!"/lc/layers", .dir), (b!"/lc/layers/a", .dir),
   (b!"/lc/layers/a/layerconfig", .file []), (b!"/lc/layers/a/build", .dir)]
def exW : World := { fs := exFs }
def exL : Layer := { name := b!"a", layerPath := b!"/lc/layers/a" }
set_option maxRecDepth 100000 in
example : ∃ e, run exCfg [(b!"a", [⟨1, b!"build"⟩])] (.remove b!"a" false) exW = (.error e, exW) :=
  remove_end_to_end_partial exCfg [(b!"a", [⟨1, b!"build"⟩])] exW { layers := [exL], order := [b!"a"] } exL {} false
    rfl (by decide) rfl (Or.inr (Or.inl (by decide)))

end Lc.Props.C04
