/-
  C04 — layers that are mounted, in use or overlain are protected from change.

  Level 1 (guards): for EVERY configuration, layer table `d`, name, world: when the target
  layer (or, for rename / rebase, a direct child) is busy in the sense of `isBusy · true`
  (a mount at/below its build root ∨ MountBusy ∨ NonMountBusy ∨ Overlain), or is in the
  error state, remove / rename / rebase return an error and the world — file system,
  mount table, operation trace, fault-point counter — is exactly the initial one.
  umount refuses iff MountBusy ∨ Overlain; NonMountBusy alone does not block it.

  Level 2 (probe → flags): how `ProbeAllLayerstate` derives those flags from the mount
  table and the process list, per layer.

  Level 3 (end to end, `*_end_to_end_partial`): composed through FindLayers and the probe
  loop — if the WORLD has a mount at/below the layer's build root, a process attributed to
  the layer or a mounted overlay on it, `run … (.remove/.rename/.rebase name …) w` fails
  and returns `w` itself.  Hypotheses: FindLayers succeeds, the layer is in its table, the
  mount table parses (otherwise the command fails even earlier).  The child-busy case is
  not composed end to end (it holds at level 1 for every probed table).

  Level 4 (section 6, specification level): the same on the installation `instOf cfg w` a world
  shows, in the words of `Spec.World` (`protectedL`, `mountedAtOrBelow`, `overlain`,
  `mountBusy`, `unmountBlocked`, `childrenOf` — what the oracle c04 evaluates), with no
  hypothesis on FindLayers, the parsed view or the probed table: `protected_refused` (FULL,
  only `KWF`), `child_protected_refused` (`KWF`, distinct names; the defect found while proving
  it — a child in the error state did not protect its parent — is repaired by fix e3cb7aa:
  `fixed_child_in_error_state_witness`), `umount_blocked_refused`,
  `umount_free_proceeds_partial`.
-/
import Lc.Lemmas.RunM
import Lc.Lemmas.Busy
import Lc.Lemmas.Probe
import Lc.Lemmas.TreeOrder
import Lc.Lemmas.ProtectSpec

namespace Lc.Props.C04
open Lc Lc.Layers Lc.RunM Lc.Mountinfo Lc.Busy Lc.Hoare Lc.Probe Lc.Forest

/-- the command was refused: an `error` return (never a panic) and nothing happened -/
def Refused {α} (r : Except Fault α × World) (w : World) (classes : List String) : Prop :=
  ∃ c, c ∈ classes ∧ r = (.error (.err c), w)

/-! ### 1. the target layer is busy -/

/-- **remove refuses a busy layer** (any mount at/below the build root, any user, or a
    mounted overlay on top) without doing anything. -/
theorem remove_refuses (cfg : Config) (d : Defs) (name : Bytes) (files : Bool) (w : World)
    (l : Layer) (hl : findLayer d name = some l) (hb : isBusy l true = true) :
    Refused ((removeLayer cfg d name files).run.run w) w ["name", "errorstate", "haschild", "busy"] := by
  unfold Refused removeLayer testName getL errorIfError errorIfBusy fail
  simp only [hl, hb, run_bind, run_ite, run_pure, run_throw]
  by_cases h1 : testName1 d name NAME_NEED = true <;> by_cases h2 : l.state = S_error <;>
    by_cases h3 : hasChild d name = true <;> simp [h1, h2, h3]

/-- remove refuses a layer in the error state -/
theorem remove_refuses_error (cfg : Config) (d : Defs) (name : Bytes) (files : Bool) (w : World)
    (l : Layer) (hl : findLayer d name = some l) (he : l.state = S_error) :
    Refused ((removeLayer cfg d name files).run.run w) w ["name", "errorstate"] := by
  unfold Refused removeLayer testName getL errorIfError fail
  simp only [hl, he, run_bind, run_ite, run_pure, run_throw]
  by_cases h1 : testName1 d name NAME_NEED = true <;> simp [h1]

/-- **rename refuses a busy layer** -/
theorem rename_refuses (cfg : Config) (d : Defs) (old new : Bytes) (co : List Bytes) (w : World)
    (l : Layer) (hl : findLayer d old = some l) (hb : isBusy l true = true) :
    Refused ((renameLayer cfg d old new co).run.run w) w ["name", "errorstate", "busy"] := by
  unfold Refused renameLayer testName getL errorIfError errorIfBusy fail
  simp only [hl, hb, run_bind, run_ite, run_pure, run_throw]
  by_cases h1 : (List.all [(old, NAME_NEED), (new, NAME_FREE)] fun t => testName1 d t.fst t.snd) = true <;>
    by_cases h2 : l.state = S_error <;> simp [h1, h2]

theorem rename_refuses_error (cfg : Config) (d : Defs) (old new : Bytes) (co : List Bytes) (w : World)
    (l : Layer) (hl : findLayer d old = some l) (he : l.state = S_error) :
    Refused ((renameLayer cfg d old new co).run.run w) w ["name", "errorstate"] := by
  unfold Refused renameLayer testName getL errorIfError fail
  simp only [hl, he, run_bind, run_ite, run_pure, run_throw]
  by_cases h1 : (List.all [(old, NAME_NEED), (new, NAME_FREE)] fun t => testName1 d t.fst t.snd) = true <;>
    simp [h1]

/-- **rebase refuses a busy layer** -/
theorem rebase_refuses (cfg : Config) (d : Defs) (name newbase : Bytes) (w : World)
    (l : Layer) (hl : findLayer d name = some l) (hb : isBusy l true = true) :
    Refused ((rebaseLayer cfg d name newbase).run.run w) w ["name", "errorstate", "busy"] := by
  unfold Refused rebaseLayer testName getL errorIfError errorIfBusy fail
  simp only [hl, hb, run_bind, run_ite, run_pure, run_throw]
  by_cases h1 : (List.all [(name, NAME_NEED), (newbase, NAME_NEED + NAME_OPTIONAL)] fun t => testName1 d t.fst t.snd) = true <;>
    by_cases h2 : l.state = S_error <;> simp [h1, h2]

theorem rebase_refuses_error (cfg : Config) (d : Defs) (name newbase : Bytes) (w : World)
    (l : Layer) (hl : findLayer d name = some l) (he : l.state = S_error) :
    Refused ((rebaseLayer cfg d name newbase).run.run w) w ["name", "errorstate"] := by
  unfold Refused rebaseLayer testName getL errorIfError fail
  simp only [hl, he, run_bind, run_ite, run_pure, run_throw]
  by_cases h1 : (List.all [(name, NAME_NEED), (newbase, NAME_NEED + NAME_OPTIONAL)] fun t => testName1 d t.fst t.snd) = true <;>
    simp [h1]

/-! ### 2. a direct child is busy -/

/-- **rename refuses when a direct child is busy** (the child `k` is the layer registered
    under its own name — `d.layers` is Go's `layermap` — and has `old` as base), whatever
    order Go's map iteration visits the children in. -/
theorem rename_child_refuses (cfg : Config) (d : Defs) (old new : Bytes) (co : List Bytes) (w : World)
    (l k : Layer) (hl : findLayer d old = some l)
    (hk : findLayer d k.name = some k) (hkb : k.base = old) (hb : isBusy k true = true) :
    Refused ((renameLayer cfg d old new co).run.run w) w ["name", "errorstate", "busy"] := by
  have hany := kids_any d old co k hk hkb hb
  unfold Refused renameLayer testName getL errorIfError errorIfBusy fail
  simp only [hl, hany, run_bind, run_ite, run_pure, run_throw]
  by_cases h1 : (List.all [(old, NAME_NEED), (new, NAME_FREE)] fun t => testName1 d t.fst t.snd) = true <;>
    by_cases h2 : l.state = S_error <;> by_cases h3 : isBusy l true = true <;> simp [h1, h2, h3]

/-- **rebase refuses when a direct child is busy** (or earlier, with "orphan", when the new
    parent would close a cycle) -/
theorem rebase_child_refuses (cfg : Config) (d : Defs) (name newbase : Bytes) (w : World)
    (l k : Layer) (hl : findLayer d name = some l)
    (hk : k ∈ d.layers) (hkb : k.base = name) (hb : isBusy k true = true) :
    Refused ((rebaseLayer cfg d name newbase).run.run w) w ["name", "errorstate", "busy", "orphan"] := by
  have hany : (d.layers.filter (·.base == name)).any (fun k => isBusy k true) = true := by
    rw [List.any_eq_true]
    exact ⟨k, by simp [List.mem_filter, hk, hkb], hb⟩
  unfold Refused rebaseLayer testName getL errorIfError errorIfBusy fail
  simp only [hl, hany, run_bind, run_ite, run_pure, run_throw]
  by_cases h1 : (List.all [(name, NAME_NEED), (newbase, NAME_NEED + NAME_OPTIONAL)] fun t => testName1 d t.fst t.snd) = true <;>
    by_cases h2 : l.state = S_error <;> by_cases h3 : isBusy l true = true <;>
    by_cases h4 : checkInheritance (setLayer d { l with base := newbase }).layers = true <;> simp [h1, h2, h3, h4]

/-! ### 3. umount -/

/-- umount of a layer with a user inside build/upper/work, or with a mounted derived
    layer on top, answers "busy" and does nothing -/
theorem umount_refuses (cfg : Config) (d : Defs) (name : Bytes) (w : World) (l : Layer)
    (hl : findLayer d name = some l) (hb : (l.mountBusy || l.overlain) = true) :
    (unmountLayer cfg d name).run.run w = (.ok (.busy, d), w) := by
  have hb' : isBusy l false = true := by simpa [isBusy] using hb
  unfold unmountLayer getL
  simp only [hl, hb', run_bind, run_pure]
  rfl

/-- … and the command `umount <name>` then fails with "busy", world unchanged -/
theorem umountCmd_refuses (cfg : Config) (d : Defs) (name : Bytes) (w : World) (l : Layer)
    (hl : findLayer d name = some l) (hb : (l.mountBusy || l.overlain) = true) :
    Refused ((unmountCmd cfg d name false).run.run w) w ["needarg", "name", "busy"] := by
  have h := umount_refuses cfg d name w l hl hb
  unfold Refused unmountCmd testName fail
  simp only [run_bind, run_ite, run_pure, run_throw, Bool.and_false]
  by_cases h0 : name.length > 0 <;>
    by_cases h1 : (List.all [(name, NAME_NEED)] fun t => testName1 d t.fst t.snd) = true <;>
    simp [h0, h1, h] <;> (right; right; rfl)

/-- **umount refuses iff MountBusy ∨ Overlain**: the status is "busy" exactly then (and then
    nothing happened); NonMountBusy and `mounts` play no role in the decision. -/
theorem umount_refuses_iff (cfg : Config) (d : Defs) (name : Bytes) (w : World) (l : Layer)
    (hl : findLayer d name = some l) :
    (∃ d', ((unmountLayer cfg d name).run.run w).1 = .ok (.busy, d')) ↔
      (l.mountBusy || l.overlain) = true := by
  constructor
  · rintro ⟨d', hd'⟩
    cases hb : (l.mountBusy || l.overlain) with
    | true => rfl
    | false =>
      exfalso
      have hb' : isBusy l false = false := by simpa [isBusy] using hb
      have h := extractOk _ _ _ (unmount_status cfg d name l hl hb') w trivial _ hd'
      exact h rfl
  · intro hb
    exact ⟨d, by rw [umount_refuses cfg d name w l hl hb]⟩

/-- **processes elsewhere in the layer directory do not block umount**: with
    MountBusy = Overlain = false (NonMountBusy arbitrary) and at least one mount, the first
    thing `umount` does (not pretending, fault point not armed) is the unmount system call
    on the last = deepest entry of `l.mounts`. -/
theorem umount_nonMountBusy_proceeds (cfg : Config) (d : Defs) (name : Bytes) (w : World) (l : Layer)
    (m : MountType) (hl : findLayer d name = some l)
    (hmb : l.mountBusy = false) (hov : l.overlain = false) (hm : l.mounts.getLast? = some m)
    (hp : w.pretend = false) (hc : w.crashAt ≠ some (w.nops + 1)) (hf : w.faultAt ≠ some (w.nops + 1)) :
    ∃ rest, ((unmountLayer cfg d name).run.run w).2.trace =
      w.trace ++ Op.umount m.mountpoint (if w.force then 1 else 0) :: rest := by
  have h := extractFrom _ _ w (unmount_first cfg d name w l m hl hmb hov hm hp hc hf)
  obtain ⟨rest, hr⟩ := h
  exact ⟨rest, by rw [← hr]; simp⟩

/-! ### 4. from the probe to the flags -/

/-- every process attributed to the layer makes it busy for remove / rename / rebase -/
theorem classify_any_user_busy (cfg : Config) (l : Layer) (users : List User) (hne : users ≠ []) :
    (classifyUsers cfg l users).mountBusy = true ∨ (classifyUsers cfg l users).nonMountBusy = true := by
  obtain ⟨_, h1, h2⟩ := classifyUsers_spec cfg users l
  cases users with
  | nil => exact absurd rfl hne
  | cons u rest =>
    rw [h1, h2]
    by_cases hs : sameDirOrDesc u.file cfg.buildRoot = true
    · left; simp [hs]
    · right; simp [hs]

/-- MountBusy ⇔ some process sits in (or below) the build, work or upper directory -/
theorem classify_mountBusy_iff (cfg : Config) (l : Layer) (users : List User) (h0 : l.mountBusy = false) :
    (classifyUsers cfg l users).mountBusy = true ↔
      ∃ u ∈ users, ∃ mp ∈ [cfg.buildRoot, cfg.workdir, cfg.upperdir], sameDirOrDesc u.file mp = true := by
  obtain ⟨_, h1, _⟩ := classifyUsers_spec cfg users l
  rw [h1, h0, Bool.false_or, List.any_eq_true]
  constructor
  · rintro ⟨u, hu, h⟩
    rw [List.any_eq_true] at h
    exact ⟨u, hu, h⟩
  · rintro ⟨u, hu, h⟩
    exact ⟨u, hu, by rw [List.any_eq_true]; exact h⟩

/-- the classification touches nothing but the three process flags (MountBusy,
    NonMountBusy, Chroot) and never clears one -/
theorem classify_rest (cfg : Config) (l : Layer) (users : List User) :
    (classifyUsers cfg l users).name = l.name ∧ (classifyUsers cfg l users).base = l.base ∧
    (classifyUsers cfg l users).state = l.state ∧ (classifyUsers cfg l users).overlain = l.overlain ∧
    (classifyUsers cfg l users).mounts = l.mounts ∧ (classifyUsers cfg l users).layerPath = l.layerPath ∧
    (l.mountBusy = true → (classifyUsers cfg l users).mountBusy = true) ∧
    (l.nonMountBusy = true → (classifyUsers cfg l users).nonMountBusy = true) := by
  obtain ⟨hr, h1, h2⟩ := classifyUsers_spec cfg users l
  unfold SameRest at hr
  refine ⟨hr.1, hr.2.1, hr.2.2.2.2.2.1, hr.2.2.2.2.2.2.1, hr.2.2.2.2.2.2.2, hr.2.2.2.2.1, ?_, ?_⟩
  · intro h; rw [h1, h]; rfl
  · intro h; rw [h2, h]; rfl

/-- `Mounts` of a layer is non-empty iff the table has a mount at the build root or below -/
theorem mounts_listed (m : Mounts) (path : Bytes) :
    getMountAndSubmounts m path ≠ [] ↔
      ∃ x ∈ m.list, x.mountpoint = path ∨ hasPrefix x.mountpoint (path ++ [47]) = true := by
  constructor
  · intro h
    obtain ⟨x, hx⟩ := List.exists_mem_of_ne_nil _ h
    exact ⟨x, ((TreeOrder.mem_getMountAndSubmounts m path x).mp hx).1,
      ((TreeOrder.mem_getMountAndSubmounts m path x).mp hx).2⟩
  · rintro ⟨x, hx, hp⟩
    exact List.ne_nil_of_mem ((TreeOrder.mem_getMountAndSubmounts m path x).mpr ⟨hx, hp⟩)

/-- … and it lists exactly those mounts -/
theorem mounts_listed_mem (m : Mounts) (path : Bytes) (x : MountType) :
    x ∈ getMountAndSubmounts m path ↔
      x ∈ m.list ∧ (x.mountpoint = path ∨ hasPrefix x.mountpoint (path ++ [47]) = true) :=
  TreeOrder.mem_getMountAndSubmounts m path x

/-- refreshMountInfo reads the table and sets Overlain per layer, nothing else -/
theorem refresh_sets_overlain (cfg : Config) (d : Defs) (w : World) (m : Mounts)
    (hm : Kernel.probe w.kt = .ok m) :
    (refreshMountInfo cfg d).run.run w =
      (.ok { d with mounts := m,
                    layers := d.layers.map fun l =>
                      { l with overlain := (overlayLowerdirs m).contains (buildPath cfg l) } }, w) := by
  unfold refreshMountInfo
  simp only [run_bind, run_getW, run_liftRes, hm, run_pure]

/-- Overlain ⇔ some mounted overlay has the layer's build root as its lower directory -/
theorem overlain_iff (m : Mounts) (p : Bytes) :
    (overlayLowerdirs m).contains p = true ↔
      ∃ x ∈ m.list, x.fstype = b!"overlay" ∧ x.source = p := by
  unfold overlayLowerdirs
  simp only [List.contains_iff_mem, List.mem_map, List.mem_filter]
  constructor
  · rintro ⟨x, ⟨hx, hf⟩, hs⟩
    exact ⟨x, hx, by simpa using hf, hs⟩
  · rintro ⟨x, hx, hf, hs⟩
    exact ⟨x, ⟨hx, by simpa using hf⟩, hs⟩

/-! ### 5. end to end: from the world to the refusal -/

/-- a successful FindLayers only read, and its order is normalizeOrder of its table -/
theorem findLayers_ok (cfg : Config) (w w' : World) (d0 : Defs)
    (h : (findLayers cfg).run.run w = (.ok d0, w')) :
    w' = w ∧ normalizeOrder d0.layers = .ok d0.order := by
  unfold findLayers fail reorder at h
  simp only [run_bind, run_getW, run_ite, run_throw] at h
  by_cases h1 : Fs.isDir w.fs cfg.layerdirs = true
  · by_cases h2 : checkInheritance (readLayerFiles cfg w.fs (Fs.children w.fs cfg.layerdirs)) = true
    · simp only [h1, h2, Bool.not_true, Bool.false_eq_true, if_false] at h
      cases hn : normalizeOrder (readLayerFiles cfg w.fs (Fs.children w.fs cfg.layerdirs)) with
      | error e => rw [hn] at h; simp only at h; cases h
      | ok o =>
        rw [hn] at h
        simp only at h
        injection h with ha hb
        injection ha with ha
        subst ha
        exact ⟨hb.symm, hn⟩
    · simp [h1, h2] at h
      injection h with ha _; cases ha
  · simp [h1] at h
    injection h with ha _; cases ha

/-- the busy condition of the property, read off the world: a mount at or below the build
    root, a process attributed to the layer, or a mounted overlay with the build root as
    lower directory -/
def WorldBusy (cfg : Config) (inuse : List (Bytes × List User)) (m : Mounts) (l0 : Layer) : Prop :=
  (∃ x ∈ m.list, x.mountpoint = buildPath cfg l0 ∨ hasPrefix x.mountpoint (buildPath cfg l0 ++ [47]) = true) ∨
  usersOf inuse l0.name ≠ [] ∨
  (∃ x ∈ m.list, x.fstype = b!"overlay" ∧ x.source = buildPath cfg l0)

theorem probed_busy (cfg : Config) (inuse : List (Bytes × List User)) (m : Mounts) (l0 l : Layer)
    (hb : WorldBusy cfg inuse m l0) (hlp : l.layerPath = l0.layerPath)
    (hov : l.overlain = (overlayLowerdirs m).contains (buildPath cfg l0))
    (hp : Probed cfg m (usersOf inuse l0.name) l) : isBusy l true = true := by
  obtain ⟨hmn, hus⟩ := hp
  have hbp : buildPath cfg l = buildPath cfg l0 := by unfold buildPath; rw [hlp]
  rcases hb with h | h | h
  · have := (mounts_listed m (buildPath cfg l0)).mpr h
    rw [← hbp, ← hmn] at this
    have hl : l.mounts.length > 0 := List.length_pos_iff.mpr this
    simp [isBusy, hl]
  · rcases hus h with h | h <;> simp [isBusy, h]
  · have := (overlain_iff m (buildPath cfg l0)).mpr h
    rw [← hov] at this
    simp [isBusy, this]

/-- **end to end** for any command of the shape "load and probe, then a guarded
    operation on `name`": if the layer exists on disk, the listing succeeds, the mount table
    is readable and the WORLD makes the layer busy, the whole CLI step fails and leaves
    file system, mount table, trace and fault counter exactly as they were. -/
theorem guarded_end_to_end (cfg : Config) (inuse : List (Bytes × List User)) (w : World)
    (d0 : Defs) (l0 : Layer) (m : Mounts) (k : Defs → M Defs)
    (hfl : (findLayers cfg).run.run w = (.ok d0, w))
    (hl0 : findLayer d0 l0.name = some l0) (hm : Kernel.probe w.kt = .ok m)
    (hb : WorldBusy cfg inuse m l0)
    (hk : ∀ (d : Defs) (l : Layer) (w : World), findLayer d l0.name = some l →
      isBusy l true = true → ∃ e, (k d).run.run w = (.error e, w)) :
    ∃ e, ((getLayers cfg inuse >>= k).run.run w) = (.error e, w) := by
  have hord : l0.name ∈ d0.order := by
    have hp := order_perm d0.layers d0.order (findLayers_ok cfg w w d0 hfl).2
    rw [hp.mem_iff]
    exact List.mem_map.mpr ⟨l0, List.mem_of_find?_eq_some hl0, rfl⟩
  have hpr := probeAll_layer cfg inuse d0 w m l0.name l0 hm hl0 hord
  unfold getLayers
  rw [run_bind, run_bind, hfl]
  simp only
  revert hpr
  generalize (StateT.run (ExceptT.run (probeAll cfg inuse d0)) w) = r
  obtain ⟨a, s⟩ := r
  cases a with
  | error e => rintro rfl; exact ⟨e, rfl⟩
  | ok d =>
    rintro ⟨rfl, l, hl, hlp, hov, hp⟩
    exact hk d l _ hl (probed_busy cfg inuse m l0 l hb hlp hov hp)

/-- **remove, end to end** (named `_partial`: it assumes that FindLayers succeeds on the
    world, that the layer is in the table it returns, and that the mount table parses; since
    fix e3cb7aa the probe records mounts and users of a layer with a broken layerconfig too,
    so such a layer is refused as busy (and by the error-state guard); an error — even a
    panic — inside the probe also leaves the world unchanged and is included) -/
theorem remove_end_to_end_partial (cfg : Config) (inuse : List (Bytes × List User)) (w : World)
    (d0 : Defs) (l0 : Layer) (m : Mounts) (files : Bool)
    (hfl : (findLayers cfg).run.run w = (.ok d0, w))
    (hl0 : findLayer d0 l0.name = some l0) (hm : Kernel.probe w.kt = .ok m)
    (hb : WorldBusy cfg inuse m l0) :
    ∃ e, run cfg inuse (.remove l0.name files) w = (.error e, w) := by
  refine guarded_end_to_end cfg inuse w d0 l0 m (fun d => removeLayer cfg d l0.name files) hfl hl0 hm hb ?_
  intro d l w' hl hbz
  obtain ⟨c, _, h⟩ := remove_refuses cfg d l0.name files w' l hl hbz
  exact ⟨_, h⟩

theorem rename_end_to_end_partial (cfg : Config) (inuse : List (Bytes × List User)) (w : World)
    (d0 : Defs) (l0 : Layer) (m : Mounts) (new : Bytes) (co : List Bytes)
    (hfl : (findLayers cfg).run.run w = (.ok d0, w))
    (hl0 : findLayer d0 l0.name = some l0) (hm : Kernel.probe w.kt = .ok m)
    (hb : WorldBusy cfg inuse m l0) :
    ∃ e, run cfg inuse (.rename l0.name new co) w = (.error e, w) := by
  refine guarded_end_to_end cfg inuse w d0 l0 m (fun d => renameLayer cfg d l0.name new co) hfl hl0 hm hb ?_
  intro d l w' hl hbz
  obtain ⟨c, _, h⟩ := rename_refuses cfg d l0.name new co w' l hl hbz
  exact ⟨_, h⟩

theorem rebase_end_to_end_partial (cfg : Config) (inuse : List (Bytes × List User)) (w : World)
    (d0 : Defs) (l0 : Layer) (m : Mounts) (nb : Bytes)
    (hfl : (findLayers cfg).run.run w = (.ok d0, w))
    (hl0 : findLayer d0 l0.name = some l0) (hm : Kernel.probe w.kt = .ok m)
    (hb : WorldBusy cfg inuse m l0) :
    ∃ e, run cfg inuse (.rebase l0.name nb) w = (.error e, w) := by
  refine guarded_end_to_end cfg inuse w d0 l0 m (fun d => rebaseLayer cfg d l0.name nb) hfl hl0 hm hb ?_
  intro d l w' hl hbz
  obtain ⟨c, _, h⟩ := rebase_refuses cfg d l0.name nb w' l hl hbz
  exact ⟨_, h⟩
/-! ### non-vacuity: concrete busy layers -/

def exCfg : Config :=
  { basepath := b!"/lc", layerdirs := b!"/lc/layers", buildRoot := b!"build", binPkg := b!"packages",
    generated := b!"generated", workdir := b!"overlayfs/workdir", upperdir := b!"overlayfs/upperdir",
    exportdirs := b!"/lc/exports", exportBinPkg := b!"packages", exportGenerated := b!"generated" }

def exMount : MountType :=
  { source := b!"proc", mountpoint := b!"/lc/layers/a/build/proc", source2 := [], workdir := [],
    fstype := b!"proc", options := b!"rw", inShadow := false, stDev := b!"0:5", root := b!"/" }

/-- layer `a` with a mount below its build root; child `b`, used by a process -/
def exA : Layer := { name := b!"a", layerPath := b!"/lc/layers/a", state := S_mounted, mounts := [exMount] }
def exB : Layer := { name := b!"b", base := b!"a", layerPath := b!"/lc/layers/b", state := S_mountable,
                     nonMountBusy := true }
def exD : Defs := { layers := [exA, exB], order := [b!"a", b!"b"] }

example : findLayer exD b!"a" = some exA ∧ isBusy exA true = true := by decide
example (w : World) :=
  remove_refuses exCfg exD b!"a" false w exA (by decide) (by decide)
example (w : World) :=
  rename_refuses exCfg exD b!"a" b!"c" [] w exA (by decide) (by decide)
/-- the child-only case: `b` is busy through a process, its parent `a` taken without mounts -/
def exA0 : Layer := { exA with mounts := [] }
def exD0 : Defs := { layers := [exA0, exB], order := [b!"a", b!"b"] }
example : isBusy exA0 true = false ∧ isBusy exB true = true := by decide
example (w : World) :=
  rename_child_refuses exCfg exD0 b!"a" b!"c" [b!"b"] w exA0 exB (by decide) (by decide) (by decide) (by decide)
example (w : World) :=
  rebase_child_refuses exCfg exD0 b!"a" [] w exA0 exB (by decide) (by simp [exD0]) (by decide) (by decide)
/-- umount: NonMountBusy does not block, the deepest mount goes first -/
def exA1 : Layer := { exA with nonMountBusy := true }
example (w : World) (hp : w.pretend = false) (hc : w.crashAt = none) (hf : w.faultAt = none) :
    ∃ rest, ((unmountLayer exCfg { layers := [exA1] } b!"a").run.run w).2.trace =
      w.trace ++ Op.umount b!"/lc/layers/a/build/proc" (if w.force then 1 else 0) :: rest :=
  umount_nonMountBusy_proceeds exCfg { layers := [exA1] } b!"a" w exA1 exMount (by decide) (by decide) (by decide)
    (by decide) hp (by simp [hc]) (by simp [hf])
/-- a process with cwd in the build root → MountBusy; one in "packages" → only NonMountBusy -/
example : (classifyUsers exCfg exA0 [⟨1, b!"build/usr"⟩]).mountBusy = true := by decide
example : (classifyUsers exCfg exA0 [⟨1, b!"packages"⟩]).mountBusy = false ∧
          (classifyUsers exCfg exA0 [⟨1, b!"packages"⟩]).nonMountBusy = true := by decide
example : getMountAndSubmounts { list := [exMount] } b!"/lc/layers/a/build" = [exMount] := by decide

/-- non-vacuity of the end-to-end statement: a disk with one layer `a`, no mounts, and a
    process whose cwd is inside the layer's build root -/
def exFs : Fs.Tree :=
  [(b!"/lc", .dir), (b!"/lc/layers", .dir), (b!"/lc/layers/a", .dir),
   (b!"/lc/layers/a/layerconfig", .file []), (b!"/lc/layers/a/build", .dir)]
def exW : World := { fs := exFs }
def exL : Layer := { name := b!"a", layerPath := b!"/lc/layers/a" }
set_option maxRecDepth 100000 in
example : ∃ e, run exCfg [(b!"a", [⟨1, b!"build"⟩])] (.remove b!"a" false) exW = (.error e, exW) :=
  remove_end_to_end_partial exCfg [(b!"a", [⟨1, b!"build"⟩])] exW { layers := [exL], order := [b!"a"] } exL {} false
    rfl (by decide) rfl (Or.inr (Or.inl (by decide)))

/-! ### 6. at the level of the specification: `Spec.World.protectedL` / `unmountBlocked` on the
    installation a world shows

  `instOf cfg w` is the installation (configuration, tree, kernel mount table) the world shows;
  `Spec.World.diskLayers`, `protectedL`, `mountedAtOrBelow`, `overlain`, `mountBusy`,
  `unmountBlocked`, `childrenOf` are the oracle's (`Driver/Oracle.lean` c04) readings of it.
  No hypothesis mentions the parsed mount view any more: `KWF` (the kernel table is printable)
  gives it (`probe_view`), `findLayers_lists` gives the records of the listed layers. -/

open Lc.Spec.World in
/-- a command of the shape "load and probe, then `k`" fails, world unchanged, as soon as
    `FindLayers` fails -/
theorem getLayers_bind_findLayers_error (cfg : Config) (inuse : List (Bytes × List User)) (w : World)
    (k : Defs → M Defs) (e : Fault) (h : (findLayers cfg).run.run w = (.error e, w)) :
    (getLayers cfg inuse >>= k).run.run w = (.error e, w) := by
  unfold getLayers
  rw [run_bind, run_bind, h]

open Lc.Spec.World Lc.StateProbe in
/-- the specification's protection condition on the installation is the busy condition of
    section 5 on the parsed view -/
theorem worldBusy_of_protected (cfg : Config) (users : List (Bytes × List User)) (w : World) (m : Mounts)
    (hv : MountsView w.kt.mnts m) (n : Bytes) (lf : Layerfile.LayerFile)
    (hp : protectedL (instOf cfg w) users n = true) :
    WorldBusy cfg users m (layerOfFile cfg n lf) := by
  unfold protectedL at hp
  simp only [Bool.or_eq_true, Bool.not_eq_true'] at hp
  unfold WorldBusy
  rcases hp with (hp | hp) | hp
  · left
    have hlen := (mounts_nonempty_view hv (buildDir (instOf cfg w) n)).mpr hp
    apply (mounts_listed m (buildPath cfg (layerOfFile cfg n lf))).mp
    intro hnil
    rw [buildPath_layerOfFile cfg w n lf] at hnil
    rw [hnil] at hlen
    simp at hlen
  · right; left
    show Lc.Spec.World.usersOf users n ≠ []
    intro e; rw [e] at hp; simp at hp
  · right; right
    apply (overlain_iff m (buildPath cfg (layerOfFile cfg n lf))).mp
    rw [overlain_of_view w.kt.mnts m hv, buildPath_layerOfFile cfg w n lf]
    exact hp

open Lc.Spec.World Lc.StateProbe in
/-- **Protected layers are not changed** (specification level, FULL).  For every
    configuration, process list and world whose kernel table is printable (`KWF`), and every
    layer `n` the specification lists on the installation the world shows: if `n` is
    protected — a mount at or below its build root in the kernel table, a process attributed
    to it, or a mounted overlay with its build root as lower directory — then `remove`
    (with or without -files), `rename` (to any name, any child order) and `rebase` (onto
    anything) are refused and the world — tree, kernel table, trace, counters — is exactly
    the one before.  (A `FindLayers` that fails, a probe that fails, a layerconfig with
    messages: the command fails as well, world unchanged.) -/
theorem protected_refused (cfg : Config) (users : List (Bytes × List User)) (w : World)
    (hk : ∀ k ∈ w.kt.mnts, Lc.KernelWF.KWF k) (n : Bytes)
    (hn : (findD (diskLayers (instOf cfg w)) n).isSome = true)
    (hp : protectedL (instOf cfg w) users n = true) :
    (∀ files, ∃ e, run cfg users (.remove n files) w = (.error e, w)) ∧
    (∀ new co, ∃ e, run cfg users (.rename n new co) w = (.error e, w)) ∧
    (∀ nb, ∃ e, run cfg users (.rebase n nb) w = (.error e, w)) := by
  obtain ⟨dl, hd⟩ := Option.isSome_iff_exists.mp hn
  obtain ⟨hnp, hw⟩ := Lc.Props.C02.list_total cfg w
  cases hfl : (findLayers cfg).run.run w with
  | mk r w1 =>
    have hw1 : w1 = w := by rw [hfl] at hw; exact hw
    subst hw1
    cases r with
    | error e =>
      exact ⟨fun files => ⟨e, getLayers_bind_findLayers_error cfg users w1 _ e hfl⟩,
        fun new co => ⟨e, getLayers_bind_findLayers_error cfg users w1 _ e hfl⟩,
        fun nb => ⟨e, getLayers_bind_findLayers_error cfg users w1 _ e hfl⟩⟩
    | ok d0 =>
      obtain ⟨-, hl0, hnm, -⟩ := findLayers_lists cfg w1 w1 d0 hfl n dl hd
      obtain ⟨m, hm, hv⟩ := world_view w1 hk
      rw [hnm] at hl0
      have hb := worldBusy_of_protected cfg users w1 m hv n dl.file hp
      have hname : (layerOfFile cfg n dl.file).name = n := rfl
      refine ⟨fun files => ?_, fun new co => ?_, fun nb => ?_⟩
      · have := remove_end_to_end_partial cfg users w1 d0 (layerOfFile cfg n dl.file) m files hfl
          (by rw [hname]; exact hl0) hm hb
        rwa [hname] at this
      · have := rename_end_to_end_partial cfg users w1 d0 (layerOfFile cfg n dl.file) m new co hfl
          (by rw [hname]; exact hl0) hm hb
        rwa [hname] at this
      · have := rebase_end_to_end_partial cfg users w1 d0 (layerOfFile cfg n dl.file) m nb hfl
          (by rw [hname]; exact hl0) hm hb
        rwa [hname] at this

/-- after a successful `FindLayers`, "load and probe, then `k`" is the probe followed by `k` -/
theorem getLayers_bind_cases (cfg : Config) (inuse : List (Bytes × List User)) (w : World)
    (k : Defs → M Defs) (d0 : Defs) (hfl : (findLayers cfg).run.run w = (.ok d0, w)) :
    (getLayers cfg inuse >>= k).run.run w =
      match (probeAll cfg inuse d0).run.run w with
      | (.ok d, w') => (k d).run.run w'
      | (.error e, w') => (.error e, w') := by
  unfold getLayers
  rw [run_bind, run_bind, hfl]
  simp only
  generalize (StateT.run (ExceptT.run (probeAll cfg inuse d0)) w) = r
  obtain ⟨a, s⟩ := r
  cases a <;> rfl

open Lc.Spec.World Lc.StateProbe in
/-- skeleton of the specification-level statements about a listed layer `n`: whatever the
    outcome of `FindLayers` and of the probe, the command ends in an error with the world
    unchanged, provided `k` does so on every probed table in which the records of the listed
    layers are as `getLayers_record` describes them -/
theorem guarded_spec (cfg : Config) (users : List (Bytes × List User)) (w : World)
    (hk : ∀ k ∈ w.kt.mnts, Lc.KernelWF.KWF k)
    (hnd : ((diskLayers (instOf cfg w)).map (·.name)).Nodup) (n : Bytes)
    (hn : (findD (diskLayers (instOf cfg w)) n).isSome = true) (k : Defs → M Defs)
    (hk' : ∀ d0 d, (findLayers cfg).run.run w = (.ok d0, w) →
      (probeAll cfg users d0).run.run w = (.ok d, w) → ∃ e, (k d).run.run w = (.error e, w)) :
    ∃ e, (getLayers cfg users >>= k).run.run w = (.error e, w) := by
  obtain ⟨dl, hd⟩ := Option.isSome_iff_exists.mp hn
  obtain ⟨-, hw⟩ := Lc.Props.C02.list_total cfg w
  cases hfl : (findLayers cfg).run.run w with
  | mk r w1 =>
    have hw1 : w1 = w := by rw [hfl] at hw; exact hw
    subst hw1
    cases r with
    | error e => exact ⟨e, getLayers_bind_findLayers_error cfg users w1 _ e hfl⟩
    | ok d0 =>
      rw [getLayers_bind_cases cfg users w1 k d0 hfl]
      obtain ⟨-, hl0, -, hord⟩ := findLayers_lists cfg w1 w1 d0 hfl n dl hd
      obtain ⟨m, hm, -⟩ := world_view w1 hk
      have hpr := probeAll_layer cfg users d0 w1 m n _ hm hl0 hord
      cases hpa : (probeAll cfg users d0).run.run w1 with
      | mk a s =>
        rw [hpa] at hpr
        cases a with
        | error e => simp only at hpr ⊢; subst hpr; exact ⟨e, rfl⟩
        | ok d =>
          simp only at hpr ⊢
          obtain ⟨hs, -⟩ := hpr
          subst hs
          exact hk' d0 d hfl hpa

open Lc.Spec.World Lc.StateProbe in
/-- the record of a protected listed layer whose layerconfig was read without messages is
    busy for remove / rename / rebase -/
theorem record_busy_of_protected (cfg : Config) (users : List (Bytes × List User)) (w : World)
    (n : Bytes) (l : Layer) (hp : protectedL (instOf cfg w) users n = true)
    (hov : l.overlain = overlain (instOf cfg w) n)
    (hm : l.mounts.length > 0 ↔ mountedAtOrBelow (instOf cfg w) n = true)
    (hu : Lc.StateProbe.usersOf users n ≠ [] → l.mountBusy = true ∨ l.nonMountBusy = true) :
    isBusy l true = true := by
  unfold protectedL at hp
  simp only [Bool.or_eq_true, Bool.not_eq_true'] at hp
  rcases hp with (hp | hp) | hp
  · have := hm.mpr hp
    simp [isBusy, this]
  · have hne : Lc.StateProbe.usersOf users n ≠ [] := by
      show Lc.Spec.World.usersOf users n ≠ []
      intro e; rw [e] at hp; simp at hp
    rcases hu hne with h | h <;> simp [isBusy, h]
  · rw [← hov] at hp
    simp [isBusy, hp]

open Lc.Spec.World Lc.StateProbe in
/-- **A protected direct child protects its parent from rename and rebase** (specification
    level).  Hypotheses: `KWF` and distinct layer names (`hnd`) — nothing else since fix
    e3cb7aa: before it the statement needed "the child's layerconfig was read without
    messages", because the probe skipped a layer in the error state and such a child, though
    mounted, looked idle (`fixed_child_in_error_state_witness`).  `kn` is a direct child of `n`
    per `Spec.World.childrenOf` and is protected (a mount at or below its build root, a process
    attributed to it, or overlain): `rename n …` and `rebase n …` are refused, world unchanged. -/
theorem child_protected_refused (cfg : Config) (users : List (Bytes × List User)) (w : World)
    (hk : ∀ k ∈ w.kt.mnts, Lc.KernelWF.KWF k)
    (hnd : ((diskLayers (instOf cfg w)).map (·.name)).Nodup) (n kn : Bytes)
    (hn : (findD (diskLayers (instOf cfg w)) n).isSome = true)
    (hkid : kn ∈ childrenOf (diskLayers (instOf cfg w)) n)
    (hp : protectedL (instOf cfg w) users kn = true) :
    (∀ new co, ∃ e, run cfg users (.rename n new co) w = (.error e, w)) ∧
    (∀ nb, ∃ e, run cfg users (.rebase n nb) w = (.error e, w)) := by
  obtain ⟨dl, hd⟩ := Option.isSome_iff_exists.mp hn
  obtain ⟨dk, hdkm, hdkn, hdkb⟩ := childrenOf_mem _ n kn hkid
  have hdk : findD (diskLayers (instOf cfg w)) kn = some dk := by
    rw [← hdkn]; exact findD_of_mem _ hnd dk hdkm
  -- the records of parent and child in every probed table
  have key : ∀ d0 d, (findLayers cfg).run.run w = (.ok d0, w) →
      (probeAll cfg users d0).run.run w = (.ok d, w) →
      ∃ l k, findLayer d n = some l ∧ findLayer d k.name = some k ∧ k.base = n ∧ isBusy k true = true := by
    intro d0 d hfl hpa
    obtain ⟨-, l, hl, -⟩ := getLayers_record cfg users w w d0 d hk hnd hfl hpa n dl hd
    obtain ⟨-, k, hkf, hkn, hkb, hkov, -, hkm, -, hku, -⟩ :=
      getLayers_record cfg users w w d0 d hk hnd hfl hpa kn dk hdk
    refine ⟨l, k, hl, by rw [hkn]; exact hkf, hkb.trans hdkb, ?_⟩
    exact record_busy_of_protected cfg users w kn k hp hkov hkm hku
  constructor
  · intro new co
    refine guarded_spec cfg users w hk hnd n hn (fun d => renameLayer cfg d n new co) ?_
    intro d0 d hfl hpa
    obtain ⟨l, k, hl, hkf, hkb, hb⟩ := key d0 d hfl hpa
    obtain ⟨c, _, h⟩ := rename_child_refuses cfg d n new co w l k hl hkf hkb hb
    exact ⟨_, h⟩
  · intro nb
    refine guarded_spec cfg users w hk hnd n hn (fun d => rebaseLayer cfg d n nb) ?_
    intro d0 d hfl hpa
    obtain ⟨l, k, hl, hkf, hkb, hb⟩ := key d0 d hfl hpa
    obtain ⟨c, _, h⟩ := rebase_child_refuses cfg d n nb w l k hl (List.mem_of_find?_eq_some hkf) hkb hb
    exact ⟨_, h⟩

/-- `umount <name>` of a layer that is neither busy nor has mounts listed answers
    "notmounted" and does nothing -/
theorem umountCmd_notMounted (cfg : Config) (d : Defs) (name : Bytes) (w : World) (l : Layer)
    (hl : findLayer d name = some l) (hb : isBusy l false = false) (hm : l.mounts = []) :
    Refused ((unmountCmd cfg d name false).run.run w) w ["needarg", "name", "notmounted"] := by
  have h : (unmountLayer cfg d name).run.run w = (.ok (.notMounted, d), w) := by
    unfold unmountLayer getL
    simp only [hl, hb, hm, run_bind, run_pure]
    rfl
  unfold Refused unmountCmd testName fail
  simp only [run_bind, run_ite, run_pure, run_throw, Bool.and_false]
  by_cases h0 : name.length > 0 <;>
    by_cases h1 : (List.all [(name, NAME_NEED)] fun t => testName1 d t.fst t.snd) = true <;>
    simp [h0, h1, h] <;> (right; right; rfl)

open Lc.Spec.World Lc.StateProbe in
/-- **umount refuses a blocked layer** (specification level).  For every configuration,
    process list and world with a printable kernel table and distinct layer names, and every
    listed layer `n`: if a process works inside its build, work or upper directory or a
    mounted overlay has its build root as lower directory (`unmountBlocked`), then
    `umount n` ends in the error "busy" and the world is exactly the one before — in
    particular no unmount call was issued (the trace is unchanged) and the kernel table is
    unchanged.  Since fix e3cb7aa this includes a layer whose layerconfig had messages: its
    processes and mounts are recorded like anyone's (before, it answered "notmounted"). -/
theorem umount_blocked_refused (cfg : Config) (users : List (Bytes × List User)) (w : World)
    (hk : ∀ k ∈ w.kt.mnts, Lc.KernelWF.KWF k)
    (hnd : ((diskLayers (instOf cfg w)).map (·.name)).Nodup) (n : Bytes)
    (hn : (findD (diskLayers (instOf cfg w)) n).isSome = true)
    (hb : unmountBlocked (instOf cfg w) users n = true) :
    ∃ e, run cfg users (.umount n false) w = (.error e, w) := by
  obtain ⟨dl, hd⟩ := Option.isSome_iff_exists.mp hn
  refine guarded_spec cfg users w hk hnd n hn (fun d => unmountCmd cfg d n false) ?_
  intro d0 d hfl hpa
  obtain ⟨-, l, hl, -, -, hov, -, -, hmb, -, -⟩ := getLayers_record cfg users w w d0 d hk hnd hfl hpa n dl hd
  unfold unmountBlocked at hb
  have hbusy : (l.mountBusy || l.overlain) = true := by
    rw [hov, hmb]
    simp only [Bool.or_eq_true] at hb ⊢
    rcases hb with h | h
    · exact Or.inl (modelMountBusy_of_spec cfg users n w h)
    · exact Or.inr h
  obtain ⟨c, _, h⟩ := umountCmd_refuses cfg d n w l hl hbusy
  exact ⟨_, h⟩

/-- what `umount <name>` leaves behind is what `unmountLayer` leaves behind (the command only
    turns the status into a return value) -/
theorem unmountCmd_world (cfg : Config) (d : Defs) (name : Bytes) (w : World)
    (h0 : name.length > 0) (h1 : testName1 d name NAME_NEED = true) :
    ((unmountCmd cfg d name false).run.run w).2 = ((unmountLayer cfg d name).run.run w).2 := by
  unfold unmountCmd testName fail
  simp only [run_bind, run_pure, Bool.and_false, h0, List.all_cons, h1,
    List.all_nil, Bool.and_self, Bool.false_eq_true, ↓reduceIte, decide_true]
  generalize (StateT.run (ExceptT.run (unmountLayer cfg d name)) w) = r
  obtain ⟨a, s⟩ := r
  cases a with
  | error e => rfl
  | ok p =>
    obtain ⟨st, d'⟩ := p
    cases st <;> rfl

open Lc.Spec.World Lc.StateProbe in
/-- **umount proceeds on a layer that is not blocked** (specification level, PARTIAL).  For a
    listed layer `n` (since fix e3cb7aa also one whose layerconfig had messages: its mounts are
    recorded and it is unmounted like any other) that has a mount at or below
    its build root in the kernel table and is NOT blocked (no process in its build, work or
    upper directory, not overlain — processes elsewhere in the layer directory do not count):
    the first thing `umount n` does to the world is an unmount call on a mountpoint at or below
    the layer's build root.  PARTIAL: it assumes that loading and probing succeed (`hgl`, a
    decidable statement about (cfg, users, w): `FindLayers` and the probe return), that the
    three directory names of the configuration do not end in '/' (then the code's
    SameDirectoryOrDescendant is the manual's "the directory or below"), `n ≠ ""`, not
    pretending, and no fault / crash armed for the very next operation.  Which mountpoint goes
    first (the deepest in tree order) and how the sequence continues is C03's subject. -/
theorem umount_free_proceeds_partial (cfg : Config) (users : List (Bytes × List User)) (w : World)
    (hk : ∀ k ∈ w.kt.mnts, Lc.KernelWF.KWF k)
    (hnd : ((diskLayers (instOf cfg w)).map (·.name)).Nodup)
    (hcb : cfg.buildRoot.getLast? ≠ some 47) (hcw : cfg.workdir.getLast? ≠ some 47)
    (hcu : cfg.upperdir.getLast? ≠ some 47)
    (n : Bytes) (hne : n ≠ []) (dl : DLayer)
    (hd : findD (diskLayers (instOf cfg w)) n = some dl)
    (hfree : unmountBlocked (instOf cfg w) users n = false)
    (hmnt : mountedAtOrBelow (instOf cfg w) n = true)
    (hgl : ((getLayers cfg users).run.run w).1.toOption.isSome = true)
    (hp : w.pretend = false) (hc : w.crashAt ≠ some (w.nops + 1)) (hf : w.faultAt ≠ some (w.nops + 1)) :
    ∃ mp rest, atOrBelow (buildDir (instOf cfg w) n) mp = true ∧
      (run cfg users (.umount n false) w).2.trace =
        w.trace ++ Op.umount mp (if w.force then 1 else 0) :: rest := by
  cases hg : (getLayers cfg users).run.run w with
  | mk r w' =>
    rw [hg] at hgl
    cases r with
    | error e => simp [Except.toOption] at hgl
    | ok d =>
      obtain ⟨d0, hfl, hpa, -⟩ := getLayers_run cfg users w w' d hg
      obtain ⟨hw, l, hl, -, -, hov, -, hm, hmb, -, hat⟩ := getLayers_record cfg users w w' d0 d hk hnd hfl hpa n dl hd
      subst hw
      unfold unmountBlocked at hfree
      simp only [Bool.or_eq_false_iff] at hfree
      have hmb' : l.mountBusy = false := by
        rw [hmb, modelMountBusy_eq_spec cfg users n w' hcb hcw hcu]; exact hfree.1
      have hov' : l.overlain = false := by rw [hov]; exact hfree.2
      have hlen := hm.mpr hmnt
      obtain ⟨m, hlast⟩ : ∃ m, l.mounts.getLast? = some m := by
        cases hx : l.mounts.getLast? with
        | none =>
          have := List.getLast?_eq_none_iff.mp hx
          rw [this] at hlen; simp at hlen
        | some m => exact ⟨m, rfl⟩
      have hmem : m ∈ l.mounts := List.mem_of_getLast? hlast
      obtain ⟨rest, htr⟩ := umount_nonMountBusy_proceeds cfg d n w' l m hl hmb' hov' hlast hp hc hf
      refine ⟨m.mountpoint, rest, hat m hmem, ?_⟩
      have hrun : run cfg users (.umount n false) w' = (unmountCmd cfg d n false).run.run w' := by
        show (getLayers cfg users >>= fun d => unmountCmd cfg d n false).run.run w' = _
        rw [bind_ok _ _ _ _ _ hg]
      have hlegal : isLegalLayerName n = true := by
        have := diskLayers_legal (instOf cfg w') dl (findD_mem _ _ dl hd)
        rwa [findD_name _ n dl hd] at this
      have hlen0 : n.length > 0 := by
        cases n with
        | nil => exact absurd rfl hne
        | cons a as => simp
      have htn : testName1 d n NAME_NEED = true := by
        unfold testName1
        have : ¬ n.length < 1 := by omega
        simp [this, hlegal, NAME_NEED, hl]
      rw [hrun, unmountCmd_world cfg d n w' hlen0 htn]
      exact htr

/-! #### non-vacuity of section 6: a world with a kernel table -/

namespace SpecEx
open Lc.Spec.World Lc.StateProbe

/-- layers `a` (base, import proc) and `b` (on `a`); `cfgB` is `b`'s layerconfig -/
def fsOf (cfgB : Bytes) : Fs.Tree :=
  [(b!"/", .dir), (b!"/proc", .dir), (b!"/lc", .dir), (b!"/lc/layers", .dir), (b!"/lc/exports", .dir),
   (b!"/lc/layers/a", .dir), (b!"/lc/layers/a/layerconfig", .file b!"import proc /proc /proc\n"),
   (b!"/lc/layers/a/build", .dir), (b!"/lc/layers/a/build/proc", .dir),
   (b!"/lc/layers/b", .dir), (b!"/lc/layers/b/layerconfig", .file cfgB),
   (b!"/lc/layers/b/build", .dir), (b!"/lc/layers/b/build/proc", .dir)]
def kRoot : Kernel.KMnt :=
  { id := 1, parent := 0, dev := b!"8:1", root := b!"/", mp := b!"/", fstype := b!"ext4", source := b!"/dev/sda1" }
def kProcHost : Kernel.KMnt :=
  { id := 2, parent := 1, dev := b!"0:5", root := b!"/", mp := b!"/proc", fstype := b!"proc", source := b!"proc" }
def kProcOf (id : Nat) (n : Bytes) : Kernel.KMnt :=
  { id := id, parent := 1, dev := b!"0:5", root := b!"/", mp := b!"/lc/layers/" ++ n ++ b!"/build/proc",
    fstype := b!"proc", source := b!"/proc" }
def world (cfgB : Bytes) (ks : List Kernel.KMnt) : World :=
  { fs := fsOf cfgB, kt := { mnts := [kRoot, kProcHost] ++ ks, nextId := 200 } }

/-- `a` has its proc import mounted: protected; remove, rename, rebase refused -/
def wA : World := world b!"base a\n" [kProcOf 100 b!"a"]
example := protected_refused exCfg [] wA (by decide) b!"a" (by decide) (by decide)
example : mountedAtOrBelow (instOf exCfg wA) b!"a" = true ∧ protectedL (instOf exCfg wA) [] b!"b" = false := by
  decide

/-- nothing mounted, a process with its cwd in `b`'s build directory: `b` is protected, and so
    is its parent `a` against rename / rebase -/
def wB : World := world b!"base a\n" []
def usersB : List (Bytes × List User) := [(b!"b", [⟨1, b!"build"⟩])]
example := protected_refused exCfg usersB wB (by decide) b!"b" (by decide) (by decide)
example := child_protected_refused exCfg usersB wB (by decide) (by decide) b!"a" b!"b"
  (by decide) (by decide) (by decide)
example : protectedL (instOf exCfg wB) usersB b!"a" = false := by decide

/-- umount: a process in `a`'s build directory blocks it (nothing is unmounted); a process
    elsewhere in the layer directory (`packages`) does not -/
def usersA : List (Bytes × List User) := [(b!"a", [⟨1, b!"build/usr"⟩])]
example := umount_blocked_refused exCfg usersA wA (by decide) (by decide) b!"a" (by decide) (by decide)
def usersA' : List (Bytes × List User) := [(b!"a", [⟨1, b!"packages"⟩])]
example : ∃ mp rest, atOrBelow (buildDir (instOf exCfg wA) b!"a") mp = true ∧
    (run exCfg usersA' (.umount b!"a" false) wA).2.trace = wA.trace ++ Op.umount mp 0 :: rest :=
  umount_free_proceeds_partial exCfg usersA' wA (by decide) (by decide) (by decide) (by decide) (by decide)
    b!"a" (by decide) ⟨b!"a", Layerfile.readLayerFile b!"import proc /proc /proc\n"⟩ (by rfl)
    (by decide) (by decide) (by decide +kernel) (by decide) (by decide) (by decide)
/-- … and indeed (kernel evaluation of the whole run): one unmount call, on `a`'s proc mount -/
example : (run exCfg usersA' (.umount b!"a" false) wA).2.trace = [Op.umount b!"/lc/layers/a/build/proc" 0] := by
  decide +kernel

end SpecEx

open Lc.Spec.World Lc.StateProbe in
/-- **A child in the error state protects its parent** (defect repaired by fix e3cb7aa; the
    world is the witness of the defect).  `b` is a direct child of `a`, its layerconfig has a
    line the reader does not understand (one message: error state), and its proc import is
    mounted, so `b` is protected.  `ProbeAllLayerstate` used to skip layers in the error state:
    `b`'s record listed no mounts and `rename a c` / `rebase a` went ahead (reproduced on the
    implementation: "rename of a protected layer succeeded").  Now the mounts and users of
    every layer are recorded and only the state classification is skipped: the hypotheses of
    `child_protected_refused` hold and the run (kernel evaluation) fails with the tree
    untouched and no operation attempted; `umount b` unmounts the proc mount like for any
    other layer. -/
theorem fixed_child_in_error_state_witness :
    let w := SpecEx.world b!"base a\nbogus line\n" [SpecEx.kProcOf 101 b!"b"]
    (∀ k ∈ w.kt.mnts, Lc.KernelWF.KWF k) ∧
    ((diskLayers (instOf exCfg w)).map (·.name)).Nodup ∧
    b!"b" ∈ childrenOf (diskLayers (instOf exCfg w)) b!"a" ∧
    protectedL (instOf exCfg w) [] b!"b" = true ∧
    (diskLayers (instOf exCfg w)).map (fun dl => (dl.name, dl.file.nmsgs)) = [(b!"a", 0), (b!"b", 1)] ∧
    (run exCfg [] (.rename b!"a" b!"c" []) w).1.toOption.isSome = false ∧
    (run exCfg [] (.rename b!"a" b!"c" []) w).2.fs = w.fs ∧
    (run exCfg [] (.rename b!"a" b!"c" []) w).2.trace = [] ∧
    (run exCfg [] (.rebase b!"a" []) w).1.toOption.isSome = false ∧
    (run exCfg [] (.umount b!"b" false) w).2.trace = [Op.umount b!"/lc/layers/b/build/proc" 0] := by
  refine ⟨by decide, by decide, by decide, by decide, by decide, by decide +kernel, by decide +kernel,
    by decide +kernel, by decide +kernel, by decide +kernel⟩

end Lc.Props.C04
