/-
  C15 — pretend mode changes nothing.
  (b) over the hand-written command model: for EVERY command, argument vector, layer
  forest, file-system tree, kernel mount table, process assignment and fault/crash
  setting, a run with the pretend switch leaves the file system and the mount table
  exactly as they were and issues no operation at all.
  (a) the call-site facts (every mutator of package fs sits behind the pretender, no
  mutator is called outside package fs, every command installs the pretender) are
  regenerated from the source on every run: Lc/Generated/Guards.lean + Props/C15Facts.
-/
import Lc.Lemmas.PretendKeeps

set_option mvcgen.warning false

namespace Lc.Props.C15
open Lc Lc.Layers Lc.Pretend Lc.Hoare

/-- Pretend mode is a no-op on the environment: same tree, same mount table, no
    operation attempted, no fault point passed — whatever the command and its result. -/
theorem pretend_noop (cfg : Config) (inuse : List (Bytes × List User)) (c : Cmd) (w : World)
    (hp : w.pretend = true) :
    (run cfg inuse c w).2.fs = w.fs ∧ (run cfg inuse c w).2.kt = w.kt ∧
    (run cfg inuse c w).2.trace = w.trace ∧ (run cfg inuse c w).2.nops = w.nops := by
  have h := extract (PInv w) (runCmd cfg inuse c) (runCmd_keeps w cfg inuse c) w
    (by simp [PInv, hp])
  unfold PInv at h
  exact ⟨h.1, h.2.1, h.2.2.1, h.2.2.2.1⟩

/-- In particular no mount, remount or unmount system call is issued. -/
theorem pretend_no_syscall (cfg : Config) (inuse : List (Bytes × List User)) (c : Cmd) (w : World)
    (hp : w.pretend = true) (h0 : w.trace = []) : (run cfg inuse c w).2.trace = [] := by
  rw [(pretend_noop cfg inuse c w hp).2.2.1, h0]

/-- Each primitive on its own: with the pretender installed the fault point is not even
    reached (the hook sits inside the `WriteOK` branch) and the gate answers "skip". -/
theorem gate_pretend (w : World) (hp : w.pretend = true) (r : Bool)
    (hr : (gate.run.run w).1 = .ok r) : r = false := by
  have h := extractOk (PInv w) (fun r _ => r = false) gate
    (by
      have := gate_spec w
      unfold HoldsOk
      open Std.Do in
      mvcgen [this]
      all_goals (try intros) <;> simp_all) w (by simp [PInv, hp]) r hr
  exact h

end Lc.Props.C15
