/-
  C10 — a command reports success only if all of its effects were applied (layercake
  half, over the hand-written command model).

  The environment fails the k-th mutating operation (`faultAt = some k`; the hook
  `verifPoint` in package fs injects exactly that into the real code).  Theorem: for
  EVERY command, argument vector, forest, tree, mount table, process assignment and EVERY
  k, if the run returns normally then fewer than k fault points were passed, i.e. the
  failing operation was never reached; contrapositive: once the k-th operation has
  failed the command reports failure.  Real (non-injected) failures of the environment
  models (`os:` / `sys:` errors) are exceptions of the monad and are never caught by the
  model; that the Go code does not swallow them either is what the fault-injection
  correspondence checks for every k.
-/
import Lc.Lemmas.FaultOk

namespace Lc.Props.C10
open Lc Lc.Layers Lc.FaultOk Lc.Hoare

/-- success ⇒ the armed fault was not reached -/
theorem success_means_fault_not_reached (cfg : Config) (inuse : List (Bytes × List User)) (c : Cmd)
    (w : World) (k : Nat) (hk : w.faultAt = some k) (h0 : w.nops < k) (d : Defs)
    (hok : (run cfg inuse c w).1 = .ok d) : (run cfg inuse c w).2.nops < k := by
  have h := extractOk (NotFired w) (fun _ w' => NotFired w w') (runCmd cfg inuse c)
    (runCmd_ok w cfg inuse c) w (by simp [NotFired, hk, h0]) d hok
  have h2 : ((runCmd cfg inuse c).run.run w).2.nops < w.faultAt.getD 0 := h.2
  rw [hk] at h2
  exact h2

/-- contrapositive, as the property states it: if the k-th operation was reached (and
    therefore failed) the command does not report success -/
theorem fault_reached_means_failure (cfg : Config) (inuse : List (Bytes × List User)) (c : Cmd)
    (w : World) (k : Nat) (hk : w.faultAt = some k) (h0 : w.nops < k)
    (hreached : k ≤ (run cfg inuse c w).2.nops) : ∀ d, (run cfg inuse c w).1 ≠ .ok d := by
  intro d hok
  have := success_means_fault_not_reached cfg inuse c w k hk h0 d hok
  omega

/-- the fault switch is never modified by a command (so "the k-th operation" means the
    same k throughout the run) -/
theorem faultAt_unchanged_on_success (cfg : Config) (inuse : List (Bytes × List User)) (c : Cmd)
    (w : World) (k : Nat) (hk : w.faultAt = some k) (h0 : w.nops < k) (d : Defs)
    (hok : (run cfg inuse c w).1 = .ok d) : (run cfg inuse c w).2.faultAt = some k := by
  have h := extractOk (NotFired w) (fun _ w' => NotFired w w') (runCmd cfg inuse c)
    (runCmd_ok w cfg inuse c) w (by simp [NotFired, hk, h0]) d hok
  have h1 : ((runCmd cfg inuse c).run.run w).2.faultAt = w.faultAt := h.1
  rw [hk] at h1
  exact h1

/-- `fs.Mount` of an rbind of /dev, /sys or /run consists of two kernel calls, and the
    second (the propagation change) is a fault point of its own: if the first call succeeds
    and the second is the operation that fails, `fs.Mount` fails — after the first call took
    effect and without having issued the second.  (The general theorems above then give the
    failure of the whole command: the fault was reached.) -/
theorem propagation_failure_reported (w : World) (src tgt fstype opts : Bytes) (kt' : Kernel.KTable)
    (hs : src = b!"/dev" ∨ src = b!"/sys" ∨ src = b!"/run")
    (hp : w.pretend = false) (hc : w.crashAt = none) (hf : w.faultAt = some (w.nops + 2))
    (hk : Kernel.kmount w.kt src tgt fstype (mountFlagsOf fstype) opts = .ok kt') :
    ((fsMount src tgt fstype opts).run.run w).1 = .error (.err "fault") ∧
    ((fsMount src tgt fstype opts).run.run w).2.kt = kt' ∧
    ((fsMount src tgt fstype opts).run.run w).2.trace =
      w.trace ++ [.mount src tgt fstype (mountFlagsOf fstype) opts] := by
  have hsrc : (src == b!"/dev" || src == b!"/sys" || src == b!"/run") = true := by
    rcases hs with h | h | h <;> subst h <;> decide
  have h := extractBoth (fun w' => w' = w) (fun _ _ => False)
    (fun e w' => e = .err "fault" ∧ w'.kt = kt' ∧
      w'.trace = w.trace ++ [.mount src tgt fstype (mountFlagsOf fstype) opts] ∧ w'.fs = w.fs)
    (fsMount src tgt fstype opts)
    (fsMount_propagation_fault_triple w src tgt fstype opts kt' hsrc hp hc hf hk) w rfl
  split at h
  · exact h.elim
  · next e he => exact ⟨by rw [he, h.1], h.2.1, h.2.2.1⟩

/-- non-vacuity: a host with / and /dev mounted and an existing target directory; the rbind of
    /dev succeeds (the table grows) and the propagation point is the one that fails -/
def wEx : World :=
  { fs := [(b!"/dev", .dir), (b!"/t", .dir)], kt := { mnts := [⟨1, 0, b!"0:1", [47], [47], b!"ext4", b!"/dev/sda", [], [], []⟩, ⟨2, 1, b!"0:5", [47], b!"/dev", b!"devtmpfs", b!"devtmpfs", [], [], []⟩] }, faultAt := some 2 }

example :
    ((fsMount b!"/dev" b!"/t" b!"rbind" []).run.run wEx).1 = .error (.err "fault") ∧
    ((fsMount b!"/dev" b!"/t" b!"rbind" []).run.run wEx).2.kt.mnts.length = 3 :=
  ⟨rfl, rfl⟩

/-- the numbering the correspondence relies on: a successful `fs.Mount` passes two fault
    points for an rbind of /dev, /sys or /run and one otherwise -/
theorem fsMount_passes_fault_points (w : World) (src tgt fstype opts : Bytes)
    (hp : w.pretend = false) (hc : w.crashAt = none) (hf : w.faultAt = none)
    (hok : ((fsMount src tgt fstype opts).run.run w).1 = .ok ()) :
    ((fsMount src tgt fstype opts).run.run w).2.nops = w.nops +
      (if src == b!"/dev" || src == b!"/sys" || src == b!"/run" then 2 else 1) := by
  have h := extractBoth (fun w' => w' = w)
    (fun _ w' => w'.nops = w.nops + (if src == b!"/dev" || src == b!"/sys" || src == b!"/run" then 2 else 1))
    (fun _ w' => w.nops < w'.nops ∧ w'.nops ≤ w.nops + 2)
    (fsMount src tgt fstype opts) (fsMount_fault_points w src tgt fstype opts hp hc hf) w rfl
  rw [hok] at h
  exact h

end Lc.Props.C10
