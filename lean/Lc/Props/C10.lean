/-
  C10 — a command reports success only if all of its effects were applied (layercake
  half, over the hand-written command model).

  The environment fails the k-th mutating operation (`faultAt = some k`; the hook
  `verifPoint` in package fs injects exactly that into the real code).  Theorem: for
  EVERY command, argument vector, forest, tree, mount table, process assignment and EVERY
  k, if the run returns normally then fewer than k fault points were passed, i.e. the
  failing operation was never reached; contrapositive: once the k-th operation has
  failed the command reports failure.  Real (non-injected) failures of the environment
  models (`os:` / `sys:` errors) are exceptions of the monad and are never caught by the
  model; that the Go code does not swallow them either is what the fault-injection
  correspondence checks for every k.
-/
import Lc.Lemmas.FaultOk

namespace Lc.Props.C10
open Lc Lc.Layers Lc.FaultOk Lc.Hoare

/-- success ⇒ the armed fault was not reached -/
theorem success_means_fault_not_reached (cfg : Config) (inuse : List (Bytes × List User)) (c : Cmd)
    (w : World) (k : Nat) (hk : w.faultAt = some k) (h0 : w.nops < k) (d : Defs)
    (hok : (run cfg inuse c w).1 = .ok d) : (run cfg inuse c w).2.nops < k := by
  have h := extractOk (NotFired w) (fun _ w' => NotFired w w') (runCmd cfg inuse c)
    (runCmd_ok w cfg inuse c) w (by simp [NotFired, hk, h0]) d hok
  have h2 : ((runCmd cfg inuse c).run.run w).2.nops < w.faultAt.getD 0 := h.2
  rw [hk] at h2
  exact h2

/-- contrapositive, as the property states it: if the k-th operation was reached (and
    therefore failed) the command does not report success -/
theorem fault_reached_means_failure (cfg : Config) (inuse : List (Bytes × List User)) (c : Cmd)
    (w : World) (k : Nat) (hk : w.faultAt = some k) (h0 : w.nops < k)
    (hreached : k ≤ (run cfg inuse c w).2.nops) : ∀ d, (run cfg inuse c w).1 ≠ .ok d := by
  intro d hok
  have := success_means_fault_not_reached cfg inuse c w k hk h0 d hok
  omega

/-- the fault switch is never modified by a command (so "the k-th operation" means the
    same k throughout the run) -/
theorem faultAt_unchanged_on_success (cfg : Config) (inuse : List (Bytes × List User)) (c : Cmd)
    (w : World) (k : Nat) (hk : w.faultAt = some k) (h0 : w.nops < k) (d : Defs)
    (hok : (run cfg inuse c w).1 = .ok d) : (run cfg inuse c w).2.faultAt = some k := by
  have h := extractOk (NotFired w) (fun _ w' => NotFired w w') (runCmd cfg inuse c)
    (runCmd_ok w cfg inuse c) w (by simp [NotFired, hk, h0]) d hok
  have h1 : ((runCmd cfg inuse c).run.run w).2.faultAt = w.faultAt := h.1
  rw [hk] at h1
  exact h1

end Lc.Props.C10
