/-
  C05 — the stage package set is the dependency closure of the requested set.
  Theorems over the model `Lc.Resolve` (portage/vdb/solution.go, portage/depend/resolver.go,
  portage/atom/atom.go) for EVERY installed-package database, match relation, request,
  enumeration order and flag setting.  No bounds: induction over fuel and dependency trees.
-/
import Lc.Model.Resolve
import Lc.Model.Profile
import Lc.Spec.Closure
import Lc.Lemmas.Resolve
import Lc.Lemmas.AtomSet

namespace Lc.Props.C05
open Lc Lc.Resolve Lc.Spec.Closure

/-! ## basic facts about the installed set -/

theorem get_subset_allPkgs (s : AtomSet) (n : Bytes) : ∀ x ∈ AtomSet.get s n, x ∈ allPkgs s := by
  induction s with
  | nil => intro x hx; simp [AtomSet.get] at hx
  | cons hd tl ih =>
    obtain ⟨m, sl⟩ := hd
    intro x hx
    unfold AtomSet.get at hx
    unfold allPkgs
    simp only [List.flatMap_cons, List.mem_append]
    split at hx
    · exact Or.inl hx
    · exact Or.inr (ih x hx)

theorem candidates_subset (db : Db) (a : DAtom) : ∀ x ∈ candidates db a, x ∈ allPkgs db.installed := by
  intro x hx
  unfold candidates at hx
  exact get_subset_allPkgs _ _ x (List.mem_filter.mp hx).1

/-! ## monotonicity of the `Added` marks -/

/-- `recur` never removes an `Added` mark -/
def Mono (recur : Pkg → St → R St) : Prop :=
  ∀ p st st', recur p st = .ok st' → ∀ i ∈ st.added, i ∈ st'.added

theorem hyps_mono {recur : Pkg → St → R St} (hm : Mono recur) (A : List Nat) :
    Hyps recur (fun st => ∀ i ∈ A, i ∈ st.added) (fun _ => True) (fun _ => True) where
  eUnsat := trivial
  eBlocked := trivial
  block := fun _ _ h _ => h
  recur := by
    intro st ia hI _ _ _
    cases hr : recur ia (mark st ia) with
    | error e => trivial
    | ok st' =>
      intro i hi
      exact hm ia _ st' hr i (by unfold mark; exact List.mem_cons_of_mem _ (hI i hi))

theorem resolveTop_mono {db : Db} {recur : Pkg → St → R St} (hm : Mono recur) (use : List Flag)
    (ds : DepList) (st st' : St) (h : resolveTop db recur use ds st = .ok st') :
    ∀ i ∈ st.added, i ∈ st'.added := by
  have := resolveTop_inv (db := db) (hyps_mono hm st.added) use ds st (fun i hi => hi)
    (fun _ _ _ _ _ => trivial)
  rw [h] at this
  exact this

theorem findDeps_mono (db : Db) : ∀ n, Mono (findDeps db n) := by
  intro n
  induction n with
  | zero => intro p st st' h; simp [findDeps] at h
  | succ n ih =>
    intro p st st' h
    unfold findDeps at h
    split at h
    · cases h; exact fun i hi => hi
    · exact resolveTop_mono ih _ _ _ _ h

/-! ## termination: fuel = number of installed packages suffices, cycles or not -/

/-- number of installed packages that are not yet `Added` -/
def unadded (db : Db) (st : St) : Nat :=
  (allPkgs db.installed).countP fun p => !st.added.contains p.id

theorem countP_lt_of_witness {α} (p q : α → Bool) (l : List α) (himp : ∀ x, p x = true → q x = true)
    (w : α) (hw : w ∈ l) (hq : q w = true) (hp : p w = false) : l.countP p < l.countP q := by
  induction l with
  | nil => cases hw
  | cons x xs ih =>
    have hle : xs.countP p ≤ xs.countP q := List.countP_mono_left (fun y _ hy => himp y hy)
    rcases List.mem_cons.mp hw with rfl | hw'
    · simp only [List.countP_cons, hq, hp, if_true]
      simp; omega
    · have := ih hw'
      simp only [List.countP_cons]
      by_cases hpx : p x = true
      · simp [hpx, himp x hpx]; omega
      · by_cases hqx : q x = true
        · simp [hpx, hqx]; omega
        · simp [hpx, hqx]; omega

theorem unadded_mark_lt (db : Db) (st : St) (ia : Pkg) (hin : ia ∈ allPkgs db.installed)
    (hna : st.added.contains ia.id = false) : unadded db (mark st ia) < unadded db st := by
  unfold unadded
  apply countP_lt_of_witness _ _ _ _ ia hin
  · have : ¬ ia.id ∈ st.added := by simpa using hna
    simp [this]
  · simp [mark]
  · intro x hx
    simp only [mark, List.contains_cons, Bool.not_eq_true', Bool.or_eq_false_iff] at hx
    have : ¬ x.id ∈ st.added := by simpa using hx.2
    simp [this]

theorem unadded_mono (db : Db) (st st' : St) (h : ∀ i ∈ st.added, i ∈ st'.added) :
    unadded db st' ≤ unadded db st := by
  unfold unadded
  apply List.countP_mono_left
  intro x _ hx
  simp only [Bool.not_eq_true', List.contains_eq_mem, decide_eq_false_iff_not] at hx ⊢
  exact fun hmem => hx (h _ hmem)

theorem hyps_fuel (db : Db) (n : Nat) (recur : Pkg → St → R St) (hm : Mono recur)
    (hnf : ∀ p st, unadded db st < n → recur p st ≠ .error .fuel) :
    Hyps recur (fun st => unadded db st ≤ n) (fun x => x ∈ allPkgs db.installed)
      (fun e => e ≠ .fuel) where
  eUnsat := by decide
  eBlocked := by decide
  block := fun _ _ h _ => h
  recur := by
    intro st ia hI hG hna _
    have hlt := unadded_mark_lt db st ia hG hna
    cases hr : recur ia (mark st ia) with
    | error e =>
      intro he
      exact hnf ia (mark st ia) (by omega) (by rw [hr, he])
    | ok st' =>
      have := unadded_mono db (mark st ia) st' (hm ia _ st' hr)
      show unadded db st' ≤ n
      omega

theorem findDeps_no_fuel (db : Db) : ∀ n p st, unadded db st < n → findDeps db n p st ≠ .error .fuel := by
  intro n
  induction n with
  | zero => intro p st h; omega
  | succ n ih =>
    intro p st h
    unfold findDeps
    split
    · intro hc; cases hc
    · have := resolveTop_inv (db := db) (hyps_fuel db n (findDeps db n) (findDeps_mono db n) ih)
        p.use (depsOf db p) st (by show unadded db st ≤ n; omega)
        (fun a _ _ x hx => candidates_subset db a x hx)
      intro hc
      rw [hc] at this
      exact this rfl

/-- **resolve_terminates (1)**: with fuel ≥ the number of installed packages the model never
    runs out of fuel — for any database, including arbitrary dependency cycles. -/
theorem resolve_terminates (db : Db) (req : List DAtom) (fuel : Nat)
    (hf : (allPkgs db.installed).length ≤ fuel) :
    resolveUserDeps db fuel req ≠ .error .fuel := by
  unfold resolveUserDeps
  have hI : unadded db St.init ≤ fuel := by
    unfold unadded
    exact Nat.le_trans (List.countP_le_length) hf
  have := resolveTop_inv (db := db)
    (hyps_fuel db fuel (findDeps db fuel) (findDeps_mono db fuel)
      (fun p st h => findDeps_no_fuel db fuel p st h))
    [] (atomsToDeps (List.filter (·.blocker) req ++ List.filter (!·.blocker) req)) St.init hI
    (fun a _ _ x hx => candidates_subset db a x hx)
  intro hc
  rw [hc] at this
  exact this rfl

theorem findDeps_extends_succ (db : Db) : ∀ n, Extends (findDeps db n) (findDeps db (n + 1)) := by
  intro n
  induction n with
  | zero => intro p st h; exact absurd rfl h
  | succ n ih =>
    intro p st h
    have e1 : ∀ m p st, findDeps db (m + 1) p st =
        if (depsOf db p).isNil then .ok st
        else resolveTop db (findDeps db m) p.use (depsOf db p) st := fun _ _ _ => rfl
    rw [e1 (n + 1), e1 n]
    rw [e1 n] at h
    by_cases hnil : (depsOf db p).isNil = true
    · simp only [hnil, if_true]
    · simp only [hnil, Bool.false_eq_true, if_false] at h ⊢
      exact resolveTop_ext ih _ _ _ h

theorem findDeps_extends (db : Db) (n k : Nat) : Extends (findDeps db n) (findDeps db (n + k)) := by
  induction k with
  | zero => intro p st _; rfl
  | succ k ih =>
    intro p st h
    have h1 := ih p st h
    have h2 := findDeps_extends_succ db (n + k) p st (by rw [h1]; exact h)
    rw [← h1]
    exact h2

/-- **resolve_terminates (2)**: beyond the number of installed packages the amount of fuel is
    irrelevant — the model's result is the result of the (fuel-free) Go recursion. -/
theorem resolve_fuel_irrelevant (db : Db) (req : List DAtom) (fuel fuel' : Nat)
    (hf : (allPkgs db.installed).length ≤ fuel) (hf' : (allPkgs db.installed).length ≤ fuel') :
    resolveUserDeps db fuel req = resolveUserDeps db fuel' req := by
  have key : ∀ k, resolveUserDeps db ((allPkgs db.installed).length + k) req =
      resolveUserDeps db (allPkgs db.installed).length req := by
    intro k
    have hn := resolve_terminates db req (allPkgs db.installed).length (Nat.le_refl _)
    unfold resolveUserDeps at hn ⊢
    exact resolveTop_ext (findDeps_extends db _ k) _ _ _ hn
  obtain ⟨k, rfl⟩ := Nat.exists_eq_add_of_le hf
  obtain ⟨k', rfl⟩ := Nat.exists_eq_add_of_le hf'
  rw [key k, key k']

/-- non-vacuity: a two-package dependency cycle a → b → a terminates with both selected -/
def exA : Pkg := { id := 0, name := b!"c/a", slot := b!"0", use := [], bdepend := .nil, depend := .nil,
                   rdepend := .cons (.atom ⟨1, b!"c/b", false⟩) .nil, pdepend := .nil }
def exB : Pkg := { id := 1, name := b!"c/b", slot := b!"0", use := [], bdepend := .nil, depend := .nil,
                   rdepend := .cons (.atom ⟨2, b!"c/a", false⟩) .nil, pdepend := .nil }
def exDb : Db := { installed := installedOf [exA, exB], rel := [[0], [1], [0]], includeBdepend := true }

example : (resolveUserDeps exDb 2 [⟨0, b!"c/a", false⟩]).toOption.map (·.added) = some [1, 0] := by
  decide
example : (allPkgs exDb.installed).length ≤ 2 := by decide

/-! ## soundness: every selected package is reachable from the request -/

/-- reachability through active dependency atoms (the edges of the closure) -/
inductive Reach (db : Db) (req : List DAtom) : Nat → Prop where
  | root (a : DAtom) (x : Pkg) : a ∈ req → a.blocker = false → x ∈ candidates db a → Reach db req x.id
  | step (q : Pkg) (a : DAtom) (x : Pkg) : Reach db req q.id → q ∈ allPkgs db.installed →
      a ∈ activeAtomsL q.use (depsOf db q) → a.blocker = false → x ∈ candidates db a →
      Reach db req x.id

theorem allPkgs_addWith (f : List Pkg → Pkg → List Pkg) (hf : ∀ l e x, x ∈ f l e → x = e ∨ x ∈ l)
    (s : AtomSet) (e : Pkg) : ∀ x ∈ allPkgs (AtomSet.addWith f s e), x = e ∨ x ∈ allPkgs s := by
  induction s with
  | nil =>
    intro x hx
    simp only [AtomSet.addWith, allPkgs, List.flatMap_cons, List.flatMap_nil, List.append_nil] at hx
    rcases hf [] e x hx with h | h
    · exact Or.inl h
    · cases h
  | cons hd tl ih =>
    obtain ⟨n, sl⟩ := hd
    intro x hx
    unfold AtomSet.addWith at hx
    split at hx
    · simp only [allPkgs, List.flatMap_cons, List.mem_append] at hx ⊢
      rcases hx with hx | hx
      · rcases hf sl e x hx with h | h
        · exact Or.inl h
        · exact Or.inr (Or.inl h)
      · exact Or.inr (Or.inr hx)
    · simp only [allPkgs, List.flatMap_cons, List.mem_append] at hx ⊢
      rcases hx with hx | hx
      · exact Or.inr (Or.inl hx)
      · rcases ih x hx with h | h
        · exact Or.inl h
        · exact Or.inr (Or.inr h)

theorem mem_placeAt (l : List Pkg) (e : Pkg) (pos : Option Nat) :
    ∀ x ∈ placeAt l e pos, x = e ∨ x ∈ l := by
  intro x hx
  cases pos with
  | none =>
    simp only [placeAt, List.mem_append, List.mem_singleton] at hx
    exact hx.symm
  | some p =>
    simp only [placeAt, List.mem_append, List.mem_cons] at hx
    rcases hx with hx | hx | hx
    · exact Or.inr (List.mem_of_mem_take hx)
    · exact Or.inl hx
    · exact Or.inr (List.mem_of_mem_drop hx)

theorem mem_addSlice (l : List Pkg) (e : Pkg) : ∀ x ∈ addSlice l e, x = e ∨ x ∈ l := by
  intro x hx
  unfold addSlice at hx
  split at hx
  · exact Or.inr hx
  · exact mem_placeAt l e _ x hx

theorem allPkgs_add (s : AtomSet) (e : Pkg) : ∀ x ∈ allPkgs (s.add e), x = e ∨ x ∈ allPkgs s :=
  allPkgs_addWith addSlice mem_addSlice s e

/-- invariant: every `Added` package is reachable and `Resolution` holds only `Added` ones -/
def SoundSt (db : Db) (req : List DAtom) (st : St) : Prop :=
  (∀ i ∈ st.added, Reach db req i) ∧ (∀ p ∈ allPkgs st.res, p.id ∈ st.added)

def SoundRecur (db : Db) (req : List DAtom) (recur : Pkg → St → R St) : Prop :=
  ∀ q st, q ∈ allPkgs db.installed → Reach db req q.id → SoundSt db req st →
    match recur q st with
    | .ok st' => SoundSt db req st'
    | .error _ => True

theorem hyps_sound (db : Db) (req : List DAtom) (recur : Pkg → St → R St)
    (hr : SoundRecur db req recur) :
    Hyps recur (SoundSt db req) (fun x => x ∈ allPkgs db.installed ∧ Reach db req x.id)
      (fun _ => True) where
  eUnsat := trivial
  eBlocked := trivial
  block := fun _ _ h _ => h
  recur := by
    intro st ia hI hG _ _
    have hI' : SoundSt db req (mark st ia) := by
      constructor
      · intro i hi
        simp only [mark, List.mem_cons] at hi
        rcases hi with rfl | hi
        · exact hG.2
        · exact hI.1 i hi
      · intro p hp
        simp only [mark] at hp ⊢
        rcases allPkgs_add st.res ia p hp with rfl | h
        · exact List.mem_cons_self ..
        · exact List.mem_cons_of_mem _ (hI.2 p h)
    have := hr ia (mark st ia) hG.1 hG.2 hI'
    cases hq : recur ia (mark st ia) with
    | error e => trivial
    | ok st' => rw [hq] at this; exact this

theorem findDeps_sound (db : Db) (req : List DAtom) : ∀ n, SoundRecur db req (findDeps db n) := by
  intro n
  induction n with
  | zero => intro q st _ _ _; simp [findDeps]
  | succ n ih =>
    intro q st hq hreach hI
    have e1 : findDeps db (n + 1) q st =
        if (depsOf db q).isNil then .ok st
        else resolveTop db (findDeps db n) q.use (depsOf db q) st := rfl
    rw [e1]
    by_cases hnil : (depsOf db q).isNil = true
    · simp only [hnil, if_true]; exact hI
    · simp only [hnil, Bool.false_eq_true, if_false]
      have := resolveTop_inv (db := db) (hyps_sound db req (findDeps db n) ih) q.use (depsOf db q) st hI
        (fun a ha hb x hx => ⟨candidates_subset db a x hx, Reach.step q a x hreach hq ha hb hx⟩)
      cases hr : resolveTop db (findDeps db n) q.use (depsOf db q) st with
      | error e => trivial
      | ok st' => rw [hr] at this; exact this

theorem mem_atomsToDeps (l : List DAtom) : ∀ a ∈ activeAtomsL [] (atomsToDeps l), a ∈ l := by
  induction l with
  | nil => intro a ha; simp [atomsToDeps, activeAtomsL] at ha
  | cons b bs ih =>
    intro a ha
    simp only [atomsToDeps, activeAtomsL, activeAtomsD, List.singleton_append, List.mem_cons] at ha
    rcases ha with rfl | ha
    · exact List.mem_cons_self ..
    · exact List.mem_cons_of_mem _ (ih a ha)

theorem mem_sortedAtoms (s : AtomSet) : ∀ p ∈ s.sortedAtoms, p ∈ allPkgs s := by
  intro p hp
  simp only [AtomSet.sortedAtoms, List.mem_flatMap, List.mem_reverse] at hp
  obtain ⟨n, _, hn⟩ := hp
  exact get_subset_allPkgs s n p hn

/-- **resolve_sound**: for every database, request, fuel and enumeration order, every package
    the resolver selects (the `Added` marks, the `Resolution` set and the listing printed by
    `SortedAtoms`) is reachable from a requested non-blocker atom through matches of atoms
    that are active under the USE flags of the package that owns them ("nothing else is
    selected"). -/
theorem resolve_sound (db : Db) (req : List DAtom) (fuel : Nat) (st : St)
    (h : resolveUserDeps db fuel req = .ok st) :
    (∀ i ∈ st.added, Reach db req i) ∧ (∀ p ∈ st.res.sortedAtoms, Reach db req p.id) := by
  unfold resolveUserDeps at h
  have hinv := resolveTop_inv (db := db) (hyps_sound db req (findDeps db fuel) (findDeps_sound db req fuel))
    [] (atomsToDeps (List.filter (·.blocker) req ++ List.filter (!·.blocker) req)) St.init
    ⟨(by intro i hi; simp [St.init] at hi), (by intro p hp; simp [St.init, allPkgs] at hp)⟩
    (fun a ha hb x hx => by
      refine ⟨candidates_subset db a x hx, Reach.root a x ?_ hb hx⟩
      have := mem_atomsToDeps _ a ha
      rcases List.mem_append.mp this with h1 | h1
      · exact (List.mem_filter.mp h1).1
      · exact (List.mem_filter.mp h1).1)
  rw [h] at hinv
  exact ⟨hinv.1, fun p hp => hinv.1 _ (hinv.2 p (mem_sortedAtoms _ p hp))⟩

/-- `stageSet` form of soundness -/
theorem stageSet_sound (db : Db) (req : List DAtom) (l : List Pkg) (h : stageSet db req = .ok l) :
    ∀ p ∈ l, Reach db req p.id := by
  unfold stageSet at h
  split at h
  · cases h
  · rename_i st hst
    cases h
    exact (resolve_sound db req _ st hst).2

/-- non-vacuity: in the cycle example both packages are selected and reachable -/
example : Reach exDb [⟨0, b!"c/a", false⟩] 1 := by
  have h2 : (resolveUserDeps exDb 2 [⟨0, b!"c/a", false⟩]).toOption.map (·.added) = some [1, 0] := by
    decide
  match hr : resolveUserDeps exDb 2 [⟨0, b!"c/a", false⟩] with
  | .error e => rw [hr] at h2; simp [Except.toOption] at h2
  | .ok st =>
    rw [hr] at h2
    have : st.added = [1, 0] := by simpa [Except.toOption] using h2
    exact (resolve_sound exDb _ 2 st hr).1 1 (by rw [this]; simp)

/-! ## AtomSet.Add keeps every slice sorted; the installed set does not depend on the
       enumeration order -/

/-- **atomset_add_sorted**: `AtomSet.Add` (after the fix) keeps a slice strictly descending
    by grouping key, for every slice and every new entry. -/
theorem atomset_add_sorted (l : List Pkg) (e : Pkg) (h : Desc l) : Desc (addSlice l e) := by
  by_cases hd : ∃ x ∈ l, (x.slot == e.slot) = true
  · rw [addSlice_dup l e hd]; exact h
  · have hnd : ∀ x ∈ l, (x.slot == e.slot) = false := by
      intro x hx
      cases hc : (x.slot == e.slot) with
      | false => rfl
      | true => exact absurd ⟨x, hx, hc⟩ hd
    rw [addSlice_eq_insDesc l e hnd]
    exact insDesc_desc e l h hnd

/-- before the fix the clause was false: adding slots 1, 2, 3 in ascending order gave 2 3 1
    (witness kept in corpus/C05/atomset-add-misplaced.jsonl and resolve-order-dependent.jsonl) -/
def slotPkg (i : Nat) (slot : Bytes) : Pkg :=
  { id := i, name := b!"c/p", slot := slot, use := [], bdepend := .nil, depend := .nil,
    rdepend := .nil, pdepend := .nil }

theorem atomset_add_unsorted_before_fix :
    (([slotPkg 0 b!"1", slotPkg 1 b!"2", slotPkg 2 b!"3"].foldl addSliceOld []).map (·.slot)
      = [b!"2", b!"3", b!"1"]) ∧
    (([slotPkg 0 b!"1", slotPkg 1 b!"2", slotPkg 2 b!"3"].foldl addSlice []).map (·.slot)
      = [b!"3", b!"2", b!"1"]) := by decide

theorem foldl_addSlice_desc (l acc : List Pkg) (h : Desc acc) : Desc (l.foldl addSlice acc) := by
  induction l generalizing acc with
  | nil => exact h
  | cons e es ih => exact ih _ (atomset_add_sorted acc e h)

theorem insDesc_perm (e : Pkg) (l : List Pkg) : (insDesc e l).Perm (e :: l) := by
  induction l with
  | nil => exact List.Perm.refl _
  | cons x xs ih =>
    unfold insDesc
    split
    · exact List.Perm.refl _
    · exact (List.Perm.cons x ih).trans (List.Perm.swap e x xs)

theorem foldl_addSlice_perm (l acc : List Pkg)
    (hd : (acc ++ l).Pairwise fun a b => (a.slot == b.slot) = false) :
    (l.foldl addSlice acc).Perm (acc ++ l) := by
  induction l generalizing acc with
  | nil => simp
  | cons e es ih =>
    have hnd : ∀ x ∈ acc, (x.slot == e.slot) = false := by
      intro x hx
      have := List.pairwise_append.mp hd
      exact this.2.2 x hx e (List.mem_cons_self ..)
    have hperm : (addSlice acc e).Perm (acc ++ [e]) := by
      rw [addSlice_eq_insDesc acc e hnd]
      exact (insDesc_perm e acc).trans (List.perm_append_singleton e acc).symm
    have hd' : ((addSlice acc e) ++ es).Pairwise fun a b => (a.slot == b.slot) = false := by
      have h1 : ((acc ++ [e]) ++ es).Pairwise fun a b => (a.slot == b.slot) = false := by
        simpa using hd
      refine (List.Perm.pairwise_iff ?_ (List.Perm.append_right es hperm)).mpr h1
      intro a b hab
      cases hc : (b.slot == a.slot) with
      | false => rfl
      | true =>
        have : b.slot = a.slot := by simpa using hc
        simp [this] at hab
    have := ih (addSlice acc e) hd'
    refine this.trans ?_
    refine (List.Perm.append_right es hperm).trans ?_
    simp

/-- **atomset_order_invariant**: the slice built for one package name does not depend on the
    order in which its entries are added (one installed version per slot) — hence candidate
    order, the exactly-one-of choice and the listing do not depend on directory enumeration. -/
theorem atomset_order_invariant (l₁ l₂ : List Pkg) (hp : l₁.Perm l₂)
    (hd : l₁.Pairwise fun a b => (a.slot == b.slot) = false) :
    l₁.foldl addSlice [] = l₂.foldl addSlice [] := by
  have hsymm : ∀ a b : Pkg, (a.slot == b.slot) = false → (b.slot == a.slot) = false := by
    intro a b hab
    cases hc : (b.slot == a.slot) with
    | false => rfl
    | true =>
      have : b.slot = a.slot := by simpa using hc
      simp [this] at hab
  have hd2 : l₂.Pairwise fun a b => (a.slot == b.slot) = false :=
    (List.Perm.pairwise_iff (fun {a b} => hsymm a b) hp).mp hd
  have p1 := foldl_addSlice_perm l₁ [] (by simpa using hd)
  have p2 := foldl_addSlice_perm l₂ [] (by simpa using hd2)
  have hperm : (l₁.foldl addSlice []).Perm (l₂.foldl addSlice []) := by
    simp only [List.nil_append] at p1 p2
    exact p1.trans (hp.trans p2.symm)
  have d1 : (l₁.foldl addSlice []).Pairwise (fun (a b : Pkg) => bytesLt b.slot a.slot = true) :=
    foldl_addSlice_desc l₁ [] List.Pairwise.nil
  have d2 : (l₂.foldl addSlice []).Pairwise (fun (a b : Pkg) => bytesLt b.slot a.slot = true) :=
    foldl_addSlice_desc l₂ [] List.Pairwise.nil
  refine List.Perm.eq_of_pairwise (le := fun (a b : Pkg) => bytesLt b.slot a.slot = true) ?_ d1 d2 hperm
  intro a b _ _ h1 h2
  have := AtomSetAux.bytesLt_trans _ _ _ h1 h2
  rw [AtomSetAux.bytesLt_irrefl] at this
  cases this

/-- non-vacuity: three slots, two different insertion orders, same slice -/
example : ([slotPkg 0 b!"1", slotPkg 1 b!"2", slotPkg 2 b!"3"].foldl addSlice []).map (·.id) =
    ([slotPkg 2 b!"3", slotPkg 0 b!"1", slotPkg 1 b!"2"].foldl addSlice []).map (·.id) := by decide

/-! ## -nobdeps -/

theorem activeAtomsL_append (use : List Flag) : ∀ (a b : DepList),
    activeAtomsL use (a.append b) = activeAtomsL use a ++ activeAtomsL use b
  | .nil, b => by simp [DepList.append, activeAtomsL]
  | .cons d ds, b => by
    simp [DepList.append, activeAtomsL, activeAtomsL_append use ds b, List.append_assoc]

/-- **nobdeps_spec**: under `-nobdeps` the dependency edges the resolver follows from a
    package are exactly the active atoms of its RDEPEND and PDEPEND; otherwise those of all
    four classes.  (With `resolve_sound`: under `-nobdeps` every selected package is
    reachable through RDEPEND/PDEPEND edges alone.) -/
theorem nobdeps_spec (db : Db) (q : Pkg) (a : DAtom) :
    a ∈ activeAtomsL q.use (depsOf db q) ↔
      if db.includeBdepend then
        a ∈ activeAtomsL q.use q.bdepend ∨ a ∈ activeAtomsL q.use q.depend ∨
        a ∈ activeAtomsL q.use q.rdepend ∨ a ∈ activeAtomsL q.use q.pdepend
      else a ∈ activeAtomsL q.use q.rdepend ∨ a ∈ activeAtomsL q.use q.pdepend := by
  unfold depsOf
  cases db.includeBdepend <;> simp [activeAtomsL_append]

/-- non-vacuity: a package whose only dependency is a BDEPEND pulls it in without -nobdeps
    and not with it -/
def exC : Pkg := { id := 0, name := b!"c/a", slot := b!"0", use := [], depend := .nil, rdepend := .nil,
                   bdepend := .cons (.atom ⟨1, b!"c/b", false⟩) .nil, pdepend := .nil }
def exD : Pkg := { id := 1, name := b!"c/b", slot := b!"0", use := [], bdepend := .nil, depend := .nil,
                   rdepend := .nil, pdepend := .nil }
example : (resolveUserDeps ⟨installedOf [exC, exD], [[0], [1]], true⟩ 2 [⟨0, b!"c/a", false⟩]).toOption.map
    (·.added) = some [1, 0] := by decide
example : (resolveUserDeps ⟨installedOf [exC, exD], [[0], [1]], false⟩ 2 [⟨0, b!"c/a", false⟩]).toOption.map
    (·.added) = some [0] := by decide

/-! ## failure on an unsatisfied requested atom -/

theorem kids_unsat (db : Db) (recur : Pkg → St → R St) (l : List DAtom) (a : DAtom) (ha : a ∈ l)
    (hb : a.blocker = false) (hc : candidates db a = []) (st : St) (rs : List Pkg) :
    ∀ v, resolveKids db recur [] false (atomsToDeps l) st rs ≠ .ok v := by
  induction l generalizing st rs with
  | nil => cases ha
  | cons b bs ih =>
    intro v
    unfold atomsToDeps resolveKids
    cases hr : resolveDep db recur [] false (.atom b) st rs with
    | error e => simp
    | ok w =>
      obtain ⟨st1, rs1⟩ := w
      simp only
      rcases List.mem_cons.mp ha with rfl | ha'
      · unfold resolveDep resolveAtom at hr
        simp [hb, hc] at hr
      · exact ih ha' st1 rs1 v

/-- **resolve_fails_unsat** (requested atoms): if a requested non-blocker atom matches no
    installed package the run fails — it never succeeds with the atom silently omitted. -/
theorem resolve_fails_unsat (db : Db) (req : List DAtom) (fuel : Nat) (a : DAtom) (ha : a ∈ req)
    (hb : a.blocker = false) (hc : candidates db a = []) :
    ∀ st, resolveUserDeps db fuel req ≠ .ok st := by
  intro st h
  unfold resolveUserDeps resolveTop at h
  simp only at h
  have hmem : a ∈ List.filter (·.blocker) req ++ List.filter (!·.blocker) req :=
    List.mem_append_right _ (List.mem_filter.mpr ⟨ha, by simp [hb]⟩)
  cases hr : resolveKids db (findDeps db fuel) [] false
      (atomsToDeps (List.filter (·.blocker) req ++ List.filter (!·.blocker) req)) St.init [] with
  | error e => rw [hr] at h; cases h
  | ok v => exact kids_unsat db _ _ a hmem hb hc St.init [] v hr

/-- non-vacuity: requesting a package that is not installed fails with `unsat` -/
example : (resolveUserDeps exDb 2 [⟨3, b!"c/zz", false⟩]).toOption.map (·.added) = none := by decide

/-! ## blockers -/

/-- `recur` never removes a `Blocked` mark -/
def MonoBl (recur : Pkg → St → R St) : Prop :=
  ∀ p st st', recur p st = .ok st' → ∀ i ∈ st.blocked, i ∈ st'.blocked

theorem hyps_monoBl {recur : Pkg → St → R St} (hm : MonoBl recur) (B : List Nat) :
    Hyps recur (fun st => ∀ i ∈ B, i ∈ st.blocked) (fun _ => True) (fun _ => True) where
  eUnsat := trivial
  eBlocked := trivial
  block := fun _ _ h _ i hi => List.mem_cons_of_mem _ (h i hi)
  recur := by
    intro st ia hI _ _ _
    cases hr : recur ia (mark st ia) with
    | error e => trivial
    | ok st' => exact fun i hi => hm ia _ st' hr i (by unfold mark; exact hI i hi)

theorem findDeps_monoBl (db : Db) : ∀ n, MonoBl (findDeps db n) := by
  intro n
  induction n with
  | zero => intro p st st' h; simp [findDeps] at h
  | succ n ih =>
    intro p st st' h
    have e1 : findDeps db (n + 1) p st =
        if (depsOf db p).isNil then .ok st
        else resolveTop db (findDeps db n) p.use (depsOf db p) st := rfl
    rw [e1] at h
    by_cases hnil : (depsOf db p).isNil = true
    · simp only [hnil, if_true] at h; cases h; exact fun i hi => hi
    · simp only [hnil, Bool.false_eq_true, if_false] at h
      have := resolveTop_inv (db := db) (hyps_monoBl ih st.blocked) p.use (depsOf db p) st
        (fun i hi => hi) (fun _ _ _ _ _ => trivial)
      rw [h] at this
      exact this

/-- invariant: no package is both `Added` and `Blocked` -/
def Disjoint (st : St) : Prop := ∀ i ∈ st.added, ¬ i ∈ st.blocked

def DisjRecur (recur : Pkg → St → R St) : Prop :=
  ∀ p st, Disjoint st → match recur p st with
    | .ok st' => Disjoint st'
    | .error _ => True

theorem hyps_disjoint {recur : Pkg → St → R St} (hr : DisjRecur recur) :
    Hyps recur Disjoint (fun _ => True) (fun _ => True) where
  eUnsat := trivial
  eBlocked := trivial
  block := by
    intro st c h hc i hi hb
    simp only [List.mem_cons] at hb
    rcases hb with rfl | hb
    · have : ¬ i ∈ st.added := by simpa using hc
      exact this hi
    · exact h i hi hb
  recur := by
    intro st ia hI _ _ hbl
    have hI' : Disjoint (mark st ia) := by
      intro i hi hb
      simp only [mark, List.mem_cons] at hi hb
      rcases hi with rfl | hi
      · have : ¬ ia.id ∈ st.blocked := by simpa using hbl
        exact this hb
      · exact hI i hi hb
    have := hr ia (mark st ia) hI'
    cases hq : recur ia (mark st ia) with
    | error e => trivial
    | ok st' => rw [hq] at this; exact this

theorem findDeps_disjoint (db : Db) : ∀ n, DisjRecur (findDeps db n) := by
  intro n
  induction n with
  | zero => intro p st _; simp [findDeps]
  | succ n ih =>
    intro p st hI
    have e1 : findDeps db (n + 1) p st =
        if (depsOf db p).isNil then .ok st
        else resolveTop db (findDeps db n) p.use (depsOf db p) st := rfl
    rw [e1]
    by_cases hnil : (depsOf db p).isNil = true
    · simp only [hnil, if_true]; exact hI
    · simp only [hnil, Bool.false_eq_true, if_false]
      have := resolveTop_inv (db := db) (hyps_disjoint ih) p.use (depsOf db p) st hI
        (fun _ _ _ _ _ => trivial)
      cases hr : resolveTop db (findDeps db n) p.use (depsOf db p) st with
      | error e => trivial
      | ok st' => rw [hr] at this; exact this

/-- **resolve_marks_disjoint**: on success no selected package carries a `Blocked` mark. -/
theorem resolve_marks_disjoint (db : Db) (req : List DAtom) (fuel : Nat) (st : St)
    (h : resolveUserDeps db fuel req = .ok st) : Disjoint st := by
  unfold resolveUserDeps at h
  have := resolveTop_inv (db := db) (hyps_disjoint (findDeps_disjoint db fuel)) []
    (atomsToDeps (List.filter (·.blocker) req ++ List.filter (!·.blocker) req)) St.init
    (by intro i hi; simp [St.init] at hi) (fun _ _ _ _ _ => trivial)
  rw [h] at this
  exact this

theorem blockLoop_post (cands : List Pkg) (st st' : St) (h : blockLoop cands st = .ok st') :
    (∀ x ∈ cands, x.id ∈ st'.blocked) ∧ (∀ i ∈ st.blocked, i ∈ st'.blocked) := by
  induction cands generalizing st with
  | nil => simp only [blockLoop] at h; cases h; exact ⟨fun _ hx => (by cases hx), fun i hi => hi⟩
  | cons c rest ih =>
    unfold blockLoop at h
    split at h
    · cases h
    · have := ih _ h
      refine ⟨?_, fun i hi => this.2 i (List.mem_cons_of_mem _ hi)⟩
      intro x hx
      rcases List.mem_cons.mp hx with rfl | hx'
      · exact this.2 _ (List.mem_cons_self ..)
      · exact this.1 x hx'

theorem kids_req_blocked (db : Db) (recur : Pkg → St → R St) (l : List DAtom) (st st' : St)
    (rs rs' : List Pkg)
    (h : resolveKids db recur [] false (atomsToDeps l) st rs = .ok (st', rs')) :
    (∀ a ∈ l, a.blocker = true → ∀ x ∈ candidates db a, x.id ∈ st'.blocked) ∧
    (∀ i ∈ st.blocked, i ∈ st'.blocked) := by
  induction l generalizing st rs with
  | nil =>
    simp only [atomsToDeps, resolveKids] at h
    cases h
    exact ⟨fun _ ha => (by cases ha), fun i hi => hi⟩
  | cons b bs ih =>
    unfold atomsToDeps resolveKids at h
    cases hr : resolveDep db recur [] false (.atom b) st rs with
    | error e => rw [hr] at h; cases h
    | ok w =>
      obtain ⟨st1, rs1⟩ := w
      rw [hr] at h
      simp only at h
      have hrest := ih st1 rs1 h
      unfold resolveDep resolveAtom at hr
      by_cases hb : b.blocker = true
      · simp only [hb, if_true] at hr
        cases hbl : blockLoop (candidates db b) st with
        | error e => rw [hbl] at hr; cases hr
        | ok st2 =>
          rw [hbl] at hr
          simp only [Except.ok.injEq, Prod.mk.injEq] at hr
          obtain ⟨rfl, rfl⟩ := hr
          have hp := blockLoop_post _ _ _ hbl
          refine ⟨?_, fun i hi => hrest.2 i (hp.2 i hi)⟩
          intro a ha hab x hx
          rcases List.mem_cons.mp ha with rfl | ha'
          · exact hrest.2 _ (hp.1 x hx)
          · exact hrest.1 a ha' hab x hx
      · have hb' : b.blocker = false := by simpa using hb
        simp only [hb', Bool.false_eq_true, if_false] at hr
        have hst : st1 = st := by
          split at hr
          · split at hr
            · cases hr
            · cases hr; rfl
          · cases hr; rfl
        subst hst
        refine ⟨?_, hrest.2⟩
        intro a ha hab x hx
        rcases List.mem_cons.mp ha with rfl | ha'
        · rw [hb'] at hab; cases hab
        · exact hrest.1 a ha' hab x hx

/-- **resolve_fails_blocked_partial** (requested blockers; blockers inside the dependencies of
    selected packages are judged by the oracle only): on success no selected package is
    matched by a requested blocker — otherwise the run fails, it never omits silently. -/
theorem resolve_fails_blocked_partial (db : Db) (req : List DAtom) (fuel : Nat) (st : St)
    (h : resolveUserDeps db fuel req = .ok st) :
    ∀ a ∈ req, a.blocker = true → ∀ x ∈ candidates db a, ¬ x.id ∈ st.added := by
  intro a ha hb x hx hadd
  have hdisj := resolve_marks_disjoint db req fuel st h
  unfold resolveUserDeps resolveTop at h
  simp only at h
  cases hr : resolveKids db (findDeps db fuel) [] false
      (atomsToDeps (List.filter (·.blocker) req ++ List.filter (!·.blocker) req)) St.init [] with
  | error e => rw [hr] at h; cases h
  | ok v =>
    obtain ⟨st1, rs1⟩ := v
    rw [hr] at h
    simp only at h
    have hk := kids_req_blocked db _ _ _ _ _ _ hr
    have hmem : a ∈ List.filter (·.blocker) req ++ List.filter (!·.blocker) req :=
      List.mem_append_left _ (List.mem_filter.mpr ⟨ha, hb⟩)
    have hx1 : x.id ∈ st1.blocked := hk.1 a hmem hb x hx
    have hpost := postLoop_inv (hyps_monoBl (findDeps_monoBl db fuel) st1.blocked) false rs1 st1
      (fun i hi => hi) (fun _ _ => trivial)
    rw [h] at hpost
    exact hdisj _ hadd (hpost _ hx1)

/-- non-vacuity: requesting `c/a` together with the blocker `!c/b` fails in the cycle example
    (`c/a` depends on `c/b`), and succeeds without the blocker -/
example : (resolveUserDeps { exDb with rel := [[0], [1], [0], [1]] } 2
    [⟨0, b!"c/a", false⟩, ⟨3, b!"c/b", true⟩]).toOption.map (·.added) = none := by decide

/-! ## where the unchanged code violates a clause: negation witnesses (kept in
       corpus/C05/choice-group-findings.jsonl) -/

/-- `c/main` (id 1) with RDEPEND `|| ( ( c/bar c/missing ) c/absent )`, only `c/bar` (id 0)
    installed -/
def wBar : Pkg := { id := 0, name := b!"c/bar", slot := b!"0", use := [], bdepend := .nil, depend := .nil,
                    rdepend := .nil, pdepend := .nil }
def wMain : Pkg := { id := 1, name := b!"c/main", slot := b!"0", use := [], bdepend := .nil, depend := .nil,
                     rdepend := .cons (.group .anyOf (.cons (.group .all
                        (.cons (.atom ⟨1, b!"c/bar", false⟩) (.cons (.atom ⟨2, b!"c/missing", false⟩) .nil)))
                        (.cons (.atom ⟨3, b!"c/absent", false⟩) .nil))) .nil,
                     pdepend := .nil }
def wRel : List (List Nat) := [[1], [0], [], []]
def wReq : List DAtom := [⟨0, b!"c/main", false⟩]

/-- finding `anyof-partial-group-accepted`: the resolver succeeds and selects {bar, main}
    although no alternative of the any-of group is satisfied — the specification has no
    valid closure containing `c/main` (the clause "fails instead of silently omitting" is
    violated for atoms inside an all-of group inside an any-of group). -/
theorem anyof_partial_group_accepted_witness :
    (resolveUserDeps ⟨installedOf [wBar, wMain], wRel, true⟩ 2 wReq).toOption.map (·.added) = some [0, 1] ∧
    valid ⟨[wBar, wMain], wRel, true, wReq⟩ [0, 1] = false ∧
    valid ⟨[wBar, wMain], wRel, true, wReq⟩ [1] = false ∧
    unsatJustified ⟨[wBar, wMain], wRel, true, wReq⟩ = true := by decide

end Lc.Props.C05
