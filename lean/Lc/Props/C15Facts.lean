/-
  C15 (a) — call-site facts regenerated from /repo's source on every run
  (tools/extract → Lc/Generated/Guards.lean).  If the source changes so that a fact no
  longer holds, these `decide` proofs fail and the check goes looking for a failing input.
-/
import Lc.Generated.Guards

namespace Lc.Props.C15Facts
open Lc.Generated

/-- every call of a mutating primitive inside package fs is dominated by the pretender -/
theorem all_fs_mutators_guarded : fsMutatorSites.all (·.guarded) = true := by decide

/-- no other layercake package calls a mutating primitive directly -/
theorem no_mutator_outside_fs : outsideMutatorSites = [] := by decide

/-- every command function parses the global switches (getArgs installs the pretender)
    before it loads the layers or calls package manage -/
theorem every_command_installs_pretender : commandFns.all (·.getArgsFirst) = true := by decide

/-- every entry of main's dispatch table is one of those command functions -/
theorem dispatch_targets_are_commands :
    dispatchTable.all (fun d => commandFns.any (·.name == d.2)) = true := by decide

/-- the facts are not vacuous: the extractor found the mutators and the commands -/
theorem facts_nonempty : fsMutatorSites.length ≥ 8 ∧ commandFns.length ≥ 13 ∧ dispatchTable.length ≥ 14 := by
  decide

end Lc.Props.C15Facts
