/-
  C16 — export links always point at live layers and never clobber foreign entries
  (over the hand-written command model, Lc/Model/Layers.lean).

  All statements are about ANY world (any file-system tree, mount table, fault / crash
  setting, and — unless `pretend = false` is listed — any pretend setting).

  1. `removeLayerExportLinks` (called by rename / remove before anything else):
     `other_layers_untouched`      on every exit the only entries that changed are entries
                                   at/under an automatic export path of THIS layer which was
                                   a symbolic link before; those are gone, nothing is replaced
     `non_symlink_never_removed`   an entry at an automatic export path that is not a link
                                   is still there, unchanged, on every exit
     `non_symlink_refused`         … and the function does not return normally
     `first_non_symlink_refused_exact`  (first path) error "notsymlink", world untouched
  2. `makeSymlinkInDirectory`:
     `links_never_clobber`         every entry that existed before exists unchanged after,
                                   on every exit (nothing is ever replaced or removed)
     `existing_link_kept`          an existing link at the target: nothing happens at all
     `foreign_entry_refused`, `foreign_entry_refused_exact`   a non-link at the target:
                                   never a normal return; without injected faults the error
                                   is os:EEXIST (or the MkdirAll error before it)
  3. `no_old_name_after_remove`, `no_old_name_after_rename`: after a normal non-pretend
     return no entry exists at the automatic export paths of the old name.  Hypotheses
     (explicit, about the path layout only): the export paths are not at/under the
     `~removed` path / the new layer path / any layerconfig (+ ".new") of a layer; the
     layer path is not "/".  `no_old_name_after_remove_placed`,
     `no_old_name_after_rename_placed`: the same with ALL layout hypotheses derived from the
     decidable condition `ExportsApart cfg` on the configuration (Lemmas/ExportsApart) and
     `Placed` (layers lie in `<layerdirs>/<legal name>`, established by `readLayerFiles`).
  4. `links_after_mount_partial`: after a normal non-pretend return of
     `makeExportSymlinks`, each automatic export entry whose source directory existed is a
     symbolic link; it points at that directory when nothing was there before and no
     other (explicit) directive names the same link.  Partial: the "exactly when"
     direction (no link without source) and wrong-target pre-existing links are the
     known finding `export-entry-foreign-or-stale`.
  5. `links_after_mount_chain`: the same composed through the whole `mountCmd`: mount phase
     (name test, base chain, makedirs and mountOne of every chain layer) then the link pass
     over the chain (fix d8f34a4).  After a normal non-pretend return, for EVERY layer of the
     chain root→…→name every automatic export entry whose source exists when the link pass
     begins — in particular if it existed before the command (`links_after_mount_chain_initial`)
     — is a symbolic link.  No hypothesis about the layout is needed.
     `links_after_mount_chain_target_partial`: it points at the layer's directory if the link
     path was free when the pass began and no directive of a chain layer names it with another
     source (that hypothesis is about the configuration; the code does not establish it).
-/
import Lc.Lemmas.ExportLinks
import Lc.Lemmas.ExportPath
import Lc.Lemmas.MountLinks
import Lc.Lemmas.ExportsApart

set_option mvcgen.warning false

namespace Lc.Props.C16
open Lc Lc.Layers Lc.Hoare Lc.ExportFs Lc.ExportLinks Lc.MountLinks Lc.MountTrace

/-! ### a concrete instance for the non-vacuity examples -/

def cfgX : Config :=
  { basepath := b!"/lc", layerdirs := b!"/lc/layers", buildRoot := b!"build", binPkg := b!"packages",
    generated := b!"generated", workdir := b!"work", upperdir := b!"upper", exportdirs := b!"/lc/export",
    exportBinPkg := b!"packages", exportGenerated := b!"generated" }

def lX : Layer := { name := b!"base", layerPath := b!"/lc/layers/base", state := S_complete }

def pkgLink : Bytes := b!"/lc/export/packages/base"
def genLink : Bytes := b!"/lc/export/generated/base"

/-- a foreign regular file sits where the packages link would go; the generated link is in place -/
def wForeign : World :=
  { fs := [(b!"/", .dir), (b!"/lc", .dir), (b!"/lc/export", .dir), (b!"/lc/export/packages", .dir),
           (pkgLink, .file b!"mine"), (b!"/lc/export/generated", .dir),
           (genLink, .symlink b!"/lc/layers/base/generated")] }

/-- both links in place, the layer directory with its two source directories -/
def wLinked : World :=
  { fs := [(b!"/", .dir), (b!"/lc", .dir), (b!"/lc/export", .dir), (b!"/lc/export/packages", .dir),
           (pkgLink, .symlink b!"/lc/layers/base/packages"), (b!"/lc/export/generated", .dir),
           (genLink, .symlink b!"/lc/layers/base/generated"),
           (b!"/lc/layers", .dir), (b!"/lc/layers/base", .dir), (b!"/lc/layers/base/layerconfig", .file []),
           (b!"/lc/layers/base/packages", .dir), (b!"/lc/layers/base/generated", .dir)] }

/-- no export tree yet, the layer directory with its two source directories -/
def wFresh : World :=
  { fs := [(b!"/", .dir), (b!"/lc", .dir), (b!"/lc/layers", .dir), (b!"/lc/layers/base", .dir),
           (b!"/lc/layers/base/layerconfig", .file []),
           (b!"/lc/layers/base/packages", .dir), (b!"/lc/layers/base/generated", .dir)] }

def dX : Defs := { layers := [lX], order := [b!"base"] }

theorem autoX : autoExportPaths cfgX lX =
    [(pkgLink, b!"/lc/layers/base/packages"), (genLink, b!"/lc/layers/base/generated")] := by decide

theorem autoMountsX : autoMounts cfgX lX = [pkgLink, genLink] := by decide

theorem sepX : ∀ m ∈ autoMounts cfgX lX, Apart (autoMounts cfgX lX) m := by
  rw [autoMountsX]; unfold Apart; decide

/-! ### 1. `removeLayerExportLinks` -/

/-- On EVERY exit (normal, "notsymlink", injected fault, crash), for every path `p`: the
    entry at `p` is exactly what it was, or it is gone and `p` lies at/under an automatic
    export path of this layer that was a symbolic link.  Entries of other layers, foreign
    files and directories, and anything outside the export tree are therefore untouched,
    and nothing is ever replaced. -/
theorem other_layers_untouched (cfg : Config) (l : Layer) (w0 : World) (p : Bytes) :
    let w := ((removeLayerExportLinks cfg l).run.run w0).2
    Fs.get w.fs p = Fs.get w0.fs p ∨
      (Fs.get w.fs p = none ∧
        ∃ m ∈ autoMounts cfg l, Fs.under m p = true ∧ Fs.isSymlink w0.fs m = true) := by
  have h := extract2 _ _ _ _ (removeLayerExportLinks_spec cfg l w0.fs w0.pretend) w0
    ⟨rfl, RemovedOnly.refl _ _⟩
  exact onAll (R := fun w => RemovedOnly (autoMounts cfg l) w0.fs w.fs) h
    (fun _ _ hq => hq.2.1) (fun _ _ he => he.2) p

/-- a path that is not at/under one of the two automatic export paths keeps its entry -/
theorem outside_untouched (cfg : Config) (l : Layer) (w0 : World) (p : Bytes)
    (hp : ∀ m ∈ autoMounts cfg l, Fs.under m p = false) :
    Fs.get ((removeLayerExportLinks cfg l).run.run w0).2.fs p = Fs.get w0.fs p := by
  rcases other_layers_untouched cfg l w0 p with h | ⟨_, m, hm, hu, _⟩
  · exact h
  · rw [hp m hm] at hu; cases hu

/-- the export entries of a layer with another (clean, single-component) name are
    untouched: distinct names give distinct, non-nested paths (Lemmas/ExportPath) -/
theorem other_names_untouched (cfg : Config) (l : Layer) (w0 : World) (n' : Bytes)
    (hn : ExportPath.CleanName l.name) (hn' : ExportPath.CleanName n') (hne : n' ≠ l.name)
    (sub : Bytes) (hsub : sub = cfg.exportBinPkg ∨ sub = cfg.exportGenerated)
    (hdir : cfg.exportBinPkg = cfg.exportGenerated ∨
      (ExportPath.CleanName cfg.exportBinPkg ∧ ExportPath.CleanName cfg.exportGenerated)) :
    Fs.get ((removeLayerExportLinks cfg l).run.run w0).2.fs (pathJoin [cfg.exportdirs, sub, n']) =
      Fs.get w0.fs (pathJoin [cfg.exportdirs, sub, n']) := by
  apply outside_untouched
  intro m hm
  simp only [autoMounts, autoExportPaths, List.map_cons, List.map_nil, List.mem_cons,
    List.not_mem_nil, or_false] at hm
  rcases hm with rfl | rfl <;> rcases hsub with rfl | rfl
  · exact ExportPath.not_under_of_ne_name _ _ _ _ hn hn' hne
  · rcases hdir with he | ⟨h1, h2⟩
    · rw [he]; exact ExportPath.not_under_of_ne_name _ _ _ _ hn hn' hne
    · by_cases he : cfg.exportBinPkg = cfg.exportGenerated
      · rw [he]; exact ExportPath.not_under_of_ne_name _ _ _ _ hn hn' hne
      · exact ExportPath.not_under_of_ne_dir _ _ _ _ _ h1 h2 hn hn' he
  · rcases hdir with he | ⟨h1, h2⟩
    · rw [he]; exact ExportPath.not_under_of_ne_name _ _ _ _ hn hn' hne
    · by_cases he : cfg.exportGenerated = cfg.exportBinPkg
      · rw [he]; exact ExportPath.not_under_of_ne_name _ _ _ _ hn hn' hne
      · exact ExportPath.not_under_of_ne_dir _ _ _ _ _ h2 h1 hn hn' he
  · exact ExportPath.not_under_of_ne_name _ _ _ _ hn hn' hne

-- non-vacuity: layer names "base" / "other" under the two export sub-directories
example : ExportPath.CleanName lX.name ∧ ExportPath.CleanName b!"other" ∧ b!"other" ≠ lX.name ∧
    ExportPath.CleanName cfgX.exportBinPkg ∧ ExportPath.CleanName cfgX.exportGenerated := by
  unfold ExportPath.CleanName Lemmas.Path.Good
  decide

/-- An entry at an automatic export path that is NOT a symbolic link is never removed or
    replaced, whatever the exit.  Hypothesis `Apart`: the other automatic path of the same
    layer is not a proper ancestor of this one (in the model a link may have entries
    "under" it; on a real file system it cannot). -/
theorem non_symlink_never_removed (cfg : Config) (l : Layer) (w0 : World) (m : Bytes) (n : Fs.Node)
    (hm : m ∈ autoMounts cfg l) (hsep : Apart (autoMounts cfg l) m)
    (hn : Fs.get w0.fs m = some n) (hns : Fs.isSymlink w0.fs m = false) :
    Fs.get ((removeLayerExportLinks cfg l).run.run w0).2.fs m = some n := by
  rcases other_layers_untouched cfg l w0 m with h | ⟨_, m', hm', hu, hsym⟩
  · rw [h, hn]
  · by_cases hmm : m' = m
    · subst hmm; rw [hns] at hsym; cases hsym
    · rw [hsep m' hm' hmm] at hu; cases hu

/-- … and the function refuses: it never returns normally (so rename / remove stop
    before touching the layer directory). -/
theorem non_symlink_refused (cfg : Config) (l : Layer) (w0 : World) (m : Bytes)
    (hm : m ∈ autoMounts cfg l) (hsep : Apart (autoMounts cfg l) m)
    (he : Fs.lexists w0.fs m = true) (hns : Fs.isSymlink w0.fs m = false) :
    ∀ u, ((removeLayerExportLinks cfg l).run.run w0).1 ≠ .ok u := by
  intro u hu
  have h := extract2 _ _ _ _ (removeLayerExportLinks_spec cfg l w0.fs w0.pretend) w0
    ⟨rfl, RemovedOnly.refl _ _⟩
  have h2 := (onOk h u hu).2.2.2 m hm hsep he
  rw [hns] at h2; cases h2

/-- first automatic path (packages): the error is exactly "notsymlink" and the world —
    tree, mount table, operation counter, trace — is untouched -/
theorem first_non_symlink_refused_exact (cfg : Config) (l : Layer) (w0 : World)
    (he : Fs.lexists w0.fs (pathJoin [cfg.exportdirs, cfg.exportBinPkg, l.name]) = true)
    (hns : Fs.isSymlink w0.fs (pathJoin [cfg.exportdirs, cfg.exportBinPkg, l.name]) = false) :
    (removeLayerExportLinks cfg l).run.run w0 = (.error (.err "notsymlink"), w0) := by
  have h := extract2 _ _ _ _ (removeLayerExportLinks_first_refused cfg l w0 he hns) w0 rfl
  obtain ⟨e, h1, h2, h3⟩ := neverOk h
  generalize (removeLayerExportLinks cfg l).run.run w0 = r at h1 h2 h3
  obtain ⟨x, w'⟩ := r
  simp only at h1 h3
  rw [h1, h2, h3]

-- non-vacuity: a foreign file at the packages link
example : pkgLink ∈ autoMounts cfgX lX ∧ Apart (autoMounts cfgX lX) pkgLink ∧
    Fs.get wForeign.fs pkgLink = some (.file b!"mine") ∧ Fs.isSymlink wForeign.fs pkgLink = false ∧
    Fs.lexists wForeign.fs pkgLink = true :=
  ⟨by rw [autoMountsX]; decide, sepX _ (by rw [autoMountsX]; decide), by decide, by decide, by decide⟩

example : (removeLayerExportLinks cfgX lX).run.run wForeign = (.error (.err "notsymlink"), wForeign) :=
  first_non_symlink_refused_exact cfgX lX wForeign (by decide) (by decide)

-- the disjunction of `other_layers_untouched` is not always its left half: links do go
example : Fs.isSymlink wLinked.fs pkgLink = true ∧
    Fs.get ((removeLayerExportLinks cfgX lX).run.run wLinked).2.fs pkgLink = none := by
  have h := extract2 _ _ _ _ (removeLayerExportLinks_spec cfgX lX wLinked.fs false) wLinked
    ⟨rfl, RemovedOnly.refl _ _⟩
  have hok : ((removeLayerExportLinks cfgX lX).run.run wLinked).1 = .ok () := isOk_unit _ (by decide)
  exact ⟨by decide, (onOk h () hok).2.2.1 rfl pkgLink (by rw [autoMountsX]; decide)⟩

/-! ### 2. `makeSymlinkInDirectory` -/

/-- On EVERY exit every entry that existed before still exists, unchanged: the function
    never removes or replaces anything (it can only add directories and the one link). -/
theorem links_never_clobber (source target : Bytes) (w0 : World) (q : Bytes) (n : Fs.Node)
    (hq : Fs.get w0.fs q = some n) :
    Fs.get ((makeSymlinkInDirectory source target).run.run w0).2.fs q = some n := by
  have h := extract2 _ _ _ _
    (makeSymlinkInDirectory_spec [(target, source)] w0.fs w0.pretend [] source target) w0
    ⟨rfl, Added.refl _ _, by simp, by simp⟩
  exact onAll (R := fun w => Fs.get w.fs q = some n) h
    (fun _ _ hh => hh.2.1.keeps q n hq) (fun _ _ hh => hh.2.1.keeps q n hq)

/-- the only new entries are directories and the link `target → source` -/
theorem links_only_add (source target : Bytes) (w0 : World) (q : Bytes) :
    let w := ((makeSymlinkInDirectory source target).run.run w0).2
    Fs.get w.fs q = Fs.get w0.fs q ∨
      (Fs.get w0.fs q = none ∧
        (Fs.get w.fs q = some .dir ∨ (q = target ∧ Fs.get w.fs q = some (.symlink source)))) := by
  have h := extract2 _ _ _ _
    (makeSymlinkInDirectory_spec [(target, source)] w0.fs w0.pretend [] source target) w0
    ⟨rfl, Added.refl _ _, by simp, by simp⟩
  have ha := onAll (R := fun w => Added [(target, source)] w0.fs w.fs) h
    (fun _ _ hh => hh.2.1) (fun _ _ hh => hh.2.1)
  rcases ha q with h1 | ⟨h1, h2 | ⟨e, he, h3, h4⟩⟩
  · exact Or.inl h1
  · exact Or.inr ⟨h1, Or.inl h2⟩
  · have : e = (target, source) := by simpa using he
    subst this
    exact Or.inr ⟨h1, Or.inr ⟨h3.symm, h4⟩⟩

/-- an existing symbolic link at the target (right or wrong destination): nothing happens
    at all — no operation, no fault point, same world -/
theorem existing_link_kept (source target : Bytes) (w0 : World)
    (h : Fs.isSymlink w0.fs target = true) :
    (makeSymlinkInDirectory source target).run.run w0 = (.ok (), w0) := by
  have h := extract2 _ _ _ _ (makeSymlink_existing_link source target w0 h) w0 rfl
  generalize (makeSymlinkInDirectory source target).run.run w0 = r at h
  obtain ⟨x, w'⟩ := r
  unfold Outcome at h
  cases x with
  | ok u => simp only at h; rw [h]
  | error e => exact h.elim

/-- a non-link at the target: never a normal return when not pretending (os.Symlink
    fails with EEXIST, or something fails before it) -/
theorem foreign_entry_refused (source target : Bytes) (w0 : World) (hp : w0.pretend = false)
    (he : Fs.lexists w0.fs target = true) (hns : Fs.isSymlink w0.fs target = false) :
    ∀ u, ((makeSymlinkInDirectory source target).run.run w0).1 ≠ .ok u := by
  intro u hu
  have h := extract2 _ _ _ _
    (makeSymlinkInDirectory_spec [(target, source)] w0.fs w0.pretend [] source target) w0
    ⟨rfl, Added.refl _ _, by simp, by simp⟩
  have h2 := onOk h u hu
  have hs := h2.2.2.2 hp
  cases hg : Fs.get w0.fs target with
  | none => simp [Fs.lexists, hg] at he
  | some n =>
    have hk := h2.2.1.keeps target n hg
    obtain ⟨t, ht⟩ := (isSymlink_iff _ _).mp hs
    rw [hk] at ht
    cases ht
    simp [Fs.isSymlink, hg] at hns

/-- … and with no injected fault or crash the error is exactly os:EEXIST, unless the
    MkdirAll of the parent directory failed first (then it is that error) -/
theorem foreign_entry_refused_exact (source target : Bytes) (w0 : World) (hp : w0.pretend = false)
    (hc : w0.crashAt = none) (hf : w0.faultAt = none)
    (he : Fs.lexists w0.fs target = true) (hns : Fs.isSymlink w0.fs target = false) :
    let r := (makeSymlinkInDirectory source target).run.run w0
    r.1 = .error (.err "os:EEXIST") ∨
      (Fs.isDir w0.fs (pathDir target) = false ∧
        ∃ s, Fs.mkdirAll w0.fs (pathDir target) = .error s ∧ r.1 = .error (.err ("os:" ++ s))) := by
  have h := extract2 _ _ _ _ (makeSymlink_refuses_exact source target w0.fs he hns) w0
    ⟨⟨hp, hc, hf⟩, rfl⟩
  obtain ⟨e, h1, _, h2⟩ := neverOk h
  rcases h2 with h2 | ⟨h3, s, h4, h5⟩
  · left; rw [h1, h2]
  · right; exact ⟨h3, s, h4, by rw [h1, h5]⟩

/-- os.MkdirAll keeps every existing entry as it is (re-exported from Lemmas/ExportFs) -/
theorem mkdirAll_keeps_entries (fs fs' : Fs.Tree) (p q : Bytes) (n : Fs.Node)
    (h : Fs.mkdirAll fs p = .ok fs') (hq : Fs.get fs q = some n) : Fs.get fs' q = some n :=
  mkdirAll_keeps fs fs' p q n h hq

-- non-vacuity
example : Fs.get wForeign.fs pkgLink = some (.file b!"mine") ∧ wForeign.pretend = false ∧
    wForeign.crashAt = none ∧ wForeign.faultAt = none ∧
    Fs.lexists wForeign.fs pkgLink = true ∧ Fs.isSymlink wForeign.fs pkgLink = false ∧
    Fs.isSymlink wForeign.fs genLink = true := by decide

example : ((makeSymlinkInDirectory b!"/lc/layers/base/packages" pkgLink).run.run wForeign).1
    = .error (.err "os:EEXIST") := by
  rcases foreign_entry_refused_exact b!"/lc/layers/base/packages" pkgLink wForeign rfl rfl rfl
    (by decide) (by decide) with h | ⟨h, _⟩
  · exact h
  · rw [show Fs.isDir wForeign.fs (pathDir pkgLink) = true from by decide] at h; cases h

/-! ### 3. no export entry with the old name after remove / rename -/

/-- `removeLayer` (both variants: delete the files, or rename to `~removed`): after a
    normal non-pretend return nothing exists at the automatic export paths of the layer.
    Hypotheses about the layout only: the layer directory is not "/", and the export
    paths do not lie at/under `<layer>~removed`. -/
theorem no_old_name_after_remove (cfg : Config) (d : Defs) (name : Bytes) (files : Bool) (w0 : World)
    (hp : w0.pretend = false) (l : Layer) (hl : findLayer d name = some l)
    (hlp : l.layerPath ≠ b!"/")
    (hsep : ∀ m ∈ autoMounts cfg l, Fs.under (l.layerPath ++ removedSuffix) m = false)
    (d' : Defs) (hok : ((removeLayer cfg d name files).run.run w0).1 = .ok d') :
    ∀ e ∈ autoExportPaths cfg l,
      Fs.lexists ((removeLayer cfg d name files).run.run w0).2.fs e.1 = false := by
  have h := extract2 _ _ _ _ (removeLayer_spec cfg d name files l hl hlp hsep w0.fs) w0 ⟨hp, rfl⟩
  have h2 := (onOk h d' hok).2
  intro e he
  exact (lexists_false_iff _ _).mpr (h2 e.1 (List.mem_map.mpr ⟨e, he, rfl⟩))

/-- `renameLayer` (complete: export links, directory rename, rewriting the layerconfig of
    every child and of the renamed layer): after a normal non-pretend return nothing
    exists at the automatic export paths of the OLD name.  Hypotheses about the layout
    only: the layer directory is not "/"; the old export paths do not lie at/under the
    new layer directory, nor at/under a layerconfig (or equal to its ".new" temporary) of
    any layer or of the renamed layer. -/
theorem no_old_name_after_rename (cfg : Config) (d : Defs) (oldname newname : Bytes) (co : List Bytes)
    (w0 : World) (hp : w0.pretend = false) (l : Layer) (hl : findLayer d oldname = some l)
    (hlp : l.layerPath ≠ b!"/")
    (hsep : ∀ m ∈ autoMounts cfg l, Fs.under (layerPath cfg newname) m = false)
    (hkids : ∀ k ∈ d.layers, ClearOfConfig (autoMounts cfg l) k)
    (hnew : ClearOfConfig (autoMounts cfg l) { l with name := newname, layerPath := layerPath cfg newname })
    (d' : Defs) (hok : ((renameLayer cfg d oldname newname co).run.run w0).1 = .ok d') :
    ∀ e ∈ autoExportPaths cfg l,
      Fs.lexists ((renameLayer cfg d oldname newname co).run.run w0).2.fs e.1 = false := by
  have h := extract2 _ _ _ _
    (renameLayer_spec cfg d oldname newname co l hl hlp hsep hkids hnew w0.fs) w0 ⟨hp, rfl⟩
  have h2 := (onOk h d' hok).2
  intro e he
  exact (lexists_false_iff _ _).mpr (h2 e.1 (List.mem_map.mpr ⟨e, he, rfl⟩))

/-- `no_old_name_after_remove` with its layout hypotheses (`l.layerPath ≠ "/"`, no export path
    at/under `<layer>~removed`) derived: `ExportsApart cfg` (decidable, configuration only) and
    `Placed cfg l` (the layer lies in `<layerdirs>/<legal name>`). -/
theorem no_old_name_after_remove_placed (cfg : Config) (d : Defs) (name : Bytes) (files : Bool) (w0 : World)
    (hp : w0.pretend = false) (l : Layer) (hl : findLayer d name = some l)
    (hA : ExportsApart.ExportsApart cfg) (hpl : LayerPaths.Placed cfg l)
    (d' : Defs) (hok : ((removeLayer cfg d name files).run.run w0).1 = .ok d') :
    ∀ e ∈ autoExportPaths cfg l,
      Fs.lexists ((removeLayer cfg d name files).run.run w0).2.fs e.1 = false :=
  no_old_name_after_remove cfg d name files w0 hp l hl (ExportsApart.placed_ne_root cfg l hpl)
    (fun m hm => by
      have := (ExportsApart.exportsApart_below cfg hA l hpl l.name hpl.2.1 hpl.2.2 m hm).2
      rw [← hpl.1] at this
      exact this) d' hok

/-- `no_old_name_after_rename` with ALL its layout hypotheses derived: `ExportsApart cfg` and a
    table whose layers are `Placed` (as `findLayers` builds it).  That the new name is legal
    follows from the normal return. -/
theorem no_old_name_after_rename_placed (cfg : Config) (d : Defs) (oldname newname : Bytes) (co : List Bytes)
    (w0 : World) (hp : w0.pretend = false) (l : Layer) (hl : findLayer d oldname = some l)
    (hA : ExportsApart.ExportsApart cfg) (hd : ∀ k ∈ d.layers, LayerPaths.Placed cfg k)
    (d' : Defs) (hok : ((renameLayer cfg d oldname newname co).run.run w0).1 = .ok d') :
    ∀ e ∈ autoExportPaths cfg l,
      Fs.lexists ((renameLayer cfg d oldname newname co).run.run w0).2.fs e.1 = false := by
  obtain ⟨hn1, hn2, _⟩ := ExportsApart.rename_ok_newname cfg d oldname newname co w0 d' hok
  have hpl := hd l (LayerPaths.findLayer_name d oldname l hl).1
  exact no_old_name_after_rename cfg d oldname newname co w0 hp l hl
    (ExportsApart.placed_ne_root cfg l hpl)
    (fun m hm => (ExportsApart.exportsApart_below cfg hA l hpl newname hn1 hn2 m hm).1)
    (fun k hk => ExportsApart.clearOfConfig_of_apart cfg hA l hpl k (hd k hk))
    (ExportsApart.clearOfConfig_of_apart cfg hA l hpl _ (ExportsApart.placed_renamed cfg l newname hn1 hn2))
    d' hok

-- non-vacuity of the two `_placed` theorems: the concrete configuration is apart, the layer placed
example : ExportsApart.ExportsApart cfgX ∧ (∀ k ∈ dX.layers, LayerPaths.Placed cfgX k) ∧
    findLayer dX b!"base" = some lX := by
  unfold LayerPaths.Placed; decide

-- `ExportsApart` is needed: with the export tree inside `<layer>~removed`
-- (`exportdirs = /lc/layers/base~removed/x`) the condition fails, and so does the hypothesis
-- `hsep` of `no_old_name_after_remove` (the links lie at/under `<layer>~removed`, so the
-- directory rename would put entries back at/under them)
example :
    let bad : Config := { cfgX with exportdirs := b!"/lc/layers/base~removed/x" }
    ¬ ExportsApart.ExportsApart bad ∧
    ¬ (∀ m ∈ autoMounts bad lX, Fs.under (lX.layerPath ++ removedSuffix) m = false) := by
  refine ⟨by decide +kernel, by decide⟩

-- non-vacuity: the hypotheses hold for the concrete layer with both links in place, and
-- the two commands do return normally there
example : findLayer dX b!"base" = some lX ∧ lX.layerPath ≠ b!"/" ∧
    (∀ m ∈ autoMounts cfgX lX, Fs.under (lX.layerPath ++ removedSuffix) m = false) ∧
    (∀ m ∈ autoMounts cfgX lX, Fs.under (layerPath cfgX b!"other") m = false) ∧
    (∀ k ∈ dX.layers, ClearOfConfig (autoMounts cfgX lX) k) ∧
    ClearOfConfig (autoMounts cfgX lX) { lX with name := b!"other", layerPath := layerPath cfgX b!"other" } := by
  rw [autoMountsX]
  unfold ClearOfConfig
  decide

example : ∃ d', ((removeLayer cfgX dX b!"base" true).run.run wLinked).1 = .ok d' := by
  exact isOk_ex _ (by decide)

/-! ### 4. links after mount -/

/-- `makeExportSymlinks` (run for every chain layer once the whole chain is mounted):
    after a normal non-pretend return, each automatic export entry whose source directory
    existed is a symbolic link; and it points at that directory if nothing was at the
    link path before and every other directive naming the same link path (explicit
    `export` lines, the other automatic entry) has the same source.
    Partial: says nothing when an entry with another target or type was there before
    (left as it is: finding `export-entry-foreign-or-stale`), nor the converse direction
    (no link is made for a missing directory). -/
theorem links_after_mount_partial (cfg : Config) (l : Layer) (w0 : World) (hp : w0.pretend = false)
    (hok : ((makeExportSymlinks cfg l).run.run w0).1 = .ok ()) (mnt src : Bytes)
    (hmem : (mnt, src) ∈ autoExportPaths cfg l) (hsrc : Fs.lexists w0.fs src = true) :
    Fs.isSymlink ((makeExportSymlinks cfg l).run.run w0).2.fs mnt = true ∧
    (Fs.lexists w0.fs mnt = false → (∀ e ∈ exportPairs cfg l, e.1 = mnt → e.2 = src) →
      Fs.get ((makeExportSymlinks cfg l).run.run w0).2.fs mnt = some (.symlink src)) := by
  have h := extract2 _ _ _ _ (makeExportSymlinks_spec cfg l w0.fs w0.pretend) w0
    ⟨rfl, Added.refl _ _⟩
  have h2 := onOk h () hok
  have hs := h2.2.2 hp (mnt, src) hmem hsrc
  refine ⟨hs, fun hn huniq => ?_⟩
  obtain ⟨t, ht⟩ := (isSymlink_iff _ _).mp hs
  rcases h2.2.1 mnt with h3 | ⟨_, h3 | ⟨e, he, h4, h5⟩⟩
  · rw [(lexists_false_iff _ _).mp hn] at h3
    rw [h3] at ht; cases ht
  · rw [h3] at ht; cases ht
  · rw [h5, huniq e he h4]

/-- the source directories and everything else that existed stay as they were -/
theorem mount_links_keep_entries (cfg : Config) (l : Layer) (w0 : World) (q : Bytes) (n : Fs.Node)
    (hq : Fs.get w0.fs q = some n) :
    Fs.get ((makeExportSymlinks cfg l).run.run w0).2.fs q = some n := by
  have h := extract2 _ _ _ _ (makeExportSymlinks_spec cfg l w0.fs w0.pretend) w0
    ⟨rfl, Added.refl _ _⟩
  exact onAll (R := fun w => Fs.get w.fs q = some n) h
    (fun _ _ hh => hh.2.1.keeps q n hq) (fun _ _ hh => hh.2.keeps q n hq)

-- non-vacuity: fresh export tree, both source directories present, no explicit exports
set_option maxHeartbeats 2000000 in
set_option maxRecDepth 8000 in
example : wFresh.pretend = false ∧ ((makeExportSymlinks cfgX lX).run.run wFresh).1 = .ok () ∧
    (pkgLink, b!"/lc/layers/base/packages") ∈ autoExportPaths cfgX lX ∧
    Fs.lexists wFresh.fs b!"/lc/layers/base/packages" = true ∧ Fs.lexists wFresh.fs pkgLink = false ∧
    (∀ e ∈ exportPairs cfgX lX, e.1 = pkgLink → e.2 = b!"/lc/layers/base/packages") := by
  exact ⟨rfl, isOk_unit _ (by decide), by decide, by decide, by decide, by decide⟩

/-! ### 5. links after mount, composed through `mountCmd` -/

/-- what the composition lemma `mountCmd_links` gives, with the layers of the chain as the
    caller's `Defs` has them (the mount phase changes neither names, directories nor export
    directives: `SamePaths`) -/
theorem mountCmd_links_chain (cfg : Config) (d : Defs) (name : Bytes) (w0 : World) (hp : w0.pretend = false)
    (d' : Defs) (hok : ((mountCmd cfg d name).run.run w0).1 = .ok d') :
    ∃ chain wm, BaseChain d chain name ∧ (mountPhase cfg d name).run.run w0 = (.ok (chain, d'), wm) ∧
      Added [] w0.fs wm.fs ∧
      Added (chain.flatMap (exportPairs cfg)) wm.fs ((mountCmd cfg d name).run.run w0).2.fs ∧
      ∀ a ∈ chain, ∀ e ∈ autoExportPaths cfg a, Fs.lexists wm.fs e.2 = true →
        Fs.isSymlink ((mountCmd cfg d name).run.run w0).2.fs e.1 = true := by
  obtain ⟨chain, wm, hph, hbc, hsp, hgrow, hadd, hlinks⟩ := mountCmd_links cfg d name w0 hp d' hok
  have hsame : ∀ a ∈ chain, ∀ k, findLayer d' a.name = some k →
      autoExportPaths cfg k = autoExportPaths cfg a ∧ exportPairs cfg k = exportPairs cfg a := by
    intro a ha k hk
    obtain ⟨l, hl, e1, e2, e3⟩ := hsp a.name k hk
    rw [MountLinks.BaseChain.mem_find hbc a ha] at hl
    cases hl
    exact exportPairs_congr cfg a k e1 e2 e3
  refine ⟨chain, wm, hbc, hph, hgrow, ?_, ?_⟩
  · apply hadd.mono
    intro e he
    unfold chainPairs at he
    obtain ⟨a, ha, hea⟩ := List.mem_flatMap.mp he
    cases hk : findLayer d' a.name with
    | none => rw [hk] at hea; cases hea
    | some k =>
      rw [hk] at hea
      change e ∈ exportPairs cfg k at hea
      rw [(hsame a ha k hk).2] at hea
      exact List.mem_flatMap.mpr ⟨a, ha, hea⟩
  · intro a ha e he hsrc
    obtain ⟨k, hk, hl⟩ := hlinks a ha
    rw [← (hsame a ha k hk).1] at he
    exact hl e he hsrc

/-- **links_after_mount_chain** (GOAL B): after a successful non-pretend `mountCmd cfg d name`
    (a normal return excludes a fired fault), let `chain` be the base chain root→…→name
    (`BaseChain`, unique) and `wm` the world in which the link pass begins, i.e. the world the
    mount phase `mountPhase` (name test, chain, `makedirs` and `mountOne` of every chain layer)
    ends in.  Then for EVERY layer `a` of the chain and every automatic export entry
    `(mnt, src) ∈ autoExportPaths cfg a` whose source exists in `wm`, `mnt` is a symbolic link in
    the final world.  `wm`'s tree is the initial tree plus directories (`Added []`), so sources
    created by the mount phase itself (`mountOne` makes missing import sources inside the
    layer tree — the reason for fix d8f34a4) count.  No hypothesis about the layout. -/
theorem links_after_mount_chain (cfg : Config) (d : Defs) (name : Bytes) (w0 : World) (hp : w0.pretend = false)
    (d' : Defs) (hok : ((mountCmd cfg d name).run.run w0).1 = .ok d')
    (chain : List Layer) (hchain : BaseChain d chain name) :
    ∃ wm, (mountPhase cfg d name).run.run w0 = (.ok (chain, d'), wm) ∧ Added [] w0.fs wm.fs ∧
      ∀ a ∈ chain, ∀ mnt src, (mnt, src) ∈ autoExportPaths cfg a → Fs.lexists wm.fs src = true →
        Fs.isSymlink ((mountCmd cfg d name).run.run w0).2.fs mnt = true := by
  obtain ⟨chain', wm, hbc, hph, hgrow, _, hlinks⟩ := mountCmd_links_chain cfg d name w0 hp d' hok
  have := MountLinks.BaseChain.unique hbc hchain
  subst this
  exact ⟨wm, hph, hgrow, fun a ha mnt src he hsrc => hlinks a ha (mnt, src) he hsrc⟩

/-- … in particular for every source directory that existed BEFORE the command -/
theorem links_after_mount_chain_initial (cfg : Config) (d : Defs) (name : Bytes) (w0 : World)
    (hp : w0.pretend = false) (d' : Defs) (hok : ((mountCmd cfg d name).run.run w0).1 = .ok d')
    (chain : List Layer) (hchain : BaseChain d chain name) (a : Layer) (ha : a ∈ chain) (mnt src : Bytes)
    (hmem : (mnt, src) ∈ autoExportPaths cfg a) (hsrc : Fs.lexists w0.fs src = true) :
    Fs.isSymlink ((mountCmd cfg d name).run.run w0).2.fs mnt = true := by
  obtain ⟨wm, _, hgrow, hlinks⟩ := links_after_mount_chain cfg d name w0 hp d' hok chain hchain
  exact hlinks a ha mnt src hmem (hgrow.lexists src hsrc)

/-- **the link points at the layer's directory** when the link path was free as the link pass
    began and every directive of a chain layer (explicit `export` lines and the automatic
    entries) that names this link path has this source.  Partial: the second hypothesis is about
    the configuration — two directives may name one link path with different sources, then the
    first one made wins — and the code does not establish it; an entry that was already there
    is left as it is (finding `export-entry-foreign-or-stale`). -/
theorem links_after_mount_chain_target_partial (cfg : Config) (d : Defs) (name : Bytes) (w0 : World)
    (hp : w0.pretend = false) (d' : Defs) (hok : ((mountCmd cfg d name).run.run w0).1 = .ok d')
    (chain : List Layer) (hchain : BaseChain d chain name) :
    ∃ wm, (mountPhase cfg d name).run.run w0 = (.ok (chain, d'), wm) ∧ Added [] w0.fs wm.fs ∧
      ∀ a ∈ chain, ∀ mnt src, (mnt, src) ∈ autoExportPaths cfg a → Fs.lexists wm.fs src = true →
        Fs.lexists wm.fs mnt = false →
        (∀ b ∈ chain, ∀ e ∈ exportPairs cfg b, e.1 = mnt → e.2 = src) →
        Fs.get ((mountCmd cfg d name).run.run w0).2.fs mnt = some (.symlink src) := by
  obtain ⟨chain', wm, hbc, hph, hgrow, hadd, hlinks⟩ := mountCmd_links_chain cfg d name w0 hp d' hok
  have := MountLinks.BaseChain.unique hbc hchain
  subst this
  refine ⟨wm, hph, hgrow, fun a ha mnt src he hsrc hfree huniq => ?_⟩
  have hs := hlinks a ha (mnt, src) he hsrc
  obtain ⟨t, ht⟩ := (isSymlink_iff _ _).mp hs
  rcases hadd mnt with h3 | ⟨_, h3 | ⟨e, he', h4, h5⟩⟩
  · rw [(lexists_false_iff _ _).mp hfree] at h3
    rw [h3] at ht; cases ht
  · rw [h3] at ht; cases ht
  · obtain ⟨b, hb, heb⟩ := List.mem_flatMap.mp he'
    rw [h5, huniq b hb e heb h4]

/-- nothing that existed before the command is removed or replaced by it (any exit of the
    mount phase and the link pass is covered by `Added`; stated here for the normal return) -/
theorem mount_chain_keeps_entries (cfg : Config) (d : Defs) (name : Bytes) (w0 : World)
    (hp : w0.pretend = false) (d' : Defs) (hok : ((mountCmd cfg d name).run.run w0).1 = .ok d')
    (q : Bytes) (n : Fs.Node) (hq : Fs.get w0.fs q = some n) :
    Fs.get ((mountCmd cfg d name).run.run w0).2.fs q = some n := by
  obtain ⟨_, wm, _, _, hgrow, hadd, _⟩ := mountCmd_links_chain cfg d name w0 hp d' hok
  exact hadd.keeps q n (hgrow.keeps q n hq)

/-! non-vacuity of section 5.  The model's `mountOne` re-probes the kernel table through the
    mountinfo text (`toString` of the mount ids), which `decide` cannot evaluate once something
    is mounted; so the whole command is evaluated on a base layer without imports (nothing gets
    mounted, the chain has one layer), and the multi-layer composition on the link pass alone. -/

def lB : Layer := { name := b!"base", layerPath := b!"/lc/layers/base", state := S_mountable }
def dB : Defs := { layers := [lB], order := [b!"base"] }

theorem ex_chainB : BaseChain dB [lB] b!"base" := by
  have h := BaseChain.snoc (d := dB) (c := []) (l := lB) (n := b!"base") rfl (by decide) (BaseChain.nil rfl)
  simpa using h

set_option maxRecDepth 8000 in
/-- the hypotheses of `links_after_mount_chain(_initial)` hold: the command returns normally
    from the fresh world, whose tree has both source directories and no export tree -/
theorem ex_mountB_ok : ∃ d', ((mountCmd cfgX dB b!"base").run.run wFresh).1 = .ok d' :=
  isOk_ex _ (by decide +kernel)

example : wFresh.pretend = false ∧ (pkgLink, b!"/lc/layers/base/packages") ∈ autoExportPaths cfgX lB ∧
    Fs.lexists wFresh.fs b!"/lc/layers/base/packages" = true ∧ Fs.lexists wFresh.fs pkgLink = false := by
  decide

/-- the conclusion is not trivial: the link was not there, and by the theorem it is after the command -/
example : Fs.isSymlink ((mountCmd cfgX dB b!"base").run.run wFresh).2.fs pkgLink = true := by
  obtain ⟨d', hok⟩ := ex_mountB_ok
  exact links_after_mount_chain_initial cfgX dB b!"base" wFresh rfl d' hok [lB] ex_chainB lB (by simp)
    pkgLink b!"/lc/layers/base/packages" (by decide) (by decide)

set_option maxRecDepth 8000 in
/-- cross-check by evaluating the model: the link is there and points at the layer's directory
    (what `links_after_mount_chain_target_partial` says for a free path) -/
example : Fs.get ((mountCmd cfgX dB b!"base").run.run wFresh).2.fs pkgLink =
    some (.symlink b!"/lc/layers/base/packages") := by decide +kernel

/-- two layers: `dev` sits on `base`; `dev` has a packages directory but no generated directory -/
def lD : Layer := { name := b!"dev", base := b!"base", layerPath := b!"/lc/layers/dev", state := S_mounted }
def dBD : Defs := { layers := [lB, lD], order := [b!"base", b!"dev"] }
def wTwo : World :=
  { fs := wFresh.fs ++ [(b!"/lc/layers/dev", .dir), (b!"/lc/layers/dev/packages", .dir)] }

example : BaseChain dBD [lB, lD] b!"dev" := by
  have h1 : BaseChain dBD [lB] b!"base" := by
    have h := BaseChain.snoc (d := dBD) (c := []) (l := lB) (n := b!"base") rfl (by decide) (BaseChain.nil rfl)
    simpa using h
  have h := BaseChain.snoc (d := dBD) (c := [lB]) (l := lD) (n := b!"dev") rfl (by decide) h1
  simpa using h

set_option maxRecDepth 8000 in
/-- the link pass over the chain returns normally … -/
theorem ex_linkTwo_ok : ((linkChain cfgX dBD [lB, lD]).run.run wTwo).1 = .ok PUnit.unit := by
  cases h : ((linkChain cfgX dBD [lB, lD]).run.run wTwo).1 with
  | ok u => rfl
  | error e =>
    have : isOk ((linkChain cfgX dBD [lB, lD]).run.run wTwo).1 = true := by decide +kernel
    rw [h] at this
    cases this

/-- … and by `linkChain_run` every automatic entry of BOTH layers whose source exists is a link:
    three links (the ancestor's two and the packages link of `dev`) -/
example : ∀ a ∈ [lB, lD], ∃ k, findLayer dBD a.name = some k ∧ ∀ e ∈ autoExportPaths cfgX k,
    Fs.lexists wTwo.fs e.2 = true →
      Fs.isSymlink ((linkChain cfgX dBD [lB, lD]).run.run wTwo).2.fs e.1 = true :=
  (linkChain_run cfgX dBD [lB, lD] wTwo rfl PUnit.unit ex_linkTwo_ok).2.2

example : Fs.lexists wTwo.fs b!"/lc/layers/dev/packages" = true ∧
    Fs.lexists wTwo.fs b!"/lc/layers/dev/generated" = false ∧
    (b!"/lc/export/packages/dev", b!"/lc/layers/dev/packages") ∈ autoExportPaths cfgX lD := by decide

set_option maxRecDepth 8000 in
/-- cross-check by evaluating the model: `dev`'s packages link points at its directory, and no
    link was made for its missing generated directory -/
example : Fs.get ((linkChain cfgX dBD [lB, lD]).run.run wTwo).2.fs b!"/lc/export/packages/dev" =
      some (.symlink b!"/lc/layers/dev/packages") ∧
    Fs.get ((linkChain cfgX dBD [lB, lD]).run.run wTwo).2.fs b!"/lc/export/generated/dev" = none := by
  decide +kernel

end Lc.Props.C16
