/-
  C07 — tarball members reproduce the build root faithfully.

  Theorems over the model of `addSingleFile` and of `MakeTar`'s header mapping
  (Lc/Model/StageEntry.lean) against the independent specification
  `Spec.Stage.expected` ("header field = source field unless an option overrides it"):
    * device numbers: the Linux `dev_t` decoding inverts `makedev` and vice versa, the model's
      decoding is the Linux one for every 64-bit value, and the bit-operator form of the Go
      source equals the arithmetic form (`devnum_*`, `devMajorMinor_*`),
    * `fidelity_common`: permission bits, uid, gid, mtime and xattrs of the header equal the
      specification's, for ALL lstat records and ALL option combinations,
    * `fidelity_kind_partial`: member type, size, link target, device major/minor equal the
      specification's; hypotheses: dev= only on node lines, targ= only on symlink lines, a
      `file … src=` line names a regular file (the code does not check it), rdev < 2^64,
    * `override_spec`: each of mod/uid/gid/dev/targ (and src via the lstat record consulted)
      determines exactly its own header field,
    * `synth_defaults`: an absent path gives uid = gid = 0, mode 0755 and the run's time.
  Assumptions validated differentially only (not modelled): the PAX byte encoding and the file
  bytes written by archive/tar, and that gzip/bzip2/xz output decompresses to the same archive.
-/
import Lc.Lemmas.StageEntry

set_option linter.unusedSimpArgs false

namespace Lc.Props.C07
open Lc Lc.Stage Lc.Spec.Stage

/-! ### device numbers -/

/-- decoding inverts `makedev` for all 32-bit majors and minors -/
theorem devnum_decode_encode (ma mi : Nat) (_ : ma < 2 ^ 32) (_ : mi < 2 ^ 32) :
    linuxMajor (makedev ma mi) = ma ∧ linuxMinor (makedev ma mi) = mi := by
  simp only [linuxMajor, linuxMinor, makedev, Nat.reducePow] at *
  constructor <;> omega

/-- `makedev` inverts decoding for all 64-bit device numbers: nothing of `st_rdev` is lost -/
theorem devnum_encode_decode (dev : Nat) (_ : dev < 2 ^ 64) :
    makedev (linuxMajor dev) (linuxMinor dev) = dev := by
  simp only [linuxMajor, linuxMinor, makedev, Nat.reducePow] at *
  omega

/-- the model's `devMajorMinor` is the Linux decoding, for ALL 64-bit `rdev` values -/
theorem devMajorMinor_linux (r : Nat) (_ : r < 2 ^ 64) :
    devMajor r = linuxMajor r ∧ devMinor r = linuxMinor r := by
  simp only [devMajor, devMinor, u32, linuxMajor, linuxMinor, Nat.reducePow] at *
  constructor <;> omega

/-- the arithmetic form used in the model equals the shift/mask/or form of the Go source -/
theorem devMajorMinor_bits (r : Nat) : devMajorBits r = devMajor r ∧ devMinorBits r = devMinor r := by
  constructor
  · unfold devMajorBits devMajor u32
    rw [and_fff, and_fff, Nat.shiftRight_eq_div_pow, Nat.shiftRight_eq_div_pow]
    have e : (r / 2 ^ 32 - r / 2 ^ 32 % 4096) % 4294967296 = ((r / 2 ^ 32 / 4096) % 1048576) * 2 ^ 12 := by
      simp only [Nat.reducePow]; omega
    rw [e, or_disjoint _ _ 12 (by simp only [Nat.reducePow]; omega)]
  · unfold devMinorBits devMinor u32
    rw [and_ff, and_ff, Nat.shiftRight_eq_div_pow]
    have e : (r / 2 ^ 12 - r / 2 ^ 12 % 256) % 4294967296 = ((r / 2 ^ 12 / 256) % 16777216) * 2 ^ 8 := by
      simp only [Nat.reducePow]; omega
    rw [e, or_disjoint _ _ 8 (by simp only [Nat.reducePow]; omega)]

/-- what the unfixed code computed (`Rdev >> 8`, `Rdev & 0xFF`) is wrong already for `c 4:300` -/
theorem old_decoding_wrong :
    (makedev 4 300 / 256, makedev 4 300 % 256) = (4100, 44) ∧
    (devMajor (makedev 4 300), devMinor (makedev 4 300)) = (4, 300) := by decide

/-! ### the fields common to every kind of member -/

/-- the entry stored by `addSingleFile`, in terms of the three parts of the function -/
theorem addSingleFile_parts {fs : Bytes → Option Lstat} {root : Bytes} {e0 e : Entry}
    (h : addSingleFile fs root e0 = .ok (some e)) :
    ∃ lt, resolveLtype (fs (sourceOf root e0)) e0.source.isEmpty { e0 with source := sourceOf root e0 } = .ok (some lt) ∧
      finishKind (fs (sourceOf root e0)) e0.source.isEmpty
        (commonFields (fs (sourceOf root e0)) { e0 with source := sourceOf root e0 } lt) = .ok (some e) := by
  unfold addSingleFile at h
  simp only at h
  split at h
  · cases h
  · cases h
  · rename_i lt hr
    exact ⟨lt, hr, h⟩

/-- **Fidelity of permission bits, owner, group, time stamp and xattrs**, for every lstat record
    and every combination of options.  (xattrs: for an absent path the entry keeps whatever the
    `lineInfo` carried, which is nil for every parsed line.) -/
theorem fidelity_common (fs : Bytes → Option Lstat) (root : Bytes) (e0 e : Entry) (h : Header)
    (hadd : addSingleFile fs root e0 = .ok (some e)) (hhdr : headerOf e = .ok h) :
    h.mode % 4096 = (expected ((fs (sourceOf root e0)).map srcOf) (overOfEntry e0)).perm ∧
    h.uid = (expected ((fs (sourceOf root e0)).map srcOf) (overOfEntry e0)).uid ∧
    h.gid = (expected ((fs (sourceOf root e0)).map srcOf) (overOfEntry e0)).gid ∧
    h.mtime = (expected ((fs (sourceOf root e0)).map srcOf) (overOfEntry e0)).mtime ∧
    ((fs (sourceOf root e0)).isSome = true ∨ e0.xattrs = none →
      h.xattrs = (expected ((fs (sourceOf root e0)).map srcOf) (overOfEntry e0)).xattrs) := by
  obtain ⟨lt, _, hfin⟩ := addSingleFile_parts hadd
  obtain ⟨_, _, huid, hgid, hmask, htime, hx, _⟩ := finishKind_common hfin
  obtain ⟨_, h1, h2, h3, h4, _, h6⟩ := headerOf_common hhdr
  rw [h1, h2, h3, h4, h6, huid, hgid, hmask, htime, hx]
  cases hst : fs (sourceOf root e0) with
  | none =>
    simp only [commonFields, permsOf, expected, overOfEntry, Option.map_none, applyMod,
      stageFileUID, stageFileGID, umask]
    refine ⟨?_, ?_, ?_, trivial, ?_⟩
    · cases e0.hasPerm with
      | false => simp
      | true =>
        simp only [if_true]
        split
        · exact perm_mod _ _ _
        · rfl
    · cases e0.hasUid <;> rfl
    · cases e0.hasGid <;> rfl
    · intro hx'
      rcases hx' with hx' | hx'
      · cases hx'
      · rw [hx']; rfl
  | some s =>
    simp only [commonFields, permsOf, expected, overOfEntry, Option.map_some, applyMod, srcOf]
    refine ⟨?_, ?_, ?_, trivial, fun _ => rfl⟩
    · cases e0.hasPerm with
      | false => simp
      | true =>
        simp only [if_true]
        split
        · exact perm_mod _ _ _
        · rfl
    · cases e0.hasUid <;> rfl
    · cases e0.hasGid <;> rfl

/-- **Members synthesised for absent paths**: root ownership, mode 0755 (0777 &^ umask), the
    time of the run — unless the line says otherwise. -/
theorem synth_defaults (fs : Bytes → Option Lstat) (root : Bytes) (e0 e : Entry) (h : Header)
    (habsent : fs (sourceOf root e0) = none)
    (hadd : addSingleFile fs root e0 = .ok (some e)) (hhdr : headerOf e = .ok h) :
    (e0.hasUid = false → h.uid = 0) ∧ (e0.hasGid = false → h.gid = 0) ∧
    (e0.hasPerm = false → h.mode = 0o755) ∧ h.mtime = none := by
  obtain ⟨lt, _, hfin⟩ := addSingleFile_parts hadd
  obtain ⟨_, _, huid, hgid, hmask, htime, _, _⟩ := finishKind_common hfin
  obtain ⟨_, h1, h2, h3, h4, _, _⟩ := headerOf_common hhdr
  rw [h1, h2, h3, h4, huid, hgid, hmask, htime, habsent]
  simp only [commonFields, permsOf, stageFileUID, stageFileGID, umask]
  refine ⟨?_, ?_, ?_, trivial⟩
  · intro hu; rw [hu]; rfl
  · intro hg; rw [hg]; rfl
  · intro hp; rw [hp]; simp

/-- **Overrides**: each option determines exactly its own field — uid= the owner, gid= the
    group, mod= the permission bits (through its and/or masks), and nothing else of the common
    fields; without the option the field is the source's. -/
theorem override_spec (fs : Bytes → Option Lstat) (root : Bytes) (e0 e : Entry) (h : Header) (s : Lstat)
    (hst : fs (sourceOf root e0) = some s)
    (hadd : addSingleFile fs root e0 = .ok (some e)) (hhdr : headerOf e = .ok h) :
    h.uid = (if e0.hasUid then e0.uid else s.uid) ∧
    h.gid = (if e0.hasGid then e0.gid else s.gid) ∧
    h.mode = (if e0.hasPerm then (if e0.andMask > 0 then (s.mode &&& e0.andMask) ||| e0.orMask else e0.orMask)
              else s.mode) ∧
    h.mtime = some s.mtime ∧ h.xattrs = s.xattrs := by
  obtain ⟨lt, _, hfin⟩ := addSingleFile_parts hadd
  obtain ⟨_, _, huid, hgid, hmask, htime, hx, _⟩ := finishKind_common hfin
  obtain ⟨_, h1, h2, h3, h4, _, h6⟩ := headerOf_common hhdr
  rw [h1, h2, h3, h4, h6, huid, hgid, hmask, htime, hx, hst]
  simp only [commonFields, permsOf]
  refine ⟨?_, ?_, trivial, trivial, rfl⟩
  · cases e0.hasUid <;> rfl
  · cases e0.hasGid <;> rfl

/-! ### the kind-specific fields -/

/-- the five kind-specific fields of a header, as the specification names them -/
def kindFields (h : Header) : String × Nat × Bytes × Nat × Nat :=
  (typeChar h.typeflag, h.size, h.linkname, h.devmajor, h.devminor)

def expKindFields (x : Exp) : String × Nat × Bytes × Nat × Nat := (x.kind, x.size, x.link, x.maj, x.min)

theorem ov_dev_none {e0 : Entry} (h : e0.hasDev = false) : (overOfEntry e0).dev = none := by
  simp [overOfEntry, h]

theorem ov_targ_none {e0 : Entry} (h : e0.target = []) : (overOfEntry e0).targ = none := by
  simp [overOfEntry, h]

/-- **Fidelity of member type, size, link target and device numbers.**
    Partial — hypotheses:
    `hdev`/`htarg`: dev= is used on `node` lines and targ= on `symlink` lines only (with `tbd`
      the code lets the option silently win or lose depending on what exists);
    `hsize`: the lineInfo comes from the parser (fsize 0);
    `hsrc`: a `file … src=` line names a regular file — `needLtypeCheck` is false there, the code
      archives whatever `src` is as a regular file;
    `hrdev`: `st_rdev` is a 64-bit value. -/
theorem fidelity_kind_partial (fs : Bytes → Option Lstat) (root : Bytes) (e0 e : Entry) (h : Header)
    (hadd : addSingleFile fs root e0 = .ok (some e)) (hhdr : headerOf e = .ok h)
    (hdev : e0.hasDev = true → e0.ltype = ltDevice)
    (htarg : e0.target ≠ [] → e0.ltype = ltSymlink)
    (hsize : e0.fsize = 0)
    (hsrc : e0.ltype = ltFile → e0.source.isEmpty = false →
      ∀ s, fs (sourceOf root e0) = some s → s.mode &&& S_IFMT = S_IFREG)
    (hrdev : ∀ s, fs (sourceOf root e0) = some s → s.rdev < 2 ^ 64) :
    kindFields h = expKindFields (expected ((fs (sourceOf root e0)).map srcOf) (overOfEntry e0)) := by
  obtain ⟨lt, hr, hfin⟩ := addSingleFile_parts hadd
  have hspec := resolveLtype_spec hr
  simp only at hspec
  -- facts about the options
  have hnodev : e0.ltype ≠ ltDevice → e0.hasDev = false := by
    intro hne
    cases hd : e0.hasDev with
    | false => rfl
    | true => exact absurd (hdev hd) hne
  have hnotarg : e0.ltype ≠ ltSymlink → e0.target = [] := by
    intro hne
    cases ht : e0.target with
    | nil => rfl
    | cons a b => exact absurd (htarg (by rw [ht]; simp)) hne
  simp only [finishKind, commonFields] at hfin
  by_cases hlt1 : lt = ltDir
  · -- directory
    subst hlt1
    simp only [if_true] at hfin
    cases hfin
    simp only [headerOf, if_true] at hhdr
    cases hhdr
    rcases hspec with ⟨h0, s, hs, ha⟩ | ⟨hne, hlt, _⟩
    · rcases actualOf_kind ha with ⟨hl, _⟩ | ⟨hl, _⟩ | ⟨_, _, hk⟩ | ⟨hl, _⟩ | ⟨hl, _⟩ <;>
        first | (exact absurd hl (by decide)) | skip
      rw [hs]
      simp [kindFields, expKindFields, expected, overOfEntry, srcOf, typeChar, h0, hk, hsize,
        ltNone, ltDir, ltDevice, ltSymlink, tyDir, tyReg, tySymlink, tyLink, tyChar, tyBlock]
    · have hd : e0.hasDev = false := hnodev (by rw [← hlt]; decide)
      cases hst : fs (sourceOf root e0) with
      | none =>
        simp [kindFields, expKindFields, expected, overOfEntry, typeChar, ← hlt, hsize, hd,
          ltDir, tyDir, tyReg, tySymlink, tyLink, tyChar, tyBlock]
      | some s =>
        simp [kindFields, expKindFields, expected, overOfEntry, srcOf, typeChar, ← hlt, hsize, hd,
          ltDir, tyDir, tyReg, tySymlink, tyLink, tyChar, tyBlock]
  by_cases hlt2 : lt = ltFile
  · -- regular file
    subst hlt2
    simp only [show ltFile ≠ ltDir by decide, if_false, if_true] at hfin
    cases hst : fs (sourceOf root e0) with
    | none => rw [hst] at hfin; cases hfin
    | some s =>
      rw [hst] at hfin hspec
      cases hfin
      simp only [headerOf, show ltFile ≠ ltDir by decide, if_false, if_true] at hhdr
      cases hhdr
      have hk : kindOfMode s.mode = "f" := by
        rcases hspec with ⟨_, s', hs', ha⟩ | ⟨hne, hlt, hchk⟩
        · cases hs'
          rcases actualOf_kind ha with ⟨hl, _⟩ | ⟨_, _, hk⟩ | ⟨hl, _⟩ | ⟨hl, _⟩ | ⟨hl, _⟩ <;>
            first | (exact absurd hl (by decide)) | exact hk
        · by_cases hnis : e0.source.isEmpty = true
          · have ha := hchk (by simp [needLtypeCheck, ← hlt, ltFile, ltDir, ltSymlink, ltDevice, hnis]) s rfl
            rcases actualOf_kind ha with ⟨hl, _⟩ | ⟨_, _, hk⟩ | ⟨hl, _⟩ | ⟨hl, _⟩ | ⟨hl, _⟩ <;>
              first | (exact absurd hl (by decide)) | exact hk
          · have hreg := hsrc hlt.symm (by simpa using hnis) s hst
            simp [kindOfMode, hreg, S_IFREG]
      have hov : (overOfEntry e0).kind = none := by
        rcases hspec with ⟨h0, _⟩ | ⟨_, hlt, _⟩
        · simp [overOfEntry, h0, ltNone, ltDir, ltDevice, ltSymlink]
        · simp [overOfEntry, ← hlt, ltFile, ltDir, ltDevice, ltSymlink]
      simp [kindFields, expKindFields, expected, srcOf, typeChar, hk, hov,
        tyDir, tyReg, tySymlink, tyLink, tyChar, tyBlock]
  by_cases hlt3 : lt = ltSymlink
  · -- symbolic link
    subst hlt3
    simp only [show ltSymlink ≠ ltDir by decide, show ltSymlink ≠ ltFile by decide, if_false, if_true] at hfin
    have hd : e0.hasDev = false := by
      rcases hspec with ⟨h0, _⟩ | ⟨_, hlt, _⟩
      · exact hnodev (by rw [h0]; decide)
      · exact hnodev (by rw [← hlt]; decide)
    by_cases htg : e0.target = []
    · -- target read from the link
      simp only [htg, List.isEmpty_nil, if_true] at hfin
      cases hst : fs (sourceOf root e0) with
      | none => rw [hst] at hfin; cases hfin
      | some s =>
        rw [hst] at hfin
        simp only at hfin
        split at hfin
        · rename_i hlnk
          cases hfin
          simp only [headerOf, show ltSymlink ≠ ltDir by decide, show ltSymlink ≠ ltFile by decide,
            if_false, if_true] at hhdr
          cases hhdr
          have hk : kindOfMode s.mode = "l" := by simp [kindOfMode, hlnk, S_IFLNK, S_IFREG, S_IFDIR]
          have hov : (overOfEntry e0).kind = none := by
            rcases hspec with ⟨h0, _⟩ | ⟨_, hlt, _⟩
            · simp [overOfEntry, h0, ltNone, ltDir, ltDevice, ltSymlink]
            · simp [overOfEntry, ← hlt, htg, ltDir, ltDevice, ltSymlink]
          simp [kindFields, expKindFields, expected, srcOf, typeChar, hk, hov, hsize, ov_targ_none htg,
            tyDir, tyReg, tySymlink, tyLink, tyChar, tyBlock]
        · cases hfin
    · -- target given by targ=
      have hl : e0.ltype = ltSymlink := htarg htg
      have hie : e0.target.isEmpty = false := by
        cases ht : e0.target with
        | nil => exact absurd ht htg
        | cons _ _ => rfl
      simp only [hie, Bool.false_eq_true, if_false] at hfin
      cases hfin
      simp only [headerOf, show ltSymlink ≠ ltDir by decide, show ltSymlink ≠ ltFile by decide,
        if_false, if_true] at hhdr
      cases hhdr
      cases hst : fs (sourceOf root e0) with
      | none =>
        simp [kindFields, expKindFields, expected, typeChar, hsize, htg, overOfEntry, hl, hd,
          ltDir, ltDevice, ltSymlink, tyDir, tyReg, tySymlink, tyLink, tyChar, tyBlock]
      | some s =>
        simp [kindFields, expKindFields, expected, srcOf, typeChar, hsize, htg, overOfEntry, hl, hd,
          ltDir, ltDevice, ltSymlink, tyDir, tyReg, tySymlink, tyLink, tyChar, tyBlock]
  by_cases hlt4 : lt = ltDevice
  · -- device node
    subst hlt4
    simp only [show ltDevice ≠ ltDir by decide, show ltDevice ≠ ltFile by decide,
      show ltDevice ≠ ltSymlink by decide, if_false, if_true] at hfin
    have htg : e0.target = [] := by
      rcases hspec with ⟨h0, _⟩ | ⟨_, hlt, _⟩
      · exact hnotarg (by rw [h0]; decide)
      · exact hnotarg (by rw [← hlt]; decide)
    cases hd : e0.hasDev with
    | false =>
      simp only [hd, Bool.not_false, if_true] at hfin
      have hov : (overOfEntry e0).kind = none := by
        rcases hspec with ⟨h0, _⟩ | ⟨_, hlt, _⟩
        · simp [overOfEntry, h0, ltNone, ltDir, ltDevice, ltSymlink]
        · simp [overOfEntry, ← hlt, hd, htg, ltDir, ltDevice, ltSymlink]
      cases hst : fs (sourceOf root e0) with
      | none => rw [hst] at hfin; cases hfin
      | some s =>
        rw [hst] at hfin
        simp only at hfin
        obtain ⟨hma, hmi⟩ := devMajorMinor_linux s.rdev (hrdev s hst)
        split at hfin
        · rename_i hchr
          cases hfin
          simp only [headerOf, show ltDevice ≠ ltDir by decide, show ltDevice ≠ ltFile by decide,
            show ltDevice ≠ ltSymlink by decide, show ltDevice ≠ ltHardlink by decide, if_false, if_true] at hhdr
          cases hhdr
          have hk : kindOfMode s.mode = "c" := by simp [kindOfMode, hchr, S_IFCHR, S_IFLNK, S_IFREG, S_IFDIR]
          simp [kindFields, expKindFields, expected, srcOf, typeChar, hk, hov, hsize, ov_dev_none hd, hma, hmi,
            chrC, tyDir, tyReg, tySymlink, tyLink, tyChar, tyBlock]
        · split at hfin
          · rename_i hblk
            cases hfin
            simp only [headerOf, show ltDevice ≠ ltDir by decide, show ltDevice ≠ ltFile by decide,
              show ltDevice ≠ ltSymlink by decide, show ltDevice ≠ ltHardlink by decide, if_false, if_true] at hhdr
            cases hhdr
            have hk : kindOfMode s.mode = "b" := by
              simp [kindOfMode, hblk, S_IFCHR, S_IFBLK, S_IFLNK, S_IFREG, S_IFDIR]
            simp [kindFields, expKindFields, expected, srcOf, typeChar, hk, hov, hsize, ov_dev_none hd, hma, hmi,
              chrB, chrC, tyDir, tyReg, tySymlink, tyLink, tyChar, tyBlock]
          · cases hfin
    | true =>
      have hl : e0.ltype = ltDevice := hdev hd
      simp only [hd, Bool.not_true, Bool.false_eq_true, if_false] at hfin
      cases hfin
      simp only [headerOf, show ltDevice ≠ ltDir by decide, show ltDevice ≠ ltFile by decide,
        show ltDevice ≠ ltSymlink by decide, show ltDevice ≠ ltHardlink by decide, if_false, if_true] at hhdr
      cases hhdr
      cases hst : fs (sourceOf root e0) with
      | none =>
        by_cases hc : e0.devtype = chrC <;>
          simp [kindFields, expKindFields, expected, typeChar, hsize, hd, hl, hc, overOfEntry,
            ltDir, ltDevice, tyDir, tyReg, tySymlink, tyLink, tyChar, tyBlock]
      | some s =>
        by_cases hc : e0.devtype = chrC <;>
          simp [kindFields, expKindFields, expected, srcOf, typeChar, hsize, hd, hl, hc, overOfEntry,
            ltDir, ltDevice, tyDir, tyReg, tySymlink, tyLink, tyChar, tyBlock]
  · -- any other ltype: `assertion error: unknown file type`
    simp only [hlt1, hlt2, hlt3, hlt4, if_false] at hfin
    cases hfin

/-! ### non-vacuity: concrete instances -/

def exBlk : Lstat :=
  { mode := 0o060660, uid := 0, gid := 6, mtime := 1500000000, size := 0, nlink := 1, dev := 1, ino := 2,
    rdev := 2049, link := [], xattrs := [(b!"user.k", b!"v")], sha := "" }

def exFs : Bytes → Option Lstat := fun p => if p = b!"/R/dev/sda1" then some exBlk else none

def exLine : Entry := { ltype := ltNone, name := b!"/dev/sda1", hasGid := true, gid := 9 }

/-- `tbd /dev/sda1 gid=9` on a block device 8:1 — the case the unfixed code archived as `c` -/
example : (addSingleFile exFs b!"/R" exLine).map (fun o => o.map fun e => (e.ltype, e.devtype, e.major, e.minor, e.gid, e.uid)) =
    .ok (some (ltDevice, chrB, 8, 1, 9, 0)) := by rfl

example : (expected (some (srcOf exBlk)) (overOfEntry exLine)).kind = "b" ∧
    (expected (some (srcOf exBlk)) (overOfEntry exLine)).maj = 8 ∧
    (expected (some (srcOf exBlk)) (overOfEntry exLine)).gid = 9 := by decide

/-- a synthesised directory (`dir /synth`, nothing on disk): 0755, root, the run's time -/
example : (addSingleFile exFs b!"/R" { ltype := ltDir, name := b!"/synth" }).map
    (fun o => o.map fun e => (e.ltype, e.orMask, e.uid, e.gid, e.unixTime)) =
    .ok (some (ltDir, 0o755, 0, 0, none)) := by rfl

example : linuxMajor (makedev 4095 1048575) = 4095 ∧ linuxMinor (makedev 4095 1048575) = 1048575 := by decide

end Lc.Props.C07
