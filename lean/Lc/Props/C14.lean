/-
  C14 — package atoms and dependency strings parse into the structure they denote.

  Model: Lc/Model/AtomParse.lean, Lc/Model/Depend.lean (the Go code after the `fix:`
  commits).  Specification: Lc/Spec/DepGrammar.lean (abstract syntax, printers).
-/
import Lc.Model.Depend
import Lc.Spec.DepGrammar
import Lc.Lemmas.Depend
import Lc.Lemmas.DependLayout

namespace Lc.Props.C14
open Lc Lc.AtomParse Lc.Depend Lc.Spec.DepGrammar Lc.Lemmas.Depend Lc.Lemmas.DependLayout

/-! ### trees of the grammar as values of the model's result type -/

mutual
def embed (f : AtomAst → ParsedAtom) : Dep → MDep
  | .atom a => .atom (f a)
  | .allOf ds => .cond pkgDepAll [] (embedL f ds)
  | .anyOf ds => .cond pkgDepAnyOf [] (embedL f ds)
  | .exactlyOne ds => .cond pkgDepExactlyOneOf [] (embedL f ds)
  | .atMostOne ds => .cond pkgDepAtMostOneOf [] (embedL f ds)
  | .useCond fl neg ds => .cond (if neg then pkgDepWhenUseUnset else pkgDepWhenUseSet) fl (embedL f ds)
def embedL (f : AtomAst → ParsedAtom) : DepL → MDepL
  | .nil => .nil
  | .cons d ds => .cons (embed f d) (embedL f ds)
end

/-- The atom parser reads the printed atom `a` as `f a`, consuming exactly its text, whenever
    whitespace or the end of input follows; and the tokenizer classifies the text as an atom.
    (`atom_roundtrip…` below discharge this for atoms of the grammar.) -/
def AtomOK (f : AtomAst → ParsedAtom) (a : AtomAst) : Prop :=
  IsTok (printAtom a) ∧ classify (printAtom a) = .ok (.testForAtom, [], 0) ∧
  ∀ r, peek r ≤ 32 → rawParseAtomAtCursor (printAtom a ++ r) true true = .ok (f a, r)

/-- USE-conditional flags are non-empty words over the flag alphabet -/
def FlagOK (fl : Bytes) : Prop := fl ≠ [] ∧ ∀ b ∈ fl, isUseFlagChar b = true

mutual
def TreeOK (f : AtomAst → ParsedAtom) : Dep → Prop
  | .atom a => AtomOK f a
  | .allOf ds | .anyOf ds | .exactlyOne ds | .atMostOne ds => TreeLOK f ds
  | .useCond fl _ ds => FlagOK fl ∧ TreeLOK f ds
def TreeLOK (f : AtomAst → ParsedAtom) : DepL → Prop
  | .nil => True
  | .cons d ds => TreeOK f d ∧ TreeLOK f ds
end

/-! ### tokens of the grammar under the tokenizer -/

theorem tok_open : IsTok b!"(" ∧ classify b!"(" = .ok (.open, [], 1) := by
  refine ⟨⟨by simp, by simp⟩, by rfl⟩
theorem tok_close : IsTok b!")" ∧ classify b!")" = .ok (.close, [], 1) := by
  refine ⟨⟨by simp, by simp⟩, by rfl⟩
theorem tok_any : IsTok b!"||" ∧ classify b!"||" = .ok (.anyOf, [], 2) := by
  refine ⟨⟨by simp, by simp⟩, by rfl⟩
theorem tok_one : IsTok b!"^^" ∧ classify b!"^^" = .ok (.exactlyOneOf, [], 2) := by
  refine ⟨⟨by simp, by simp⟩, by rfl⟩
theorem tok_most : IsTok b!"??" ∧ classify b!"??" = .ok (.atMostOneOf, [], 2) := by
  refine ⟨⟨by simp, by simp⟩, by rfl⟩

theorem useFlagChar_facts {c : Nat} (h : isUseFlagChar c = true) :
    32 < c ∧ c ≠ 40 ∧ c ≠ 41 ∧ c ≠ 124 ∧ c ≠ 94 ∧ c ≠ 63 ∧ c ≠ 33 := by
  simp [isUseFlagChar, isAlnum, isLower, isUpper, isDigit] at h
  omega

/-- `flag?` -/
theorem tok_use {fl : Bytes} (h : FlagOK fl) :
    IsTok (fl ++ [63]) ∧ classify (fl ++ [63]) = .ok (.whenUseSet, fl, (fl ++ [63]).length) := by
  obtain ⟨hne, hall⟩ := h
  constructor
  · refine ⟨by simp, ?_⟩
    intro b hb
    simp at hb
    cases hb with
    | inl hb => exact (useFlagChar_facts (hall b hb)).1
    | inr hb => omega
  · cases fl with
    | nil => exact absurd rfl hne
    | cons c cs =>
      have hc := useFlagChar_facts (hall c (by simp))
      have hall' : (c :: cs).all isUseFlagChar = true := by
        simp only [List.all_eq_true]; exact hall
      have hl : (c :: (cs ++ [63])).getLast? = some 63 := by
        have := List.getLast?_concat (l := c :: cs) (a := 63); simpa using this
      have hd : (c :: (cs ++ [63])).dropLast = c :: cs := by
        have := List.dropLast_concat (l₁ := c :: cs) (b := 63); simpa using this
      unfold classify
      simp [peek, hc, hall']
      rw [hl, hd]
      simp
      exact ⟨hall c (by simp), fun x hx => hall x (by simp [hx])⟩

/-- `!flag?` -/
theorem tok_nuse {fl : Bytes} (h : FlagOK fl) :
    IsTok (33 :: fl ++ [63]) ∧
    classify (33 :: fl ++ [63]) = .ok (.whenUseUnset, fl, (33 :: fl ++ [63]).length) := by
  obtain ⟨hne, hall⟩ := h
  constructor
  · refine ⟨by simp, ?_⟩
    intro b hb
    simp at hb
    rcases hb with hb | hb | hb
    · omega
    · exact (useFlagChar_facts (hall b hb)).1
    · omega
  · cases fl with
    | nil => exact absurd rfl hne
    | cons c cs =>
      have hall' : (c :: cs).all isUseFlagChar = true := by
        simp only [List.all_eq_true]; exact hall
      have hl : (c :: (cs ++ [63])).getLast? = some 63 := by
        have := List.getLast?_concat (l := c :: cs) (a := 63); simpa using this
      have hd : (c :: (cs ++ [63])).dropLast = c :: cs := by
        have := List.dropLast_concat (l₁ := c :: cs) (b := 63); simpa using this
      unfold classify
      simp [peek, hall']
      rw [hl, hd]
      simp
      exact ⟨hall c (by simp), fun x hx => hall x (by simp [hx])⟩

/-! ### one token of a layout under `getToken` -/

theorem tok_step {tok : Bytes} {ts : List Bytes} {s : Bytes} {ty : TokType} {flag : Bytes}
    (h : Lay (tok :: ts) s) (ht : IsTok tok) (hc : classify tok = .ok (ty, flag, tok.length)) :
    ∃ r, Lay ts r ∧ peek r ≤ 32 ∧ r.length < s.length ∧ getToken s = .ok (ty, flag, r) := by
  obtain ⟨w, r, rfl, hw, hl, hr⟩ := lay_cons_inv h
  refine ⟨r, hl, hr, ?_, ?_⟩
  · have : 0 < tok.length := List.length_pos_iff.mpr ht.1
    simp; omega
  · rw [getToken_lay hw ht hr, hc]
    simp

theorem atom_step {tok : Bytes} {ts : List Bytes} {s : Bytes}
    (h : Lay (tok :: ts) s) (ht : IsTok tok) (hc : classify tok = .ok (.testForAtom, [], 0)) :
    ∃ r, Lay ts r ∧ peek r ≤ 32 ∧ r.length < s.length ∧
      getToken s = .ok (.testForAtom, [], tok ++ r) := by
  obtain ⟨w, r, rfl, hw, hl, hr⟩ := lay_cons_inv h
  refine ⟨r, hl, hr, ?_, ?_⟩
  · have : 0 < tok.length := List.length_pos_iff.mpr ht.1
    simp; omega
  · rw [getToken_lay hw ht hr, hc]
    simp

/-! ### the round trip, by mutual structural induction over the tree -/

def DepProp (f : AtomAst → ParsedAtom) (d : Dep) : Prop :=
  ∀ (more : List Bytes) (s : Bytes) (depth n : Nat),
    Lay (d.toks ++ more) s → 2 * s.length + 1 ≤ n →
    ∃ s', Lay more s' ∧ peek s' ≤ 32 ∧ s'.length < s.length ∧
      decodeDep n depth s = .ok (some (embed f d), s')

def ListProp (f : AtomAst → ParsedAtom) (ds : DepL) : Prop :=
  ∀ (more : List Bytes) (s : Bytes) (depth n : Nat),
    Lay (ds.toks ++ b!")" :: more) s → 2 * s.length + 2 ≤ n →
    ∃ s', Lay more s' ∧ peek s' ≤ 32 ∧ s'.length < s.length ∧
      decodeSeq n (depth + 1) s = .ok (embedL f ds, s')

theorem open_group {f : AtomAst → ParsedAtom} {ds : DepL} (H : ListProp f ds)
    (more : List Bytes) (s : Bytes) (depth n : Nat)
    (hl : Lay (b!"(" :: (ds.toks ++ b!")" :: more)) s) (hn : 2 * s.length + 1 ≤ n) :
    ∃ s', Lay more s' ∧ peek s' ≤ 32 ∧ s'.length < s.length ∧
      decodeDep n depth s = .ok (some (.cond pkgDepAll [] (embedL f ds)), s') := by
  obtain ⟨r, hlr, _, hlen, hg⟩ := tok_step hl tok_open.1 tok_open.2
  cases n with
  | zero => omega
  | succ n' =>
    obtain ⟨s', h1, h2, h3, h4⟩ := H more r depth n' hlr (by omega)
    refine ⟨s', h1, h2, by omega, ?_⟩
    simp only [decodeDep, hg, h4]

theorem op_group {f : AtomAst → ParsedAtom} {ds : DepL} (H : ListProp f ds)
    {tok : Bytes} {ty : TokType} (ht : IsTok tok) (hc : classify tok = .ok (ty, [], tok.length))
    (hty : ty = .anyOf ∨ ty = .exactlyOneOf ∨ ty = .atMostOneOf)
    (more : List Bytes) (s : Bytes) (depth n : Nat)
    (hl : Lay (tok :: b!"(" :: (ds.toks ++ b!")" :: more)) s) (hn : 2 * s.length + 1 ≤ n) :
    ∃ s', Lay more s' ∧ peek s' ≤ 32 ∧ s'.length < s.length ∧
      decodeDep n depth s = .ok (some (.cond (toktypeToPkgDep ty) [] (embedL f ds)), s') := by
  obtain ⟨r, hlr, _, hlen, hg⟩ := tok_step hl ht hc
  cases n with
  | zero => omega
  | succ n' =>
    obtain ⟨s', h1, h2, h3, h4⟩ := open_group H more r depth n' hlr (by omega)
    refine ⟨s', h1, h2, by omega, ?_⟩
    rcases hty with rfl | rfl | rfl <;> simp [decodeDep, hg, h4, pkgDepAll]

theorem use_group {f : AtomAst → ParsedAtom} {ds : DepL} (H : ListProp f ds)
    {tok fl : Bytes} {ty : TokType} (ht : IsTok tok) (hc : classify tok = .ok (ty, fl, tok.length))
    (hty : ty = .whenUseSet ∨ ty = .whenUseUnset)
    (more : List Bytes) (s : Bytes) (depth n : Nat)
    (hl : Lay (tok :: b!"(" :: (ds.toks ++ b!")" :: more)) s) (hn : 2 * s.length + 1 ≤ n) :
    ∃ s', Lay more s' ∧ peek s' ≤ 32 ∧ s'.length < s.length ∧
      decodeDep n depth s = .ok (some (.cond (toktypeToPkgDep ty) fl (embedL f ds)), s') := by
  obtain ⟨r, hlr, _, hlen, hg⟩ := tok_step hl ht hc
  cases n with
  | zero => omega
  | succ n' =>
    obtain ⟨s', h1, h2, h3, h4⟩ := open_group H more r depth n' hlr (by omega)
    refine ⟨s', h1, h2, by omega, ?_⟩
    rcases hty with rfl | rfl <;> simp [decodeDep, hg, h4, pkgDepAll]

mutual
theorem dep_prop (f : AtomAst → ParsedAtom) : (d : Dep) → TreeOK f d → DepProp f d
  | .atom a, ok => by
    intro more s depth n hl hn
    obtain ⟨htok, hcls, hparse⟩ := ok
    obtain ⟨r, hlr, hr, hlen, hg⟩ := atom_step hl htok hcls
    cases n with
    | zero => omega
    | succ n' =>
      refine ⟨r, hlr, hr, hlen, ?_⟩
      have hp := hparse r hr
      have hnot : ¬ (32 < peek r) := by omega
      simp [decodeDep, hg, hp, embed, hnot]
  | .allOf ds, ok => by
    intro more s depth n hl hn
    have H := depl_prop f ds ok
    simpa [embed] using open_group H more s depth n (by simpa [Dep.toks] using hl) hn
  | .anyOf ds, ok => by
    intro more s depth n hl hn
    have H := depl_prop f ds ok
    simpa [embed, toktypeToPkgDep] using
      op_group H tok_any.1 tok_any.2 (Or.inl rfl) more s depth n (by simpa [Dep.toks] using hl) hn
  | .exactlyOne ds, ok => by
    intro more s depth n hl hn
    have H := depl_prop f ds ok
    simpa [embed, toktypeToPkgDep] using
      op_group H tok_one.1 tok_one.2 (Or.inr (Or.inl rfl)) more s depth n
        (by simpa [Dep.toks] using hl) hn
  | .atMostOne ds, ok => by
    intro more s depth n hl hn
    have H := depl_prop f ds ok
    simpa [embed, toktypeToPkgDep] using
      op_group H tok_most.1 tok_most.2 (Or.inr (Or.inr rfl)) more s depth n
        (by simpa [Dep.toks] using hl) hn
  | .useCond fl neg ds, ok => by
    intro more s depth n hl hn
    have H := depl_prop f ds ok.2
    cases neg with
    | false =>
      have := use_group H (tok_use ok.1).1 (tok_use ok.1).2 (Or.inl rfl) more s depth n
        (by simpa [Dep.toks] using hl) hn
      simpa [embed, toktypeToPkgDep] using this
    | true =>
      have := use_group H (tok_nuse ok.1).1 (tok_nuse ok.1).2 (Or.inr rfl) more s depth n
        (by simpa [Dep.toks] using hl) hn
      simpa [embed, toktypeToPkgDep] using this
theorem depl_prop (f : AtomAst → ParsedAtom) : (ds : DepL) → TreeLOK f ds → ListProp f ds
  | .nil, _ => by
    intro more s depth n hl hn
    obtain ⟨r, hlr, hr, hlen, hg⟩ := tok_step (by simpa [DepL.toks] using hl) tok_close.1 tok_close.2
    match n, hn with
    | n' + 2, _ =>
      refine ⟨r, hlr, hr, hlen, ?_⟩
      simp [decodeSeq, decodeDep, hg, embedL]
  | .cons d ds, ok => by
    intro more s depth n hl hn
    have hl' : Lay (d.toks ++ (ds.toks ++ b!")" :: more)) s := by
      simpa [DepL.toks, List.append_assoc] using hl
    cases n with
    | zero => omega
    | succ n' =>
      obtain ⟨s1, h1, _, h3, h4⟩ := dep_prop f d ok.1 _ s (depth + 1) n' hl' (by omega)
      obtain ⟨s2, g1, g2, g3, g4⟩ := depl_prop f ds ok.2 more s1 depth n' h1 (by omega)
      refine ⟨s2, g1, g2, by omega, ?_⟩
      simp [decodeSeq, h4, g4, embedL]
end

/-- top level (depth 0): the list ends at the end of input -/
theorem top_prop (f : AtomAst → ParsedAtom) : (ds : DepL) → TreeLOK f ds →
    ∀ (s : Bytes) (n : Nat), Lay ds.toks s → 2 * s.length + 2 ≤ n →
      ∃ s', decodeSeq n 0 s = .ok (embedL f ds, s')
  | .nil, _ => by
    intro s n hl hn
    have hw : IsWs s := by cases hl with | nil h => exact h
    match n, hn with
    | n' + 2, _ =>
      exact ⟨[], by simp [decodeSeq, decodeDep, getToken_ws hw, embedL]⟩
  | .cons d ds, ok => by
    intro s n hl hn
    cases n with
    | zero => omega
    | succ n' =>
      obtain ⟨s1, h1, _, h3, h4⟩ := dep_prop f d ok.1 ds.toks s 0 n' (by simpa [DepL.toks] using hl) (by omega)
      obtain ⟨s2, g⟩ := top_prop f ds ok.2 s1 n' h1 (by omega)
      exact ⟨s2, by simp [decodeSeq, h4, g, embedL]⟩

/-- **dep_roundtrip** (full, relative to `AtomOK` for the atoms of the tree).
    For EVERY dependency tree list `t` (any nesting, all group kinds, empty groups) whose
    atoms are read correctly by the atom parser, and EVERY whitespace layout `s` of its token
    sequence, `DecodeDependencies s` returns exactly `t`. -/
theorem dep_roundtrip (f : AtomAst → ParsedAtom) (t : DepL) (ok : TreeLOK f t) (s : Bytes)
    (h : Lay t.toks s) : decodeDependencies s = .ok (embedL f t) := by
  obtain ⟨s', hs⟩ := top_prop f t ok s (fuelFor s) h (by simp [fuelFor])
  simp [decodeDependencies, hs]

theorem lay_prepend {ts : List Bytes} {r w : Bytes} (hw : IsWs w) (h : Lay ts r) : Lay ts (w ++ r) := by
  cases h with
  | nil h' =>
    exact Lay.nil (fun b hb => by
      simp at hb; cases hb with
      | inl hb => exact hw b hb
      | inr hb => exact h' b hb)
  | cons hw' hl hr =>
    rename_i w' tok ts' r'
    have : w ++ (w' ++ tok ++ r') = (w ++ w') ++ tok ++ r' := by simp
    rw [this]
    exact Lay.cons (fun b hb => by
      simp at hb; cases hb with
      | inl hb => exact hw b hb
      | inr hb => exact hw' b hb) hl hr

/-- the canonical printed form (single spaces) is a layout -/
theorem lay_print : (ts : List Bytes) → Lay ts (joinWith 32 ts)
  | [] => Lay.nil (by intro b hb; simp [joinWith] at hb)
  | [x] => by
    have : joinWith 32 [x] = [] ++ x ++ [] := by simp [joinWith]
    rw [this]
    exact Lay.cons (by intro b hb; simp at hb) (Lay.nil (by intro b hb; simp at hb)) (by simp [peek])
  | x :: y :: rest => by
    have : joinWith 32 (x :: y :: rest) = [] ++ x ++ ([32] ++ joinWith 32 (y :: rest)) := by
      simp [joinWith]
    rw [this]
    exact Lay.cons (by intro b hb; simp at hb)
      (lay_prepend (by intro b hb; simp at hb; omega) (lay_print (y :: rest))) (by simp [peek])

/-- **dep_roundtrip_print**: `decode (print t) = ok t`. -/
theorem dep_roundtrip_print (f : AtomAst → ParsedAtom) (t : DepL) (ok : TreeLOK f t) :
    decodeDependencies (printDeps t) = .ok (embedL f t) :=
  dep_roundtrip f t ok _ (lay_print _)

/-! ### unbalanced parentheses are errors -/

/-- inside a group (depth > 0) the end of input is an error -/
theorem unclosed_prop (f : AtomAst → ParsedAtom) : (ds : DepL) → TreeLOK f ds →
    ∀ (s : Bytes) (depth n : Nat), Lay ds.toks s → 2 * s.length + 2 ≤ n →
      decodeSeq n (depth + 1) s = Res.err "missing-close"
  | .nil, _ => by
    intro s depth n hl hn
    have hw : IsWs s := by cases hl with | nil h => exact h
    match n, hn with
    | n' + 2, _ => simp [decodeSeq, decodeDep, getToken_ws hw, Res.err]
  | .cons d ds, ok => by
    intro s depth n hl hn
    cases n with
    | zero => omega
    | succ n' =>
      obtain ⟨s1, h1, _, h3, h4⟩ := dep_prop f d ok.1 ds.toks s (depth + 1) n' (by simpa [DepL.toks] using hl) (by omega)
      have g := unclosed_prop f ds ok.2 s1 depth n' h1 (by omega)
      simp [decodeSeq, h4, g, Res.err]

/-- after complete trees, a `)` at top level (depth 0) is an error, whatever follows -/
theorem stray_prop (f : AtomAst → ParsedAtom) : (ds : DepL) → TreeLOK f ds →
    ∀ (more : List Bytes) (s : Bytes) (n : Nat), Lay (ds.toks ++ b!")" :: more) s → 2 * s.length + 2 ≤ n →
      decodeSeq n 0 s = Res.err "unbalanced-close"
  | .nil, _ => by
    intro more s n hl hn
    obtain ⟨r, _, _, _, hg⟩ := tok_step (by simpa [DepL.toks] using hl) tok_close.1 tok_close.2
    match n, hn with
    | n' + 2, _ => simp [decodeSeq, decodeDep, hg, Res.err]
  | .cons d ds, ok => by
    intro more s n hl hn
    cases n with
    | zero => omega
    | succ n' =>
      obtain ⟨s1, h1, _, h3, h4⟩ := dep_prop f d ok.1 (ds.toks ++ b!")" :: more) s 0 n'
        (by simpa [DepL.toks, List.append_assoc] using hl) (by omega)
      have g := stray_prop f ds ok.2 more s1 n' h1 (by omega)
      simp [decodeSeq, h4, g, Res.err]

/-- **decode_rejects_unbalanced** (stray `)`): well-formed trees followed by a closing
    parenthesis at top level are rejected, whatever comes after it. -/
theorem decode_rejects_stray_close (f : AtomAst → ParsedAtom) (t : DepL) (ok : TreeLOK f t)
    (more : List Bytes) (s : Bytes) (h : Lay (t.toks ++ b!")" :: more) s) :
    decodeDependencies s = Res.err "unbalanced-close" := by
  have := stray_prop f t ok more s (fuelFor s) h (by simp [fuelFor])
  simp [decodeDependencies, this, Res.err]

/-- **decode_rejects_unbalanced** (missing `)`): well-formed trees followed by a group that
    is opened and whose members are complete but which is never closed are rejected. -/
theorem decode_rejects_missing_close (f : AtomAst → ParsedAtom) (t inner : DepL)
    (ok : TreeLOK f t) (oki : TreeLOK f inner) (s : Bytes)
    (h : Lay (t.toks ++ b!"(" :: inner.toks) s) :
    decodeDependencies s = Res.err "missing-close" := by
  have key : ∀ (ds : DepL), TreeLOK f ds → ∀ (s : Bytes) (n : Nat),
      Lay (ds.toks ++ b!"(" :: inner.toks) s → 2 * s.length + 2 ≤ n →
      decodeSeq n 0 s = Res.err "missing-close" := by
    intro ds
    induction ds using DepL.rec (motive_1 := fun _ => True) with
    | atom | allOf | anyOf | exactlyOne | atMostOne | useCond => trivial
    | nil =>
      intro _ s n hl hn
      obtain ⟨r, hlr, _, hlen, hg⟩ := tok_step (by simpa [DepL.toks] using hl) tok_open.1 tok_open.2
      match n, hn with
      | n' + 2, _ =>
        have g := unclosed_prop f inner oki r 0 n' hlr (by omega)
        simp [decodeSeq, decodeDep, hg, g, Res.err]
    | cons d ds _ ih =>
      intro okc s n hl hn
      cases n with
      | zero => omega
      | succ n' =>
        obtain ⟨s1, h1, _, h3, h4⟩ := dep_prop f d okc.1 (ds.toks ++ b!"(" :: inner.toks) s 0 n'
          (by simpa [DepL.toks, List.append_assoc] using hl) (by omega)
        have g := ih okc.2 s1 n' h1 (by omega)
        simp [decodeSeq, h4, g, Res.err]
  have := key t ok s (fuelFor s) h (by simp [fuelFor])
  simp [decodeDependencies, this, Res.err]

/-! ### no input makes the decoder panic -/

theorem no_panic_aux : ∀ n : Nat,
    (∀ depth ac, decodeDep n depth ac ≠ .error .panic) ∧
    (∀ depth ac, decodeSeq n depth ac ≠ .error .panic) := by
  intro n
  induction n with
  | zero =>
    constructor <;> (intro depth ac h; simp [decodeDep, decodeSeq, fuelOut] at h)
  | succ n ih =>
    constructor
    · intro depth ac h
      unfold decodeDep at h
      repeat' split at h
      all_goals first
        | (simp [Res.err] at h; done)
        | (simp at h; subst h; exact absurd ‹getToken _ = _› (getToken_no_panic _))
        | (simp at h; subst h; exact absurd ‹decodeDep _ _ _ = _› (ih.1 _ _))
        | (simp at h; subst h; exact absurd ‹decodeSeq _ _ _ = _› (ih.2 _ _))
        | (simp at h; subst h; exact absurd ‹rawParseAtomAtCursor _ _ _ = _› (rawParse_no_panic _ _ _))
    · intro depth ac h
      unfold decodeSeq at h
      repeat' split at h
      all_goals first
        | (simp [Res.err] at h; done)
        | (simp at h; subst h; exact absurd ‹decodeDep _ _ _ = _› (ih.1 _ _))
        | (simp at h; subst h; exact absurd ‹decodeSeq _ _ _ = _› (ih.2 _ _))

/-- **decode_total**: for EVERY byte string the outcome of `DecodeDependencies` is a value or
    an error, never a panic (index out of range, nil dereference, failed type assertion). -/
theorem decode_total (buf : Bytes) : decodeDependencies buf ≠ .error .panic := by
  intro h
  unfold decodeDependencies at h
  split at h
  · simp at h
  · rename_i e he
    simp at h; subst h
    exact (no_panic_aux _).2 _ _ he

/-- the atom parser never panics either, in any context -/
theorem atom_parse_total (s : Bytes) (vnr dep : Bool) :
    rawParseAtomAtCursor s vnr dep ≠ .error .panic := rawParse_no_panic s vnr dep

/-! ### the name/version boundary -/

/-- **version_split_partial**: for every name and every complete version `v`, the split of
    `name-v` is `(name, v)`, PROVIDED no earlier hyphen of the name starts a text that,
    continued by `-v`, is itself a complete version (hypothesis `hno`, decidable for a given
    name).  What is missing for the full statement: a mechanised proof that `hno` always
    holds because a version has at most one hyphen and it must be followed by `r`, whereas
    `v` starts with a digit (argument in REPORT.md; confirmed by the equivalent-mutant run
    with a greedy prefix). -/
theorem version_split_partial (name v : Bytes) (vm : VerMatch) (hv : matchVersion v = some vm)
    (hno : ∀ pre x, name = pre ++ 45 :: x → matchVersion (x ++ 45 :: v) = none) :
    findVersion (name ++ 45 :: v) = some (name, vm) := by
  induction name with
  | nil => simp [findVersion, hv]
  | cons c cs ih =>
    have ih' := ih (fun pre x h => hno (c :: pre) x (by simp [h]))
    by_cases hc : c = 45
    · subst hc
      have := hno [] cs (by simp)
      simp [findVersion, this, ih']
    · simp [findVersion, hc, ih']

-- instance: dev-libs/foo-1-bar-2.3 (the hypothesis is checked by evaluation)
example : findVersion (b!"foo-1-bar" ++ 45 :: b!"2.3") = some (b!"foo-1-bar", ⟨b!"2.3", [], [], false⟩) :=
  version_split_partial _ _ _ (by rfl) (by
    intro pre x h
    have : x = b!"1-bar" ∨ x = b!"bar" := by
      rcases pre with _ | ⟨p0, _ | ⟨p1, _ | ⟨p2, _ | ⟨p3, _ | ⟨p4, _ | ⟨p5, _ | ⟨p6, _ | ⟨p7, _ | ⟨p8, pre⟩⟩⟩⟩⟩⟩⟩⟩⟩ <;>
        simp at h <;> simp_all
    rcases this with rfl | rfl <;> rfl)

/-! ### non-vacuity and witnesses (kernel-evaluated on the model) -/

/-- a tree without atoms satisfies the hypotheses of `dep_roundtrip` for any `f` -/
example (f : AtomAst → ParsedAtom) :
    TreeLOK f (.cons (.anyOf (.cons (.useCond b!"foo" true (.cons (.allOf .nil) .nil)) .nil)) .nil) := by
  refine ⟨⟨⟨⟨by simp, ?_⟩, ⟨trivial, trivial⟩⟩, trivial⟩, trivial⟩
  intro b hb
  simp at hb
  rcases hb with rfl | rfl | rfl <;> rfl

-- the inputs that used to panic or to be mis-accepted (corpus/C14/defects.jsonl), after the fixes
example : decodeDependencies b!"foo?" = Res.err "missing-after-use" := by rfl
example : decodeDependencies b!"foo? )" = Res.err "unbalanced-close" := by rfl
example : decodeDependencies b!"|| a/b" = Res.err "invalid-after-group-op" := by rfl
example : decodeDependencies b!"a/b ) c/d" = Res.err "unbalanced-close" := by rfl
example : decodeDependencies b!"( a/b" = Res.err "missing-close" := by rfl
example : decodeDependencies b!"a/b[x]c/d" = Res.err "after-atom" := by rfl
example : (decodeDependencies b!"|| ( a/b )").isOk = true := by rfl

-- the name/version boundary on names with digits and hyphens
example : findVersion b!"foo-1-bar-2.3" = some (b!"foo-1-bar", ⟨b!"2.3", [], [], false⟩) := by rfl
example : findVersion b!"gtk+-2.24" = some (b!"gtk+", ⟨b!"2.24", [], [], false⟩) := by rfl
example : findVersion b!"libsdl2-2.0.1-r1" = some (b!"libsdl2", ⟨b!"2.0.1", [], b!"r1", false⟩) := by rfl
example : findVersion b!"font-adobe-100dpi" = none := by rfl

end Lc.Props.C14
