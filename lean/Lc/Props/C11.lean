/-
  C11 — a layer's mount configuration survives rewrites and crashes intact.

  (1) read_write_read: for EVERY byte string (any number/order of base/import/export
      lines, comments, blank lines, odd spacing, extra fields, any UTF-8 or invalid
      UTF-8), writing out what ReadLayerFile loaded and reading it back gives the same
      base, imports and exports in the same order.
  (2) rewrite_changes_only_base: what rename/rebase/add write differs from what was
      loaded only in the base name.
  (3) crash_atomic: WriteLayerfile (temp file + rename, after fix ae7b7b4) changes the
      node at the layerconfig path only by its final rename: at every exit other than
      the normal one — crash or fault at any operation index, any file-system error —
      every path except `<layerconfig>.new` holds what it held before; at the normal
      exit the layerconfig holds exactly the complete new text.  Lifted to the three
      rewriting commands as wholes, every exit (normal, error, injected fault, crash at any
      operation index): rebase (crash_atomic_rebase), add (crash_atomic_add,
      crash_atomic_add_own, crash_atomic_add_others, add_keeps_existing) and rename
      (crash_atomic_rename_paths_partial, crash_atomic_rename_partial: every layerconfig —
      of a child, of the renamed layer at its old or new place, of an unrelated layer — is
      its complete previous or its complete new version; `_partial` for the explicit side
      condition that the path is not at or below one of the two automatic export links).
      `crash_atomic_rename_paths`, `crash_atomic_rename`: the same without that side
      condition, under the decidable condition `ExportsApart cfg` on the configuration
      (Lemmas/ExportsApart; the default configuration satisfies it).
-/
import Lc.Lemmas.LayerfileRW
import Lc.Lemmas.LayerfileScanner
import Lc.Lemmas.WriteLayerFile
import Lc.Lemmas.CrashAdd
import Lc.Lemmas.CrashRename

namespace Lc.Props.C11
open Lc Lc.Layers Lc.Layerfile Lc.Lemmas.Runes Lc.Lemmas.LayerfileRW Lc.Lemmas.WriteLF

/-! ### (1) read → write → read -/

/-- For every file content: ReadLayerFile ∘ WriteLayerfile ∘ ReadLayerFile gives the
    same base, imports and exports (in order) as ReadLayerFile; the rewritten file never
    produces a message. -/
theorem read_write_read_any (content : Bytes) :
    readLayerFile (render (readLayerFile content)) = { readLayerFile content with nmsgs := 0 } :=
  read_render _ (readLayerFile_wf content)

/-- The property as stated: every layerconfig text that loads without messages is a
    fixed point of read → write → read.  Full generality: all byte strings (Go's
    rune decoding with U+FFFD for invalid sequences, unicode.IsSpace), all line
    structures. -/
theorem read_write_read (content : Bytes) (h : (readLayerFile content).nmsgs = 0) :
    readLayerFile (render (readLayerFile content)) = readLayerFile content := by
  rw [read_write_read_any]
  cases hr : readLayerFile content with
  | mk b m e n => rw [hr] at h; simp at h; subst h; rfl

/-- non-vacuity: odd spacing, tabs, comments, extra fields, `..`, `//`, trailing slash,
    a repeated base line and a non-ASCII path load without message and are not already
    in canonical form -/
example :
    let c := b!"  base\tx \n# c\n//d\n\nimport  rbind   /a/../b  //c/ extra\nbase x\nexport bind $$self/x/ /é\n"
    (readLayerFile c).nmsgs = 0 ∧ render (readLayerFile c) ≠ c ∧
      (readLayerFile c).mounts = [⟨b!"/c", b!"/b", b!"rbind"⟩] := by decide

/-- the writer is a function of (base, imports, exports) only -/
theorem render_depends_only (a b : LayerFile) (h1 : a.base = b.base) (h2 : a.mounts = b.mounts)
    (h3 : a.exports = b.exports) : render a = render b := by
  unfold render writeChunks; rw [h1, h2, h3]

/-! ### (2) rewrites change only the base -/

/-- rebase and the children of a renamed layer: `{ k with base := b }` -/
theorem toLayerFile_with_base (k : Layer) (b : Bytes) :
    toLayerFile { k with base := b } = { toLayerFile k with base := b } := rfl

/-- the renamed layer itself is written out unchanged -/
theorem toLayerFile_renamed (l : Layer) (n p : Bytes) :
    toLayerFile { l with name := n, layerPath := p } = toLayerFile l := rfl

/-- A layer that was loaded from `content` and is rewritten with base `nb` (rename of its
    parent, rebase) reads back with the same imports and exports in the same order and
    with base `nb`; nothing else changes.  `nb` is empty or a white-space-free token
    (layer names are letters, digits, '_' and '-'). -/
theorem rewrite_changes_only_base (cfg : Config) (n content nb : Bytes) (hnb : nb = [] ∨ Tok nb) :
    readLayerFile (render (toLayerFile { layerOfFile cfg n (readLayerFile content) with base := nb }))
      = { base := nb, mounts := (readLayerFile content).mounts,
          exports := (readLayerFile content).exports, nmsgs := 0 } := by
  have hwf := readLayerFile_wf content
  have : WF (toLayerFile { layerOfFile cfg n (readLayerFile content) with base := nb }) :=
    ⟨hnb, hwf.2.1, hwf.2.2⟩
  rw [read_render _ this]
  rfl

/-- and with the base left alone (the renamed layer, `add` from a parent's lists) the
    re-read equals the original load up to the message count -/
theorem rewrite_same_base (cfg : Config) (n content : Bytes) :
    readLayerFile (render (toLayerFile (layerOfFile cfg n (readLayerFile content))))
      = { readLayerFile content with nmsgs := 0 } := by
  have hwf := readLayerFile_wf content
  have : WF (toLayerFile (layerOfFile cfg n (readLayerFile content))) := hwf
  rw [read_render _ this]
  rfl

example : Tok b!"new-base_1" := by constructor <;> decide

/-! ### (3) crashes -/

/-- WriteLayerfile under every world (any tree, any crash or fault index, pretending or
    not): if it does not return normally, every path other than `<layerconfig>.new` —
    in particular the layerconfig itself — holds exactly what it held before; if it
    returns normally and was not pretending, the layerconfig holds exactly the complete
    new text and nothing outside the layerconfig and its temporary file has changed. -/
theorem crash_atomic (l : Layer) (w0 : World) :
    match ((writeLayerFile l).run.run w0).1 with
    | .ok _ =>
      (w0.pretend = true ∧ ((writeLayerFile l).run.run w0).2.fs = w0.fs) ∨
      (w0.pretend = false ∧
        Fs.get ((writeLayerFile l).run.run w0).2.fs (layerconfigPath l) = some (.file (render (toLayerFile l))) ∧
        ∀ p, Fs.under (layerconfigPath l) p = false → Fs.under (layerconfigPath l ++ tmpSuffix) p = false →
          Fs.get ((writeLayerFile l).run.run w0).2.fs p = Fs.get w0.fs p)
    | .error _ =>
      ∀ p, p ≠ layerconfigPath l ++ tmpSuffix → Fs.get ((writeLayerFile l).run.run w0).2.fs p = Fs.get w0.fs p := by
  have h := extractBoth (writeLayerFile l) w0
    (fun _ w => w.pretend = w0.pretend ∧ ((w0.pretend = true ∧ w.fs = w0.fs) ∨ (w0.pretend = false ∧ Written l w0 w)))
    (fun w => Frame (tmpPath l) w0 w) (writeLayerFile_spec l w0)
  split at h <;> rename_i heq <;> rw [heq]
  · exact h.2
  · exact h.1

/-- non-vacuity: a crash at the second operation (the first write) leaves the old text in
    place and an empty temporary file; at the last operation (the rename) the old text and a
    complete temporary file; without crash the new text -/
def exLayer : Layer :=
  { name := b!"a", layerPath := b!"/l/a", cmounts := [⟨b!"/dev", b!"/dev", b!"rbind"⟩] }
def exWorld (crash : Option Nat) : World :=
  { fs := [(b!"/", .dir), (b!"/l", .dir), (b!"/l/a", .dir), (b!"/l/a/layerconfig", .file b!"old")],
    crashAt := crash }

example :
    let r := (writeLayerFile exLayer).run.run (exWorld (some 2))
    r.1.toBool = false ∧ Fs.get r.2.fs b!"/l/a/layerconfig" = some (.file b!"old") ∧
      Fs.get r.2.fs b!"/l/a/layerconfig.new" = some (.file []) := by decide

example :
    let r := (writeLayerFile exLayer).run.run (exWorld (some 3))
    r.1.toBool = false ∧ Fs.get r.2.fs b!"/l/a/layerconfig" = some (.file b!"old") ∧
      Fs.get r.2.fs b!"/l/a/layerconfig.new" = some (.file b!"import rbind /dev /dev\n") := by decide

example :
    let r := (writeLayerFile exLayer).run.run (exWorld none)
    r.1.toBool = true ∧ Fs.get r.2.fs b!"/l/a/layerconfig" = some (.file b!"import rbind /dev /dev\n") ∧
      Fs.get r.2.fs b!"/l/a/layerconfig.new" = none := by decide

/-- the layerconfig is never the temporary file -/
theorem tmp_ne_cfg (l : Layer) : layerconfigPath l ≠ layerconfigPath l ++ tmpSuffix := by
  intro h
  have := congrArg List.length h
  simp [tmpSuffix] at this

/-- corollary in the property's words: whatever happens, the layerconfig is its complete
    previous version or its complete new version -/
theorem crash_old_or_new (l : Layer) (w0 : World) :
    let w := ((writeLayerFile l).run.run w0).2
    Fs.get w.fs (layerconfigPath l) = Fs.get w0.fs (layerconfigPath l) ∨
    Fs.get w.fs (layerconfigPath l) = some (.file (render (toLayerFile l))) := by
  have h := crash_atomic l w0
  intro w
  split at h
  · rcases h with ⟨_, h⟩ | ⟨_, h, _⟩
    · left; show Fs.get ((writeLayerFile l).run.run w0).2.fs _ = _; rw [h]
    · right; exact h
  · left; exact h _ (tmp_ne_cfg l)

/-- rebase (the one rewriting command that performs nothing but the rewrite): at every
    exit the tree is unchanged, or only `<layerconfig>.new` differs (interrupted), or the
    layerconfig holds the complete new text and nothing else differs (done). -/
theorem crash_atomic_rebase (cfg : Config) (d : Defs) (name newbase : Bytes) (l : Layer) (w0 : World)
    (hl : findLayer d name = some l) :
    let l' : Layer := { l with base := newbase }
    let w := ((rebaseLayer cfg d name newbase).run.run w0).2
    (∀ p, p ≠ layerconfigPath l' ++ tmpSuffix → Fs.get w.fs p = Fs.get w0.fs p) ∨
    (Fs.get w.fs (layerconfigPath l') = some (.file (render (toLayerFile l'))) ∧
      ∀ p, Fs.under (layerconfigPath l') p = false → Fs.under (layerconfigPath l' ++ tmpSuffix) p = false →
        Fs.get w.fs p = Fs.get w0.fs p) := by
  intro l' w
  have h := extractBoth (rebaseLayer cfg d name newbase) w0
    (fun _ w => w.fs = w0.fs ∨ Written l' w0 w) (fun w => Frame (tmpPath l') w0 w)
    (rebaseLayer_spec cfg d name newbase l w0 hl)
  split at h
  · rcases h with h | h
    · left; intro p _; show Fs.get ((rebaseLayer cfg d name newbase).run.run w0).2.fs p = _; rw [h]
    · right; exact h
  · left; exact h.1

/-! ### (3b) the whole `add` command -/

open Lc.CrashAdd Lc.CrashRename Lc.LayerPaths Lc.FsMove Lc.RemoveLayer

/-- **add, every exit, every path.**  `addLayer` started in ANY world (any tree, any crash
    or fault index, pretending or not), whatever way it ends (normal return, error of any
    kind, injected fault, crash at any operation): every path `p` other than the temporary
    file `<new>/layerconfig.new` (and paths below it), the new base layer's `root/.bashrc`
    and paths strictly below the new layerconfig
      * holds exactly what it held before, or
      * held nothing and is now a directory (the directories `add` creates), or
      * is the new layer's layerconfig and holds exactly the complete new text: `render` of
        the requested base with the import/export lists `Plan` determines from the initial
        tree (configuration file / skeleton, else the parent's lists).
    In particular no path ever holds an empty or truncated layerconfig text.  No hypothesis. -/
theorem crash_atomic_add (cfg : Config) (d : Defs) (name base configFile : Bytes) (w0 : World) :
    let w := ((addLayer cfg d name base configFile).run.run w0).2
    let C := pathJoin [layerPath cfg name, b!"layerconfig"]
    let B := pathJoin [pathJoin [pathJoin [layerPath cfg name, cfg.buildRoot], b!"root"], b!".bashrc"]
    ∀ p, Fs.under (C ++ tmpSuffix) p = false → p ≠ B → (Fs.under C p = false ∨ p = C) →
      Fs.get w.fs p = Fs.get w0.fs p ∨
      (Fs.get w0.fs p = none ∧ Fs.get w.fs p = some .dir) ∨
      (p = C ∧ ∃ cm ce, Plan cfg d base configFile w0.fs cm ce ∧
        Fs.get w.fs p = some (.file (render (toLayerFile (newLayer cfg name base cm ce))))) := by
  intro w C B p hT hB hC
  rcases (addLayer_post cfg d name base configFile w0).2 p hT hB hC with h | h | ⟨hc, n, ⟨cm, ce, hpl, hn⟩, hg⟩
  · exact Or.inl h
  · exact Or.inr (Or.inl h)
  · exact Or.inr (Or.inr ⟨hc, cm, ce, hpl, by rw [hg, hn]⟩)

/-- the lists `Plan` admits are unique: "the complete new text" is one text -/
theorem add_plan_unique (cfg : Config) (d : Defs) (base configFile : Bytes) (fs0 : Fs.Tree)
    (cm ce cm' ce' : List NeededMount) (h : Plan cfg d base configFile fs0 cm ce)
    (h' : Plan cfg d base configFile fs0 cm' ce') : cm = cm' ∧ ce = ce' :=
  plan_unique cfg d base configFile fs0 cm ce cm' ce' h h'

/-- **add: the new layerconfig is never observed partial.**  At every exit the new layer's
    layerconfig path holds what it held before (nothing, normally), or a directory made where
    nothing was, or the complete new text.  No hypothesis. -/
theorem crash_atomic_add_own (cfg : Config) (d : Defs) (name base configFile : Bytes) (w0 : World) :
    let w := ((addLayer cfg d name base configFile).run.run w0).2
    let C := pathJoin [layerPath cfg name, b!"layerconfig"]
    Fs.get w.fs C = Fs.get w0.fs C ∨ (Fs.get w0.fs C = none ∧ Fs.get w.fs C = some .dir) ∨
    ∃ cm ce, Plan cfg d base configFile w0.fs cm ce ∧
      Fs.get w.fs C = some (.file (render (toLayerFile (newLayer cfg name base cm ce)))) :=
  add_own_layerconfig cfg d name base configFile w0

/-- **add: no other layer's layerconfig changes.**  For every layer `k` lying where
    `findLayers` puts layers (`Placed`: directory `<layerdirs>/<name>`, legal non-empty name —
    established by `readLayerFiles`, see `readLayerFiles_placed`) under another name: at
    every exit its layerconfig path holds what it held, or held nothing and is a directory. -/
theorem crash_atomic_add_others (cfg : Config) (d : Defs) (name base configFile : Bytes) (w0 : World)
    (k : Layer) (hk : Placed cfg k) (hne : k.name ≠ name) :
    let w := ((addLayer cfg d name base configFile).run.run w0).2
    Fs.get w.fs (layerconfigPath k) = Fs.get w0.fs (layerconfigPath k) ∨
    (Fs.get w0.fs (layerconfigPath k) = none ∧ Fs.get w.fs (layerconfigPath k) = some .dir) :=
  add_other_layerconfig cfg d name base configFile w0 k hk hne

/-- in the property's words: an EXISTING layerconfig (anything at all at the path) of another
    layer is found unchanged after `add`, however `add` ended -/
theorem add_keeps_existing (cfg : Config) (d : Defs) (name base configFile : Bytes) (w0 : World)
    (k : Layer) (hk : Placed cfg k) (hne : k.name ≠ name) (n : Fs.Node)
    (hex : Fs.get w0.fs (layerconfigPath k) = some n) :
    Fs.get ((addLayer cfg d name base configFile).run.run w0).2.fs (layerconfigPath k) = some n := by
  rcases crash_atomic_add_others cfg d name base configFile w0 k hk hne with h | ⟨h, _⟩
  · exact h.trans hex
  · rw [hex] at h; cases h

/-- what `findLayers` reads from a directory listing without an empty name is `Placed` -/
theorem findLayers_placed (cfg : Config) (fs : Fs.Tree) (names : List Bytes) (hne : [] ∉ names) :
    ∀ k ∈ readLayerFiles cfg fs names, Placed cfg k :=
  readLayerFiles_placed cfg fs names hne

/-- non-vacuity: `add n a` (lists copied from the parent `a`) with a crash at the fourth
    operation — mkdir, open, write "base a", [crash before the import line]: the run ends
    with the crash, the parent's layerconfig is untouched, the new layerconfig does not exist
    yet and the temporary file is partial.  Without a crash the new layerconfig is complete. -/
def exCfg : Config :=
  { basepath := b!"/b", layerdirs := b!"/l", buildRoot := b!"build", binPkg := b!"pk",
    generated := b!"gen", workdir := b!"work", upperdir := b!"upper", exportdirs := b!"/e",
    exportBinPkg := b!"p", exportGenerated := b!"g" }
def exParent : Layer :=
  { name := b!"a", layerPath := b!"/l/a", cmounts := [⟨b!"/dev", b!"/dev", b!"rbind"⟩] }
def exAddDefs : Defs := { layers := [exParent], order := [b!"a"] }
def exAddWorld (crash : Option Nat) : World :=
  { fs := [(b!"/", .dir), (b!"/l", .dir), (b!"/l/a", .dir),
           (b!"/l/a/layerconfig", .file b!"import rbind /dev /dev\n")],
    crashAt := crash }

example : Placed exCfg exParent ∧ exParent.name ≠ b!"n" ∧
    Fs.get (exAddWorld (some 4)).fs (layerconfigPath exParent) = some (.file b!"import rbind /dev /dev\n") := by
  unfold Placed; decide

example :
    let r := (addLayer exCfg exAddDefs b!"n" b!"a" []).run.run (exAddWorld (some 4))
    r.1.toBool = false ∧
    Fs.get r.2.fs b!"/l/a/layerconfig" = some (.file b!"import rbind /dev /dev\n") ∧
    Fs.get r.2.fs b!"/l/n" = some .dir ∧ Fs.get r.2.fs b!"/l/n/layerconfig" = none ∧
    Fs.get r.2.fs b!"/l/n/layerconfig.new" = some (.file b!"base a\n\n") := by decide

example :
    let r := (addLayer exCfg exAddDefs b!"n" b!"a" []).run.run (exAddWorld none)
    r.1.toBool = true ∧
    Fs.get r.2.fs b!"/l/n/layerconfig" = some (.file b!"base a\n\nimport rbind /dev /dev\n") ∧
    Fs.get r.2.fs b!"/l/n/layerconfig.new" = none := by decide

example : Plan exCfg exAddDefs b!"a" [] (exAddWorld none).fs exParent.cmounts exParent.cexports := by
  unfold Plan; exact ⟨exParent, by decide, rfl, rfl⟩

/-! ### (3c) the whole `rename` command -/

/-- **rename, every exit, every path.**  `renameLayer` started in ANY world (any tree, any
    crash or fault index, pretending or not), whatever way it ends.  `l` is the layer being
    renamed, lying where `findLayers` puts it (`Placed`).  Either
      * the directory has not been moved: every path not at/below one of the two automatic
        export links holds exactly what it held; or
      * it has been moved: every admissible path `p` (`Excl`: not at/below an export link —
        before and after the move —, not at/below a temporary file `<layerconfig>.new` of a
        rewritten layer, not strictly below a rewritten layerconfig) holds exactly what
        `getMoved` says — the initial tree seen through the move: below the new directory
        what was below the old one, nothing below the old one, everything else as it was —
        or `p` is the layerconfig of a rewritten layer (`Rewritten`: a child with `base`
        set to the new name, the renamed layer in its new directory) and holds exactly that
        layer's complete new text.
    `_partial`: only for the export-link side condition inside `Excl` (layout assumption: the
    export links are not ancestors of the paths spoken about; a link in the way is removed on
    purpose).  That layer directories of different legal names are not nested and that
    `<new>` is not `<old>` is PROVED from `Placed` and the name test (`Lemmas/LayerPaths`). -/
theorem crash_atomic_rename_paths_partial (cfg : Config) (d : Defs) (oldname newname : Bytes)
    (childOrder : List Bytes) (l : Layer) (w0 : World) (hl : findLayer d oldname = some l)
    (hpl : Placed cfg l) :
    let w := ((renameLayer cfg d oldname newname childOrder).run.run w0).2
    (∀ p, (∀ m ∈ exPaths cfg l, Fs.under m p = false) → Fs.get w.fs p = Fs.get w0.fs p) ∨
    (∀ p, Excl (exPaths cfg l) (Rewritten cfg d oldname newname l) l.layerPath (layerPath cfg newname) p →
      Fs.get w.fs p = getMoved w0.fs l.layerPath (layerPath cfg newname) p ∨
      ∃ k, Rewritten cfg d oldname newname l k ∧ p = layerconfigPath k ∧
        Fs.get w.fs p = some (.file (render (toLayerFile k)))) := by
  intro w
  rcases renameLayer_post cfg d oldname newname childOrder l w0 hl hpl with h | h
  · exact Or.inl h.2
  · exact Or.inr h

/-- **rename, every exit, layer by layer.**  `d` is a layer table as `findLayers` builds it
    (every layer `Placed`, names unique), `l` the layer being renamed.  Whatever way
    `renameLayer` ends — normal return, any error, injected fault, crash at ANY operation
    index, in particular between the directory move and a rewrite, between two children, in
    the middle of a write — either nothing but export links changed, or the directory was
    moved and
      * the renamed layer's layerconfig at its NEW place holds exactly what it held at the
        old place, or exactly its complete new text;
      * every child's layerconfig holds exactly what it held, or exactly its complete new
        text (same imports and exports, `base` = the new name);
      * every other layer's layerconfig holds exactly what it held.
    No layerconfig is ever empty or truncated.
    `_partial`: only for the side condition that the layerconfig paths spoken about are not
    at/below the renamed layer's two automatic export links (`exPaths`; layout assumption). -/
theorem crash_atomic_rename_partial (cfg : Config) (d : Defs) (oldname newname : Bytes)
    (childOrder : List Bytes) (l : Layer) (w0 : World) (hl : findLayer d oldname = some l)
    (hd : ∀ k ∈ d.layers, Placed cfg k)
    (hu : ∀ a ∈ d.layers, ∀ b ∈ d.layers, a.name = b.name → a = b) :
    let w := ((renameLayer cfg d oldname newname childOrder).run.run w0).2
    let l' : Layer := { l with name := newname, layerPath := layerPath cfg newname }
    (∀ p, (∀ m ∈ exPaths cfg l, Fs.under m p = false) → Fs.get w.fs p = Fs.get w0.fs p) ∨
    (((∀ m ∈ exPaths cfg l, Fs.under m (layerconfigPath l) = false) →
      (∀ m ∈ exPaths cfg l, Fs.under m (layerconfigPath l') = false) →
        Fs.get w.fs (layerconfigPath l') = Fs.get w0.fs (layerconfigPath l) ∨
        Fs.get w.fs (layerconfigPath l') = some (.file (render (toLayerFile l')))) ∧
     ∀ k ∈ d.layers, k.name ≠ oldname → (∀ m ∈ exPaths cfg l, Fs.under m (layerconfigPath k) = false) →
      (k.base = oldname →
        Fs.get w.fs (layerconfigPath k) = Fs.get w0.fs (layerconfigPath k) ∨
        Fs.get w.fs (layerconfigPath k) = some (.file (render (toLayerFile { k with base := newname })))) ∧
      (k.base ≠ oldname → Fs.get w.fs (layerconfigPath k) = Fs.get w0.fs (layerconfigPath k))) :=
  rename_layers cfg d oldname newname childOrder l w0 hl hd hu

/-- non-vacuity: `rename p q` with two children `c1`, `c2` and an unrelated layer `u`; the
    hypotheses hold (table placed, names unique, no layerconfig at/below an export link) -/
def exP : Layer := { name := b!"p", layerPath := b!"/l/p", cmounts := [⟨b!"/dev", b!"/dev", b!"rbind"⟩] }
def exC1 : Layer := { name := b!"c1", base := b!"p", layerPath := b!"/l/c1", cmounts := [⟨b!"/dev", b!"/dev", b!"rbind"⟩] }
def exC2 : Layer := { name := b!"c2", base := b!"p", layerPath := b!"/l/c2", cmounts := [⟨b!"/sys", b!"/sys", b!"rbind"⟩] }
def exU : Layer := { name := b!"u", layerPath := b!"/l/u" }
def exRenDefs : Defs := { layers := [exP, exC1, exC2, exU], order := [b!"p", b!"c1", b!"c2", b!"u"] }
def exRenWorld (crash : Option Nat) : World :=
  { fs := [(b!"/", .dir), (b!"/l", .dir), (b!"/e", .dir),
           (b!"/l/p", .dir), (b!"/l/p/layerconfig", .file b!"import rbind /dev /dev\n"),
           (b!"/l/c1", .dir), (b!"/l/c1/layerconfig", .file b!"base p\n\nimport rbind /dev /dev\n"),
           (b!"/l/c2", .dir), (b!"/l/c2/layerconfig", .file b!"base p\n\nimport rbind /sys /sys\n"),
           (b!"/l/u", .dir), (b!"/l/u/layerconfig", .file [])],
    crashAt := crash }

example : findLayer exRenDefs b!"p" = some exP ∧ (∀ k ∈ exRenDefs.layers, Placed exCfg k) ∧
    (∀ a ∈ exRenDefs.layers, ∀ b ∈ exRenDefs.layers, a.name = b.name → a = b) ∧
    (∀ k ∈ exRenDefs.layers, ∀ m ∈ exPaths exCfg exP, Fs.under m (layerconfigPath k) = false) ∧
    (∀ m ∈ exPaths exCfg exP, Fs.under m b!"/l/q/layerconfig" = false) := by
  unfold Placed; decide

/- the three runs below are evaluated by the kernel (`decide +kernel`: kernel reduction of the
   `Decidable` instance, no axiom beyond `propext`; the elaborator's `decide` needs minutes) -/

/-- a crash at operation 8 — 1 move `/l/p`→`/l/q`; 2-5 `c1` rewritten (open, two writes,
    rename); 6 open and 7 first write of `c2`'s temporary file; 8 [crash]: the run ends with
    the crash; `c1` holds its complete new text, `c2` its complete old text (its temporary
    file is partial), the renamed layer's layerconfig is found unchanged at the new place and
    gone from the old one, `u` is untouched -/
example :
    let r := (renameLayer exCfg exRenDefs b!"p" b!"q" [b!"c1", b!"c2"]).run.run (exRenWorld (some 8))
    r.1.toBool = false ∧
    Fs.get r.2.fs b!"/l/c1/layerconfig" = some (.file b!"base q\n\nimport rbind /dev /dev\n") ∧
    Fs.get r.2.fs b!"/l/c2/layerconfig" = some (.file b!"base p\n\nimport rbind /sys /sys\n") ∧
    Fs.get r.2.fs b!"/l/c2/layerconfig.new" = some (.file b!"base q\n\n") ∧
    Fs.get r.2.fs b!"/l/q/layerconfig" = some (.file b!"import rbind /dev /dev\n") ∧
    Fs.get r.2.fs b!"/l/p/layerconfig" = none ∧
    Fs.get r.2.fs b!"/l/u/layerconfig" = some (.file []) := by decide +kernel

/-- a crash at the very first operation (the move): nothing changed; no crash: all new -/
example :
    let r := (renameLayer exCfg exRenDefs b!"p" b!"q" [b!"c1", b!"c2"]).run.run (exRenWorld (some 1))
    r.1.toBool = false ∧ r.2.fs = (exRenWorld (some 1)).fs := by decide +kernel

example :
    let r := (renameLayer exCfg exRenDefs b!"p" b!"q" [b!"c2", b!"c1"]).run.run (exRenWorld none)
    r.1.toBool = true ∧
    Fs.get r.2.fs b!"/l/c1/layerconfig" = some (.file b!"base q\n\nimport rbind /dev /dev\n") ∧
    Fs.get r.2.fs b!"/l/c2/layerconfig" = some (.file b!"base q\n\nimport rbind /sys /sys\n") ∧
    Fs.get r.2.fs b!"/l/q/layerconfig" = some (.file b!"import rbind /dev /dev\n") := by decide +kernel

/-! ### (3d) rename without the export-link side condition -/

open Lc.ExportsApart

/-- **rename, every exit, every path of the layer directories** —
    `crash_atomic_rename_paths_partial` without its export-link clauses.  Hypotheses:
    `findLayer d oldname = some l`, `Placed cfg l` (established by `readLayerFiles`) and
    `ExportsApart cfg` (decidable, about exportdirs / exportBinPkg / exportGenerated / layerdirs
    only; holds for the default configuration).  Either every path in the layer directories
    (`InLayerDirs`: at or below some `<layerdirs>/<legal name>` or its `~removed`) holds what it
    held, or the directory has been moved and every such path that is not at/below a temporary
    file `<layerconfig>.new` of a rewritten layer and not strictly below a rewritten
    layerconfig holds what the initial tree seen through the move held (`getMoved`), or is a
    rewritten layer's layerconfig holding exactly its complete new text. -/
theorem crash_atomic_rename_paths (cfg : Config) (d : Defs) (oldname newname : Bytes)
    (childOrder : List Bytes) (l : Layer) (w0 : World) (hl : findLayer d oldname = some l)
    (hpl : Placed cfg l) (hA : ExportsApart cfg) :
    let w := ((renameLayer cfg d oldname newname childOrder).run.run w0).2
    (∀ p, InLayerDirs cfg p → Fs.get w.fs p = Fs.get w0.fs p) ∨
    (∀ p, InLayerDirs cfg p →
      (∀ k, Rewritten cfg d oldname newname l k →
        Fs.under (layerconfigPath k ++ tmpSuffix) p = false ∧
        (Fs.under (layerconfigPath k) p = false ∨ p = layerconfigPath k)) →
      Fs.get w.fs p = getMoved w0.fs l.layerPath (layerPath cfg newname) p ∨
      ∃ k, Rewritten cfg d oldname newname l k ∧ p = layerconfigPath k ∧
        Fs.get w.fs p = some (.file (render (toLayerFile k)))) := by
  intro w
  rcases renameLayer_post_apart cfg d oldname newname childOrder l w0 hl hpl hA with h | h
  · exact Or.inl h
  · exact Or.inr (fun p hin hk => h p ⟨hin, hk⟩)

/-- **rename, every exit, layer by layer** — `crash_atomic_rename_partial` without the
    export-link side condition: FULL under hypotheses the code and a decidable check of the
    configuration establish.  `d` is a table as `findLayers` builds it (every layer `Placed`,
    names unique), `ExportsApart cfg` holds.  Whatever way `renameLayer` ends — normal return,
    any error, injected fault, crash at ANY operation index — either nothing in the layer
    directories changed, or the directory was moved and
      * the renamed layer's layerconfig at its NEW place holds exactly what it held at the old
        place, or exactly its complete new text;
      * every child's layerconfig holds exactly what it held, or exactly its complete new text
        (same imports and exports, `base` = the new name);
      * every other layer's layerconfig holds exactly what it held. -/
theorem crash_atomic_rename (cfg : Config) (d : Defs) (oldname newname : Bytes)
    (childOrder : List Bytes) (l : Layer) (w0 : World) (hl : findLayer d oldname = some l)
    (hd : ∀ k ∈ d.layers, Placed cfg k)
    (hu : ∀ a ∈ d.layers, ∀ b ∈ d.layers, a.name = b.name → a = b) (hA : ExportsApart cfg) :
    let w := ((renameLayer cfg d oldname newname childOrder).run.run w0).2
    let l' : Layer := { l with name := newname, layerPath := layerPath cfg newname }
    (∀ p, InLayerDirs cfg p → Fs.get w.fs p = Fs.get w0.fs p) ∨
    ((Fs.get w.fs (layerconfigPath l') = Fs.get w0.fs (layerconfigPath l) ∨
      Fs.get w.fs (layerconfigPath l') = some (.file (render (toLayerFile l')))) ∧
     ∀ k ∈ d.layers, k.name ≠ oldname →
      (k.base = oldname →
        Fs.get w.fs (layerconfigPath k) = Fs.get w0.fs (layerconfigPath k) ∨
        Fs.get w.fs (layerconfigPath k) = some (.file (render (toLayerFile { k with base := newname })))) ∧
      (k.base ≠ oldname → Fs.get w.fs (layerconfigPath k) = Fs.get w0.fs (layerconfigPath k))) :=
  rename_layers_apart cfg d oldname newname childOrder l w0 hl hd hu hA

/-- non-vacuity: the hypotheses of both theorems hold for the example of section (3c) (whose
    runs, crashed at operation 8 / 1 / not at all, are evaluated above), and for the default
    configuration -/
example : ExportsApart exCfg ∧ findLayer exRenDefs b!"p" = some exP ∧
    (∀ k ∈ exRenDefs.layers, Placed exCfg k) ∧
    (∀ a ∈ exRenDefs.layers, ∀ b ∈ exRenDefs.layers, a.name = b.name → a = b) := by
  unfold Placed; decide

example : ExportsApart
    { basepath := b!"/var/lib/layercake", layerdirs := b!"/var/lib/layercake/layers", buildRoot := b!"build",
      binPkg := b!"packages", generated := b!"generated", workdir := b!"overlayfs/workdir",
      upperdir := b!"overlayfs/upperdir", exportdirs := b!"/var/lib/layercake/export",
      exportBinPkg := b!"packages", exportGenerated := b!"generated" } := by decide

/-- `ExportsApart` is needed: with the export directory equal to the layer directory
    (`exportdirs = layerdirs`, empty `exportBinPkg`) the packages "link" of `p` is the layer
    directory `/l/p` itself, so the per-path condition of `crash_atomic_rename_partial` is false
    for `p`'s own layerconfig -/
example :
    let bad : Config := { exCfg with exportdirs := b!"/l", exportBinPkg := [] }
    ¬ ExportsApart bad ∧ Placed bad exP ∧
    ¬ (∀ m ∈ exPaths bad exP, Fs.under m (layerconfigPath exP) = false) := by
  refine ⟨by decide +kernel, ⟨rfl, by decide, by decide⟩, by decide⟩

/-! ### what old-or-new per file does NOT give

  `rename` moves the directory first and rewrites the children afterwards, without undoing
  anything when a later step fails.  Interrupted in between — by a crash or by an ordinary
  error such as a failed write of one child's temporary file — every layerconfig is a
  complete version (the theorems above), but the children still name the parent's old name,
  which no longer exists: `findLayers`, which precedes every command, refuses the table
  ("inheritance").  Reproduced with the real binary (REPORT.md); not a violation of C11 as
  worded (each file is complete), recorded here so that nobody reads more into
  `crash_atomic_rename_partial` than it says. -/

/-- witness (evaluated by the kernel): crash at operation 2, or an injected write error at
    operation 3, of `rename p q`: the command fails, every child's layerconfig is exactly its
    previous version, the table loaded before and does not load afterwards -/
theorem rename_interrupted_dangling_base_witness :
    ∀ w0 ∈ [exRenWorld (some 2), { exRenWorld none with faultAt := some 3 }],
      let r := (renameLayer exCfg exRenDefs b!"p" b!"q" [b!"c1", b!"c2"]).run.run w0
      r.1.toBool = false ∧
      (∀ k ∈ [exC1, exC2, exU], Fs.get r.2.fs (layerconfigPath k) = Fs.get w0.fs (layerconfigPath k)) ∧
      Fs.get r.2.fs b!"/l/q/layerconfig" = Fs.get w0.fs b!"/l/p/layerconfig" ∧
      ((findLayers exCfg).run.run w0).1.toBool = true ∧
      ((findLayers exCfg).run.run { r.2 with crashAt := none, faultAt := none }).1.toBool = false := by
  decide +kernel

/-! ### the scanner's 64 KiB line limit

  The command model reads a layerconfig with `readLayerFile`, which has no line limit; the Go
  reader goes through bufio.Scanner.  `readLayerFileScanner` is the reader WITH the limit (the
  correspondence check `layerfile.rwr` runs this one against the real ReadLayerFile, lines of
  65534–65537 bytes and longer included). -/

open Lc.Lemmas.LayerfileScanner Lc.Mountinfo in
/-- within the limit the two readers are the same function: everything proved about
    `readLayerFile` holds for the real reader on every file whose lines are shorter than 64 KiB -/
theorem readLayerFileScanner_eq (content : Bytes)
    (h : ∀ l ∈ rawLines content, l.length < scanLimit) :
    readLayerFileScanner content = readLayerFile content := by
  unfold readLayerFileScanner readLayerFile
  have htw : (rawLines content).takeWhile (fun l => decide (l.length < scanLimit)) = rawLines content :=
    takeWhile_all _ _ (fun l hl => by simpa using h l hl)
  simp only [htw, Nat.lt_irrefl, if_false, scanLines_eq_rawLines]

open Lc.Lemmas.LayerfileScanner Lc.Mountinfo in
/-- beyond it: a line the scanner cannot hold always leaves a message -/
theorem readLayerFileScanner_long (content : Bytes)
    (h : ∃ l ∈ rawLines content, ¬ l.length < scanLimit) :
    (readLayerFileScanner content).nmsgs ≥ 1 := by
  unfold readLayerFileScanner
  have hlt : ((rawLines content).takeWhile (fun l => decide (l.length < scanLimit))).length < (rawLines content).length := by
    obtain ⟨l, hl, hn⟩ := h
    exact takeWhile_short _ _ ⟨l, hl, by simpa using hn⟩
  simp only [hlt, if_true]
  omega

/-- non-vacuity of both: a short file is within the limit; a line of exactly 65536 bytes is not
    and leaves one message while the import line before it is kept and the one after it lost -/
example : readLayerFileScanner b!"import proc /proc /proc\n" = readLayerFile b!"import proc /proc /proc\n" :=
  readLayerFileScanner_eq _ (by decide)

end Lc.Props.C11
