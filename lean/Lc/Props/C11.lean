/-
  C11 — a layer's mount configuration survives rewrites and crashes intact.

  (1) read_write_read: for EVERY byte string (any number/order of base/import/export
      lines, comments, blank lines, odd spacing, extra fields, any UTF-8 or invalid
      UTF-8), writing out what ReadLayerFile loaded and reading it back gives the same
      base, imports and exports in the same order.
  (2) rewrite_changes_only_base: what rename/rebase/add write differs from what was
      loaded only in the base name.
  (3) crash_atomic: WriteLayerfile (temp file + rename, after fix ae7b7b4) changes the
      node at the layerconfig path only by its final rename: at every exit other than
      the normal one — crash or fault at any operation index, any file-system error —
      every path except `<layerconfig>.new` holds what it held before; at the normal
      exit the layerconfig holds exactly the complete new text.  Lifted to rebase.
-/
import Lc.Lemmas.LayerfileRW
import Lc.Lemmas.WriteLayerFile

namespace Lc.Props.C11
open Lc Lc.Layers Lc.Layerfile Lc.Lemmas.Runes Lc.Lemmas.LayerfileRW Lc.Lemmas.WriteLF

/-! ### (1) read → write → read -/

/-- For every file content: ReadLayerFile ∘ WriteLayerfile ∘ ReadLayerFile gives the
    same base, imports and exports (in order) as ReadLayerFile; the rewritten file never
    produces a message. -/
theorem read_write_read_any (content : Bytes) :
    readLayerFile (render (readLayerFile content)) = { readLayerFile content with nmsgs := 0 } :=
  read_render _ (readLayerFile_wf content)

/-- The property as stated: every layerconfig text that loads without messages is a
    fixed point of read → write → read.  Full generality: all byte strings (Go's
    rune decoding with U+FFFD for invalid sequences, unicode.IsSpace), all line
    structures. -/
theorem read_write_read (content : Bytes) (h : (readLayerFile content).nmsgs = 0) :
    readLayerFile (render (readLayerFile content)) = readLayerFile content := by
  rw [read_write_read_any]
  cases hr : readLayerFile content with
  | mk b m e n => rw [hr] at h; simp at h; subst h; rfl

/-- non-vacuity: odd spacing, tabs, comments, extra fields, `..`, `//`, trailing slash,
    a repeated base line and a non-ASCII path load without message and are not already
    in canonical form -/
example :
    let c := b!"  base\tx \n# c\n//d\n\nimport  rbind   /a/../b  //c/ extra\nbase x\nexport bind $$self/x/ /é\n"
    (readLayerFile c).nmsgs = 0 ∧ render (readLayerFile c) ≠ c ∧
      (readLayerFile c).mounts = [⟨b!"/c", b!"/b", b!"rbind"⟩] := by decide

/-- the writer is a function of (base, imports, exports) only -/
theorem render_depends_only (a b : LayerFile) (h1 : a.base = b.base) (h2 : a.mounts = b.mounts)
    (h3 : a.exports = b.exports) : render a = render b := by
  unfold render writeChunks; rw [h1, h2, h3]

/-! ### (2) rewrites change only the base -/

/-- rebase and the children of a renamed layer: `{ k with base := b }` -/
theorem toLayerFile_with_base (k : Layer) (b : Bytes) :
    toLayerFile { k with base := b } = { toLayerFile k with base := b } := rfl

/-- the renamed layer itself is written out unchanged -/
theorem toLayerFile_renamed (l : Layer) (n p : Bytes) :
    toLayerFile { l with name := n, layerPath := p } = toLayerFile l := rfl

/-- A layer that was loaded from `content` and is rewritten with base `nb` (rename of its
    parent, rebase) reads back with the same imports and exports in the same order and
    with base `nb`; nothing else changes.  `nb` is empty or a white-space-free token
    (layer names are letters, digits, '_' and '-'). -/
theorem rewrite_changes_only_base (cfg : Config) (n content nb : Bytes) (hnb : nb = [] ∨ Tok nb) :
    readLayerFile (render (toLayerFile { layerOfFile cfg n (readLayerFile content) with base := nb }))
      = { base := nb, mounts := (readLayerFile content).mounts,
          exports := (readLayerFile content).exports, nmsgs := 0 } := by
  have hwf := readLayerFile_wf content
  have : WF (toLayerFile { layerOfFile cfg n (readLayerFile content) with base := nb }) :=
    ⟨hnb, hwf.2.1, hwf.2.2⟩
  rw [read_render _ this]
  rfl

/-- and with the base left alone (the renamed layer, `add` from a parent's lists) the
    re-read equals the original load up to the message count -/
theorem rewrite_same_base (cfg : Config) (n content : Bytes) :
    readLayerFile (render (toLayerFile (layerOfFile cfg n (readLayerFile content))))
      = { readLayerFile content with nmsgs := 0 } := by
  have hwf := readLayerFile_wf content
  have : WF (toLayerFile (layerOfFile cfg n (readLayerFile content))) := hwf
  rw [read_render _ this]
  rfl

example : Tok b!"new-base_1" := by constructor <;> decide

/-! ### (3) crashes -/

/-- WriteLayerfile under every world (any tree, any crash or fault index, pretending or
    not): if it does not return normally, every path other than `<layerconfig>.new` —
    in particular the layerconfig itself — holds exactly what it held before; if it
    returns normally and was not pretending, the layerconfig holds exactly the complete
    new text and nothing outside the layerconfig and its temporary file has changed. -/
theorem crash_atomic (l : Layer) (w0 : World) :
    match ((writeLayerFile l).run.run w0).1 with
    | .ok _ =>
      (w0.pretend = true ∧ ((writeLayerFile l).run.run w0).2.fs = w0.fs) ∨
      (w0.pretend = false ∧
        Fs.get ((writeLayerFile l).run.run w0).2.fs (layerconfigPath l) = some (.file (render (toLayerFile l))) ∧
        ∀ p, Fs.under (layerconfigPath l) p = false → Fs.under (layerconfigPath l ++ tmpSuffix) p = false →
          Fs.get ((writeLayerFile l).run.run w0).2.fs p = Fs.get w0.fs p)
    | .error _ =>
      ∀ p, p ≠ layerconfigPath l ++ tmpSuffix → Fs.get ((writeLayerFile l).run.run w0).2.fs p = Fs.get w0.fs p := by
  have h := extractBoth (writeLayerFile l) w0
    (fun _ w => w.pretend = w0.pretend ∧ ((w0.pretend = true ∧ w.fs = w0.fs) ∨ (w0.pretend = false ∧ Written l w0 w)))
    (fun w => Frame (tmpPath l) w0 w) (writeLayerFile_spec l w0)
  split at h <;> rename_i heq <;> rw [heq]
  · exact h.2
  · exact h.1

/-- non-vacuity: a crash at the second operation (the first write) leaves the old text in
    place and an empty temporary file; at the last operation (the rename) the old text and a
    complete temporary file; without crash the new text -/
def exLayer : Layer :=
  { name := b!"a", layerPath := b!"/l/a", cmounts := [⟨b!"/dev", b!"/dev", b!"rbind"⟩] }
def exWorld (crash : Option Nat) : World :=
  { fs := [(b!"/", .dir), (b!"/l", .dir), (b!"/l/a", .dir), (b!"/l/a/layerconfig", .file b!"old")],
    crashAt := crash }

example :
    let r := (writeLayerFile exLayer).run.run (exWorld (some 2))
    r.1.toBool = false ∧ Fs.get r.2.fs b!"/l/a/layerconfig" = some (.file b!"old") ∧
      Fs.get r.2.fs b!"/l/a/layerconfig.new" = some (.file []) := by decide

example :
    let r := (writeLayerFile exLayer).run.run (exWorld (some 3))
    r.1.toBool = false ∧ Fs.get r.2.fs b!"/l/a/layerconfig" = some (.file b!"old") ∧
      Fs.get r.2.fs b!"/l/a/layerconfig.new" = some (.file b!"import rbind /dev /dev\n") := by decide

example :
    let r := (writeLayerFile exLayer).run.run (exWorld none)
    r.1.toBool = true ∧ Fs.get r.2.fs b!"/l/a/layerconfig" = some (.file b!"import rbind /dev /dev\n") ∧
      Fs.get r.2.fs b!"/l/a/layerconfig.new" = none := by decide

/-- the layerconfig is never the temporary file -/
theorem tmp_ne_cfg (l : Layer) : layerconfigPath l ≠ layerconfigPath l ++ tmpSuffix := by
  intro h
  have := congrArg List.length h
  simp [tmpSuffix] at this

/-- corollary in the property's words: whatever happens, the layerconfig is its complete
    previous version or its complete new version -/
theorem crash_old_or_new (l : Layer) (w0 : World) :
    let w := ((writeLayerFile l).run.run w0).2
    Fs.get w.fs (layerconfigPath l) = Fs.get w0.fs (layerconfigPath l) ∨
    Fs.get w.fs (layerconfigPath l) = some (.file (render (toLayerFile l))) := by
  have h := crash_atomic l w0
  intro w
  split at h
  · rcases h with ⟨_, h⟩ | ⟨_, h, _⟩
    · left; show Fs.get ((writeLayerFile l).run.run w0).2.fs _ = _; rw [h]
    · right; exact h
  · left; exact h _ (tmp_ne_cfg l)

/-- rebase (the one rewriting command that performs nothing but the rewrite): at every
    exit the tree is unchanged, or only `<layerconfig>.new` differs (interrupted), or the
    layerconfig holds the complete new text and nothing else differs (done). -/
theorem crash_atomic_rebase (cfg : Config) (d : Defs) (name newbase : Bytes) (l : Layer) (w0 : World)
    (hl : findLayer d name = some l) :
    let l' : Layer := { l with base := newbase }
    let w := ((rebaseLayer cfg d name newbase).run.run w0).2
    (∀ p, p ≠ layerconfigPath l' ++ tmpSuffix → Fs.get w.fs p = Fs.get w0.fs p) ∨
    (Fs.get w.fs (layerconfigPath l') = some (.file (render (toLayerFile l'))) ∧
      ∀ p, Fs.under (layerconfigPath l') p = false → Fs.under (layerconfigPath l' ++ tmpSuffix) p = false →
        Fs.get w.fs p = Fs.get w0.fs p) := by
  intro l' w
  have h := extractBoth (rebaseLayer cfg d name newbase) w0
    (fun _ w => w.fs = w0.fs ∨ Written l' w0 w) (fun w => Frame (tmpPath l') w0 w)
    (rebaseLayer_spec cfg d name newbase l w0 hl)
  split at h
  · rcases h with h | h
    · left; intro p _; show Fs.get ((rebaseLayer cfg d name newbase).run.run w0).2.fs p = _; rw [h]
    · right; exact h
  · left; exact h.1

end Lc.Props.C11
