/-
  C17 — add-files and recipe lines mean what the manual says or are rejected.
  Property theorems over the model Lc.Model.StageLine (the Go code after the `fix:`
  commits) against the specifications Lc.Spec.Chmod and Lc.Spec.AddFiles.
-/
import Lc.Model.StageLine
import Lc.Spec.Chmod
import Lc.Spec.AddFiles
import Lc.Lemmas.StageLine
import Lc.Lemmas.StageClosed

namespace Lc.Props.C17
open Lc Lc.StageLine Lc.Spec Lc.Lemmas.StageLine
open Lc.TreeWF (CleanAbs)

/-! ### no line can crash the tool -/

theorem pfLoop_fixed_no_panic (line : Bytes) (fs : List Bytes) (f : Bytes) (q : Nat) (b : Bool) :
    (pfLoop true line fs f q b).isPanic = false := by
  fun_induction pfLoop true line fs f q b <;> simp_all [Res.isPanic, Res.err]

/-- `parseFields` and `parseLine` never panic, for every byte string. -/
theorem parse_total (line : Bytes) :
    (parseFields line).isPanic = false ∧ (parseLine line).isPanic = false := by
  have h := pfLoop_fixed_no_panic line [] [] 0 false
  have hf : (parseFields line).isPanic = false := by
    unfold parseFields parseFieldsGen
    split
    · rename_i r _
      obtain ⟨fs, f, q⟩ := r
      simp only [pfFinish]
      split
      · rfl
      · split <;> rfl
    · rename_i e he
      rw [he] at h
      cases e <;> simp_all [Res.isPanic]
  refine ⟨hf, ?_⟩
  unfold parseLine
  split
  · rfl
  · rename_i he; rw [he] at hf; simp [Res.isPanic] at hf
  · rfl

example : parseFields b!"file /a\\" = Res.err "trailing-backslash" := by rfl

/-- the unfixed tokenizer does panic: a line ending in a backslash (replayed against the
    implementation on every run, corpus/C17/witnesses.jsonl w0) -/
theorem old_trailing_backslash_panics : parseFieldsOld b!"file /a\\" = Res.panic := by rfl

/-! ### names and option values survive quoting and backslash escaping unchanged -/

/-- one ordinary byte inside a field -/
theorem step_plain (c : Nat) (rest : Bytes) (fs : List Bytes) (f : Bytes) (q : Nat)
    (h1 : c ≠ 92) (h2 : c ≠ q) (h3 : q ≠ 0 ∨ (c ≠ 32 ∧ c ≠ 9)) :
    pfLoop true (c :: rest) fs f q true = pfLoop true rest fs (f ++ [c]) q true := by
  rw [pfLoop.eq_def]
  rcases h3 with h3 | ⟨h3, h4⟩ <;> simp [*]

/-- backslash + byte inside a field (byte other than `*`) -/
theorem step_esc (c : Nat) (rest : Bytes) (fs : List Bytes) (f : Bytes) (q : Nat)
    (hq : q ≠ 92) (hc : c ≠ 42) :
    pfLoop true (92 :: c :: rest) fs f q true = pfLoop true rest fs (f ++ [c]) q true := by
  have hq' : ¬ (92 = q) := fun e => hq e.symm
  simp [pfLoop, hq', hc]

/-- backslash style, continuing a field -/
theorem esc_in_field (g rest : Bytes) (fs : List Bytes) (f : Bytes) (hg : ∀ c ∈ g, c ≠ 0) :
    pfLoop true (AddFiles.escField g ++ rest) fs f 0 true = pfLoop true rest fs (f ++ g) 0 true := by
  induction g generalizing f with
  | nil => simp [AddFiles.escField]
  | cons c g ih =>
    have hc0 : c ≠ 0 := hg c (by simp)
    have ih' := fun f => ih f (fun x hx => hg x (by simp [hx]))
    simp only [AddFiles.escField, List.flatMap_cons] at ih' ⊢
    by_cases hs : AddFiles.isSpecial c = true
    · have hc42 : c ≠ 42 := by
        intro e; subst e; simp [AddFiles.isSpecial] at hs
      simp only [hs, if_true, List.cons_append, List.nil_append]
      rw [step_esc c _ fs f 0 (by decide) hc42, ih' (f ++ [c])]
      simp
    · have hs' : AddFiles.isSpecial c = false := by simpa using hs
      have hs2 := hs'
      simp only [AddFiles.isSpecial, Bool.or_eq_false_iff, beq_eq_false_iff_ne] at hs2
      obtain ⟨⟨⟨⟨h32, h9⟩, _⟩, _⟩, h92⟩ := hs2
      simp only [hs', Bool.false_eq_true, if_false, List.cons_append, List.nil_append]
      rw [step_plain c _ fs f 0 h92 hc0 (Or.inr ⟨h32, h9⟩), ih' (f ++ [c])]
      simp

/-- quote style, between the quotes (`q` is 34 or 39) -/
theorem quote_in_field (q : Nat) (hq : q = 34 ∨ q = 39) (g rest : Bytes) (fs : List Bytes) (f : Bytes) :
    pfLoop true ((g.flatMap fun c => if c == q || c == 92 then [92, c] else [c]) ++ rest) fs f q true
      = pfLoop true rest fs (f ++ g) q true := by
  have hq92 : q ≠ 92 := by rcases hq with h | h <;> omega
  have hq0 : q ≠ 0 := by rcases hq with h | h <;> omega
  induction g generalizing f with
  | nil => simp
  | cons c g ih =>
    simp only [List.flatMap_cons]
    by_cases hs : (c == q || c == 92) = true
    · have hc42 : c ≠ 42 := by
        intro e; subst e
        rcases hq with h | h <;> subst h <;> simp at hs
      simp only [hs, if_true, List.cons_append, List.nil_append]
      rw [step_esc c _ fs f q hq92 hc42, ih (f ++ [c])]
      simp
    · have hs' : (c == q || c == 92) = false := by simpa using hs
      have hs2 := hs'
      simp only [Bool.or_eq_false_iff, beq_eq_false_iff_ne] at hs2
      simp only [hs', Bool.false_eq_true, if_false, List.cons_append, List.nil_append]
      rw [step_plain c _ fs f q hs2.2 hs2.1 (Or.inl hq0), ih (f ++ [c])]
      simp

theorem start_quote (q : Nat) (hq : q = 34 ∨ q = 39) (rest : Bytes) (fs : List Bytes) (f : Bytes) (q0 : Nat) :
    pfLoop true (q :: rest) fs f q0 false = pfLoop true rest fs f q true := by
  rw [pfLoop.eq_def]
  rcases hq with h | h <;> subst h <;> simp

theorem close_quote (q : Nat) (hq : q = 34 ∨ q = 39) (rest : Bytes) (fs : List Bytes) (f : Bytes) :
    pfLoop true (q :: rest) fs f q true = pfLoop true rest fs f 0 true := by
  rw [pfLoop.eq_def]
  rcases hq with h | h <;> subst h <;> simp

theorem start_esc (c : Nat) (hc : c ≠ 42) (rest : Bytes) (fs : List Bytes) (f : Bytes) (q0 : Nat) :
    pfLoop true (92 :: c :: rest) fs f q0 false = pfLoop true rest fs (f ++ [c]) 0 true := by
  rw [pfLoop.eq_def]
  simp [hc]

theorem start_plain (c : Nat) (h32 : c ≠ 32) (h9 : c ≠ 9) (h34 : c ≠ 34) (h39 : c ≠ 39) (h0 : c ≠ 0)
    (h92 : c ≠ 92) (rest : Bytes) (fs : List Bytes) (f : Bytes) (q0 : Nat) :
    pfLoop true (c :: rest) fs f q0 false = pfLoop true rest fs (f ++ [c]) 0 true := by
  rw [pfLoop.eq_def]
  simp [*]

theorem end_field (rest : Bytes) (fs : List Bytes) (f : Bytes) (hf : f ≠ []) :
    pfLoop true (32 :: rest) fs f 0 true = pfLoop true rest (fs ++ [f]) [] 0 false := by
  rw [pfLoop.eq_def]
  simp [hf]

/-- a whole rendered field, from the blank before it to its last byte -/
theorem field_roundtrip (s : Nat) (f rest : Bytes) (fs : List Bytes) (q0 : Nat)
    (hne : f ≠ []) (h0 : ∀ c ∈ f, c ≠ 0) :
    pfLoop true (AddFiles.renderField s f ++ rest) fs [] q0 false = pfLoop true rest fs f 0 true := by
  unfold AddFiles.renderField
  split
  · -- double quotes
    simp only [AddFiles.quoteField, List.cons_append, List.append_assoc]
    rw [start_quote 34 (Or.inl rfl), quote_in_field 34 (Or.inl rfl)]
    simp only [List.cons_append, List.nil_append]
    rw [close_quote 34 (Or.inl rfl)]
  · split
    · simp only [AddFiles.quoteField, List.cons_append, List.append_assoc]
      rw [start_quote 39 (Or.inr rfl), quote_in_field 39 (Or.inr rfl)]
      simp only [List.cons_append, List.nil_append]
      rw [close_quote 39 (Or.inr rfl)]
    · -- backslash escapes
      match f, hne, h0 with
      | c :: g, _, h0 =>
        have hc0 : c ≠ 0 := h0 c (by simp)
        have hg : ∀ x ∈ g, x ≠ 0 := fun x hx => h0 x (by simp [hx])
        simp only [AddFiles.escField, List.flatMap_cons]
        by_cases hs : AddFiles.isSpecial c = true
        · have hc42 : c ≠ 42 := by
            intro e; subst e; simp [AddFiles.isSpecial] at hs
          simp only [hs, if_true, List.cons_append, List.nil_append, List.append_assoc]
          rw [start_esc c hc42]
          have := esc_in_field g rest fs ([] ++ [c]) hg
          simp only [AddFiles.escField] at this
          rw [this]; simp
        · have hs' : AddFiles.isSpecial c = false := by simpa using hs
          have hs2 := hs'
          simp only [AddFiles.isSpecial, Bool.or_eq_false_iff, beq_eq_false_iff_ne] at hs2
          obtain ⟨⟨⟨⟨h32, h9⟩, h34⟩, h39⟩, h92⟩ := hs2
          simp only [hs', Bool.false_eq_true, if_false, List.cons_append, List.nil_append, List.append_assoc]
          rw [start_plain c h32 h9 h34 h39 hc0 h92]
          have := esc_in_field g rest fs ([] ++ [c]) hg
          simp only [AddFiles.escField] at this
          rw [this]; simp

/-- a field the quoting rules are about: non-empty, no NUL byte -/
def FieldOk (f : Bytes) : Prop := f ≠ [] ∧ ∀ c ∈ f, c ≠ 0

theorem roundtrip_gen (l : List (Nat × Bytes)) (h : ∀ p ∈ l, FieldOk p.2) (fs : List Bytes) (q0 : Nat) :
    (match pfLoop true (AddFiles.renderLine l) fs [] q0 false with
     | .ok r => pfFinish r
     | .error e => .error e) = .ok (fs ++ l.map (·.2)) := by
  induction l generalizing fs q0 with
  | nil => simp [AddFiles.renderLine, pfLoop, pfFinish]
  | cons p rest ih =>
    obtain ⟨s, f⟩ := p
    have hf : FieldOk f := h (s, f) (by simp)
    cases rest with
    | nil =>
      have := field_roundtrip s f [] fs q0 hf.1 hf.2
      simp only [List.append_nil] at this
      simp only [AddFiles.renderLine, this]
      have hfe : f.isEmpty = false := by
        cases f with
        | nil => exact absurd rfl hf.1
        | cons _ _ => rfl
      simp [pfLoop, pfFinish, hfe]
    | cons p2 rest2 =>
      simp only [AddFiles.renderLine]
      rw [field_roundtrip s f _ fs q0 hf.1 hf.2, end_field _ fs f hf.1]
      have := ih (fun x hx => h x (by simp [hx])) (fs ++ [f]) 0
      rw [this]; simp

/-- **quote_roundtrip**: for every list of non-empty, NUL-free fields, each rendered in double
    quotes (style 1), single quotes (style 2) or with backslash escapes (any other style
    number) and joined by blanks, `parseFields` returns exactly the fields.  The sequence
    `\*` is no exception to this statement (a field containing a backslash is rendered
    with the backslash escaped); the documented exception is `backslash_star_kept`. -/
theorem quote_roundtrip (l : List (Nat × Bytes)) (h : ∀ p ∈ l, FieldOk p.2) :
    parseFields (AddFiles.renderLine l) = .ok (l.map (·.2)) := by
  have := roundtrip_gen l h [] 0
  simp only [List.nil_append] at this
  unfold parseFields parseFieldsGen
  exact this

example : parseFields (AddFiles.renderLine [(0, b!"file"), (1, b!"/a b\\c\"d"), (2, b!"src=it's *")])
    = .ok [b!"file", b!"/a b\\c\"d", b!"src=it's *"] := by rfl

/-- the documented exception: the escape `\*` is not reduced, backslash and asterisk both
    stay in the field (so that `parseSource` can tell a literal asterisk from a wildcard),
    in and out of quotes -/
theorem backslash_star_kept :
    parseFields b!"file /a\\*b '/c\\*' \\*" = .ok [b!"file", b!"/a\\*b", b!"/c\\*", b!"\\*"] := by rfl

/-- before the fix a backslash at the start of a field was no escape -/
theorem old_leading_escape_lost :
    parseFieldsOld b!"file \\\"q" = .ok [b!"file", b!"\\\"q"] ∧
    parseFields b!"file \\\"q" = .ok [b!"file", b!"\"q"] := by constructor <;> rfl

/-! ### type / option combinations are accepted or refused as documented -/

/-- the line `<type> /n <opt>=<sample value>` -/
def tableLine (ty opt : Bytes) : Bytes := ty ++ b!" /n " ++ opt ++ [61] ++ AddFiles.sampleValue opt

def accepted (line : Bytes) : Bool :=
  match parseLine line with
  | .ok r => r.errors.isEmpty
  | .error _ => false

/-- without options every documented type is accepted, anything else refused -/
theorem type_table : (∀ ty ∈ AddFiles.types, accepted (ty ++ b!" /n") = true) ∧
    accepted b!"fifo /n" = false ∧ accepted b!"File /n" = false := by decide

/-- **type_option_table** (partial: the `tbd` row is excluded, see `tbd_row_differs`):
    for every documented type other than `tbd` and every documented option, the parser
    accepts `<type> /n <opt>=<valid value>` exactly when the manual's table says so. -/
theorem type_option_table_partial :
    ∀ ty ∈ AddFiles.types, ty ≠ b!"tbd" → ∀ opt ∈ AddFiles.options,
      accepted (tableLine ty opt) = AddFiles.accepts ty opt := by decide

/-- the `tbd` row: the manual documents only `absent=`, the code takes every option
    (finding `tbd-accepts-undocumented-options`) -/
theorem tbd_row_differs :
    (∀ opt ∈ AddFiles.options, accepted (tableLine b!"tbd" opt) = true) ∧
    AddFiles.accepts b!"tbd" b!"mod" = false ∧ AddFiles.accepts b!"tbd" b!"absent" = true := by decide

/-- unknown option keys and options without `=` are refused for every type -/
theorem unknown_option_refused :
    ∀ ty ∈ AddFiles.types, accepted (ty ++ b!" /n mode=644") = false ∧
      accepted (ty ++ b!" /n skip") = false ∧ accepted (ty ++ b!" /n =x") = false := by decide

/-! ### uid / gid / dev values are range-checked -/

theorem nonneg_lt (s : Bytes) (v : Nat) (h : parseNonNegInt32 s = some v) : v < 2 ^ 31 := by
  unfold parseNonNegInt32 at h
  cases s with
  | nil => simp at h
  | cons c rest =>
    simp only at h
    repeat' split at h
    all_goals (try simp at h)
    all_goals (try omega)

theorem uint_lt (bits : Nat) (s : Bytes) (v : Nat) (h : parseUint10 bits s = some v) : v < 2 ^ bits := by
  unfold parseUint10 at h
  repeat' split at h
  all_goals (try simp at h)
  all_goals (try omega)

/-- **uid_dev_ranges** (3): an accepted dev= value has type b or c, a 32-bit major and an
    20-bit minor (the kernel.s minor width, fix 25c634b under C07) -/
theorem dev_range (s : Bytes) (t mj mn : Nat) (h : parseDev s = ((t, mj, mn), false)) :
    (t = 98 ∨ t = 99) ∧ mj < 2 ^ 32 ∧ mn < 2 ^ 20 := by
  unfold parseDev at h
  split at h
  · simp at h
  · rename_i t' rest
    split at h
    · simp at h
    · rename_i ht
      split at h
      · split at h
        · simp at h
        · rename_i a b mj' hmj
          split at h
          · simp at h
          · rename_i mn' hmn
            simp at h
            obtain ⟨h1, h2, h3⟩ := h
            subst h1; subst h2; subst h3
            refine ⟨?_, uint_lt _ _ _ hmj, uint_lt _ _ _ hmn⟩
            simp at ht
            omega
      · simp at h

/-- **uid_dev_ranges** (1): an accepted uid=/gid= value is below 2^31 (both halves of N:N) -/
theorem uid_range (s : Bytes) (v1 : Nat) (v2 : Option Nat) (h : parseUid s = .ok (v1, v2)) :
    v1 < 2 ^ 31 ∧ ∀ b, v2 = some b → b < 2 ^ 31 := by
  unfold parseUid at h
  split at h
  · split at h
    · rename_i v hv
      simp at h
      obtain ⟨h1, h2⟩ := h
      subst h1; subst h2
      exact ⟨nonneg_lt _ _ hv, by simp⟩
    · simp [Res.err] at h
  · split at h
    · rename_i a b ha hb
      simp at h
      obtain ⟨h1, h2⟩ := h
      subst h1; subst h2
      exact ⟨nonneg_lt _ _ ha, fun x hx => by simp at hx; subst hx; exact nonneg_lt _ _ hb⟩
    · simp [Res.err] at h

theorem digits_no_colon (s : Bytes) (hd : s.all isDigit = true) : indexByte 58 s = none := by
  induction s with
  | nil => rfl
  | cons c cs ih =>
    simp only [List.all_cons, Bool.and_eq_true] at hd
    have hc : c ≠ 58 := by
      intro e; subst e; simp [isDigit] at hd
    simp [indexByte, hc, ih hd.2]

/-- **uid_dev_ranges** (2): a plain decimal ID is accepted with its value iff it is below 2^31 -/
theorem uid_digits (s : Bytes) (hne : s ≠ []) (hd : s.all isDigit = true) :
    parseUid s = if digitsVal 10 s 0 < 2 ^ 31 then .ok (digitsVal 10 s 0, none) else Res.err "baduid" := by
  unfold parseUid
  rw [digits_no_colon s hd]
  cases s with
  | nil => exact absurd rfl hne
  | cons c rest =>
    have hd' := hd
    simp only [List.all_cons, Bool.and_eq_true] at hd'
    have h43 : c ≠ 43 := by intro e; subst e; simp [isDigit] at hd'
    have h45 : c ≠ 45 := by intro e; subst e; simp [isDigit] at hd'
    simp only [parseNonNegInt32, h43, h45, beq_iff_eq, if_false, List.isEmpty_cons]
    split <;> simp_all <;> (intro h; omega)

example : parseUid b!"250:7" = .ok (250, some 7) ∧ parseUid b!"2147483648" = Res.err "baduid" ∧
    parseDev b!"c4:300" = ((99, 4, 300), false) ∧ (parseDev b!"c4:1048576").2 = true := by
  refine ⟨by rfl, by rfl, by rfl, by rfl⟩

/-! ### mod= values have the effect chmod(1) would have -/

/-- **mod_sound**, octal half (full): an all-octal mod= value is accepted exactly when
    chmod(1) accepts it, and then sets the mode to that value. -/
theorem mod_sound_octal (s : Bytes) (hoct : s.all Chmod.isOct = true) :
    (∀ a o, parseModString s = .ok (a, o) →
      ∃ v, Chmod.parse s = some (.octal v) ∧ ∀ isDir m, Chmod.applyMasks a o m = Chmod.apply (.octal v) isDir m) ∧
    (Chmod.parse s = none → ∃ c, parseModString s = Res.err c) := by
  have h1 : s.all isOctDigit = true := hoct
  unfold parseModString Chmod.parse
  simp only [h1, hoct, if_true, digitsVal_octVal, permBits]
  by_cases he : s.isEmpty = true
  · simp [he, Res.err]
  · simp only [he, Bool.false_eq_true, if_false]
    by_cases hv : Chmod.octVal s 0 ≤ 4095
    · simp [hv, Chmod.apply, Chmod.applyMasks]
    · simp [hv, Res.err]

/-- **mod_sound** over the grammar (partial: quantifies over clause lists of the forms the
    parser supports — `[ugoa]?[+-][rwxst]*`, comma separated — instead of over accepted
    strings): the parser accepts the rendered mode and its and/or masks act on every
    12-bit mode, file or directory, as chmod(1) does clause by clause. -/
theorem mod_sound_grammar_partial (cs : List SClause) (hne : cs ≠ []) (hwf : ∀ c ∈ cs, c.wf = true) :
    ∃ a o, parseModString (renderMode cs) = .ok (a, o) ∧
      ∀ isDir m, m < 4096 →
        Chmod.applyMasks a o m = Chmod.apply (.symbolic (cs.map SClause.ast)) isDir m := by
  obtain ⟨st, hst, hsem⟩ := clauses_loop cs hne hwf 4095 0 (by omega) (by omega)
  refine ⟨st.andM, st.orM, ?_, ?_⟩
  · unfold parseModString
    simp [render_not_octal cs hne, permBits, hst]
  · intro isDir m hm
    rw [hsem isDir m]
    simp [Chmod.apply, Chmod.applyMasks, and_4095 m hm]

/-- the rendering really is the chmod(1) string with that reading (sample instances) -/
example : Chmod.parse (renderMode [⟨some 117, false, b!"rw"⟩, ⟨some 97, true, b!"r"⟩, ⟨none, false, b!"t"⟩])
    = some (.symbolic ([⟨some 117, false, b!"rw"⟩, ⟨some 97, true, b!"r"⟩, ⟨none, false, b!"t"⟩].map SClause.ast)) := by
  decide

example : renderMode [⟨some 117, false, b!"rw"⟩, ⟨some 97, true, b!"r"⟩] = b!"u+rw,a-r" := by decide

/-- the clause-order defect (fixed in f86f9a6) as a value: `u+r,a-r` leaves no read bit -/
example : parseModString b!"u+r,a-r" = .ok (0o7333, 0) := by rfl

/-! ### names of add-files lines are clean absolute paths (fix "add-files names are cleaned") -/

/-- **parseLine_name_clean**: whenever `parseLine` stores a name at all (it does for every line
    it accepts, see `parseLine_accepted_name_clean`), that name is a clean absolute path —
    `path.Clean name = name`, leading slash: no `//`, no `.` or `..` element, no trailing
    slash — and it is not the root.  For every field list; no hypothesis on the options.
    This is what C06's `parents_precede` assumes of the names of add steps (`StepClean`). -/
theorem parseLine_name_clean (fields : List Bytes)
    (hname : (parseLineFields fields).entry.name ≠ []) :
    CleanAbs (parseLineFields fields).entry.name ∧
    (parseLineFields fields).entry.name ≠ [SLASH] := by
  rcases parseLineFields_name fields with h | ⟨habs, hlen, hn⟩
  · exact absurd h.1 hname
  · rw [hn]
    refine ⟨Lc.Stage.pathClean_cleanAbs _ habs, ?_⟩
    intro e; rw [e] at hlen; simp at hlen

/-- the same for a whole line: a line `parseLine` accepts (no error logged) has a name, and it
    is a clean absolute path other than the root -/
theorem parseLine_accepted_name_clean (line : Bytes) (r : LineResult)
    (h : parseLine line = .ok r) (hok : r.errors = []) :
    CleanAbs r.entry.name ∧ r.entry.name ≠ [SLASH] := by
  have key : ∀ fields, (parseLineFields fields).errors = [] →
      CleanAbs (parseLineFields fields).entry.name ∧ (parseLineFields fields).entry.name ≠ [SLASH] := by
    intro fields he
    apply parseLine_name_clean
    rcases parseLineFields_name fields with h1 | ⟨_, hlen, hn⟩
    · exact absurd he h1.2
    · rw [hn]; intro e; rw [e] at hlen; simp at hlen
  unfold parseLine at h
  split at h
  · cases h; exact key _ hok
  · cases h
  · cases h; exact key _ hok

/-- non-vacuity: a name spelt with `//`, `..` and a trailing slash is stored clean; the unclean
    spelling itself is not `CleanAbs`; a name that cleans to `/` is refused -/
example : (parseLineFields [b!"file", b!"/opt//a/../x/", b!"uid=3"]).entry.name = b!"/opt/x" ∧
    (parseLineFields [b!"file", b!"/opt//a/../x/", b!"uid=3"]).errors = [] ∧
    ¬ CleanAbs b!"/opt//a/../x/" ∧
    (parseLineFields [b!"dir", b!"/a/.."]).errors = ["no-name"] := by decide
example : (parseLine b!"file \"/opt/./my dir/\" uid=3").map (fun r => (r.entry.name, r.errors)) =
    .ok (b!"/opt/my dir", []) := by decide

/-! ### recipe lines (witnesses of the two recipe fixes on the model of the loop in `main`) -/

/-- an unknown keyword and a missing value are reported with their line numbers; blank and
    comment lines count as lines -/
theorem recipe_reports_errors :
    (recipeLoop [b!"# c", b!"bogus keyword", b!"", b!"root"] 1 {}).errors
      = [(2, "unknown-keyword"), (4, "needs-value")] := by rfl

/-- leading blanks do not change what a recipe line means -/
theorem recipe_leading_blanks :
    recipeLoop [b!"  atoms app-misc/extra", b!"\troot  /r "] 1 {} =
    recipeLoop [b!"atoms app-misc/extra", b!"root /r"] 1 {} := by rfl

/-- **The `-root` and `-profile` switches override the recipe** (manual: "The -root
    command-line switch overrides this"), for every recipe text: whatever `root` / `profile`
    lines the recipe holds, a setting given on the command line is the one in force
    (fix "stagemaker: -root and -profile override the recipe"). -/
theorem recipe_switch_overrides (lines : List Bytes) (cmd : Recipe) :
    (cmd.root ≠ [] → (recipeApply lines cmd).root = cmd.root) ∧
    (cmd.profile ≠ [] → (recipeApply lines cmd).profile = cmd.profile) := by
  constructor <;> intro h <;> simp [recipeApply, h]

/-- without the switch the recipe's setting stands, and nothing else of the recipe's outcome
    is touched by the override step -/
theorem recipe_without_switch (lines : List Bytes) (cmd : Recipe) (hr : cmd.root = [])
    (hp : cmd.profile = []) : recipeApply lines cmd = recipeLoop lines 1 cmd := by
  simp [recipeApply, hr, hp]

theorem recipe_override_keeps_rest (lines : List Bytes) (cmd : Recipe) :
    let r := recipeLoop lines 1 cmd
    let a := recipeApply lines cmd
    a.atoms = r.atoms ∧ a.atomFiles = r.atomFiles ∧ a.addFiles = r.addFiles ∧
    a.compress = r.compress ∧ a.nobdeps = r.nobdeps ∧ a.novdb = r.novdb ∧
    a.emptydev = r.emptydev ∧ a.errors = r.errors := by
  simp [recipeApply]

/-- non-vacuity: a recipe that names another root, with and without the switch -/
example : (recipeApply [b!"root /r", b!"profile /p"] { root := b!"/cmd" }).root = b!"/cmd" ∧
          (recipeApply [b!"root /r", b!"profile /p"] { root := b!"/cmd" }).profile = b!"/p" ∧
          (recipeApply [b!"root /r", b!"root /r2"] {}).root = b!"/r2" := by decide

end Lc.Props.C17
