/-
  C19 — processes using a layer are attributed to that layer and only that layer; the
  scan succeeds whatever processes start or exit while it runs.
  Over the model Lc/Model/InUse.lean, in which every /proc access of the scan may fail
  with any errno (the kernel's actual repertoire is an environment assumption).
-/
import Lc.Model.InUse
import Lc.Lemmas.InUse

namespace Lc.Props.C19
open Lc Lc.InUse Lc.InUseLemmas

/-- the scan prefix of a layers directory (other than "/") ends with a slash -/
theorem scanPrefix_slash (d : Bytes) (h : d.length > 1) : (scanPrefix d).getLast? = some 47 := by
  unfold scanPrefix
  split
  · simp
  · rename_i hn
    simp [h] at hn
    exact hn

/-! ### attribution -/

/-- a link pointing below `<layers>/<name>/` is attributed to exactly `name`, with the path
    below the layer directory as tail -/
theorem link_inside (pre name tail : Bytes) (hp : pre.getLast? = some 47) (hn : 47 ∉ name) :
    linkToLayer pre (.ok (pre ++ name ++ 47 :: tail)) = some (name, tail) := by
  simp [linkToLayer, sameDirOrDesc, hp, List.append_assoc, hasPrefix_append,
        indexByte_append 47 name tail hn]

/-- a link to the layer directory itself -/
theorem link_layerdir (pre name : Bytes) (hp : pre.getLast? = some 47) (hn : 47 ∉ name) :
    linkToLayer pre (.ok (pre ++ name)) = some (name, []) := by
  simp [linkToLayer, sameDirOrDesc, hp, hasPrefix_append, indexByte_none 47 name hn]

/-- a link that does not point below the layers directory is attributed to no layer -/
theorem link_outside (pre target : Bytes) (h : hasPrefix target pre = false) :
    linkToLayer pre (.ok target) = none := by
  simp [linkToLayer, sameDirOrDesc, h]

theorem link_error (pre : Bytes) (e : Nat) : linkToLayer pre (.error e) = none := rfl

/-- exactness: whatever is attributed to layer `L` really lies in `<layers>/L` — the
    reported name is the complete first path component below the layers directory -/
theorem attribution_exact (pre target L tail : Bytes)
    (h : linkToLayer pre (.ok target) = some (L, tail)) :
    47 ∉ L ∧ (target = pre ++ L ∧ tail = [] ∨ target = pre ++ L ++ 47 :: tail) := by
  unfold linkToLayer at h
  simp only at h
  split at h
  · rename_i hs
    unfold sameDirOrDesc at hs
    simp only [Bool.and_eq_true] at hs
    obtain ⟨x, hx⟩ := hasPrefix_elim target pre hs.1
    subst hx
    simp only [List.drop_left'] at h
    cases hi : indexByte 47 x with
    | none =>
      simp [hi] at h
      obtain ⟨h1, h2⟩ := h
      subst h1; subst h2
      refine ⟨?_, Or.inl ⟨rfl, rfl⟩⟩
      intro hm
      -- 47 ∈ x contradicts indexByte = none
      clear hs
      induction x with
      | nil => simp at hm
      | cons a x ih =>
        by_cases ha : a = 47
        · simp [indexByte, ha] at hi
        · simp only [indexByte, ha, if_false] at hi
          cases hx : indexByte 47 x with
          | none =>
            apply ih hx
            simp at hm
            rcases hm with hm | hm
            · exact absurd hm.symm ha
            · exact hm
          | some j => simp [hx] at hi
    | some k =>
      simp [hi] at h
      obtain ⟨h1, h2⟩ := h
      obtain ⟨hnot, hsplit⟩ := indexByte_some 47 x k hi
      subst h1; subst h2
      refine ⟨hnot, Or.inr ?_⟩
      rw [List.append_assoc]
      congr 1
  · simp at h

/-- never another layer whose name merely shares a prefix (d1 vs d1x, x vs x~removed):
    a target below `<layers>/M/` is reported for `M` and nothing else -/
theorem no_prefix_confusion (pre M r L tail : Bytes) (hp : pre.getLast? = some 47) (hM : 47 ∉ M)
    (h : linkToLayer pre (.ok (pre ++ M ++ 47 :: r)) = some (L, tail)) : L = M ∧ tail = r := by
  rw [link_inside pre M r hp hM] at h
  simp at h
  exact ⟨h.1.symm, h.2.symm⟩

/-! ### robustness of the scan -/

theorem scanProc_ok (pre : Bytes) (p : ProcRec) : ∃ us, scanProc false pre p = .ok us := by
  unfold scanProc
  simp only [Bool.false_and, Bool.false_eq_true, if_false]
  cases p.exe <;> cases p.fd <;> simp <;> split <;> simp

/-- whatever the processes do while they are examined — every readlink, open and readdir
    of the scan may fail with any errno — the scan succeeds -/
theorem scan_robust (layersDir : Bytes) (procs : List ProcRec) :
    ∃ us, findLayerUsers layersDir procs = .ok us := by
  unfold findLayerUsers
  induction procs with
  | nil => exact ⟨[], rfl⟩
  | cons p ps ih =>
    obtain ⟨us, hus⟩ := scanProc_ok (scanPrefix layersDir) p
    obtain ⟨rest, hrest⟩ := ih
    exact ⟨us ++ rest, by simp [scanAll, hus, hrest]⟩

/-- the code before fix 3b950b5 did abort: a process whose fd directory could be opened
    but not read any more (it exited in between) failed the whole command -/
theorem old_scan_aborts :
    findLayerUsersOld b!"/VB/layers"
      [⟨7, .ok b!"/bin/sleep", .ok b!"/", .ok b!"/", .readFails ESRCH⟩] = Res.err "readdir" := by
  rfl

/-- an unreadable process contributes nothing and hides no other process's uses -/
theorem vanished_process_only_loses_its_own (layersDir : Bytes) (p : ProcRec) (ps : List ProcRec)
    (us rest : List Use) (h1 : scanProc false (scanPrefix layersDir) p = .ok us)
    (h2 : findLayerUsers layersDir ps = .ok rest) :
    findLayerUsers layersDir (p :: ps) = .ok (us ++ rest) := by
  unfold findLayerUsers at *
  simp [scanAll, h1, h2]

/-! ### non-vacuity -/

example : linkToLayer b!"/VB/layers/" (.ok b!"/VB/layers/d1x/build/usr") = some (b!"d1x", b!"build/usr") := by
  decide
example : linkToLayer b!"/VB/layers/" (.ok b!"/VB/layers/d1~removed/build") = some (b!"d1~removed", b!"build") := by
  decide
example : linkToLayer b!"/VB/layers/" (.ok b!"/VB/layersX/d1") = none := by decide

end Lc.Props.C19
