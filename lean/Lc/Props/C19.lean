/-
  C19 — processes using a layer are attributed to that layer and only that layer; the
  scan succeeds whatever processes start or exit while it runs.
  Over the model Lc/Model/InUse.lean, in which every /proc access of the scan may fail
  with any errno (the kernel's actual repertoire is an environment assumption).
-/
import Lc.Model.InUse

namespace Lc.Props.C19
open Lc Lc.InUse

/-! ### helper facts about byte lists -/

theorem hasPrefix_append (p x : Bytes) : hasPrefix (p ++ x) p = true := by
  induction p with
  | nil => cases x <;> simp [hasPrefix]
  | cons a p ih => simp [hasPrefix, ih]

theorem hasPrefix_elim : ∀ (s p : Bytes), hasPrefix s p = true → ∃ x, s = p ++ x := by
  intro s p
  induction p generalizing s with
  | nil => intro _; exact ⟨s, by simp⟩
  | cons a p ih =>
    intro h
    cases s with
    | nil => simp [hasPrefix] at h
    | cons b s =>
      simp [hasPrefix] at h
      obtain ⟨x, hx⟩ := ih s h.2
      exact ⟨x, by simp [h.1, hx]⟩

theorem indexByte_append (c : Nat) (n t : Bytes) (h : c ∉ n) :
    indexByte c (n ++ c :: t) = some n.length := by
  induction n with
  | nil => simp [indexByte]
  | cons a n ih =>
    have ha : a ≠ c := by intro e; apply h; simp [e]
    have hn : c ∉ n := by intro e; apply h; simp [e]
    simp [indexByte, ha, ih hn]

theorem indexByte_none (c : Nat) (n : Bytes) (h : c ∉ n) : indexByte c n = none := by
  induction n with
  | nil => simp [indexByte]
  | cons a n ih =>
    have ha : a ≠ c := by intro e; apply h; simp [e]
    have hn : c ∉ n := by intro e; apply h; simp [e]
    simp [indexByte, ha, ih hn]

theorem indexByte_some (c : Nat) : ∀ (s : Bytes) (k : Nat), indexByte c s = some k →
    c ∉ s.take k ∧ s = s.take k ++ c :: s.drop (k + 1) := by
  intro s
  induction s with
  | nil => intro k h; simp [indexByte] at h
  | cons a s ih =>
    intro k h
    by_cases ha : a = c
    · simp [indexByte, ha] at h
      subst h
      simp [ha]
    · simp only [indexByte, ha, if_false] at h
      cases hk : indexByte c s with
      | none => simp [hk] at h
      | some j =>
        simp [hk] at h
        subst h
        obtain ⟨h1, h2⟩ := ih j hk
        refine ⟨?_, ?_⟩
        · simp only [List.take_succ_cons, List.mem_cons, not_or]
          exact ⟨fun e => ha e.symm, h1⟩
        · simp only [List.take_succ_cons, List.drop_succ_cons, List.cons_append]
          rw [← h2]

/-- the scan prefix of a layers directory (other than "/") ends with a slash -/
theorem scanPrefix_slash (d : Bytes) (h : d.length > 1) : (scanPrefix d).getLast? = some 47 := by
  unfold scanPrefix
  split
  · simp
  · rename_i hn
    simp [h] at hn
    exact hn

/-! ### attribution -/

/-- a link pointing below `<layers>/<name>/` is attributed to exactly `name`, with the path
    below the layer directory as tail -/
theorem link_inside (pre name tail : Bytes) (hp : pre.getLast? = some 47) (hn : 47 ∉ name) :
    linkToLayer pre (.ok (pre ++ name ++ 47 :: tail)) = some (name, tail) := by
  simp [linkToLayer, sameDirOrDesc, hp, List.append_assoc, hasPrefix_append,
        indexByte_append 47 name tail hn]

/-- a link to the layer directory itself -/
theorem link_layerdir (pre name : Bytes) (hp : pre.getLast? = some 47) (hn : 47 ∉ name) :
    linkToLayer pre (.ok (pre ++ name)) = some (name, []) := by
  simp [linkToLayer, sameDirOrDesc, hp, hasPrefix_append, indexByte_none 47 name hn]

/-- a link that does not point below the layers directory is attributed to no layer -/
theorem link_outside (pre target : Bytes) (h : hasPrefix target pre = false) :
    linkToLayer pre (.ok target) = none := by
  simp [linkToLayer, sameDirOrDesc, h]

theorem link_error (pre : Bytes) (e : Nat) : linkToLayer pre (.error e) = none := rfl

/-- exactness: whatever is attributed to layer `L` really lies in `<layers>/L` — the
    reported name is the complete first path component below the layers directory -/
theorem attribution_exact (pre target L tail : Bytes)
    (h : linkToLayer pre (.ok target) = some (L, tail)) :
    47 ∉ L ∧ (target = pre ++ L ∧ tail = [] ∨ target = pre ++ L ++ 47 :: tail) := by
  unfold linkToLayer at h
  simp only at h
  split at h
  · rename_i hs
    unfold sameDirOrDesc at hs
    simp only [Bool.and_eq_true] at hs
    obtain ⟨x, hx⟩ := hasPrefix_elim target pre hs.1
    subst hx
    simp only [List.drop_left'] at h
    cases hi : indexByte 47 x with
    | none =>
      simp [hi] at h
      obtain ⟨h1, h2⟩ := h
      subst h1; subst h2
      refine ⟨?_, Or.inl ⟨rfl, rfl⟩⟩
      intro hm
      -- 47 ∈ x contradicts indexByte = none
      clear hs
      induction x with
      | nil => simp at hm
      | cons a x ih =>
        by_cases ha : a = 47
        · simp [indexByte, ha] at hi
        · simp only [indexByte, ha, if_false] at hi
          cases hx : indexByte 47 x with
          | none =>
            apply ih hx
            simp at hm
            rcases hm with hm | hm
            · exact absurd hm.symm ha
            · exact hm
          | some j => simp [hx] at hi
    | some k =>
      simp [hi] at h
      obtain ⟨h1, h2⟩ := h
      obtain ⟨hnot, hsplit⟩ := indexByte_some 47 x k hi
      subst h1; subst h2
      refine ⟨hnot, Or.inr ?_⟩
      rw [List.append_assoc]
      congr 1
  · simp at h

/-- never another layer whose name merely shares a prefix (d1 vs d1x, x vs x~removed):
    a target below `<layers>/M/` is reported for `M` and nothing else -/
theorem no_prefix_confusion (pre M r L tail : Bytes) (hp : pre.getLast? = some 47) (hM : 47 ∉ M)
    (h : linkToLayer pre (.ok (pre ++ M ++ 47 :: r)) = some (L, tail)) : L = M ∧ tail = r := by
  rw [link_inside pre M r hp hM] at h
  simp at h
  exact ⟨h.1.symm, h.2.symm⟩

/-! ### robustness of the scan -/

theorem scanProc_ok (pre : Bytes) (p : ProcRec) : ∃ us, scanProc false pre p = .ok us := by
  unfold scanProc
  simp only [Bool.false_and, Bool.false_eq_true, if_false]
  cases p.exe <;> cases p.fd <;> simp <;> split <;> simp

/-- whatever the processes do while they are examined — every readlink, open and readdir
    of the scan may fail with any errno — the scan succeeds -/
theorem scan_robust (layersDir : Bytes) (procs : List ProcRec) :
    ∃ us, findLayerUsers layersDir procs = .ok us := by
  unfold findLayerUsers
  induction procs with
  | nil => exact ⟨[], rfl⟩
  | cons p ps ih =>
    obtain ⟨us, hus⟩ := scanProc_ok (scanPrefix layersDir) p
    obtain ⟨rest, hrest⟩ := ih
    exact ⟨us ++ rest, by simp [scanAll, hus, hrest]⟩

/-- the code before fix 3b950b5 did abort: a process whose fd directory could be opened
    but not read any more (it exited in between) failed the whole command -/
theorem old_scan_aborts :
    findLayerUsersOld b!"/VB/layers"
      [⟨7, .ok b!"/bin/sleep", .ok b!"/", .ok b!"/", .readFails ESRCH⟩] = Res.err "readdir" := by
  rfl

/-- an unreadable process contributes nothing and hides no other process's uses -/
theorem vanished_process_only_loses_its_own (layersDir : Bytes) (p : ProcRec) (ps : List ProcRec)
    (us rest : List Use) (h1 : scanProc false (scanPrefix layersDir) p = .ok us)
    (h2 : findLayerUsers layersDir ps = .ok rest) :
    findLayerUsers layersDir (p :: ps) = .ok (us ++ rest) := by
  unfold findLayerUsers at *
  simp [scanAll, h1, h2]

/-! ### non-vacuity -/

example : linkToLayer b!"/VB/layers/" (.ok b!"/VB/layers/d1x/build/usr") = some (b!"d1x", b!"build/usr") := by
  decide
example : linkToLayer b!"/VB/layers/" (.ok b!"/VB/layers/d1~removed/build") = some (b!"d1~removed", b!"build") := by
  decide
example : linkToLayer b!"/VB/layers/" (.ok b!"/VB/layersX/d1") = none := by decide

end Lc.Props.C19
