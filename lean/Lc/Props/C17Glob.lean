/-
  C17, the name arithmetic of wildcard add-files lines (stage/addRemove.go: `addFromWildcard`,
  `removeFiles`, `rootChopLength`), over the model WITH the root and the cuts
  (`Lc/Model/StageGlob.lean`).  Two defects lived here (the cut `len(rootDir)` on root "/" ate
  the name's own slash, fix 35d092a; the `src=` cut on a pattern directly below "/"), both
  invisible to the root-free model of `Lc/Model/StageLine.lean`.

  All theorems are over every root / tree / name; the concrete witnesses are by `decide`.
  Core Lean only.
-/
import Lc.Lemmas.StageGlob

namespace Lc.Props.C17Glob
open Lc Lc.StageLine Lc.StageGlob Lc.ExportPath Lc.InLayers
open Lc.TreeWF (CleanAbs cleanAbs_absPath cleanAbs_comps under_absPath absPath_ne_root)
open Lc.Stage (pathDir_cleanAbs)

/-! ### the sentence both defects violated -/

/-- **`chop_gives_stage_name`**: for every clean absolute root — "/" included — and every clean
    absolute stage name `n`, cutting `rootChopLength rootDir` bytes off the host path
    `path.Join(rootDir, n)` gives `n` back.  (`n = "/"` below a root other than "/" is the root
    directory itself, whose host path has nothing after the root: `chop_of_root_itself`; the
    parser accepts no such name and a wildcard match has a last element.) -/
theorem chop_gives_stage_name (rootDir n : Bytes) (hr : CleanAbs rootDir) (hn : CleanAbs n)
    (hne : rootDir = [SLASH] ∨ n ≠ [SLASH]) :
    (pathJoin [rootDir, n]).drop (rootChopLength rootDir) = n := by
  obtain ⟨ds, hds, ed⟩ := cleanAbs_comps rootDir hr
  obtain ⟨ns, hns, en⟩ := cleanAbs_comps n hn
  subst ed; subst en
  rw [pathJoin_abs_abs ds ns hds hns]
  by_cases hd : ds = []
  · subst hd
    simp [rootChopLength, absPath, joinWith]
  · have hroot : absPath ds ≠ [SLASH] := absPath_ne_root ds hds hd
    have hn' : ns ≠ [] := by
      rcases hne with h | h
      · exact absurd h hroot
      · intro e; apply h; rw [e]; rfl
    rw [absPath_append_abs ds ns hd hn']
    simp [rootChopLength, hroot]

/-- the excluded corner: the root directory itself below a root other than "/" -/
theorem chop_of_root_itself (rootDir : Bytes) (hr : CleanAbs rootDir) (h : rootDir ≠ [SLASH]) :
    (pathJoin [rootDir, [SLASH]]).drop (rootChopLength rootDir) = [] := by
  obtain ⟨ds, hds, ed⟩ := cleanAbs_comps rootDir hr
  subst ed
  have := pathJoin_abs_abs ds [] hds (by simp)
  rw [show absPath [] = [SLASH] from rfl] at this
  rw [this]
  simp [rootChopLength, h]

example : (pathJoin [b!"/", b!"/etc/env.d/00basic"]).drop (rootChopLength b!"/") = b!"/etc/env.d/00basic" := by decide
example : (pathJoin [b!"/r", b!"/etc/a b"]).drop (rootChopLength b!"/r") = b!"/etc/a b" := by decide
example : CleanAbs b!"/r" ∧ CleanAbs b!"/etc/a b" ∧ CleanAbs b!"/" := by decide

/-- a clean path strictly below a clean directory is `path.Join(d, n)` for a clean absolute
    name `n` other than "/" -/
theorem below_join {d m : Bytes} (hd : CleanAbs d) (hm : CleanAbs m) (hb : strictlyBelow d m = true) :
    ∃ n, CleanAbs n ∧ n ≠ [SLASH] ∧ m = pathJoin [d, n] := by
  obtain ⟨ds, ts, hds, hts, hne, ed, em⟩ := below_comps hd hm hb
  refine ⟨absPath ts, cleanAbs_absPath ts hts, absPath_ne_root ts hts hne, ?_⟩
  rw [ed, em, pathJoin_abs_abs ds ts hds hts]

/-! ### wildcard adds without `src=` -/

/-- all paths of the host tree are clean, absolute and strictly below `d` -/
def TreeBelow (d : Bytes) (t : HostTree) : Prop :=
  ∀ m ∈ t.paths, CleanAbs m ∧ strictlyBelow d m = true

instance (d : Bytes) (t : HostTree) : Decidable (TreeBelow d t) := by unfold TreeBelow; infer_instance

/-- **`wildcard_names_clean_abs`**: over a host tree of clean absolute paths below the root,
    every name a wildcard add line (no `src=`, `file` or `dir`) yields is clean and absolute —
    `StepClean` for the adds a wildcard line expands to (the assumption noted in C06 for names
    "out of `filepath.Glob`"), and the name is the match's stage name: the match is
    `path.Join(rootDir, n)`. -/
theorem wildcard_names_clean_abs (t : HostTree) (rootDir name : Bytes) (r : Bool)
    (hr : CleanAbs rootDir) (ht : TreeBelow rootDir t) :
    ∀ n ∈ wildcardNames t rootDir name r,
      CleanAbs n ∧ pathJoin [rootDir, n] ∈ globHost t (pathJoin [rootDir, name]) r := by
  intro n hn
  unfold wildcardNames at hn
  obtain ⟨m, hm, e⟩ := List.mem_map.mp hn
  obtain ⟨hmc, hmb⟩ := ht m (globHost_sub t _ r m hm)
  obtain ⟨n', hn'c, hn'ne, em⟩ := below_join hr hmc hmb
  have := chop_gives_stage_name rootDir n' hr hn'c (Or.inr hn'ne)
  rw [← em] at this
  rw [this] at e
  subst e
  exact ⟨hn'c, by rw [← em]; exact hm⟩

/-- **`remove_same_names_as_add`**: a wildcard `omit` line deletes exactly the names the same
    `file` wildcard line adds (same glob, non-recursive, same cut) -/
theorem remove_same_names_as_add (t : HostTree) (rootDir name : Bytes) :
    removeNames t rootDir name = wildcardNames t rootDir name false := rfl

/-- the names a wildcard `omit` line deletes are clean absolute stage names -/
theorem remove_names_clean_abs (t : HostTree) (rootDir name : Bytes)
    (hr : CleanAbs rootDir) (ht : TreeBelow rootDir t) :
    ∀ n ∈ removeNames t rootDir name, CleanAbs n := fun n hn =>
  (wildcard_names_clean_abs t rootDir name false hr ht n (remove_same_names_as_add t rootDir name ▸ hn)).1

/-! ### the pre-fix cut -/

/-- **`old_chop_agrees_off_root`**: for every root other than "/" the two cuts are the same -/
theorem old_chop_agrees_off_root (t : HostTree) (rootDir name : Bytes) (r : Bool) (h : rootDir ≠ [SLASH]) :
    rootChopLengthOld rootDir = rootChopLength rootDir ∧
    wildcardNamesOld t rootDir name r = wildcardNames t rootDir name r := by
  have : rootChopLengthOld rootDir = rootChopLength rootDir := by simp [rootChopLengthOld, rootChopLength, h]
  exact ⟨this, by unfold wildcardNamesOld wildcardNames; rw [this]⟩

/-- a root file system: /etc/env.d/00basic, a name with blanks, *.conf files, a nested
    directory and a symlink to a directory -/
def tRoot : HostTree := ⟨[
  (b!"/etc", .dir), (b!"/etc/env.d", .dir), (b!"/etc/env.d/00basic", .file),
  (b!"/etc/a b.conf", .file), (b!"/etc/x.conf", .file), (b!"/etc/x.txt", .file),
  (b!"/usr", .dir), (b!"/usr/lib", .dir), (b!"/usr/lib/deep", .dir), (b!"/usr/lib/deep/f", .file),
  (b!"/usr/lnk", .symlink)]⟩

/-- the same below /r -/
def tR : HostTree := ⟨tRoot.nodes.map fun n => (b!"/r" ++ n.1, n.2)⟩

/-- **`old_chop_loses_slash_at_root`**: on root "/" the pre-fix cut yields a name without its
    leading slash where the fixed one yields the stage name -/
theorem old_chop_loses_slash_at_root :
    wildcardNamesOld tRoot b!"/" b!"/etc/env.d/*" false = [b!"etc/env.d/00basic"] ∧
    wildcardNames tRoot b!"/" b!"/etc/env.d/*" false = [b!"/etc/env.d/00basic"] := by decide +kernel

example : TreeBelow b!"/" tRoot := by decide +kernel
example : TreeBelow b!"/r" tR := by decide +kernel
example : wildcardNames tR b!"/r" b!"/etc/*.conf" false = [b!"/etc/a b.conf", b!"/etc/x.conf"] := by decide +kernel
example : wildcardNames tRoot b!"/" b!"/etc/*.conf" false = [b!"/etc/a b.conf", b!"/etc/x.conf"] := by decide +kernel
example : wildcardNamesOld tR b!"/r" b!"/etc/*.conf" false = wildcardNames tR b!"/r" b!"/etc/*.conf" false := by decide +kernel
/-- a `dir` line over a nested directory and a symlink to a directory: the directory
    contributes itself and everything below, the symlink itself only -/
example : wildcardNames tR b!"/r" b!"/usr/l*" true =
    [b!"/usr/lib", b!"/usr/lib/deep", b!"/usr/lib/deep/f", b!"/usr/lnk"] := by decide +kernel
example : wildcardNames tRoot b!"/" b!"/usr/l*" true =
    [b!"/usr/lib", b!"/usr/lib/deep", b!"/usr/lib/deep/f", b!"/usr/lnk"] := by decide +kernel
example : removeNames tRoot b!"/" b!"/usr/l*" = [b!"/usr/lib", b!"/usr/lnk"] := by decide +kernel

/-! ### wildcard adds with `src=` -/

/-- **`src_name_join`** (one match): with a clean absolute `prefix` (the line's name) and a clean
    absolute source pattern, for the match `path.Join(path.Dir(source), tail)` (`tail` clean,
    absolute, not "/": the match's path relative to the pattern's directory) the code's
    `path.Join(prefix, m[len(path.Dir(source)):])` is `path.Join(prefix, tail)`, clean,
    absolute, at or below `prefix`.  When `path.Dir(source)` is "/" the cut is 1 byte and
    `m[1:]` is the RELATIVE path `tail` without its slash; `path.Join` puts the separator
    back, so the name is the same (a plain concatenation would not: `src_concat_differs_at_root`). -/
theorem src_name_join (pfx source tail : Bytes) (hp : CleanAbs pfx) (hs : CleanAbs source)
    (ht : CleanAbs tail) (hne : tail ≠ [SLASH]) :
    srcName pfx source (pathJoin [pathDir source, tail]) = pathJoin [pfx, tail] ∧
    CleanAbs (pathJoin [pfx, tail]) ∧ Fs.under pfx (pathJoin [pfx, tail]) = true := by
  obtain ⟨ps, hps, ep⟩ := cleanAbs_comps pfx hp
  obtain ⟨ds, hds, ed⟩ := cleanAbs_comps (pathDir source) (pathDir_cleanAbs hs)
  obtain ⟨ts, hts, et⟩ := cleanAbs_comps tail ht
  have htne : ts ≠ [] := by intro e; apply hne; rw [et, e]; rfl
  have hj : pathJoin [pfx, tail] = absPath (ps ++ ts) := by rw [ep, et]; exact pathJoin_abs_abs ps ts hps hts
  refine ⟨?_, ?_, ?_⟩
  · unfold srcName
    rw [hj, ed, et, pathJoin_abs_abs ds ts hds hts, ep]
    by_cases hd : ds = []
    · subst hd
      have : (absPath ([] ++ ts)).drop (absPath []).length = joinWith SLASH ts := by
        simp [absPath, joinWith]
      rw [this]
      exact pathJoin_abs_rel ps ts hps hts htne
    · rw [absPath_append_abs ds ts hd htne, List.drop_left]
      exact pathJoin_abs_abs ps ts hps hts
  · rw [hj]; exact cleanAbs_absPath _ (mem_append_clean hps hts)
  · rw [hj, ep, under_absPath ps (ps ++ ts) hps (mem_append_clean hps hts)]
    exact List.prefix_append ps ts

/-- **`src_names_below_prefix`**: over a host tree of clean absolute paths below the source
    pattern's directory, every name a wildcard add line with `src=` yields is clean, absolute,
    at or below `prefix`, and is `path.Join(prefix, tail)` for a match
    `path.Join(path.Dir(source), tail)` — whether that directory is "/" or not. -/
theorem src_names_below_prefix (t : HostTree) (pfx source : Bytes) (r : Bool)
    (hp : CleanAbs pfx) (hs : CleanAbs source) (ht : TreeBelow (pathDir source) t) :
    ∀ n ∈ wildcardNamesSrc t pfx source r,
      CleanAbs n ∧ Fs.under pfx n = true ∧
      ∃ tail, CleanAbs tail ∧ pathJoin [pathDir source, tail] ∈ globHost t source r ∧
        n = pathJoin [pfx, tail] := by
  intro n hn
  unfold wildcardNamesSrc at hn
  obtain ⟨m, hm, e⟩ := List.mem_map.mp hn
  obtain ⟨hmc, hmb⟩ := ht m (globHost_sub t _ r m hm)
  obtain ⟨tail, htc, htne, em⟩ := below_join (pathDir_cleanAbs hs) hmc hmb
  obtain ⟨h1, h2, h3⟩ := src_name_join pfx source tail hp hs htc htne
  rw [em, h1] at e
  subst e
  exact ⟨h2, h3, tail, htc, by rw [← em]; exact hm, rfl⟩

/-- host files for `src=` lines: directly below "/", below /s, with a blank, nested -/
def tSrc : HostTree := ⟨[
  (b!"/sr1", .file), (b!"/sr 2", .file), (b!"/srd", .dir), (b!"/srd/in", .file),
  (b!"/srl", .symlink)]⟩
def tSrcS : HostTree := ⟨tSrc.nodes.map fun n => (b!"/s" ++ n.1, n.2)⟩

/-- **`src_concat_differs_at_root`**: with the source pattern directly below "/" the code's
    `path.Join(prefix, m[1:])` is the name below the prefix, `prefix + m[1:]` is not; below any
    other directory the two agree -/
theorem src_concat_differs_at_root :
    wildcardNamesSrc tSrc b!"/p q" b!"/sr*" false = [b!"/p q/sr 2", b!"/p q/sr1", b!"/p q/srd", b!"/p q/srl"] ∧
    wildcardNamesSrcConcat tSrc b!"/p q" b!"/sr*" false = [b!"/p qsr 2", b!"/p qsr1", b!"/p qsrd", b!"/p qsrl"] ∧
    wildcardNamesSrcConcat tSrcS b!"/p q" b!"/s/sr*" false = wildcardNamesSrc tSrcS b!"/p q" b!"/s/sr*" false := by
  decide +kernel

example : TreeBelow (pathDir b!"/sr*") tSrc ∧ CleanAbs b!"/p q" ∧ CleanAbs b!"/sr*" := by decide +kernel
example : TreeBelow (pathDir b!"/s/sr*") tSrcS := by decide +kernel
/-- a `dir` line with `src=`: the directory, what is below it, the symlink alone -/
example : wildcardNamesSrc tSrcS b!"/p" b!"/s/srd*" true = [b!"/p/srd", b!"/p/srd/in"] := by decide +kernel
example : wildcardNamesSrc tSrc b!"/p" b!"/sr*" true =
    [b!"/p/sr 2", b!"/p/sr1", b!"/p/srd", b!"/p/srd/in", b!"/p/srl"] := by decide +kernel

/-- OUTSIDE the theorems' hypotheses (the tree is not below `path.Dir(source)` as a byte
    string): the directory part of the pattern may carry `\*` (the tokenizer keeps that escape,
    `parseSource` does not count it as a wildcard), `filepath.Glob` reads it as a literal `*`,
    but the cut is the length of the PATTERN's directory, escapes included.  One escape is
    absorbed by `path.Join` (the cut eats the slash only); two eat into the name. -/
theorem src_cut_counts_escapes :
    wildcardNamesSrc ⟨[(b!"/a*/x1", .file)]⟩ b!"/p" b!"/a\\*/x*" false = [b!"/p/x1"] ∧
    wildcardNamesSrc ⟨[(b!"/a**/x1", .file)]⟩ b!"/p" b!"/a\\*\\*/x*" false = [b!"/p/1"] := by decide +kernel

end Lc.Props.C17Glob
