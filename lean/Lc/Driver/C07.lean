import Lc.Driver.Util
import Lc.Driver.C06
import Lc.Model.StageList
import Lc.Spec.Stage
import Lc.Spec.StageBridge

/-!
  Driver ops for C07: "c07.tar" (headers and content digests of every archive member against
  the lstat data of its source; thorough tier: extraction and compression observations).
-/
namespace Lc.Driver.C07
open Lean Lc Lc.Driver Lc.Stage Lc.Driver.C06

def sortPairs (l : List (Bytes × Bytes)) : List (Bytes × Bytes) :=
  (l.toArray.qsort (fun a b => bytesLt a.1 b.1)).toList

def jPairs (l : List (Bytes × Bytes)) : Json :=
  Json.arr (l.map fun (a, b) => Json.arr #[jb a, jb b]).toArray

def jMtime : Option Nat → Json
  | some t => Json.num (JsonNumber.fromNat t)
  | none => Json.str "now"

def memberJson (tbl : List (Bytes × Lstat)) (e : Entry) (h : Header) : Json :=
  let sha := if e.ltype = ltFile then
      (match lookupFs tbl e.source with | some s => s.sha | none => "") else Spec.Stage.emptySha
  obj [("name", jb h.name), ("type", Json.str (typeChar h.typeflag)), ("link", jb h.linkname),
       ("perm", Json.num (JsonNumber.fromNat (h.mode % 4096))), ("uid", Json.num (JsonNumber.fromNat h.uid)),
       ("gid", Json.num (JsonNumber.fromNat h.gid)), ("mtime", jMtime h.mtime),
       ("size", Json.num (JsonNumber.fromNat h.size)), ("maj", Json.num (JsonNumber.fromNat h.devmajor)),
       ("min", Json.num (JsonNumber.fromNat h.devminor)), ("xattrs", jPairs (sortPairs h.xattrs)),
       ("sha", Json.str sha)]

def srcOf (s : Lstat) : Spec.Stage.Src :=
  { Spec.Stage.srcOf s with xattrs := sortPairs s.xattrs }

/-- the options of the add-files (or built-in list) line that applies to a member -/
def overOf (o : Json) : Spec.Stage.Over × Bytes :=
  (Spec.Stage.overOfEntry (getEntry o), getB o "src")

structure MemObs where
  name : Bytes
  type : String
  link : Bytes
  perm : Nat
  uid : Nat
  gid : Nat
  mtime : Option Nat
  size : Nat
  maj : Nat
  min : Nat
  xattrs : List (Bytes × Bytes)
  sha : String

def getMemObs (m : Json) : MemObs :=
  { name := getB m "name", type := getStr m "type", link := getB m "link", perm := getNat m "perm",
    uid := getNat m "uid", gid := getNat m "gid",
    mtime := (match m.getObjVal? "mtime" with | .ok (.str _) => none | _ => some (getNat m "mtime")),
    size := getNat m "size", maj := getNat m "maj", min := getNat m "min",
    xattrs := getPairs m "xattrs", sha := getStr m "sha" }

/-- names of the header fields of one member that differ from what the specification fixes -/
def memberDiffs (tbl : List (Bytes × Lstat)) (ovs : List (Bytes × Json)) (m : MemObs) : List String :=
  match Spec.Stage.stripDot m.name with
  | none => ["name"]
  | some n =>
    let (ov, src) := match ovs.find? (fun kv => kv.1 == n) with
      | some kv => overOf kv.2
      | none => ({}, [])
    let key := if src.isEmpty then pathJoin2 rootSym n else src
    let s := (lookupFs tbl key).map srcOf
    let e := Spec.Stage.expected s ov
    let chk (b : Bool) (what : String) : List String := if b then [] else [what]
    if m.type == "h" then
      -- a hard-link member stands for a regular file of the root: ownership, permissions,
      -- time stamp and attributes are those of that file (the link itself is judged by C06)
      chk (e.kind == "f") "type" ++ chk (m.perm == e.perm) "perm" ++ chk (m.uid == e.uid) "uid" ++
      chk (m.gid == e.gid) "gid" ++ chk (m.mtime == e.mtime) "mtime" ++ chk (m.xattrs == e.xattrs) "xattrs"
    else
      chk (m.type == e.kind) "type" ++ chk (m.perm == e.perm) "perm" ++ chk (m.uid == e.uid) "uid" ++
      chk (m.gid == e.gid) "gid" ++ chk (m.mtime == e.mtime) "mtime" ++ chk (m.size == e.size) "size" ++
      chk (m.link == e.link) "link" ++ chk (m.maj == e.maj) "major" ++ chk (m.min == e.min) "minor" ++
      chk (m.xattrs == e.xattrs) "xattrs" ++ chk (m.sha == e.sha) "bytes"

/-- extraction differences that are the known effect of GNU tar restoring a directory's time
    stamp as soon as a non-descendant follows it, while members of that directory come later
    (byte order puts `d-x`, `d.x`, `d x` between `d` and `d/…`) -/
def isNoncontiguousDirMtime (members : List MemObs) (kind : String) (name : Bytes) : Bool :=
  kind == "mtime" &&
  members.any (fun m => m.type == "d" && Spec.Stage.stripDot m.name == some name) &&
  members.any (fun m => match Spec.Stage.stripDot m.name with
    | some n => hasPrefix n name && n.length > name.length &&
                (match n.drop name.length with | c :: _ => c < 47 | [] => false)
    | none => false) &&
  members.any (fun m => match Spec.Stage.stripDot m.name with
    | some n => hasPrefix n (name ++ [47]) && n.length > name.length + 1
    | none => false)

def handle (op : String) (j : Json) : Option Json :=
  match op with
  | "c07.tar" =>
    let (_, tbl) := getEnv j
    let model := match runModel j with
      | .error _ => obj [("cls", "err")]
      | .ok ehs =>
        obj [("cls", "ok"), ("members", Json.arr (ehs.map fun (e, h) => memberJson tbl e h).toArray)]
    let impl := getObj j "impl"
    let cls := getStr impl "cls"
    if cls != "ok" then
      some (obj ([("model", model), ("holds", Json.bool true), ("trivial", Json.bool true),
                 ("tags", Json.arr #[Json.str ("cls:" ++ cls)])] ++ linksFields j))
    else
      let ovs := (getArr j "ov").map fun o => (getB o "name", o)
      let members := (getArr impl "members").map getMemObs
      let bad := members.filterMap fun m =>
        match memberDiffs tbl ovs m with
        | [] => none
        | ds => some (obj [("name", jb m.name), ("fields", Json.arr (ds.map Json.str).toArray)])
      -- thorough tier: extraction and compression observations travel next to `impl`
      let deep := getBool j "deep"
      let exDiffs := (getArr j "extract").map fun x => match x with
        | .arr a =>
          let s := fun (i : Nat) => match a[i]? with | some (Json.str s) => s | _ => ""
          (s 0, fromHex (s 1))
        | _ => ("?", [])
      let exKnown := exDiffs.filter fun (k, n) => isNoncontiguousDirMtime members k n
      let exNew := exDiffs.filter fun (k, n) => !isNoncontiguousDirMtime members k n
      let comp := getObj j "compress"
      let compBad := ["gzip", "bzip2", "xz"].filter fun t =>
        deep && !(getStr comp t == "same" || getStr comp t == "absent")
      let headersOK := bad.isEmpty
      let holds := headersOK && exDiffs.isEmpty && compBad.isEmpty
      let finding := !holds && headersOK && compBad.isEmpty && exNew.isEmpty && !exKnown.isEmpty
      let kinds := members.map (·.type)
      let tags := ["cls:ok"] ++ (["f", "d", "l", "h", "c", "b"].filter fun k => kinds.contains k).map (fun k => "kind:" ++ k) ++
        (if members.any (fun m => !m.xattrs.isEmpty) then ["xattrs"] else []) ++
        (if members.any (fun m => m.mtime.isNone) then ["synthesised"] else []) ++
        (if members.any (fun m => m.link.length > 255) then ["longlink"] else []) ++
        (if members.any (fun m => m.min > 255) then ["bigminor"] else []) ++
        (if deep then ["deep"] ++ (["gzip", "bzip2", "xz"].map fun t => t ++ ":" ++ getStr comp t) else [])
      let base := [("model", model), ("holds", Json.bool holds),
                   ("bad_members", Json.arr (bad.take 6).toArray),
                   ("extract_new", Json.arr (exNew.take 6 |>.map fun (k, n) => Json.arr #[Json.str k, jb n]).toArray),
                   ("compress_bad", Json.arr (compBad.map Json.str).toArray),
                   ("tags", Json.arr (tags.map Json.str).toArray)]
      let base := base ++ linksFields j
      some (obj (if finding then base ++ [("finding", Json.str "dir-mtime-noncontiguous")] else base))
  | _ => none

end Lc.Driver.C07
