import Lc.Driver.Util
import Lc.Model.Depend
import Lc.Spec.DepGrammar

namespace Lc.Driver.C14
open Lean Lc Lc.Driver Lc.AtomParse Lc.Depend Lc.Spec.DepGrammar

/-! ### model → JSON (same shape as the harness observation) -/

def jUse (u : UseDep) : Json := obj [("t", Json.num u.type), ("d", Json.num u.dflt), ("f", jb u.flag)]

def jPa (p : ParsedAtom) : Json :=
  obj [("atom", jb p.atom), ("cat", jb p.category), ("name", jb p.name), ("bv", jb p.baseVer),
       ("suf", jb p.suffix), ("rev", jb p.revision), ("cv", jb p.compVer), ("slot", jb p.slot),
       ("sub", jb p.subslot), ("repo", jb p.repo), ("vop", Json.num p.verRelop),
       ("sop", Json.num p.slotRelop), ("any", Json.bool p.anySlot), ("same", Json.bool p.sameSlot),
       ("bl", Json.bool p.blocker), ("hb", Json.bool p.hardBlock),
       ("use", Json.arr (p.useDeps.map jUse).toArray)]

/-- what is observable of a *DependAtom inside a decoded tree -/
def jPaTree (p : ParsedAtom) : Json :=
  obj [("atom", jb p.atom), ("cat", jb p.category), ("name", jb p.name), ("cv", jb p.compVer),
       ("slot", jb p.slot), ("sub", jb p.subslot), ("repo", jb p.repo),
       ("bl", Json.bool p.blocker), ("hb", Json.bool p.hardBlock),
       ("use", Json.arr (p.useDeps.map jUse).toArray)]

mutual
def jDep : MDep → Json
  | .atom pa => obj [("k", Json.num 0), ("pa", jPaTree pa)]
  | .cond t f ds => obj [("k", Json.num t), ("flag", jb f), ("deps", Json.arr (jDeps ds).toArray)]
def jDeps : MDepL → List Json
  | .nil => []
  | .cons d ds => jDep d :: jDeps ds
end

def clsOf {α} (r : Res α) : String :=
  match r with
  | .ok _ => "ok"
  | .error .panic => "panic"
  | .error (.err "fuel") => "fuel"
  | .error (.err _) => "err"

def modelDecode1 (s : Bytes) : Json × Option MDepL :=
  match decodeDependencies s with
  | .ok l => (obj [("cls", "ok"), ("deps", Json.arr (jDeps l).toArray)], some l)
  | r => (obj [("cls", Json.str (clsOf r))], none)

/-- decode, print with String(), decode again -/
def modelDecode (s : Bytes) : Json :=
  match modelDecode1 s with
  | (j, none) => j
  | (j, some l) =>
    match topString l with
    | .ok str => (j.setObjVal! "str" (jb str)).setObjVal! "re" (modelDecode1 str).1
    | r => j.setObjVal! "str" (obj [("cls", Json.str (clsOf r))])

def tokNum : TokType → Nat
  | .error => 0 | .eof => 1 | .open => 2 | .close => 3 | .whenUseSet => 4 | .whenUseUnset => 5
  | .anyOf => 6 | .exactlyOneOf => 7 | .atMostOneOf => 8 | .testForAtom => 9

/-! ### JSON → abstract syntax -/

def optB (j : Json) (k : String) : Option Bytes :=
  match j.getObjVal? k with
  | .ok (.str s) => some (fromHex s)
  | _ => none

def getVersion (j : Json) : Option VersionAst :=
  match j with
  | .obj _ => some {
      nums := getBs j "nums",
      letter := (match j.getObjValAs? Nat "letter" with | .ok n => some n | _ => none),
      suffixes := (getArr j "suf").map (fun x => match x with
        | .arr a => ((match a[0]? with | some v => (v.getNat?.toOption.getD 0) | none => 0),
                     (match a[1]? with | some (Json.str s) => fromHex s | _ => []))
        | _ => (0, [])),
      rev := optB j "rev" }
  | _ => none

def getAtomAst (j : Json) : AtomAst :=
  { blocker := getNat j "bl", op := getNat j "op", glob := getBool j "glob",
    category := getB j "cat", name := getB j "name",
    version := getVersion (getObj j "ver"),
    slot := (match optB j "slot" with | some s => some (s, optB j "sub") | none => none),
    slotOp := getNat j "sop", repo := optB j "repo",
    useDeps := (getArr j "use").map fun u => ⟨getB u "f", getNat u "k", getNat u "d"⟩ }

instance : Inhabited Dep := ⟨.allOf .nil⟩
instance : Inhabited DepL := ⟨.nil⟩

partial def getDep (j : Json) : Dep :=
  let ds := (getArr j "deps").foldr (fun x acc => DepL.cons (getDep x) acc) DepL.nil
  match getStr j "k" with
  | "atom" => .atom (getAtomAst (getObj j "ast"))
  | "all" => .allOf ds
  | "any" => .anyOf ds
  | "one" => .exactlyOne ds
  | "most" => .atMostOne ds
  | _ => .useCond (getB j "flag") (getBool j "neg") ds

def getDepL : List Json → DepL
  | [] => .nil
  | x :: xs => .cons (getDep x) (getDepL xs)

/-! ### specification → expected observation -/

def jExpect (e : Expect) : Json :=
  obj [("atom", jb e.atom), ("cat", jb e.category), ("name", jb e.name), ("bv", jb e.baseVer),
       ("suf", jb e.suffix), ("rev", jb e.revision), ("slot", jb e.slot),
       ("sub", jb e.subslot), ("repo", jb e.repo), ("vop", Json.num e.verRelop),
       ("sop", Json.num e.slotRelop), ("any", Json.bool e.anySlot), ("same", Json.bool e.sameSlot),
       ("bl", Json.bool e.blocker), ("hb", Json.bool e.hardBlock),
       ("use", Json.arr (e.useDeps.map fun u =>
          obj [("t", Json.num u.kind), ("d", Json.num u.dflt), ("f", jb u.flag)]).toArray)]

def jExpectTree (e : Expect) : Json :=
  obj [("atom", jb e.atom), ("cat", jb e.category), ("name", jb e.name), ("slot", jb e.slot),
       ("sub", jb e.subslot), ("repo", jb e.repo),
       ("bl", Json.bool e.blocker), ("hb", Json.bool e.hardBlock),
       ("use", Json.arr (e.useDeps.map fun u =>
          obj [("t", Json.num u.kind), ("d", Json.num u.dflt), ("f", jb u.flag)]).toArray)]

mutual
def jExpDep : Dep → Json
  | .atom a => obj [("k", Json.num 0), ("pa", jExpectTree (expectFields a))]
  | .allOf ds => grp 1 [] ds
  | .anyOf ds => grp 2 [] ds
  | .exactlyOne ds => grp 3 [] ds
  | .atMostOne ds => grp 4 [] ds
  | .useCond f neg ds => grp (if neg then 6 else 5) f ds
def jExpDeps : DepL → List Json
  | .nil => []
  | .cons d ds => jExpDep d :: jExpDeps ds
def grp (k : Nat) (f : Bytes) (ds : DepL) : Json :=
  obj [("k", Json.num k), ("flag", jb f), ("deps", Json.arr (jExpDeps ds).toArray)]
end

/-- drop the comparison string (`cv`, the business of C13) everywhere -/
partial def stripCv : Json → Json
  | .obj kvs => Json.mkObj ((kvs.toList.filter fun (p : String × Json) => p.1 != "cv").map fun p => (p.1, stripCv p.2))
  | .arr a => .arr (a.map stripCv)
  | j => j

/-- the structural shape of an observed tree: atoms reduced to their text -/
partial def shapeOf (j : Json) : Json :=
  match j.getObjValAs? Nat "k" with
  | .ok 0 => obj [("a", getObj (getObj j "pa") "atom")]
  | .ok k => obj [("k", Json.num k), ("flag", getObj j "flag"),
                  ("deps", Json.arr ((getArr j "deps").map shapeOf).toArray)]
  | _ => Json.null

partial def jRaw : RawDep → Json
  | .atom t => obj [("a", jb t)]
  | .group k f ds => obj [("k", Json.num k), ("flag", jb f), ("deps", Json.arr (ds.map jRaw).toArray)]

def allAtomsValid (l : DepL) : Bool := l.atoms.all fun a => validIn a true true

def isPrefixOf (p s : Bytes) : Bool := hasPrefix s p

/-- textual consistency of an accepted atom with its decomposition -/
def atomTextOk (s : Bytes) (vnr dep : Bool) (impl : Json) : Bool :=
  let pa := getObj impl "pa"
  let e := getNat impl "end"
  let text := s.take e
  let bl := getBool pa "bl"
  let hb := getBool pa "hb"
  let nb := (text.takeWhile (· == 33)).length
  let afterBl := text.drop (if hb then 2 else if bl then 1 else 0)
  let afterOp := afterBl.dropWhile fun c => c == 60 || c == 61 || c == 62 || c == 126
  let cat := getB pa "cat"
  let name := getB pa "name"
  let _ := vnr
  decide (e ≤ s.length) && getB pa "atom" == text &&
  (if hb then nb == 2 else if bl then nb == 1 else nb == 0) &&
  hasPrefix afterOp ((if cat.isEmpty then [] else cat ++ [47]) ++ name) &&
  (dep || e == s.length)

def handle (op : String) (j : Json) : Option Json :=
  match op with
  | "dep.token" =>
    let s := getB j "s"
    let model := match getToken s with
      | .ok (ty, flag, cur) => obj [("tt", Json.num (tokNum ty)), ("flag", jb flag),
                                    ("pos", Json.num (s.length - cur.length))]
      | r => obj [("cls", Json.str (clsOf r))]
    let impl := getObj j "impl"
    some (obj [("model", model), ("holds", Json.bool (getStr impl "cls" != "panic")),
               ("tags", Json.arr #[Json.str s!"tok:{getNat model "tt"}"])])
  | "dep.decode" =>
    let s := getB j "s"
    let model := modelDecode s
    let impl := getObj j "impl"
    let icls := getStr impl "cls"
    let ideps := getObj impl "deps"
    let reOk := getStr (getObj impl "re") "cls" == "ok" && getObj (getObj impl "re") "deps" == ideps
    match j.getObjVal? "ast" with
    | .ok (.arr a) =>
      let t := getDepL a.toList
      let valid := allAtomsValid t && t.flagsOk
      let expected := Json.arr (jExpDeps t).toArray
      let harnessOk := tokens s == t.toks
      let holds := if valid then icls == "ok" && stripCv ideps == expected && reOk
                   else icls == "err"
      some (obj [("model", model), ("harness_ok", Json.bool harnessOk), ("holds", Json.bool holds),
                 ("expected", expected),
                 ("tags", Json.arr #[Json.str (if valid then "gen:valid" else "gen:invalid-atom"),
                                     Json.str s!"toks:{min (t.toks.length / 8) 8}"])])
    | _ =>
      let strict := readDeps false s
      let lenient := readDeps true s
      let shape := Json.arr ((getArr impl "deps").map shapeOf).toArray
      let jr (r : Option (List RawDep)) : Json := match r with
        | some l => Json.arr (l.map jRaw).toArray
        | none => Json.null
      if icls == "panic" then
        some (obj [("model", model), ("holds", Json.bool false), ("tags", Json.arr #["arb:panic"])])
      else if icls == "ok" then
        if strict.isSome then
          some (obj [("model", model), ("holds", Json.bool (shape == jr strict && reOk)),
                     ("expected", jr strict), ("tags", Json.arr #["arb:accepted"])])
        else if lenient.isSome && shape == jr lenient && reOk then
          some (obj [("model", model), ("holds", Json.bool false), ("finding", "usecond-bare-atom"),
                     ("expected", Json.null), ("tags", Json.arr #["arb:lenient"])])
        else
          some (obj [("model", model), ("holds", Json.bool false), ("expected", Json.null),
                     ("tags", Json.arr #["arb:mis-accepted"])])
      else
        some (obj [("model", model), ("holds", Json.bool (icls == "err")),
                   ("tags", Json.arr #[Json.str (if strict.isSome then "arb:rejected-atom" else "arb:rejected-structure")])])
  | "atom.parse" =>
    let s := getB j "s"
    let vnr := getBool j "vnr"
    let dep := getBool j "dep"
    let model := match rawParseAtomAtCursor s vnr dep with
      | .ok (pa, cur) => obj [("cls", "ok"), ("end", Json.num (s.length - cur.length)), ("pa", jPa pa)]
      | r => obj [("cls", Json.str (clsOf r))]
    let impl := getObj j "impl"
    let icls := getStr impl "cls"
    match j.getObjVal? "ast" with
    | .ok (.obj o) =>
      let a := getAtomAst (.obj o)
      let valid := validIn a vnr dep
      let expected := jExpect (expectFields a)
      let holds := if valid then icls == "ok" && stripCv (getObj impl "pa") == expected
                                   && getNat impl "end" == s.length
                   else icls == "err"
      some (obj [("model", model), ("harness_ok", Json.bool (printAtom a == s && (wfAtom a || !valid))),
                 ("holds", Json.bool holds), ("expected", expected),
                 ("tags", Json.arr #[Json.str (if valid then "atom:valid" else "atom:ctx-invalid"),
                                     Json.str (if a.version.isSome then "ver" else "nover")])])
    | _ =>
      let holds := icls == "err" || (icls == "ok" && atomTextOk s vnr dep impl)
      some (obj [("model", model), ("holds", Json.bool holds),
                 ("tags", Json.arr #[Json.str ("atom-arb:" ++ icls)])])
  | _ => none

end Lc.Driver.C14
