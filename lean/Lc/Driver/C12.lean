import Lc.Driver.Util
import Lc.Model.Mountinfo
import Lc.Spec.KernelRender

namespace Lc.Driver.C12
open Lean Lc Lc.Driver Lc.Mountinfo Lc.Spec

def jMount (m : MountType) : Json :=
  obj [("source", jb m.source), ("mountpoint", jb m.mountpoint), ("source2", jb m.source2),
       ("workdir", jb m.workdir), ("fstype", jb m.fstype), ("options", jb m.options),
       ("inShadow", Json.bool m.inShadow)]

def getSOpt (j : Json) : SOpt :=
  match j with
  | .arr a =>
    let k := match a[0]? with | some (Json.str s) => fromHex s | _ => []
    let v := match a[1]? with | some (Json.str s) => some (fromHex s) | _ => none
    ⟨k, v⟩
  | _ => ⟨[], none⟩

def getKMount (j : Json) : KMount :=
  { id := getB j "id", parent := getB j "parent", dev := getB j "dev", root := getB j "root",
    mp := getB j "mp", opts := getB j "opts", optional := getBs j "optional",
    fstype := getB j "fstype", source := getB j "source",
    super := (getArr j "super").map getSOpt }

def modelProbe (text : Bytes) : Json :=
  match probeMounts text with
  | .error e => obj [("cls", Json.str (Res.cls (α := Unit) (.error e)))]
  | .ok m =>
    let srcs := m.list.map fun mnt => match getMountSources m mnt with
      | .ok l => jbs l
      | .error _ => obj [("cls", "panic")]
    let getm := m.list.map fun mnt => match getMount m mnt.mountpoint with
      | some x => jb (x.fstype ++ 32 :: x.options)
      | none => Json.null
    obj [("cls", "ok"), ("mounts", Json.arr (m.list.map jMount).toArray),
         ("sources", Json.arr srcs.toArray),
         ("lowerdirs", jbs (overlayLowerdirs m)),
         ("getmount", Json.arr getm.toArray)]

/-- what the specification says a reader must report for table `t` (same JSON shape as
    the implementation's observation, minus the fields the spec does not define) -/
def expectedJson (t : List KMount) : Json :=
  let ms := (t.zip (shadowFlags t)).map fun (m, s) =>
    let e := expectedOf m
    obj [("source", jb e.lower), ("mountpoint", jb e.mountpoint), ("source2", jb e.upper),
         ("workdir", jb e.work), ("fstype", jb e.fstype), ("options", jb e.options),
         ("inShadow", Json.bool s)]
  obj [("mounts", Json.arr ms.toArray),
       ("sources", Json.arr (t.map fun m => jbs (expectedSources t m)).toArray)]

def handle (op : String) (j : Json) : Option Json :=
  match op with
  | "fs.unescape" =>
    let s := getB j "s"
    let out := unescape s
    let model := obj [("out", jb out)]
    -- oracle: when the case carries the raw string and the escape set, decoding what the
    -- implementation returned must give back the raw string
    match j.getObjVal? "raw" with
    | .ok _ =>
      let raw := getB j "raw"
      let esc := getB j "esc"
      let specIn := mangleWith (fun b => esc.contains b) raw
      let implOut := getB (getObj j "impl") "out"
      some (obj [("model", model), ("harness_ok", Json.bool (specIn == s)),
                 ("holds", Json.bool (implOut == raw)),
                 ("tags", Json.arr #[Json.str (if specIn == raw then "esc:none" else "esc:some")])])
    | .error _ => some (obj [("model", model), ("holds", Json.bool true),
                              ("tags", Json.arr #[Json.str "raw-bytes"])])
  | "fs.probe" =>
    let text := getB j "text"
    let model := modelProbe text
    match j.getObjVal? "table" with
    | .ok (.arr a) =>
      let t := a.toList.map getKMount
      let exp := expectedJson t
      let impl := getObj j "impl"
      let holds := getObj impl "mounts" == getObj exp "mounts"
                   && getObj impl "sources" == getObj exp "sources"
      let tags := [s!"mounts:{t.length}"] ++
        (if t.any (fun m => m.fstype == b!"overlay") then ["overlay"] else []) ++
        (if t.any (fun m => m.optional.length > 0) then ["optional"] else []) ++
        (if t.any (fun m => mangleWith pathEsc m.mp != m.mp) then ["escaped-mp"] else []) ++
        -- an overlay directory with a raw '=' (the kernel does not escape it in option values)
        (if t.any (fun m => m.fstype == b!"overlay" && m.super.any fun o =>
            (o.key == b!"lowerdir" || o.key == b!"upperdir" || o.key == b!"workdir") &&
            (match o.val with | some v => v.contains 61 | none => false))
         then ["value-with-equals"] else [])
      -- recorded finding: the kernel does not escape CR, and the line reader (bufio.ScanLines)
      -- strips one CR at the end of a line: a last option value ending in CR comes back short
      let crAtEnd := t.any fun m => match m.super.getLast? with
        | some o => (match o.val with | some v => v.getLast? == some 13 | none => o.key.getLast? == some 13)
        | none => false
      let base := [("model", model), ("harness_ok", Json.bool (render t == text)),
                   ("holds", Json.bool holds), ("expected", exp),
                   ("tags", Json.arr (tags.map Json.str).toArray)]
      if !holds && crAtEnd && model == impl then
        some (obj (base ++ [("finding", Json.str "mountinfo-cr-at-line-end")]))
      else some (obj base)
    | _ => some (obj [("model", model), ("holds", Json.bool true),
                      ("tags", Json.arr #[Json.str "malformed"])])
  | _ => none

end Lc.Driver.C12
