import Lc.Driver.Util
import Lc.Model.Concurrent

namespace Lc.Driver.C20
open Lean Lc Lc.Driver Lc.Concurrent

def buildPre : Bytes := b!"/VB/layers/b0/build"

def actsOf (cmd : String) (targets : List Bytes) : List Act :=
  if cmd == "mount" then mountActs targets else umountActs buildPre

def jState (s : St) : Json :=
  obj [("kernel", jbs (canonK s.kernel)), ("r0", Json.str (if s.p0.failed then "err" else "ok")),
       ("r1", Json.str (if s.p1.failed then "err" else "ok"))]

def getSched (j : Json) : List Bool :=
  (getArr j "sched").map fun x => match x with | .bool b => b | _ => false

def handle (op : String) (j : Json) : Option Json :=
  match op with
  | "conc.run" =>
    let targets := (getBs j "targets").map fun t => buildPre ++ t
    let k0 := if getBool j "premounted" then targets else []
    let a0 := actsOf (getStr j "cmd0") targets
    let a1 := actsOf (getStr j "cmd1") targets
    let s := run k0 a0 a1 (getSched j)
    let impl := getObj j "impl"
    -- property: the final table is one some serial order could have produced
    let implK := getObj impl "kernel"
    let s01 := serial01 k0 a0 a1
    let s10 := serial10 k0 a0 a1
    let serialOk := implK == jbs (canonK s01.kernel) || implK == jbs (canonK s10.kernel)
    let tags := [getStr j "cmd0" ++ "/" ++ getStr j "cmd1", (if serialOk then "serial-explainable" else "not-serial")]
    if serialOk then some (obj [("model", jState s), ("holds", Json.bool true), ("tags", Json.arr (tags.map Json.str).toArray)])
    else if implK != jbs (canonK s.kernel) then
      some (obj [("model", jState s), ("holds", Json.bool false),
                 ("why", Json.str "final mount table is neither serially explainable nor the outcome the recorded race produces for this schedule"),
                 ("tags", Json.arr (tags.map Json.str).toArray)])
    else some (obj [("model", jState s), ("holds", Json.bool false), ("finding", Json.str "no-lock-between-check-and-mount"),
                    ("why", Json.str "final mount table is not the result of any serial order of the two commands"),
                    ("tags", Json.arr (tags.map Json.str).toArray)])
  | _ => none

end Lc.Driver.C20
