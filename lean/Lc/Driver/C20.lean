import Lc.Driver.Util
import Lc.Model.Concurrent

namespace Lc.Driver.C20
open Lean Lc Lc.Driver Lc.Concurrent

def layerNames : List Bytes := [b!"b0", b!"d0", b!"d1"]
def buildOf (n : Bytes) : Bytes := b!"/VB/layers/" ++ n ++ b!"/build"

structure Chain where
  names : List Bytes
  imports : List (List Bytes)     -- per layer: mountpoints below its build root
  bases : List Bytes              -- per layer: name of its base layer ("" = none)
  order : List Bytes := []        -- normalized order as the implementation reports it (umount -all)

def getChain (j : Json) : Chain :=
  let ls := (getArr j "layers").map fun l => match l with
    | .arr a => a.toList.map fun x => match x with | .str s => fromHex s | _ => []
    | _ => []
  if ls.isEmpty then { names := [b!"b0"], imports := [getBs j "targets"], bases := [[]] }
  else
    let names := if (getBs j "names").isEmpty then layerNames.take ls.length else getBs j "names"
    -- a chain unless the case says otherwise: every layer sits on the one before it
    let bases := if (getArr j "bases").isEmpty then [[]] ++ names.take (names.length - 1) else getBs j "bases"
    { names := names, imports := ls, bases := bases, order := getBs (getObj j "impl") "order" }

def idxOf (c : Chain) (n : Bytes) : Nat := c.names.idxOf n

/-- mounts of layer i, in the order mountOne issues them: overlay (derived), then imports -/
def layerTargets (c : Chain) (i : Nat) : List Bytes :=
  let n := c.names.getD i []
  (if !(c.bases.getD i []).isEmpty then [buildOf n] else []) ++ (c.imports.getD i []).map fun t => buildOf n ++ t

/-- indices from the root base layer down to layer i -/
def chainIdx (c : Chain) : Nat → Nat → List Nat
  | 0, _ => []
  | fuel + 1, i =>
    let b := c.bases.getD i []
    (if b.isEmpty then [] else chainIdx c fuel (idxOf c b)) ++ [i]

/-- build roots of the layers whose base is `n` -/
def kidsOf (c : Chain) (n : Bytes) : List Bytes :=
  ((c.names.zip c.bases).filter fun nb => nb.2 == n).map fun nb => buildOf nb.1

def actsOf (c : Chain) (cmd : String) : List Act :=
  match cmd.splitOn " " with
  | [verb, layer] =>
    let n := layer.toUTF8.toList.map (·.toNat)
    let i := idxOf c n
    let chain := chainIdx c (c.names.length + 1) i
    if verb == "mount" then mountChainActs (chain.map (layerTargets c))
    else if verb == "chroot" then chrootChainActs (chain.map (layerTargets c))
    else umountLayerActs (buildOf n) (kidsOf c n)
  | [verb] =>
    if verb == "mount" then mountChainActs [layerTargets c 0]
    else if verb == "umountall" then
      umountAllActs (c.order.reverse.map fun n => (buildOf n, kidsOf c n))
    else umountLayerActs (buildOf b!"b0") []
  | _ => []

def strB (b : Bytes) : String := toStringLossy b

def jState (s : St) : List (String × Json) :=
  [("kernel", jbs (canonK s.kernel)), ("r0", Json.str (if s.p0.failed then "err" else "ok")),
   ("r1", Json.str (if s.p1.failed then "err" else "ok"))]

def getSched (j : Json) : List Bool :=
  (getArr j "sched").map fun x => match x with | .bool b => b | _ => false

def handle (op : String) (j : Json) : Option Json :=
  match op with
  | "conc.run" =>
    let c := getChain j
    let pre := (getBs j "pre").map strB
    let k0 : List Bytes := if getBool j "premounted" then layerTargets c 0 else []
    let k0 := pre.foldl (fun k cmd => (solo k (actsOf c cmd)).kernel) k0
    let cmd0 := getStr j "cmd0"
    let cmd1 := getStr j "cmd1"
    let a0 := actsOf c cmd0
    let a1 := actsOf c cmd1
    let s := run k0 a0 a1 (getSched j)
    let thenCmds := (getBs j "then").map strB
    let (thenOut, _) := thenCmds.foldl (fun (acc : List Json × List Bytes) cmd =>
      let r := solo acc.2 (actsOf c cmd)
      (acc.1 ++ [obj [("r", Json.str (if r.p0.failed then "err" else "ok")), ("kernel", jbs (canonK r.kernel))]], r.kernel))
      ([], s.kernel)
    let impl := getObj j "impl"
    -- the visiting order of umount -all is taken from the implementation (echoed, not judged here)
    let model := obj (jState s ++ (match getObj impl "order" with | .null => [] | o => [("order", o)]) ++
      (if thenCmds.isEmpty then [] else [("then", Json.arr thenOut.toArray)]))
    let implK := getObj impl "kernel"
    let s01 := serial01 k0 a0 a1
    let s10 := serial10 k0 a0 a1
    let serialOk := implK == jbs (canonK s01.kernel) || implK == jbs (canonK s10.kernel)
    -- "one later umount fully unmounts the layer": after a successful later umount of layer L
    -- nothing is left at or below L's build root
    let thenBad := ((getArr impl "then").zip thenCmds).any fun (o, cmd) =>
      match cmd.splitOn " " with
      | ["umount", layer] =>
        let pre := buildOf (layer.toUTF8.toList.map (·.toNat))
        getStr o "r" == "ok" && (match getObj o "kernel" with
          | .arr a => a.toList.any fun x => match x with
              | .str h => atOrBelow pre (fromHex h)
              | _ => false
          | _ => false)
      | _ => false
    let verb := fun (cmd : String) => (cmd.splitOn " ").headD ""
    let tags := [verb cmd0 ++ "/" ++ verb cmd1, s!"depth:{c.names.length}",
                 (if serialOk then "serial-explainable" else "not-serial")]
    let base := [("model", model), ("tags", Json.arr (tags.map Json.str).toArray)]
    if thenBad then
      some (obj (base ++ [("holds", Json.bool false), ("why", Json.str "a later umount reported success but left mounts of the layer behind")]))
    else if serialOk then some (obj (base ++ [("holds", Json.bool true)]))
    else if implK != jbs (canonK s.kernel) then
      some (obj (base ++ [("holds", Json.bool false),
        ("why", Json.str "final mount table is neither serially explainable nor the outcome the recorded race produces for this schedule")]))
    else some (obj (base ++ [("holds", Json.bool false), ("finding", Json.str "no-lock-between-check-and-mount"),
                             ("why", Json.str "final mount table is not the result of any serial order of the two commands")]))
  | _ => none

end Lc.Driver.C20
