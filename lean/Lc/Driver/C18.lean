import Lc.Driver.Util
import Lc.Model.Config
import Lc.Spec.Precedence

namespace Lc.Driver.C18
open Lean Lc Lc.Driver Lc.Config

/-- how the kernel resolves a name for the listings the harness builds (regular
    directories only, no symlinks, no `..` and no trailing slash in generated names):
    relative names against the working directory, repeated slashes and `.` ignored -/
def normName (cwd : Bytes) (n : Bytes) : Bytes :=
  if isAbs n then pathClean n else pathClean (cwd ++ SLASH :: n)

def getPairs (j : Json) (k : String) : List (Bytes × Bytes) :=
  (getArr j k).map fun x => match x with
    | .arr a =>
      let f := fun (i : Nat) => match a[i]? with | some (Json.str s) => fromHex s | _ => []
      (f 0, f 1)
    | _ => ([], [])

def caseFs (j : Json) : Fs :=
  let cwd := getB j "cwd"
  let files : List (Bytes × Node) :=
    (getPairs j "files").map (fun p => (normName cwd p.1, Node.file p.2)) ++
    (getBs j "dirs").map (fun d => (normName cwd d, Node.dir))
  fun n => if n.contains 0 then none else lookupName files (normName cwd n)

def caseEnv (j : Json) : Env :=
  let e := getObj j "env"
  { layerroot := getB e "LAYERROOT", layerconf := getB e "LAYERCONF", home := getB e "HOME",
    argv0 := getB j "argv0" }

def caseSw (j : Json) : Switches :=
  let s := getObj j "switches"
  { configfile := getB s "config", basepath := getB s "basepath" }

def jCfg (c : ConfigType) : Json :=
  obj [("Basepath", jb c.basepath), ("Layerdirs", jb c.layerdirs),
       ("LayerBuildRoot", jb c.layerBuildRoot), ("LayerBinPkgdir", jb c.layerBinPkgdir),
       ("LayerGeneratedir", jb c.layerGeneratedir), ("LayerOvfsWorkdir", jb c.layerOvfsWorkdir),
       ("LayerOvfsUpperdir", jb c.layerOvfsUpperdir), ("Exportdirs", jb c.exportdirs),
       ("ExportBinPkgdir", jb c.exportBinPkgdir), ("ExportGeneratedir", jb c.exportGeneratedir),
       ("ChrootExec", jb c.chrootExec)]

def jRes (r : Res ConfigType) : Json :=
  match r with
  | .ok c => obj [("cls", "ok"), ("cfg", jCfg c)]
  | .error _ => obj [("cls", Json.str r.cls)]

def handle (op : String) (j : Json) : Option Json :=
  match op with
  | "config.load" =>
    let fs := caseFs j
    let env := caseEnv j
    let sw := caseSw j
    let nfiles := (getArr j "files").length + (getArr j "dirs").length
    -- |files| + 1 suffices for exact names (Props.C18.load_terminates); one more because
    -- the kernel lets several spellings name the same file
    let fuel := nfiles + 2
    let model := jRes (load fs env sw fuel)
    let specR := Spec.Precedence.load fs env sw fuel
    let spec := jRes specR
    let impl := getObj j "impl"
    let start := Spec.Precedence.selectFile fs env sw
    let chainLen := match Spec.Precedence.follow fs fuel start [] with
      | .ok cs => s!"chain:{min cs.length 4}"
      | .error _ => "chain:err"
    let tags := [s!"cls:{specR.cls}", chainLen] ++
      (if sw.basepath != [] then ["sw-basepath"] else []) ++
      (if sw.configfile != [] then ["sw-config"] else ["search"]) ++
      (if env.layerroot != [] then ["env-layerroot"] else []) ++
      (if sw.basepath == [] && env.layerroot == [] then ["no-explicit-base"] else [])
    -- which error is the model's business (compared with the implementation's where the harness
    -- can tell it); the property asks that it IS an error
    let isErr (o : Json) : Bool := (getStr o "cls").startsWith "err" || getStr o "cls" == "?unclassified"
    let holds := if isErr spec then isErr impl else impl == spec
    some (obj [("model", model), ("holds", Json.bool holds), ("expected", spec),
               ("tags", Json.arr (tags.map Json.str).toArray),
               ("trivial", Json.bool (start == []))])
  | "cli.switches" =>
    -- the real binary with LAYERROOT naming one installation and -basepath another (or the root
    -- directory, which holds none): the switch comes first, whatever its spelling
    let sp := getB j "basepath"
    let namesA := (indexOf sp b!"@A").isSome
    let impl := getObj j "impl"
    let model := obj [("shows_env_tree", Json.bool false), ("shows_switch_tree", Json.bool namesA)]
    some (obj [("model", model), ("holds", Json.bool (impl == model)),
               ("tags", Json.arr #[Json.str "cli:basepath-switch"])])
  | _ => none

end Lc.Driver.C18
