/-
  Property oracles for command-level scenarios, evaluated on the IMPLEMENTATION's
  observations only (pre-state of step i = the implementation's observation after step
  i-1, or the scenario's initial state).
-/
import Lc.Driver.Util
import Lc.Driver.Scenario

namespace Lc.Driver.Oracle
open Lean Lc Lc.Driver Lc.Driver.Scenario Lc.Layers

structure StepView where
  step : Json          -- the step description (cmd, args, switches)
  preTree : Json
  preTable : Json
  post : Json          -- implementation observation after the step
  modelNoFault : Json  -- model's observation of the same step without fault/crash (from impl pre-state when available)

structure Verdict where
  holds : Bool := true
  finding : Option String := none
  why : String := ""
  tags : List String := []

def bad (why : String) : Verdict := { holds := false, why := why }
def known (key why : String) : Verdict := { holds := false, finding := some key, why := why }

def cmdOf (s : Json) : String := getStr s "cmd"

/-- C15: a pretend step changes neither tree nor table and issues no syscall -/
def c15 (v : StepView) : Verdict :=
  if !getBool v.step "pretend" then { tags := ["not-pretend"] } else
  let sys := getArr v.post "sys"
  if !sys.isEmpty then bad "syscall issued under -p"
  else if getObj v.post "tree" != v.preTree then bad "file system changed under -p"
  else if getObj v.post "table" != v.preTable then bad "mount table changed under -p"
  else { tags := ["pretend:" ++ cmdOf v.step ++ ":" ++ getStr v.post "cls"] }

/-- C10: if the k-th mutating operation was reached (and failed) the command must not
    report success -/
def c10 (v : StepView) : Verdict :=
  match optNat v.step "fault" with
  | none => { tags := ["no-fault"] }
  | some k =>
    let n := getNat v.post "nops"
    if n ≥ k then
      if getStr v.post "cls" == "ok" then bad s!"operation {k} failed but the command reported success"
      else { tags := ["fault-fired:" ++ cmdOf v.step] }
    else { tags := ["fault-not-reached"] }

end Lc.Driver.Oracle
