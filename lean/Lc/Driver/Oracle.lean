/-
  Property oracles for command-level scenarios, evaluated on the IMPLEMENTATION's
  observations only (pre-state of step i = the implementation's observation after step
  i-1, or the scenario's initial state), against the specifications in Lc/Spec/World.
-/
import Lc.Driver.Util
import Lc.Driver.Scenario
import Lc.Spec.World

namespace Lc.Driver.Oracle
open Lean Lc Lc.Driver Lc.Driver.Scenario Lc.Layers Lc.Spec.World

structure StepView where
  cfg : Config
  step : Json
  users : List (Bytes × List User)
  pre : Inst
  preTreeJ : Json
  preTableJ : Json
  post : Inst
  postJ : Json                -- implementation observation after the step
  prevStep : Option Json      -- previous step description
  prevCls : String            -- previous step's implementation class

structure Verdict where
  holds : Bool := true
  finding : Option String := none
  why : String := ""
  tags : List String := []

def bad (why : String) : Verdict := { holds := false, why := why }
def known (key why : String) : Verdict := { holds := false, finding := some key, why := why }
def fine (tags : List String := []) : Verdict := { tags := tags }

def cmdOf (s : Json) : String := getStr s "cmd"
def argOf (s : Json) (i : Nat) : Bytes := (getBs s "args").getD i []
def clsOf (v : StepView) : String := getStr v.postJ "cls"
def plain (v : StepView) : Bool :=
  !getBool v.step "pretend" && (optNat v.step "fault").isNone && (optNat v.step "crash").isNone
def showB (b : Bytes) : String := toStringLossy b

structure Sys where
  kind : String
  src : Bytes := []
  tgt : Bytes := []
  fstype : Bytes := []
  flags : Nat := 0
  data : Bytes := []

def sysOf (v : StepView) : List Sys :=
  (getArr v.postJ "sys").filterMap fun e => match e with
    | .arr a =>
      match strAt a 0 with
      | "mount" => some { kind := "mount", src := hexAt a 1, tgt := hexAt a 2, fstype := hexAt a 3,
                          flags := natAt a 4, data := hexAt a 5 }
      | "umount" => some { kind := "umount", tgt := hexAt a 1, flags := natAt a 2 }
      | _ => none
    | _ => none

/-- layers subtree of the canonical tree JSON -/
def subtreeJ (tree : Json) (dir : Bytes) : List Json :=
  (match tree with | .arr a => a.toList | _ => []).filter fun e => match e with
    | .arr a => atOrBelow dir (hexAt a 0)
    | _ => false

/-! ### C15 -/

def c15 (v : StepView) : Verdict :=
  if !getBool v.step "pretend" then fine ["not-pretend"] else
  if !(getArr v.postJ "sys").isEmpty then bad "syscall issued under -p"
  else if getObj v.postJ "tree" != v.preTreeJ then bad "file system changed under -p"
  else if getObj v.postJ "table" != v.preTableJ then bad "mount table changed under -p"
  else fine ["pretend:" ++ cmdOf v.step ++ ":" ++ clsOf v]

/-! ### C10 -/

def c10 (v : StepView) : Verdict :=
  match optNat v.step "fault" with
  | none =>
    -- success means the effect is there: after a successful mkdirs the directories exist
    if cmdOf v.step == "mkdirs" && clsOf v == "ok" && !getBool v.step "pretend" && (optNat v.step "crash").isNone then
      let n := argOf v.step 0
      match findD (diskLayers v.post) n with
      | some l =>
        let need := [buildDir v.post n] ++ (if l.file.base.isEmpty then [] else [workDir v.post n, upperDir v.post n])
        if l.file.nmsgs == 0 && need.any (fun p => !Fs.isDir v.post.fs p) then
          bad "mkdirs reported success but a needed directory does not exist"
        else fine ["no-fault:mkdirs-ok"]
      | none => fine ["no-fault"]
    else fine ["no-fault"]
  | some k =>
    if getNat v.postJ "nops" ≥ k then
      if clsOf v == "ok" then bad s!"operation {k} failed but the command reported success"
      else fine ["fault-fired:" ++ cmdOf v.step]
    else fine ["fault-not-reached"]

/-! ### C02 -/

def legalNonEmpty (n : Bytes) : Bool := !n.isEmpty && isLegalLayerName n

/-- must the structural command be rejected, by the property's own list of reasons? -/
def mustReject (v : StepView) : Option String :=
  let ls := diskLayers v.pre
  let has := fun n => (findD ls n).isSome
  let a0 := argOf v.step 0
  let a1 := argOf v.step 1
  match cmdOf v.step with
  | "add" =>
    if a0.isEmpty then some "empty name" else if !isLegalLayerName a0 then some "illegal name"
    else if has a0 then some "duplicate name"
    else if !a1.isEmpty && !isLegalLayerName a1 then some "illegal parent name"
    else if !a1.isEmpty && !has a1 then some "missing parent" else none
  | "rename" =>
    if !has a0 then some "no such layer" else if a1.isEmpty then some "empty name"
    else if !isLegalLayerName a1 then some "illegal name" else if has a1 then some "duplicate name" else none
  | "rebase" =>
    if !has a0 then some "no such layer"
    else if !a1.isEmpty && !has a1 then some "missing parent"
    else if a1 == a0 then some "own parent"
    else if !a1.isEmpty && isAncestor ls a0 a1 then some "onto descendant" else none
  | "remove" =>
    if !has a0 then some "no such layer"
    else if !(childrenOf ls a0).isEmpty then some "has children" else none
  | _ => none

def isStructural (c : String) : Bool :=
  c == "add" || c == "rename" || c == "rebase" || c == "remove" || c == "mkdirs" || c == "init"

def layerView (ls : List DLayer) : List (Bytes × Bytes × List Layerfile.NeededMount × List Layerfile.NeededMount) :=
  ls.map fun l => (l.name, l.file.base, l.file.mounts, l.file.exports)

def c02 (v : StepView) : Verdict :=
  let c := cmdOf v.step
  let cls := clsOf v
  if cls == "panic" then bad "command crashed" else
  if cls == "timeout" then bad "command did not return" else
  let preLs := diskLayers v.pre
  let postLs := diskLayers v.post
  -- interrupted commands (injected I/O fault or crash) are outside C02's quantifier
  let interrupted := (optNat v.step "crash").isSome || (optNat v.step "fault").isSome
  if !interrupted && forestWF preLs && !forestWF postLs then bad ("forest broken after " ++ c) else
  if !interrupted && forestWF preLs && Fs.isDir v.post.fs v.cfg.layerdirs && Fs.isDir v.pre.fs v.cfg.layerdirs
      && getStr (getObj v.postJ "layers") "cls" != "ok" then
    bad "installation can no longer be listed" else
  if !plain v || !isStructural c then fine ["c02:wf-only"] else
  match mustReject v with
  | some why =>
    if cls == "ok" then bad ("accepted although: " ++ why)
    else if subtreeJ (getObj v.postJ "tree") v.cfg.layerdirs != subtreeJ v.preTreeJ v.cfg.layerdirs then
      bad ("rejected (" ++ why ++ ") but the layer tree changed")
    else fine ["c02:rejected:" ++ why]
  | none =>
    if cls != "ok" then fine ["c02:" ++ c ++ ":failed-other"] else
    let a0 := argOf v.step 0
    let a1 := argOf v.step 1
    if c == "rebase" then
      let exp := (layerView preLs).map fun (n, b, m, e) => if n == a0 then (n, a1, m, e) else (n, b, m, e)
      if (layerView postLs).all (fun x => exp.contains x) && exp.all (fun x => (layerView postLs).contains x)
      then fine ["c02:rebase-ok"] else bad "rebase changed more than the layer's parent"
    else if c == "rename" then
      let exp := (layerView preLs).map fun (n, b, m, e) =>
        ((if n == a0 then a1 else n), (if b == a0 then a1 else b), m, e)
      let kept := (subtreeJ v.preTreeJ (layerDir v.pre a0)).all fun e => match e with
        | .arr a =>
          let p := hexAt a 0
          let rel := p.drop (layerDir v.pre a0).length
          let np := layerDir v.pre a1 ++ rel
          if pathBase p == b!"layerconfig" then Fs.lexists v.post.fs np
          -- layercake's own temporary file (left by an earlier interrupted rewrite) is consumed
          -- by the rewrite rename performs
          else if pathBase p == b!"layerconfig.new" then true
          else match Fs.get v.pre.fs p, Fs.get v.post.fs np with
            | some x, some y => x == y
            | _, _ => false
        | _ => true
      if !((layerView postLs).all (fun x => exp.contains x) && exp.all (fun x => (layerView postLs).contains x)) then
        bad "rename did not retarget exactly the children"
      else if !kept then bad "rename lost content of the layer directory"
      else fine ["c02:rename-ok"]
    else fine ["c02:" ++ c ++ ":ok"]

/-! ### C04 -/

/-- replay the implementation's syscalls on the kernel model from the pre-state table;
    returns the index and error of the first failing one -/
def replaySys (mnts : List Kernel.KMnt) (sys : List Sys) : Option (Nat × Sys × Kernel.KErr) × Kernel.KTable :=
  let t0 : Kernel.KTable := { mnts := mnts, nextId := (mnts.foldl (fun acc x => max acc x.id) 99) + 1 }
  let r := sys.foldl (fun (acc : Option (Nat × Sys × Kernel.KErr) × Kernel.KTable × Nat) s =>
    match acc.1 with
    | some _ => acc
    | none =>
      let res := if s.kind == "umount" then Kernel.kumount acc.2.1 s.tgt
                 else Kernel.kmount acc.2.1 s.src s.tgt s.fstype s.flags s.data
      match res with
      | .ok t' => (none, t', acc.2.2 + 1)
      | .error e => (some (acc.2.2, s, e), acc.2.1, acc.2.2 + 1)) (none, t0, 0)
  (r.1, r.2.1)

/-- the entry can be reached by its path: the lookup of its mountpoint ends on it, or on
    a mount stacked (directly, possibly several deep) on its root -/
def visibleIn (mnts : List Kernel.KMnt) (x : Kernel.KMnt) : Bool :=
  let rec climb : Nat → Kernel.KMnt → Bool
    | 0, _ => false
    | fuel + 1, c =>
      if c.id == x.id then true
      else if c.mp != x.mp then false
      else match mnts.find? (fun p => p.id == c.parent && p.id != c.id) with
        | some p => climb fuel p
        | none => false
  match Kernel.resolve mnts x.mp with
  | none => false
  | some r => climb mnts.length r

/-- the defect repaired by e546b99 (formerly finding `umount-order-hidden-submount`; the
    detection is kept so that a regression is named): the table has a mount at or
    below the build root `bd` that is hidden (covered by a mount stacked later on one of its
    ancestors), and yet an order exists in which every unmount call succeeds (latest mount
    first) — the order "deepest path first" of the code meets the hidden mount first -/
def hiddenSubmountRegion (t : Kernel.KTable) (bd : Bytes) : Bool :=
  let region := t.mnts.filter fun x => atOrBelow bd x.mp
  region.any (fun x => !visibleIn t.mnts x) &&
  (region.reverse.foldl (fun (acc : Option Kernel.KTable) x =>
    match acc with
    | none => none
    | some t' =>
      match Kernel.kumount t' x.mp with
      | .ok t'' => some t''
      | .error _ => none) (some t)).isSome

/-- a `umount` step that was stopped by the kernel inside that region: the LAST call issued
    is refused with EINVAL, on the mountpoint of an entry of the table, the step failed; gives
    the layer (among `scope`) whose build root the call lies in -/
def hiddenAbort (v : StepView) (scope : List Bytes) : Option Bytes :=
  let sys := sysOf v
  match replaySys v.pre.mnts sys with
  | (some (k, s, e), tf) =>
    match scope.find? fun n => atOrBelow (buildDir v.pre n) s.tgt with
    | none => none
    | some n =>
      if e == .einval && k + 1 == sys.length && clsOf v != "ok" && tf.mnts.any (·.mp == s.tgt)
          && hiddenSubmountRegion tf (buildDir v.pre n) then some n
      else none
  | _ => none

def c04 (v : StepView) : Verdict :=
  if !plain v then fine [] else
  let c := cmdOf v.step
  let ls := diskLayers v.pre
  let a0 := argOf v.step 0
  let unchanged := getObj v.postJ "tree" == v.preTreeJ && getObj v.postJ "table" == v.preTableJ
  let exists0 := (findD ls a0).isSome
  if c == "remove" || c == "rename" || c == "rebase" then
    if !exists0 then fine [] else
    let kids := if c == "remove" then [] else childrenOf ls a0
    let prot := protectedL v.pre v.users a0 || kids.any (protectedL v.pre v.users)
    if prot then
      if clsOf v == "ok" then bad (c ++ " of a protected layer succeeded")
      else if !unchanged then bad (c ++ " of a protected layer was refused but changed something")
      else fine ["c04:refused:" ++ c]
    else fine ["c04:free:" ++ c]
  else if c == "umount" then
    let all := getBool v.step "all"
    if !a0.isEmpty && all then fine ["c04:usage"] else
    let targets := if !a0.isEmpty then (if exists0 then [a0] else []) else if all then ls.map (·.name) else []
    let sys := sysOf v
    let touched := fun n => sys.any fun s => s.kind == "umount" && atOrBelow (buildDir v.pre n) s.tgt
    let isBlocked := fun n => if a0.isEmpty then blockedAll v.pre ls v.users (ls.length + 1) n
                              else unmountBlocked v.pre v.users n
    let blocked := targets.filter isBlocked
    let idleMounted := targets.filter fun n => !isBlocked n && mountedAtOrBelow v.pre n
    if blocked.any touched then bad "umount touched a layer that is in use or overlain"
    else if !blocked.isEmpty && clsOf v == "ok" then bad "umount reported success although a layer was blocked"
    else if (a0.isEmpty || blocked.isEmpty) && idleMounted.any (fun n => !touched n) && (targets.all fun n =>
        ((findD ls n).map (fun l => l.file.nmsgs == 0)).getD true) then
      bad "umount refused a layer although nothing works in its build, upper or work directory"
    else fine [(if blocked.isEmpty then "c04:umount-free" else "c04:umount-blocked")]
  else fine []

/-! ### C09 -/

def pristinePaths (i : Inst) (n : Bytes) (derived : Bool) : List Bytes :=
  let d := layerDir i n
  [d, pathJoin [d, b!"layerconfig"], buildDir i n] ++
  (if derived then (Fs.ancestors (workDir i n) ++ [workDir i n] ++ Fs.ancestors (upperDir i n) ++ [upperDir i n]).filter (atOrBelow d)
   else [pathJoin [buildDir i n, b!"root"], pathJoin [buildDir i n, b!"root", b!".bashrc"]])

def c09 (v : StepView) : Verdict :=
  if cmdOf v.step != "remove" || !plain v then fine [] else
  let a0 := argOf v.step 0
  let ls := diskLayers v.pre
  match findD ls a0 with
  | none => fine []
  | some l =>
    let d := layerDir v.pre a0
    let rm := d ++ removedSuffix
    let hadRemoved := Fs.lexists v.pre.fs rm
    let sameRemoved := subtreeJ (getObj v.postJ "tree") rm == subtreeJ v.preTreeJ rm
    if hadRemoved && !sameRemoved then bad "an existing ~removed directory was overwritten" else
    if getBool v.step "files" || clsOf v != "ok" then fine ["c09:n/a"] else
    let entries := v.pre.fs.filter fun e => atOrBelow d e.1
    -- what `add` itself creates besides directories
    let own := [pathJoin [d, b!"layerconfig"], pathJoin [buildDir v.pre a0, b!"root", b!".bashrc"]]
    let pristine := entries.all fun e => (pristinePaths v.pre a0 (!l.file.base.isEmpty)).contains e.1
    let survives := entries.all fun e =>
      match e.2 with
      | .dir => true
      | node =>
        let rel := e.1.drop d.length
        own.contains e.1 ||
        Fs.get v.post.fs e.1 == some node || Fs.get v.post.fs (rm ++ rel) == some node
    if survives then
      fine [(if Fs.lexists v.post.fs rm && !hadRemoved then "c09:renamed"
             else if !Fs.lexists v.post.fs d then (if pristine then "c09:pristine-deleted" else "c09:dirs-only-deleted")
             else "c09:kept")]
    else bad "remove without -files destroyed user data"

/-! ### C03 -/

/-- C10, kernel side: a mount or unmount call the kernel refuses (nothing injected) is an
    operation that failed; the command must not report success -/
def c10sys (v : StepView) : Verdict :=
  if !plain v || clsOf v != "ok" then fine [] else
  match (replaySys v.pre.mnts (sysOf v)).1 with
  | some (_, s, _) => bad ("the kernel refused the " ++ s.kind ++ " of " ++ showB s.tgt ++ " but the command reported success")
  | none => fine []

def c03 (v : StepView) : Verdict :=
  if cmdOf v.step != "umount" || !plain v then fine [] else
  let ls := diskLayers v.pre
  let a0 := argOf v.step 0
  let all := getBool v.step "all"
  let sys := sysOf v
  if !a0.isEmpty && all then
    if clsOf v == "ok" || !sys.isEmpty then bad "umount with both a layer and -all did something" else fine ["c03:usage"]
  else if a0.isEmpty && !all then
    if clsOf v == "ok" then bad "umount with neither a layer nor -all reported success"
    else if !sys.isEmpty then bad "umount with neither a layer nor -all unmounted something"
    else fine ["c03:noargs"]
  else
  if sys.any (·.kind != "umount") then bad "umount issued a mount call" else
  let scope := if !a0.isEmpty then [a0] else ls.map (·.name)
  let owner := fun (t : Bytes) => scope.find? fun n => atOrBelow (buildDir v.pre n) t
  if sys.any (fun s => (owner s.tgt).isNone) then bad "unmount outside the build root of the addressed layer(s)" else
  -- each call must hit a current mountpoint with nothing mounted beneath it
  match (replaySys v.pre.mnts sys).1 with
  | some (_, s, e) =>
    if e == .ebusy then bad ("unmount of " ++ showB s.tgt ++ " while something is still mounted beneath it")
    else if (hiddenAbort v scope).isSome then
      bad ("umount of an idle layer fails at " ++ showB s.tgt ++
        ": the unmount order meets a submount hidden below a mount stacked on its ancestor, although unmounting along the mount tree (latest mount first) would succeed")
    else if (replaySys v.pre.mnts sys).2.mnts.any (·.mp == s.tgt) then
      -- the target is a mountpoint of the table but out of reach (covered by a mount that does
      -- not belong to the addressed layers, e.g. one made by hand on the layer directory): no
      -- order of unmount calls can succeed; the command must say that it failed
      if clsOf v == "ok" then bad ("umount reported success although the unmount of " ++ showB s.tgt ++ " was refused")
      else fine ["c03:covered-from-outside"]
    else bad ("unmount of " ++ showB s.tgt ++ " which is not a mountpoint")
  | none =>
    -- derived layers before the layers they sit on
    let idx := sys.map fun s => (owner s.tgt).getD []
    let rec orderOk : List Bytes → Bool
      | [] => true
      | x :: rest => rest.all (fun y => !(isAncestor ls x y)) && orderOk rest
    if !orderOk idx then bad "umount -all unmounted a layer before a layer derived from it" else
    let blocked := scope.filter fun n => (findD ls n).isSome &&
      (if a0.isEmpty then blockedAll v.pre ls v.users (ls.length + 1) n else unmountBlocked v.pre v.users n)
    -- a busy layer, or one under a mounted overlay that stays, is skipped: no call may touch it
    match sys.find? (fun s => blocked.contains ((owner s.tgt).getD [])) with
    | some s => bad ("unmount of " ++ showB s.tgt ++ " although its layer is busy or lies under a mounted overlay that is not unmounted")
    | none =>
    if clsOf v == "ok" then
      let left := scope.filter fun n => (findD ls n).isSome && mountedAtOrBelow v.post n
      if !left.isEmpty then bad ("umount succeeded but " ++ showB (left.headD []) ++ " still has mounts")
      else fine ["c03:ok"]
    else
      -- failure: busy layers reported; idle ones must still have been unmounted (-all)
      if all then
        let idleLeft := scope.filter fun n =>
          (findD ls n).isSome && !blocked.contains n && mountedAtOrBelow v.post n
          && ((findD ls n).map (fun l => l.file.nmsgs == 0)).getD false
        if !idleLeft.isEmpty && !blocked.isEmpty then bad "umount -all left an idle layer mounted"
        else fine ["c03:all-busy"]
      else fine ["c03:refused"]

/-! ### C01 -/

def chainOf (ls : List DLayer) (n : Bytes) : List Bytes := (ancestorsOf ls (ls.length + 1) n).reverse ++ [n]

def isPropCall (s : Sys) : Bool := s.kind == "mount" && s.flags == Kernel.MS_SLAVE + Kernel.MS_REC && s.src.isEmpty

/-- configuration of the chain is sane: per layer, import mountpoints pairwise distinct,
    inside the build root, none equal to it, none below another import's mountpoint -/
def configSane (i : Inst) (ls : List DLayer) (chain : List Bytes) : Bool :=
  chain.all fun n => match findD ls n with
    | none => false
    | some l =>
      let mps := l.file.mounts.map fun m => pathJoin [buildDir i n, m.mount]
      mps.all (fun p => p != buildDir i n && atOrBelow (buildDir i n) p) &&
      (mps.zipIdx.all fun (p, k) => (mps.zipIdx.all fun (q, j) => j == k || !(atOrBelow q p)))

def c01 (v : StepView) : Verdict :=
  let c := cmdOf v.step
  if !(c == "mount" || c == "chroot") || !plain v then fine [] else
  let ls := diskLayers v.pre
  let a0 := argOf v.step 0
  match findD ls a0 with
  | none => fine []
  | some _ =>
    let chain := chainOf ls a0
    let sys := sysOf v
    let sane := configSane v.pre ls chain
    let viol := fun (why : String) =>
      if sane then bad why else known "mount-config-not-sane" (why ++ " (layerconfig with duplicate, nested or escaping mountpoints)")
    if sys.any (·.kind != "mount") then bad "mount issued an unmount call" else
    -- idempotence first (it holds for every layerconfig, sane or not): repeating a
    -- successful mount performs no mount operation at all
    -- (the command repeated is `mount`: a preceding `chroot` of a layer that is itself mounted
    -- skips its implicit mount, so an import an ancestor lost by hand is not made good by it and
    -- the `mount` that follows has something to do — false alarm of the thorough tier, seed 12)
    let repeated := match v.prevStep with
      | some p => cmdOf p == "mount" && argOf p 0 == a0 && v.prevCls == "ok"
                  && !getBool p "pretend" && (optNat p "fault").isNone && (optNat p "crash").isNone
      | none => false
    if repeated && !sys.isEmpty then bad "repeating a successful mount issued mount operations" else
    let owner := fun (t : Bytes) => chain.find? fun n => atOrBelow (buildDir v.pre n) t
    if sys.any (fun s => (owner s.tgt).isNone) then viol "mount outside the build roots of the layer's chain" else
    -- nothing stacked: replay, checking each structural mount's target first
    let t0 : Kernel.KTable := { mnts := v.pre.mnts, nextId := (v.pre.mnts.foldl (fun acc x => max acc x.id) 99) + 1 }
    let stacked := (sys.foldl (fun (acc : Bool × Kernel.KTable) s =>
      if isPropCall s then acc else
      let was := (Kernel.topmostAt acc.2.mnts s.tgt).isSome
      match Kernel.kmount acc.2 s.src s.tgt s.fstype s.flags s.data with
      | .ok t' => (acc.1 || was, t')
      | .error _ => (acc.1 || was, acc.2)) (false, t0)).1
    if stacked then viol "a mount was issued for a mountpoint that is already mounted" else
    -- order: chain position non-decreasing; per layer overlay first; propagation call after /dev,/sys,/run
    let pos := fun (n : Bytes) => (chain.idxOf n)
    let seq := (sys.filter (!isPropCall ·)).map fun s => pos ((owner s.tgt).getD [])
    let rec nondecr : List Nat → Bool
      | a :: b :: rest => a ≤ b && nondecr (b :: rest)
      | _ => true
    if !nondecr seq then bad "mounts not issued ancestors-first" else
    let ovlFirst := chain.all fun n =>
      let mine := sys.filter fun s => !isPropCall s && owner s.tgt == some n
      match mine.findIdx? (fun s => s.tgt == buildDir v.pre n) with
      | some k => k == 0
      | none => true
    if !ovlFirst then viol "an import was mounted before the layer's overlay" else
    let rec slaveOk : List Sys → Bool
      | [] => true
      | s :: rest =>
        if !isPropCall s && (s.src == b!"/dev" || s.src == b!"/sys" || s.src == b!"/run") then
          match rest with
          | p :: rest' => isPropCall p && p.tgt == s.tgt && slaveOk rest'
          | [] => clsOf v != "ok"
        else if isPropCall s then false
        else slaveOk rest
    if !slaveOk sys then bad "recursive bind of /dev, /sys or /run not switched to recursive-slave propagation" else
    -- every call is the overlay of a chain layer or one of its configured imports, with the right arguments
    let okCall := fun (s : Sys) =>
      if isPropCall s then true else
      match owner s.tgt with
      | none => false
      | some n =>
        match findD ls n with
        | none => false
        | some l =>
          if s.tgt == buildDir v.pre n && !l.file.base.isEmpty &&
             !(l.file.mounts.any fun m => pathJoin [buildDir v.pre n, m.mount] == s.tgt) then
            s.fstype == b!"overlay" &&
            s.data == b!"lowerdir=" ++ buildDir v.pre l.file.base ++ b!",upperdir=" ++ upperDir v.pre n
                      ++ b!",workdir=" ++ workDir v.pre n
          else l.file.mounts.any fun m =>
            pathJoin [buildDir v.pre n, m.mount] == s.tgt && m.fstype == s.fstype &&
            resolveSource v.pre ls n m.source == some s.src &&
            s.flags == (if m.fstype == b!"bind" then Kernel.MS_BIND
                        else if m.fstype == b!"rbind" then Kernel.MS_BIND + Kernel.MS_REC
                        else if m.fstype == b!"remount" then Kernel.MS_REMOUNT else 0)
    if !sys.all okCall then viol "a mount call does not correspond to the overlay or a configured import of a chain layer" else
    if clsOf v != "ok" then fine ["c01:failed"] else
    -- post-state: every chain layer has exactly its configured mounts
    let postLs := diskLayers v.post
    let complete := chain.all fun n =>
      match findD postLs n with
      | none => false
      | some l =>
        (l.file.base.isEmpty || match topAt v.post.mnts (buildDir v.post n) with
          | some m => m.fstype == b!"overlay" && m.lower == buildDir v.post l.file.base &&
                      m.upper == upperDir v.post n && m.work == workDir v.post n
          | none => false) &&
        l.file.mounts.all fun m => (topAt v.post.mnts (pathJoin [buildDir v.post n, m.mount])).isSome
    -- (chroot mounts only when the layer itself is not reported mounted; then it is a mount)
    if !complete && (c == "mount" || !sys.isEmpty) then viol "mount succeeded but a chain layer lacks a configured mount" else
    -- … each from its resolved source with the configured type (kernel-level: device and
    -- directory of the mount, not layercake's own reconstruction)
    let wrongImports := chain.flatMap fun n =>
      match findD postLs n with
      | none => []
      | some l => l.file.mounts.filterMap fun m =>
          match topAt v.post.mnts (pathJoin [buildDir v.post n, m.mount]), resolveSource v.post postLs n m.source with
          | some km, some src => if importAsConfigured v.post km m.fstype src then none else some (km, m.fstype, src)
          | _, _ => none
    -- recorded finding (C08 nonbind-import-fstype-not-compared, seen through mount): a mount of
    -- another file-system type made from the configured source of a non-bind import is taken
    -- for the import, so mount leaves it in place and reports success
    let fstypeNotCompared := fun (x : Kernel.KMnt × Bytes × Bytes) =>
      !(x.2.1 == b!"bind" || x.2.1 == b!"rbind") && x.1.fstype != x.2.1 &&
        (x.1.source == x.2.2 || showsSource v.post x.1 x.2.2)
    if !wrongImports.isEmpty && (c == "mount" || !sys.isEmpty) then
      (if wrongImports.all fstypeNotCompared then
        known "nonbind-import-fstype-not-compared" "mount succeeded over a mount of another file-system type made from the configured source of a non-bind import"
       else viol "mount succeeded but an import mountpoint carries a mount from another source or of another type") else
    fine [(if sys.isEmpty then "c01:nothing-to-do" else (if repeated then "c01:repeated" else "c01:mounted"))]

/-! ### C08 -/

def c08 (v : StepView) : Verdict :=
  if (optNat v.step "crash").isSome then fine [] else
  let lj := getObj v.postJ "layers"
  if getStr lj "cls" != "ok" then fine ["c08:unlistable"] else
  let ls := diskLayers v.post
  if !forestWF ls then fine ["c08:not-wf"] else
  let spec := allStates v.post ls v.users
  let impl := (getArr lj "layers").filterMap fun e => match e with
    | .arr a => some (hexAt a 0, natAt a 2)
    | _ => none
  let diffs := impl.filter fun (n, s) => match spec.find? (·.1 == n) with
    | some (_, st) => st.toNat != s
    | none => true
  match diffs with
  | [] => fine (impl.map fun (_, s) => s!"c08:state{s}").eraseDups
  | (n, s) :: _ =>
    let st := (spec.find? (·.1 == n)).map (·.2.toNat) |>.getD 0
    let l := findD ls n
    -- recorded finding: the code recognises a non-bind import by its source only, so a mount
    -- of another file-system type that was made from the configured source string, or that
    -- shows the file system found at the source path, counts as mounted as configured
    let fstypeNotCompared := match l with
      | some l => l.file.mounts.any fun m =>
          !(m.fstype == b!"bind" || m.fstype == b!"rbind") &&
          match resolveSource v.post ls n m.source, topAt v.post.mnts (pathJoin [buildDir v.post n, m.mount]) with
          | some src, some km => km.fstype != m.fstype && (km.source == src || showsSource v.post km src)
          | _, _ => false
      | none => false
    if st == 1 && s != 1 && fstypeNotCompared then
      known "nonbind-import-fstype-not-compared" "a non-bind import whose mountpoint carries a mount with the configured source but another file-system type is counted as mounted as configured"
    else bad s!"layer {showB n}: reported state {s}, documented classification gives {st}"

/-! ### C16 -/

def exportEntries (i : Inst) (n : Bytes) : List (Bytes × Bytes) :=
  [ (pathJoin [i.cfg.exportdirs, i.cfg.exportBinPkg, n], pathJoin [layerDir i n, i.cfg.binPkg]),
    (pathJoin [i.cfg.exportdirs, i.cfg.exportGenerated, n], pathJoin [layerDir i n, i.cfg.generated]) ]

def c16 (v : StepView) : Verdict :=
  if !plain v then fine [] else
  let c := cmdOf v.step
  let ls := diskLayers v.pre
  let a0 := argOf v.step 0
  -- an export entry that is not a symlink is never deleted or replaced
  let exportsPre := v.pre.fs.filter fun e => atOrBelow v.cfg.exportdirs e.1 && e.1 != v.cfg.exportdirs
  let nonLinkKept := exportsPre.all fun e => match e.2 with
    | .symlink _ => true
    | node => Fs.get v.post.fs e.1 == some node
  if !nonLinkKept then bad "an export entry that is not a symlink was deleted or replaced" else
  -- (chroot mounts only when the layer is not yet mounted and then makes no links itself:
  -- the clause is about a successful `mount`)
  if c == "mount" && clsOf v == "ok" then
    match findD ls a0 with
    | none => fine []
    | some _ =>
      let chain := chainOf ls a0
      let postLs := diskLayers v.post
      let problems := chain.filterMap fun n =>
        let autos := exportEntries v.post n
        let explicitE := match findD postLs n with
          | some l => (match expandConfigExports v.cfg
                { name := n, base := l.file.base, cmounts := l.file.mounts, cexports := l.file.exports,
                  layerPath := layerDir v.post n } with
              | .ok es => es.map fun e => (e.mount, e.source)
              | .error _ => [])
          | none => []
        let wantAuto := autos.filter fun (_, src) => Fs.lexists v.post.fs src
        let want := wantAuto ++ explicitE
        -- an explicit directive and the automatic entry may name the same link: either target is right
        let wrong := want.find? fun (lnk, _) =>
          !(want.any fun (l2, s2) => l2 == lnk && Fs.get v.post.fs lnk == some (.symlink s2))
        let extra := autos.find? fun (lnk, src) =>
          !Fs.lexists v.post.fs src && !(explicitE.any (·.1 == lnk)) &&
          (match Fs.get v.post.fs lnk with | some (.symlink _) => !Fs.lexists v.pre.fs lnk | _ => false)
        match wrong, extra with
        | some (lnk, _), _ => some (lnk, (Fs.lexists v.pre.fs lnk))
        | none, some (lnk, _) => some (lnk, false)
        | none, none => none
      match problems with
      | [] => fine ["c16:mount-links-ok"]
      | (lnk, preexisting) :: _ =>
        if preexisting then known "export-entry-foreign-or-stale" ("export entry " ++ showB lnk ++ " existed before with another target or type and was left as it was")
        else bad ("after mount the export entry " ++ showB lnk ++ " is missing or points elsewhere")
  else if (c == "rename" || c == "remove") && clsOf v == "ok" then
    let left := (exportEntries v.post a0).filter fun (lnk, _) => Fs.lexists v.post.fs lnk
    let others := exportsPre.all fun e =>
      (exportEntries v.pre a0).any (·.1 == e.1) || Fs.get v.post.fs e.1 == some e.2
    if !left.isEmpty && !(c == "rename" && argOf v.step 1 == a0) then
      bad ("an export entry carrying the old layer name is left after " ++ c)
    else if !others then bad ("export entries of other layers were touched by " ++ c)
    else fine ["c16:" ++ c ++ "-links-ok"]
  else fine []

/-! ### C11 (crash part) -/

def layerconfigs (tree : Json) : List (Bytes × Bytes) :=
  (match tree with | Json.arr a => a.toList | _ => []).filterMap fun e => match e with
    | Json.arr a => if pathBase (hexAt a 0) == b!"layerconfig" && strAt a 1 == "f" then some (hexAt a 0, hexAt a 2) else none
    | _ => none

/-- An undisturbed, successful rewriting command (`add`, `rename`, `rebase`): every layerconfig
    that loaded without error re-reads with the same imports and exports in the same order and
    with the same parent, apart from the intended change of the parent's name.  Judged with the
    proved reader (`Layerfile.readLayerFile`) on the implementation's own bytes before and after. -/
def c11Rewrite (v : StepView) : Verdict :=
  let cmd := cmdOf v.step
  if !(clsOf v == "ok" && plain v && (cmd == "rebase" || cmd == "rename" || cmd == "add")) then fine [] else
  let pre := layerconfigs v.preTreeJ
  let post := layerconfigs (getObj v.postJ "tree")
  let nameOf (p : Bytes) : Bytes := pathBase (pathDir p)
  let a0 := argOf v.step 0
  let a1 := argOf v.step 1
  -- the layer a post-state file continues, and the parent name it should now carry
  let origin (n : Bytes) : Bytes := if cmd == "rename" && n == a1 then a0 else n
  let wantBase (n : Bytes) (old : Bytes) : Bytes :=
    if cmd == "rebase" && n == a0 then a1
    else if cmd == "rename" && old == a0 then a1
    else old
  let verdicts := post.filterMap fun (p, c) =>
    let n := nameOf p
    -- `<name>~removed` directories are not layers: layercake neither reads nor rewrites them
    if n.contains 126 then none else
    match pre.find? (fun (q, _) => nameOf q == origin n && pathDir (pathDir q) == pathDir (pathDir p)) with
    | none => none          -- a layer new in this step (add): judged below
    | some (_, c0) =>
      let l0 := Layerfile.readLayerFile c0
      let l1 := Layerfile.readLayerFile c
      if l0.nmsgs > 0 then none else
      if l1.nmsgs > 0 then some ("after " ++ cmd ++ " " ++ showB p ++ " no longer loads cleanly")
      else if l1.mounts != l0.mounts then some ("after " ++ cmd ++ " the imports of " ++ showB p ++ " changed")
      else if l1.exports != l0.exports then some ("after " ++ cmd ++ " the exports of " ++ showB p ++ " changed")
      else if l1.base != wantBase n l0.base then some ("after " ++ cmd ++ " the parent in " ++ showB p ++ " is not the intended one")
      else none
  -- add: the new layer carries its parent's (or the skeleton's) mounts and the requested parent
  let added :=
    if cmd != "add" then none else
    match post.find? (fun (p, _) => nameOf p == a0 && !(pre.any (·.1 == p))) with
    | none => some "add reported success but the new layer has no layerconfig"
    | some (p, c) =>
      let l1 := Layerfile.readLayerFile c
      let src : Option Layerfile.LayerFile :=
        if (argOf v.step 2).length > 0 then none       -- explicit skeleton file: resolved by the model only
        else if a1.length > 0 then
          (pre.find? (fun (q, _) => nameOf q == a1 && pathDir (pathDir q) == pathDir (pathDir p))).map
            (fun (_, c0) => Layerfile.readLayerFile c0)
        else none
      match src with
      | none => if l1.nmsgs > 0 then some ("the layerconfig written by add does not load cleanly") else
                if l1.base != a1 then some "the layerconfig written by add names another parent" else none
      | some l0 =>
        if l0.nmsgs > 0 then none
        else if l1.nmsgs > 0 then some ("the layerconfig written by add does not load cleanly")
        else if l1.mounts != l0.mounts || l1.exports != l0.exports then some "add did not carry over the parent's imports and exports"
        else if l1.base != a1 then some "the layerconfig written by add names another parent"
        else none
  match verdicts.head?, added with
  | some w, _ => bad w
  | none, some w => bad w
  | none, none => fine ["c11:rewrite-ok:" ++ cmd]

/-- `expectPost`: the layerconfig contents the same step produces when it is not
    interrupted (computed by the model from the implementation's own pre-state) -/
def c11 (v : StepView) (expectPost : List (Bytes × Bytes)) : Verdict :=
  -- a command cut short by a crash, or failing on an injected I/O fault
  let cut := match optNat v.step "crash", optNat v.step "fault" with
    | some k, _ => some k
    | none, some k => some k
    | none, none => none
  match cut with
  | none => c11Rewrite v
  | some _ =>
    let pre := layerconfigs v.preTreeJ
    let post := layerconfigs (getObj v.postJ "tree")
    let allowed := pre.map (·.2) ++ expectPost.map (·.2)
    match post.find? (fun (_, c) => !allowed.contains c) with
    | some (p, _) => bad ("after a crash " ++ showB p ++ " is neither its previous nor its new complete version")
    | none =>
      -- no layer definition may be lost: every layer directory that had a layerconfig and still
      -- exists (at its old or new place) has one
      let lostDirs := pre.filter fun (p, _) =>
        Fs.isDir v.post.fs (pathDir p) && !(post.any (·.1 == p))
      if !lostDirs.isEmpty then bad "after a crash a layer directory has no layerconfig any more"
      else fine [(if clsOf v == "crash" then "c11:crashed:" ++ cmdOf v.step
                  else if clsOf v == "err" && (optNat v.step "fault").isSome then "c11:faulted:" ++ cmdOf v.step
                  else "c11:cut-not-reached")]

end Lc.Driver.Oracle
