import Lc.Driver.Util
import Lc.Model.Resolve
import Lc.Model.Profile
import Lc.Spec.Closure

namespace Lc.Driver.C05
open Lean Lc Lc.Driver Lc.Resolve Lc.Spec.Closure

def sB (j : Json) (k : String) : Bytes := ofString (getStr j k)

def strList (j : Json) (k : String) : List Bytes :=
  (getArr j k).map fun x => match x with
    | .str s => ofString s
    | _ => []

def natList (j : Json) : List Nat :=
  match j with
  | .arr a => a.toList.map fun x => match x.getNat? with
      | .ok n => n
      | .error _ => 0
  | _ => []

def kindOf (k : String) (f : Bytes) : Kind :=
  match k with
  | "all" => .all
  | "any" => .anyOf
  | "one" => .exactlyOne
  | "most" => .atMostOne
  | "use" => .useSet f
  | _ => .useUnset f

instance : Inhabited Dep := ⟨.group .all .nil⟩

partial def parseDep (j : Json) : Dep :=
  if getStr j "k" == "atom" then
    .atom { id := getNat j "a", name := sB j "n", blocker := getBool j "b" }
  else
    .group (kindOf (getStr j "k") (sB j "f")) (DepList.ofList ((getArr j "ds").map parseDep))

def parseDeps (j : Json) (cls : String) : DepList :=
  match j.getObjVal? cls with
  | .ok (.arr a) => DepList.ofList (a.toList.map parseDep)
  | _ => .nil

def parsePkgs (j : Json) : List Pkg :=
  let pinfo := getArr (getObj j "derived") "pinfo"
  let rec go : List Json → List Json → Nat → List Pkg
    | p :: ps, i :: is, n =>
      let d := getObj p "deps"
      { id := n, name := sB i "name", slot := sB i "slotkey", use := strList p "use",
        bdepend := parseDeps d "BDEPEND", depend := parseDeps d "DEPEND",
        rdepend := parseDeps d "RDEPEND", pdepend := parseDeps d "PDEPEND" } :: go ps is (n + 1)
    | _, _, _ => []
  go (getArr j "pkgs") pinfo 0

def parseReq (j : Json) : List DAtom :=
  (getArr (getObj j "derived") "req").map fun a =>
    { id := getNat a "a", name := sB a "n", blocker := getBool a "b" }

def parseRel (j : Json) : List (List Nat) :=
  (getArr (getObj j "derived") "rel").map natList

def sortNat (l : List Nat) : List Nat := l.mergeSort (fun a b => a ≤ b)

def jNats (l : List Nat) : Json := Json.arr (l.map fun (n : Nat) => (n : Json)).toArray

def errCls : Err → String
  | .unsat => "err:unsat"
  | .blocked => "err:blocked"
  | .fuel => "model:fuel"

/-- run the model with the packages added in the given order -/
def modelRun (pkgs : List Pkg) (rel : List (List Nat)) (bdep : Bool) (req : List DAtom)
    (order : List Nat) : Json :=
  let enum := order.filterMap fun i => pkgs.find? (·.id == i)
  let db : Db := { installed := installedOf enum, rel := rel, includeBdepend := bdep }
  match stageSet db req with
  | .error e => obj [("cls", Json.str (errCls e)), ("sel", jNats []), ("order", jNats [])]
  | .ok l =>
    let ids := l.map (·.id)
    obj [("cls", "ok"), ("sel", jNats (sortNat ids)), ("order", jNats ids)]

def sameSet (a b : List Nat) : Bool := subset a b && subset b a

/-- oracle for one run's observation; returns (holds, finding?) -/
def judgeRun (w : World) (r : Json) : Bool × Option String :=
  let cls := getStr r "cls"
  let sel := natList (getObj r "sel")
  let order := natList (getObj r "order")
  if cls == "ok" then
    let orderOK := order == listing w sel
    if valid w sel && orderOK && (!unique w || sameSet sel (cmin w)) then (true, none)
    else if validLenient w sel && orderOK && !depsOK w sel then
      (false, some "anyof-partial-group-accepted")
    else (false, none)
  else if cls == "err:unsat" then
    if unsatJustified w then (true, none)
    else if deadChoice w true then (false, some "nested-choice-hard-failure")
    else if deadChoice w false then (false, some "choice-vacuous-alternative-rejected")
    else (false, none)
  else if cls == "err:blocked" then (blockJustified w, none)
  else (false, none)

def hasCycleTag (w : World) : Bool :=
  -- some package reaches itself through active atoms
  w.pkgs.any fun p =>
    let w' : World := { w with req := [] }
    let start := (nonBlockers (w.activeAtoms p)).flatMap w.matchesOf
    let reach := iter (stepWith w' w.activeAtoms (fun _ => true)) (w.pkgs.length + 1) (union [] start)
    reach.contains p.id

def handleResolve (j : Json) : Json :=
  let pkgs := parsePkgs j
  let rel := parseRel j
  let req := parseReq j
  let bdep := !getBool j "nobdeps"
  let d := getObj j "derived"
  let order1 := natList (getObj d "order1")
  let perm := natList (getObj j "perm")
  let model := obj [("cls", "ran"), ("r1", modelRun pkgs rel bdep req order1),
                    ("r2", modelRun pkgs rel bdep req perm)]
  let w : World := { pkgs := pkgs, rel := rel, includeBdepend := bdep, req := req }
  let impl := getObj j "impl"
  let usemapOK := ((getArr j "pkgs").zip (getArr d "pinfo")).all fun (p, i) =>
    let a := strList p "use"
    let b := strList i "usemap"
    a.all (b.contains ·) && b.all (a.contains ·)
  let harnessOK := getBool d "parse_ok" && usemapOK && (getArr d "pinfo").length == (getArr j "pkgs").length
  let r1 := getObj impl "r1"
  let r2 := getObj impl "r2"
  let (h1, f1) := judgeRun w r1
  let (h2, f2) := judgeRun w r2
  let det := r1 == r2
  let ran := getStr impl "cls" == "ran"
  let holds := ran && det && h1 && h2
  let finding := if ran && det then (match f1, f2 with
    | some f, _ => some f
    | _, some f => some f
    | _, _ => none) else none
  let tags := [s!"cls:{getStr r1 "cls"}", s!"pkgs:{pkgs.length}"] ++
    (if unique w then ["unique"] else ["choice"]) ++
    (if hasCycleTag w then ["cycle"] else []) ++
    (if !bdep then ["nobdeps"] else []) ++
    (if det then [] else ["order-dependent"]) ++
    (if (blockersOf w.req).length > 0 then ["req-blocker"] else [])
  let base := [("model", model), ("holds", Json.bool holds), ("harness_ok", Json.bool harnessOK),
               ("tags", Json.arr (tags.map Json.str).toArray),
               ("spec", obj [("cmin", jNats (sortNat (cmin w))), ("cmax", jNats (sortNat (cmax w))),
                             ("unsat_justified", Json.bool (unsatJustified w)),
                             ("block_justified", Json.bool (blockJustified w))])]
  obj (match finding with
    | some f => ("finding", Json.str f) :: base
    | none => base)

/-! ### system set -/

open Lc.Profile in
def parseDirs (j : Json) : List ProfDir :=
  (getArr j "dirs").map fun d =>
    { path := sB d "path",
      packages := match d.getObjVal? "packages" with
        | .ok (.arr _) => some (strList d "packages")
        | _ => none,
      parent := match d.getObjVal? "parent" with
        | .ok (.arr _) => some (strList d "parent")
        | _ => none }

def jStrs (l : List Bytes) : Json := Json.arr (l.map fun b => Json.str (toStringLossy b)).toArray

open Lc.Profile in
def handleSysset (j : Json) : Json :=
  let fs := parseDirs j
  let start := sB j "start"
  let model := match readSystemSet fs start with
    | .ok l => obj [("cls", "ok"), ("atoms", jStrs l)]
    | .error .nodir => obj [("cls", "err:nodir"), ("atoms", jStrs [])]
    | .error .dup => obj [("cls", "err:dup"), ("atoms", jStrs [])]
    | .error .fuel => obj [("cls", "model:fuel"), ("atoms", jStrs [])]
  let impl := getObj j "impl"
  let implAtoms := (strList impl "atoms").mergeSort (fun a b => bytesLe a b)
  let spec := specSystemSet true fs start
  let specNoMinus := specSystemSet false fs start
  let ok := getStr impl "cls" == "ok"
  let holds := match spec with
    | some s => ok && implAtoms == s
    | none => !ok
  let oldDup : Bool := match readSystemSetOld fs start with
    | .error .dup => true
    | _ => false
  let finding : Option String :=
    if holds then none
    else if ok && spec != specNoMinus && some implAtoms == specNoMinus then some "profile-minus-star-ignored"
    else if getStr impl "cls" == "err:dup" && oldDup then
      some "profile-duplicate-atom-fatal"
    else none
  let tags := [s!"dirs:{fs.length}"] ++ (if spec != specNoMinus then ["minus-star"] else []) ++
    (if oldDup then ["repeated-atom"] else [])
  let base := [("model", model), ("holds", Json.bool holds),
               ("tags", Json.arr (tags.map Json.str).toArray),
               ("spec", match spec with | some s => jStrs s | none => Json.null)]
  obj (match finding with
    | some f => ("finding", Json.str f) :: base
    | none => base)

/-! ### AtomSet.Add -/

def handleAtomSet (j : Json) : Json :=
  let adds := getArr j "adds"
  let keys := strList j "keys"
  let entries : List Pkg := (adds.zip keys).mapIdx fun i (a, k) =>
    { id := i, name := sB a "name", slot := k, use := [], bdepend := .nil, depend := .nil,
      rdepend := .nil, pdepend := .nil }
  let s := entries.foldl AtomSet.add []
  let names := (s.map (·.1)).mergeSort (fun a b => bytesLe a b)
  let groups := names.map fun n =>
    obj [("name", Json.str (toStringLossy n)), ("keys", jStrs ((AtomSet.get s n).map (·.slot)))]
  let sorted := s.sortedAtoms.map fun p => Json.str (toStringLossy (p.name ++ 58 :: p.slot))
  let model := obj [("cls", "ok"), ("groups", Json.arr groups.toArray), ("sorted", Json.arr sorted.toArray)]
  -- oracle: every slice is strictly descending and holds exactly the distinct keys added
  let impl := getObj j "impl"
  let holds := getStr impl "cls" == "ok" && (getArr impl "groups").all fun g =>
    let ks := strList g "keys"
    let n := sB g "name"
    let want := ((entries.filter (·.name == n)).map (·.slot)).eraseDups
    let rec desc : List Bytes → Bool
      | a :: b :: rest => bytesLt b a && desc (b :: rest)
      | _ => true
    desc ks && want.all (ks.contains ·) && ks.all (want.contains ·) && ks.length == want.length
  obj [("model", model), ("holds", Json.bool holds),
       ("tags", Json.arr #[Json.str s!"adds:{adds.length}"])]

/-! ### UserEnteredDependencies.Add / Remove -/

def handleUed (j : Json) : Json :=
  let steps := getArr j "steps"
  let run := steps.foldl (fun (acc : List Bytes × List Json) st =>
      let s := sB st "s"
      let (atoms', ret) :=
        if getBool st "invalid" then (acc.1, false)      -- the atom parser refuses the string
        else if getStr st "op" == "add" then
          match Lc.Profile.uedAdd acc.1 s with
          | .ok a => (a, true)
          | .error _ => (acc.1, false)
        else Lc.Profile.uedRemove acc.1 s
      (atoms', acc.2 ++ [obj [("ret", Json.bool ret), ("atoms", jStrs atoms')]])) ([], [])
  let model := obj [("cls", "ok"), ("trace", Json.arr run.2.toArray)]
  -- specification: an insertion-ordered set of atom strings
  let spec := steps.foldl (fun (acc : List Bytes × List (List Bytes)) st =>
      let s := sB st "s"
      let a := if getBool st "invalid" then acc.1
               else if getStr st "op" == "add" then (if acc.1.contains s then acc.1 else acc.1 ++ [s])
               else acc.1.filter (· != s)
      (a, acc.2 ++ [a])) ([], [])
  let impl := getObj j "impl"
  let implAtoms := (getArr impl "trace").map fun t => strList t "atoms"
  -- an invalid string is refused every time it is offered
  let refusals := ((getArr impl "trace").zip steps).all fun (t, st) => !getBool st "invalid" || !getBool t "ret"
  obj [("model", model), ("holds", Json.bool (getStr impl "cls" == "ok" && implAtoms == spec.2 && refusals)),
       ("tags", Json.arr #[Json.str s!"steps:{steps.length}"])]

def handle (op : String) (j : Json) : Option Json :=
  match op with
  | "c05.resolve" => some (handleResolve j)
  | "c05.sysset" => some (handleSysset j)
  | "c05.atomset" => some (handleAtomSet j)
  | "c05.ued" => some (handleUed j)
  | _ => none

end Lc.Driver.C05
