import Lc.Driver.Util
import Lc.Driver.Scenario
import Lc.Model.Cli

namespace Lc.Driver.Bin
open Lean Lc Lc.Driver Lc.Driver.Scenario Lc.Layers Lc.Cli

def hostMnts : List Kernel.KMnt :=
  [ { id := 1, parent := 0, dev := b!"8:1", root := [47], mp := [47], fstype := b!"ext4", source := b!"/dev/sda1" },
    { id := 2, parent := 1, dev := b!"0:4", root := [47], mp := b!"/proc", fstype := b!"proc", source := b!"proc" } ]

/-- CheckBaseSetUp has nothing to complain about -/
def baseSetupOk (cfg : Config) (fs : Fs.Tree) : Bool :=
  Fs.isDir fs cfg.basepath && Fs.isDir fs cfg.layerdirs && Fs.isDir fs cfg.exportdirs
    && Fs.isFile fs (pathJoin [cfg.basepath, skeletonFile])

def mpsOf (w : World) : List Bytes :=
  sortBy bytesLt ((w.kt.mnts.filter fun m => Fs.under vb m.mp && m.mp != vb).map (·.mp))

def obsOf (cls : String) (w : World) (nops : Nat) : Json :=
  obj [("cls", Json.str cls), ("nops", Json.num nops), ("tree", jTree w.fs), ("mps", jbs (mpsOf w))]

def toCmd (cmd : Bytes) (args : List Bytes) (s : Switches) : Option Cmd :=
  let a := fun i => args.getD i []
  if cmd == b!"init" then some .init
  else if cmd == b!"add" then some (.add (a 0) (a 1) s.configfile)
  else if cmd == b!"remove" then some (.remove (a 0) s.files)
  else if cmd == b!"rename" then some (.rename (a 0) (a 1) [])
  else if cmd == b!"rebase" then some (.rebase (a 0) (a 1))
  else if cmd == b!"mkdirs" then some (.mkdirs (a 0))
  else if cmd == b!"mount" then some (.mount (a 0))
  else if cmd == b!"umount" || cmd == b!"unmount" then some (.umount (a 0) s.all)
  else if cmd == b!"shake" then some .shake
  else if cmd == b!"list" then some .probe
  else if cmd == b!"status" then some .probe
  else none

def runStep (cfg : Config) (w : World) (argv : List Bytes) : Json × World :=
  let w0 : World := { fs := w.fs, kt := w.kt }
  match parseMain argv with
  | .exit ok => (obsOf (if ok then "ok" else "err") w0 0, w0)
  | .run cmd args s =>
    let w1 : World := { w0 with pretend := s.pretend, force := s.force }
    if cmd == b!"status" && (args.getD 0 []).isEmpty then
      (obsOf (if baseSetupOk cfg w.fs then "ok" else "err") w0 0, w0)
    else if cmd != b!"init" && !baseSetupOk cfg w.fs then (obsOf "err" w0 0, w0)
    else match toCmd cmd args s with
      | none => (obsOf "err" w0 0, w0)
      | some c =>
        let (r, w2) := run cfg [] c w1
        let cls := clsOf r
        -- status <layer>: the layer must exist
        let cls := if cmd == b!"status" && cls == "ok" then
            (match r with
             | .ok d => if (findLayer d (args.getD 0 [])).isSome then "ok" else "err"
             | _ => cls)
          else cls
        (obsOf cls w2 w2.nops, { fs := w2.fs, kt := w2.kt })

/-- spec reading of "-p wherever it appears": a -p / --p token (or =true form) not later
    switched off again -/
def pretendRequested (argv : List Bytes) : Bool :=
  argv.foldl (fun acc t =>
    if t == b!"-p" || t == b!"--p" || t == b!"-p=true" || t == b!"--p=true" then true
    else if t == b!"-p=false" || t == b!"--p=false" then false else acc) false

def handle (op : String) (j : Json) : Option Json :=
  if op != "binscn" && op != "binovl" && op != "binman" then none else
  match "binscn" with
  | "binscn" =>
    let cfg := getCfg (getObj j "cfg")
    let w0 : World := { fs := getTree (getArr j "tree"), kt := { mnts := hostMnts } }
    let steps := (getArr j "steps").map fun s => getBs s "argv"
    let (outs, _) := steps.foldl (fun (acc : List Json × World) argv =>
      let (o, w) := runStep cfg acc.2 argv
      (acc.1 ++ [o], w)) ([], w0)
    -- "binovl": scenarios with a real overlay mount; the merged view is not modelled, so the
    -- model side is not compared (oracle only)
    -- "binman": hand-made mounts between the commands; oracle only as well
    let model := if op == "binovl" || op == "binman" then getObj j "impl" else obj [("steps", Json.arr outs.toArray)]
    let implSteps := getArr (getObj j "impl") "steps"
    let prop := getStr j "prop"
    -- oracles on the implementation's observations
    let init : Json × Json := (jTree w0.fs, jbs [])
    let (bad, _) := (steps.zip implSteps).foldl (fun (acc : Option String × (Json × Json)) (p : List Bytes × Json) =>
      let (argv, ob) := p
      let (preT, preM) := acc.2
      let unchanged := getObj ob "tree" == preT && getObj ob "mps" == preM
      let cls := getStr ob "cls"
      let words := argv.filter fun t => t.head? != some 45
      let verdict : Option String :=
        if acc.1.isSome then acc.1
        else if cls == "panic" && (prop == "C02" || prop == "C15" || prop == "C03") then some "the command crashed"
        else if cls == "timeout" && prop == "C02" then some "the command did not return"
        else if prop == "C15" && pretendRequested argv && !(argv.any fun t => t == b!"--" || t == b!"-bogus" || t == b!"-p=maybe") then
          if getNat ob "nops" != 0 then some "-p given but a mutating operation was carried out"
          else if !unchanged then some "-p given but file system or mount table changed"
          else none
        else if prop == "C03" && (words == [b!"umount"] || words == [b!"unmount"]) && !(argv.any fun t => t == b!"-all" || t == b!"--all" || t == b!"-all=true") then
          if cls == "ok" then some "umount with neither a layer nor -all reported success"
          else if !unchanged then some "umount with neither a layer nor -all changed something"
          else none
        else if prop == "C02" && words.length ≥ 2 && (words.getD 1 b!"x").isEmpty &&
            [b!"add", b!"remove", b!"rename", b!"rebase"].contains (words.headD []) then
          -- an empty string where the layer name belongs: "Layer name is not set"
          if cls == "ok" then some "a structural command with an empty layer name reported success"
          else if !unchanged then some "a structural command with an empty layer name changed something"
          else none
        else if prop == "C09" && words.headD [] == b!"remove" && cls == "ok" &&
            !(argv.any fun t => t == b!"-files" || t == b!"--files" || t == b!"-files=true" || t == b!"--files=true") &&
            !pretendRequested argv then
          -- remove without -files (whatever other switches): every file below the layer directory
          -- is still there, at its place or below <name>~removed
          let d := pathJoin [cfg.layerdirs, words.getD 1 []]
          let preFs := getTree (match preT with | Json.arr a => a.toList | _ => [])
          let postFs := getTree (getArr ob "tree")
          let own := [pathJoin [d, b!"layerconfig"], pathJoin [d, cfg.buildRoot, b!"root", b!".bashrc"]]
          let lost := preFs.any fun e =>
            Fs.under d e.1 && e.1 != d &&
            (match e.2 with
             | .dir => false
             | node => !own.contains e.1 &&
                 Fs.get postFs e.1 != some node &&
                 Fs.get postFs (d ++ b!"~removed" ++ e.1.drop d.length) != some node)
          if (words.getD 1 []).isEmpty then none
          else if lost then some "remove without -files destroyed user data" else none
        else if prop == "C04" && op == "binman" && !(getB j "inuse").isEmpty &&
            (words.headD [] == b!"remove" || words.headD [] == b!"rename" || words.headD [] == b!"rebase") &&
            words.getD 1 [] == getB j "inuse" then
          -- a real process works inside the layer (started by the scenario's first step): the
          -- command must refuse and change nothing, whatever switches it is given
          if cls == "ok" then some "remove/rename/rebase of a layer in use succeeded"
          else if !unchanged then some "remove/rename/rebase of a layer in use was refused but changed something"
          else none
        else if prop == "C03" && op == "binman" && words.length == 2 && (words.headD [] == b!"umount") then
          -- an idle base layer (these scenarios have no derived layers and no processes in
          -- the build root): umount must clear everything at or below its build root
          let build := pathJoin [cfg.layerdirs, words.getD 1 [], cfg.buildRoot]
          let below := fun (mj : Json) => (match mj with | Json.arr a => a.toList | _ => []).filterMap fun x =>
            match x with
            | Json.str h => let p := fromHex h; if Fs.under build p then some p else none
            | _ => none
          let pre := below preM
          let post := below (getObj ob "mps")
          -- (a mountpoint stacked by hand over another mountpoint's parent directory hides that
          -- mount: repaired by e546b99, `umount` must succeed there too)
          if pre.isEmpty then none
          else if cls == "ok" && !post.isEmpty then some "umount reported success but mounts remain below the build root"
          else if cls != "ok" then
            some "umount of an idle layer failed"
          else none
        else none
      (verdict, (getObj ob "tree", getObj ob "mps"))) (none, init)
    let tags := (steps.map fun argv => (if pretendRequested argv then "bin:-p:" else "bin:") ++
        toStringLossy ((argv.filter fun t => t.head? != some 45).headD b!"(none)")).eraseDups
    match bad with
    | some why =>
      some (obj [("model", model), ("holds", Json.bool false), ("why", Json.str why),
                             ("tags", Json.arr (tags.map Json.str).toArray)])
    | none => some (obj [("model", model), ("holds", Json.bool true), ("tags", Json.arr (tags.map Json.str).toArray)])
  | _ => none

end Lc.Driver.Bin
