import Lc.Driver.Util
import Lc.Model.Layerfile

namespace Lc.Driver.C11
open Lean Lc Lc.Driver Lc.Layerfile

def jMounts (l : List NeededMount) : Json :=
  Json.arr (l.map fun m => Json.arr #[jb m.fstype, jb m.source, jb m.mount]).toArray

def jLayerFile (l : LayerFile) : Json :=
  obj [("cls", "ok"), ("base", jb l.base), ("imports", jMounts l.mounts), ("exports", jMounts l.exports),
       ("nmsgs", Json.num l.nmsgs)]

/-- base, imports, exports (in order) of an observed read; the message count is not part
    of what must survive -/
def content (r : Json) : Json :=
  obj [("base", getObj r "base"), ("imports", getObj r "imports"), ("exports", getObj r "exports")]

def handle (op : String) (j : Json) : Option Json :=
  match op with
  | "layerfile.rwr" =>
    let text := getB j "text"
    -- the reader WITH the scanner's line limit (theorem readLayerFileScanner_eq: the same
    -- function as the command model's reader on every text whose lines are shorter)
    let l1 := readLayerFileScanner text
    let w := render l1
    let l2 := readLayerFileScanner w
    let overlong := (rawLines text).any fun l => !(l.length < scanLimit)
    let model := obj [("cls", "ok"), ("r1", jLayerFile l1), ("written", jb w), ("r2", jLayerFile l2)]
    let impl := getObj j "impl"
    let r1 := getObj impl "r1"
    let r2 := getObj impl "r2"
    -- oracle on the implementation's own observation: a text that loaded without messages
    -- must read back, after being written out, with the same base, imports and exports in
    -- the same order and again without messages
    let loaded := getStr r1 "cls" == "ok" && getNat r1 "nmsgs" == 0
    -- … and a text with a line the reader cannot hold must not load "cleanly": whatever
    -- follows that line would silently be dropped by the next rewrite
    let holds := (!loaded ||
      (getStr impl "cls" == "ok" && getStr r2 "cls" == "ok" && content r2 == content r1 && getNat r2 "nmsgs" == 0))
      && !(overlong && loaded)
    let tags :=
      [(if l1.nmsgs == 0 then "msgs:0" else "msgs:some"), "stream:" ++ getStr j "stream"] ++
      (if w != text then ["noncanonical"] else []) ++
      (if l1.base.isEmpty then [] else ["base"]) ++
      (if l1.mounts.isEmpty then [] else ["imports"]) ++
      (if l1.exports.isEmpty then [] else ["exports"]) ++
      (if text.any (· ≥ 128) then ["non-ascii"] else []) ++
      (if overlong then ["line>=64KiB"] else [])
    let trivial := l1.base.isEmpty && l1.mounts.isEmpty && l1.exports.isEmpty
    some (obj [("model", model), ("holds", Json.bool holds),
               ("tags", Json.arr (tags.map Json.str).toArray), ("trivial", Json.bool trivial)])
  | _ => none

end Lc.Driver.C11
