import Lc.Driver.Util
import Lc.Model.StageList
import Lc.Model.StageLinks
import Lc.Spec.Stage

/-!
  Driver ops for C06 ("c06.tar") — shared decoding of the stage cases is reused by C07.
-/
namespace Lc.Driver.C06
open Lean Lc Lc.Driver Lc.Stage

def natOfStr (s : String) : Nat := s.toNat?.getD 0

def getNatS (j : Json) (k : String) : Nat :=
  match j.getObjVal? k with
  | .ok (.str s) => natOfStr s
  | .ok v => (v.getNat?).toOption.getD 0
  | _ => 0

def getPairs (j : Json) (k : String) : List (Bytes × Bytes) :=
  (getArr j k).map fun x => match x with
    | .arr a =>
      let f := fun (i : Nat) => match a[i]? with | some (Json.str s) => fromHex s | _ => []
      (f 0, f 1)
    | _ => ([], [])

def getLstat (j : Json) : Bytes × Lstat :=
  (getB j "p",
   { mode := getNat j "mode", uid := getNat j "uid", gid := getNat j "gid", mtime := getNat j "mtime",
     size := getNat j "size", nlink := getNat j "nlink", dev := getNatS j "dev", ino := getNatS j "ino",
     rdev := getNatS j "rdev", link := getB j "link", xattrs := getPairs j "xattrs",
     sha := getStr j "sha" })

def lookupFs (tbl : List (Bytes × Lstat)) (p : Bytes) : Option Lstat :=
  match tbl.find? (fun kv => kv.1 == p) with
  | some kv => some kv.2
  | none => none

def rootSym : Bytes := b!"/R"

def getEnv (j : Json) : Env × List (Bytes × Lstat) :=
  let tbl := (getArr j "fs").map getLstat
  ({ fs := lookupFs tbl, rootDir := rootSym }, tbl)

/-- the `lineInfo` a parsed list line yields (options of one "add" step) -/
def getEntry (j : Json) : Entry :=
  { ltype := getNat j "ltype", name := getB j "name", source := getB j "src", target := getB j "target",
    skipIfAbsent := getBool j "skip", hasPerm := getBool j "hasPerm", andMask := getNat j "and",
    orMask := getNat j "or", hasUid := getBool j "hasUid", uid := getNat j "uid",
    hasGid := getBool j "hasGid", gid := getNat j "gid", hasDev := getBool j "hasDev",
    devtype := getNat j "devtype", major := getNat j "major", minor := getNat j "minor" }

def getStep (j : Json) : Step :=
  match getStr j "k" with
  | "add" => .add (getEntry j)
  | "del" => .del (getB j "name")
  | "delglob" => .delGlob (getBs j "names")
  | "unstaged" => .unstaged (getBs j "names")
  | "recover" => .recover ((getArr j "cands").map fun c =>
      { name := getB c "name", target := getB c "target", tooLong := getBool c "toolong" })
  | "clone" => .clone (getB j "from") (getB j "name") (getNat j "dminor")
  | "exclude" => .exclude
  | "closure" => .closure
  | _ => .fail

/-! ### the walk of `RecoverMissingLinks`, run by the model on the recorded build root -/

/-- one lstat record with `path.Dir` and `path.Base` of its (symbolic) path -/
structure FsRec where
  key : Bytes
  dir : Bytes
  base : Bytes
  st : Lstat

/-- the build root as the tree the walk sees: the children of a directory are the records
    whose `path.Dir` is its path.  The records come sorted by path (bytewise), so the children
    stand in byte order of their names — the order the harness's `walkLinks` uses
    (`sort.Strings`); the order of the real `Readdirnames` is that of getdents64 and does not
    matter for the resulting set (`Lc.Props.C06Links.recovered_exactly`).  Records for paths
    through a symbolically linked directory (looked up by the harness while it followed a
    chain) hang below a record that is not a directory and are never reached. -/
def buildNode (recs : List FsRec) : Nat → Bytes → Lstat → Node
  | 0, _, _ => .other
  | fuel + 1, p, st =>
    let t := st.mode &&& S_IFMT
    if t = S_IFLNK then .symlink st.link
    else if t = S_IFDIR then
      .dir ((recs.filter fun r => r.dir == p && r.key != p).map fun r =>
        (r.base, buildNode recs fuel r.key r.st))
    else if t = S_IFREG then .file
    else .other

def buildRoot (tbl : List (Bytes × Lstat)) : Node :=
  let recs := tbl.map fun kv => ({ key := kv.1, dir := pathDir kv.1, base := pathBase kv.1, st := kv.2 } : FsRec)
  match lookupFs tbl rootSym with
  | some st => buildNode recs (tbl.length + 1) rootSym st
  | none => .other

def candEq (a b : Cand) : Bool := a.name == b.name && a.target == b.target && a.tooLong == b.tooLong

def candsEq : List Cand → List Cand → Bool
  | [], [] => true
  | a :: as, b :: bs => candEq a b && candsEq as bs
  | _, _ => false

def sameMap : Res EMap → Res EMap → Bool
  | .ok a, .ok b => a == b
  | .error f, .error g => f == g
  | _, _ => false

/-- (the model's candidate list on the recorded tree equals the harness's, the model's walk
    with the member map of that point of the step list equals `recoverAll` on the harness's
    candidates).  A case without a recover step (no expansion took place) passes. -/
def linksCheck (j : Json) : Bool × Bool :=
  let (env, tbl) := getEnv j
  let steps := (getArr j "steps").map getStep
  let isRecover := fun (s : Step) => match s with | .recover _ => true | _ => false
  match steps.find? isRecover with
  | some (.recover hc) =>
    let tree := buildRoot tbl
    let mine := candidates env tree
    let pre := steps.takeWhile (fun s => !isRecover s)
    let walkOK := match runSteps env {} pre with
      | .ok s => sameMap (recoverMissingLinks env tree s.map) (recoverAll env s.map hc)
      | .error _ => true
    (candsEq mine hc, walkOK)
  | _ => (true, true)

/-- the reply fields of that comparison; `harness_ok` only when it fails -/
def linksFields (j : Json) : List (String × Json) :=
  let (a, b) := linksCheck j
  [("links_model_eq", Json.bool a), ("links_walk_eq", Json.bool b)] ++
    (if a && b then [] else [("harness_ok", Json.bool false)])

def typeChar (t : Nat) : String :=
  if t = tyDir then "d" else if t = tyReg then "f" else if t = tySymlink then "l"
  else if t = tyLink then "h" else if t = tyChar then "c" else if t = tyBlock then "b" else "?"

/-- entries of `fl.Files` with their headers, or the error class -/
def runModel (j : Json) : Res (List (Entry × Header)) :=
  let (env, _) := getEnv j
  let steps := (getArr j "steps").map getStep
  match stageFileList env steps with
  | .error f => .error f
  | .ok es =>
    match tarHeaders es with
    | .error f => .error f
    | .ok hs => .ok (es.zip hs)

def getCats (j : Json) : Spec.Stage.Cats :=
  let c := getObj j "cats"
  { sel := getBs c "sel",
    cands := (getArr c "cands").filterMap fun x =>
      if getBool x "toolong" then none else some (getB x "name", getB x "target"),
    vdb := getBs c "vdb", static := getBs c "static", magic := getBs c "magic",
    excluded := getBs c "excluded", std := getBs c "std",
    user := (getArr c "user").map fun x => match x with
      | .arr a => (a[0]? == some (Json.str "a"), match a[1]? with | some (Json.str s) => fromHex s | _ => [])
      | _ => (false, []),
    novdb := getBool c "novdb", emptydev := getBool c "emptydev" }

def sortBytes (l : List Bytes) : List Bytes :=
  (l.toArray.qsort (fun a b => bytesLt a b)).toList

def getMems (impl : Json) : List Spec.Stage.Mem :=
  (getArr impl "members").map fun x => match x with
    | .arr a =>
      let s := fun (i : Nat) => match a[i]? with | some (Json.str s) => s | _ => ""
      { name := fromHex (s 0), type := s 1, link := fromHex (s 2) }
    | _ => { name := [], type := "", link := [] }

/-- inode identity of the source of an archive member `./x` -/
def inoOfMember (tbl : List (Bytes × Lstat)) (n : Bytes) : Option (Nat × Nat) :=
  match Spec.Stage.stripDot n with
  | none => none
  | some p => (lookupFs tbl (pathJoin2 rootSym p)).map fun s => (s.dev, s.ino)

structure Verdict where
  dotRel : Bool
  unique : Bool
  parents : Bool
  hardlinks : Bool
  membership : Bool
  listEq : Bool

def Verdict.all (v : Verdict) : Bool :=
  v.dotRel && v.unique && v.parents && v.hardlinks && v.membership && v.listEq

def judge (j : Json) (impl : Json) : Verdict × List Bytes × List Bytes :=
  let (_, tbl) := getEnv j
  let ms := getMems impl
  let names := ms.map (·.name)
  let stripped := sortBytes (names.filterMap Spec.Stage.stripDot)
  let expected := sortBytes (Spec.Stage.expectedNames (getCats j))
  ({ dotRel := Spec.Stage.allDotRelative ms,
     unique := Spec.Stage.uniqueNames names,
     parents := Spec.Stage.parentsPrecede ms,
     hardlinks := Spec.Stage.hardlinksOK (inoOfMember tbl) ms,
     membership := stripped == expected,
     listEq := getBool impl "list_eq" },
   Spec.Stage.minusU expected stripped, Spec.Stage.minusU stripped expected)

def handle (op : String) (j : Json) : Option Json :=
  match op with
  | "c06.tar" =>
    let model := match runModel j with
      | .error _ => obj [("cls", "err")]
      | .ok ehs =>
        obj [("cls", "ok"),
             ("members", Json.arr (ehs.map fun (_, h) =>
                Json.arr #[jb h.name, Json.str (typeChar h.typeflag),
                           jb (if h.typeflag = tyLink then h.linkname else [])]).toArray),
             ("list_eq", Json.bool true)]
    let impl := getObj j "impl"
    let cls := getStr impl "cls"
    if cls != "ok" then
      some (obj ([("model", model), ("holds", Json.bool true), ("trivial", Json.bool true),
                 ("tags", Json.arr #[Json.str ("cls:" ++ cls)])] ++ linksFields j))
    else
      let (v, missing, extra) := judge j impl
      let ms := getMems impl
      let cats := getCats j
      let tags := ["cls:ok"] ++
        (if ms.any (·.type == "h") then ["hardlink"] else []) ++
        (if cats.user.any (fun u => !u.1) then ["omit"] else []) ++
        (if cats.user.any (fun u => u.1) then ["user-add"] else []) ++
        (if cats.novdb then ["novdb"] else []) ++ (if cats.emptydev then ["emptydev"] else []) ++
        (if cats.excluded.any (fun n => cats.magic.contains n || cats.sel.contains n) then ["excluded-hit"] else []) ++
        (if cats.cands.any (fun c => !cats.sel.contains c.1 && cats.sel.contains c.2) then ["link-recovered"] else [])
      some (obj ([("model", model), ("holds", Json.bool v.all),
                 ("verdict", obj [("dot_relative", Json.bool v.dotRel), ("unique", Json.bool v.unique),
                    ("parents_precede", Json.bool v.parents), ("hardlinks", Json.bool v.hardlinks),
                    ("membership", Json.bool v.membership), ("list_eq", Json.bool v.listEq),
                    ("missing", jbs (missing.take 8)), ("extra", jbs (extra.take 8))]),
                 ("tags", Json.arr (tags.map Json.str).toArray)] ++ linksFields j))
  | _ => none

end Lc.Driver.C06
