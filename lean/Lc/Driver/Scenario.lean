import Lc.Driver.Util
import Lc.Model.Layers

namespace Lc.Driver.Scenario
open Lean Lc Lc.Driver Lc.Layers

def getCfg (j : Json) : Config :=
  { basepath := getB j "basepath", layerdirs := getB j "layerdirs", buildRoot := getB j "buildRoot",
    binPkg := getB j "binPkg", generated := getB j "generated", workdir := getB j "workdir",
    upperdir := getB j "upperdir", exportdirs := getB j "exportdirs",
    exportBinPkg := getB j "exportBinPkg", exportGenerated := getB j "exportGenerated" }

def hexAt (a : Array Json) (i : Nat) : Bytes :=
  match a[i]? with
  | some (Json.str s) => fromHex s
  | _ => []

def strAt (a : Array Json) (i : Nat) : String :=
  match a[i]? with
  | some (Json.str s) => s
  | _ => ""

def natAt (a : Array Json) (i : Nat) : Nat :=
  match a[i]? with
  | some v => match v.getNat? with | .ok n => n | .error _ => 0
  | _ => 0

def getTree (l : List Json) : Fs.Tree :=
  l.filterMap fun e => match e with
    | .arr a =>
      let p := hexAt a 0
      match strAt a 1 with
      | "d" => some (p, Fs.Node.dir)
      | "f" => some (p, Fs.Node.file (hexAt a 2))
      | "l" => some (p, Fs.Node.symlink (hexAt a 2))
      | _ => none
    | _ => none

def getHost (l : List Json) : List Kernel.KMnt :=
  l.filterMap fun e => match e with
    | .arr a => some { id := natAt a 0, parent := natAt a 1, dev := hexAt a 2, root := hexAt a 3,
                       mp := hexAt a 4, fstype := hexAt a 5, source := hexAt a 6, lower := hexAt a 7,
                       upper := hexAt a 8, work := hexAt a 9 }
    | _ => none

def getUsers (l : List Json) : List (Bytes × List User) :=
  let flat : List (Bytes × User) := l.filterMap fun e => match e with
    | .arr a => some (hexAt a 0, ⟨natAt a 1, hexAt a 2⟩)
    | _ => none
  let names := flat.map (·.1) |>.eraseDups
  names.map fun n => (n, (flat.filter (·.1 == n)).map (·.2))

def argAt (args : List Bytes) (i : Nat) : Bytes := args.getD i []

def getCmd (j : Json) : Option Cmd :=
  let args := getBs j "args"
  match getStr j "cmd" with
  | "init" => some .init
  | "add" => some (.add (argAt args 0) (argAt args 1) (argAt args 2))
  | "remove" => some (.remove (argAt args 0) (getBool j "files"))
  | "rename" => some (.rename (argAt args 0) (argAt args 1) (getBs j "childOrder"))
  | "rebase" => some (.rebase (argAt args 0) (argAt args 1))
  | "mkdirs" => some (.mkdirs (argAt args 0))
  | "mount" => some (.mount (argAt args 0))
  | "umount" => some (.umount (argAt args 0) (getBool j "all"))
  | "shake" => some .shake
  | "chroot" => some (.chroot (argAt args 0))
  | "probe" => some .probe
  | _ => none

def optNat (j : Json) (k : String) : Option Nat :=
  match j.getObjValAs? Nat k with
  | .ok n => some n
  | .error _ => none

def jOp (o : Op) : Option Json :=
  match o with
  | .mount s t f fl d => some (Json.arr #[Json.str "mount", jb s, jb t, jb f, Json.num fl, jb d])
  | .umount t fl => some (Json.arr #[Json.str "umount", jb t, Json.num fl])
  | _ => none

def showContent (p : Bytes) : Bool :=
  let b := pathBase p
  hasPrefix b b!"layerconfig" || hasPrefix b b!"data" || hasSuffix b b!".skel"

def vb : Bytes := b!"/VB"

def jTree (fs : Fs.Tree) : Json :=
  let ents := fs.filter fun e => Fs.under vb e.1
  let ents := sortBy (fun a b => bytesLt a.1 b.1) ents
  Json.arr (ents.map fun (p, n) => match n with
    | .dir => Json.arr #[jb p, Json.str "d"]
    | .file c => if showContent p then Json.arr #[jb p, Json.str "f", jb c] else Json.arr #[jb p, Json.str "f"]
    | .symlink t => Json.arr #[jb p, Json.str "l", jb t]).toArray

def jTable (t : Kernel.KTable) : Json :=
  Json.arr (t.mnts.map fun m => Json.arr #[Json.num m.id, Json.num m.parent, jb m.dev, jb m.root, jb m.mp,
    jb m.fstype, jb m.source, jb m.lower, jb m.upper, jb m.work]).toArray

def clsOf {α} (r : Except Fault α) : String :=
  match r with
  | .ok _ => "ok"
  | .error .panic => "panic"
  | .error (.err "crash") => "crash"
  | .error (.err _) => "err"

def jLayers (cfg : Config) (inuse : List (Bytes × List User)) (w : World) : Json :=
  let w0 : World := { fs := w.fs, kt := w.kt }
  match (getLayers cfg inuse).run.run w0 with
  | (.ok d, _) =>
    let ls := d.order.filterMap fun n => findLayer d n
    obj [("cls", "ok"), ("layers", Json.arr (ls.map fun l =>
      Json.arr #[jb l.name, jb l.base, Json.num l.state, Json.bool l.mountBusy, Json.bool l.nonMountBusy,
                 Json.bool l.overlain, Json.bool l.chroot, Json.num l.mounts.length]).toArray)]
  | (.error .panic, _) => obj [("cls", "panic")]
  | (.error _, _) => obj [("cls", "err")]

structure StepOut where
  json : Json
  world : World
  err : Option String := none

/-- a mount or unmount made by the administrator (not by layercake): straight to the kernel -/
def runManual (cfg : Config) (w : World) (j : Json) : Option StepOut :=
  let args := getBs j "args"
  let inuse := getUsers (getArr j "users")
  let c := getStr j "cmd"
  if c == "sysmount" || c == "sysumount" then
    let (res, op) := if c == "sysmount" then
        (Kernel.kmount w.kt (argAt args 0) (argAt args 1) (argAt args 2) (getNat j "flags") [],
         Op.mount (argAt args 0) (argAt args 1) (argAt args 2) (getNat j "flags") [])
      else (Kernel.kumount w.kt (argAt args 0), Op.umount (argAt args 0) 0)
    let (cls, kt) := match res with
      | .ok kt' => ("ok", kt')
      | .error _ => ("err", w.kt)
    let w2 : World := { fs := w.fs, kt := kt }
    some { json := obj [("cls", Json.str cls), ("sys", Json.arr ([op].filterMap jOp).toArray), ("nops", Json.num 0),
                        ("tree", jTree w2.fs), ("table", jTable w2.kt), ("layers", jLayers cfg inuse w2)],
           world := w2 }
  else none

def runStep (cfg : Config) (w : World) (j : Json) : StepOut :=
  let inuse := getUsers (getArr j "users")
  match runManual cfg w j with
  | some o => o
  | none =>
  match getCmd j with
  | none => { json := obj [("cls", "bad-step")], world := w }
  | some c =>
    let w1 : World := { fs := w.fs, kt := w.kt, pretend := getBool j "pretend", force := getBool j "force",
                        faultAt := optNat j "fault", crashAt := optNat j "crash" }
    let (r, w2) := run cfg inuse c w1
    let sys := w2.trace.filterMap jOp
    { json := obj [("cls", Json.str (clsOf r)), ("sys", Json.arr sys.toArray), ("nops", Json.num w2.nops),
                   ("tree", jTree w2.fs), ("table", jTable w2.kt), ("layers", jLayers cfg inuse w2)],
      world := w2 }

def runScenario (j : Json) : List Json × World :=
  let cfg := getCfg (getObj j "cfg")
  let w0 : World := { fs := getTree (getArr j "tree"),
                      kt := { mnts := getHost (getArr j "host") } }
  (getArr j "steps").foldl (fun (acc : List Json × World) s =>
    let o := runStep cfg acc.2 s
    (acc.1 ++ [o.json], o.world)) ([], w0)

end Lc.Driver.Scenario
