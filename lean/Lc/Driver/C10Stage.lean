import Lc.Driver.Util
import Lc.Model.OutFault

namespace Lc.Driver.C10Stage
open Lean Lc Lc.Driver Lc.OutFault

def handle (op : String) (j : Json) : Option Json :=
  match op with
  | "stage.outfault" =>
    let impl := getObj j "impl"
    let full := getNat impl "full"
    let runs := getArr impl "runs"
    -- model: the output is `full` bytes in some sequence of writes; whatever the sequence,
    -- success iff it fits (theorem emit_ok_iff); one chunk per 512-byte block suffices here
    let chunks := List.replicate (full / 512) 512 ++ (if full % 512 == 0 then [] else [full % 512])
    let mruns := runs.map fun r =>
      let lim : Int := match r.getObjValAs? Int "limit" with | .ok v => v | .error _ => 0
      let limitBytes : Nat := if lim < 0 then 0 else Int.toNat lim * 512
      let ok := (emit limitBytes 0 chunks).isSome && !(lim < 0 && full > 0)
      obj [("limit", getObj r "limit"), ("cls", Json.str (if ok then "ok" else "err")), ("complete", Json.bool ok)]
    -- oracle: exit status 0 only if the complete output was written
    let badRun := runs.find? fun r => getStr r "cls" == "ok" && !getBool r "complete" &&
      !(full == 0)
    let tags := [getStr j "mode" ++ "/" ++ getStr j "compress", s!"fullblocks:{full / 512}"]
    some (obj [("model", obj [("full", Json.num full), ("runs", Json.arr mruns.toArray)]),
               ("holds", Json.bool badRun.isNone),
               ("why", Json.str (match badRun with
                  | some r => "exit status 0 although the output is incomplete at limit " ++ (getObj r "limit").compress
                  | none => "")),
               ("tags", Json.arr (tags.map Json.str).toArray)])
  | "cursor.seq" =>
    -- n lines, the k-th write fails once: every later line is dropped (the sticky error is
    -- looked at before each write) and Close reports the error
    let n := getNat j "n"
    let k := getNat j "fault"
    let fired := 1 ≤ k && k ≤ n
    let lines := if fired then k - 1 else n
    let model := obj [("cls", "ok"), ("closeErr", Json.bool fired), ("lines", Json.num lines)]
    let impl := getObj j "impl"
    -- oracle: an error while writing is reported by Close (success only if everything is out)
    let holds := getStr impl "cls" == "ok" && (!fired || getBool impl "closeErr") &&
      (getBool impl "closeErr" || getNat impl "lines" == n)
    some (obj [("model", model), ("holds", Json.bool holds),
               ("why", Json.str (if holds then "" else "a write error was not reported by Close, or Close reported success with lines missing")),
               ("tags", Json.arr #[Json.str (if fired then "cursor:fault" else "cursor:clean"),
                                   Json.str (if getBool j "printf" then "cursor:printf" else "cursor:println")])])
  | _ => none

end Lc.Driver.C10Stage
