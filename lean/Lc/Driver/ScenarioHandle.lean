import Lc.Driver.Scenario
import Lc.Driver.Oracle

namespace Lc.Driver.ScenarioHandle
open Lean Lc Lc.Driver Lc.Driver.Scenario Lc.Driver.Oracle Lc.Layers Lc.Spec.World

def jlist (j : Json) : List Json := match j with | .arr a => a.toList | _ => []

def instOf (cfg : Config) (tree table : Json) (hostFs : Fs.Tree) : Inst :=
  { cfg := cfg, fs := hostFs ++ getTree (jlist tree), mnts := getHost (jlist table) }

/-- world reconstructed from an implementation observation (tree + table) -/
def worldOf (i : Inst) : World :=
  { fs := i.fs, kt := { mnts := i.mnts, nextId := (i.mnts.foldl (fun acc x => max acc x.id) 99) + 1 } }

def handle (op : String) (j : Json) : Option Json :=
  match op with
  | "scenario" =>
    let (outs, _) := runScenario j
    -- the tree model has no NAME_MAX: a scenario that names a directory entry longer than 255
    -- bytes is judged by the oracles only (the implementation's observation stands in for the
    -- model's)
    let tooLong := (getArr j "steps").any fun st => (getBs st "args").any fun a =>
      (splitOn 47 a).any fun comp => comp.length + 8 > 255        -- room for "~removed"
    let model := if tooLong then getObj j "impl" else obj [("steps", Json.arr outs.toArray)]
    let prop := getStr j "prop"
    let known := ["C01", "C02", "C03", "C04", "C08", "C09", "C10", "C11", "C15", "C16", "C19"]
    if !known.contains prop then some (obj [("model", model), ("holds", Json.bool true)]) else
    let cfg := getCfg (getObj j "cfg")
    let fs0 := getTree (getArr j "tree")
    let hostFs := fs0.filter fun e => !Fs.under vb e.1
    let w0 : World := { fs := fs0, kt := { mnts := getHost (getArr j "host") } }
    let implSteps := getArr (getObj j "impl") "steps"
    let steps := getArr j "steps"
    let init : Json × Json × Option Json × String := (jTree w0.fs, jTable w0.kt, none, "")
    let (verdicts, _) := (steps.zip implSteps).foldl
      (fun (acc : List Verdict × (Json × Json × Option Json × String)) (p : Json × Json) =>
        let (st, ob) := p
        let (preT, preM, prevS, prevC) := acc.2
        let pre := instOf cfg preT preM hostFs
        let post := instOf cfg (getObj ob "tree") (getObj ob "table") hostFs
        let users := getUsers (getArr st "users")
        let v : StepView := { cfg := cfg, step := st, users := users, pre := pre, preTreeJ := preT,
                              preTableJ := preM, post := post, postJ := ob, prevStep := prevS, prevCls := prevC }
        let verdict := match prop with
          | "C01" => c01 v
          | "C02" => c02 v
          | "C03" => c03 v
          | "C04" => c04 v
          | "C19" => c04 v     -- "only use of the build, upper or work directory makes the layer un-unmountable"
          | "C08" => c08 v
          | "C09" => c09 v
          | "C10" => let a := c10 v; if a.holds then { c10sys v with tags := a.tags } else a
          | "C15" => c15 v
          | "C16" => c16 v
          | "C11" =>
            -- what the uninterrupted step writes, from the implementation's own pre-state
            match getCmd st with
            | some c =>
              let (_, w2) := run cfg users c (worldOf pre)
              c11 v (layerconfigs (jTree w2.fs))
            | none => fine []
          | _ => fine []
        let verdict := if verdict.holds then verdict else { verdict with why := s!"step {acc.1.length}: " ++ verdict.why }
        (acc.1 ++ [verdict], (getObj ob "tree", getObj ob "table", some st, getStr ob "cls")))
      ([], init)
    let firstBad := verdicts.find? (fun v => !v.holds && v.finding.isNone)
    let firstKnown := verdicts.find? (fun v => !v.holds && v.finding.isSome)
    let tags := (verdicts.flatMap (·.tags)).eraseDups
    let base := [("model", model), ("tags", Json.arr (tags.map Json.str).toArray)]
    match firstBad, firstKnown with
    | some v, _ => some (obj (base ++ [("holds", Json.bool false), ("why", Json.str v.why)]))
    | none, some v => some (obj (base ++ [("holds", Json.bool false), ("why", Json.str v.why),
                                          ("finding", Json.str (v.finding.getD ""))]))
    | none, none => some (obj (base ++ [("holds", Json.bool true)]))
  | _ => none

end Lc.Driver.ScenarioHandle
