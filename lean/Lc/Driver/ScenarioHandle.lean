import Lc.Driver.Scenario
import Lc.Driver.Oracle

namespace Lc.Driver.ScenarioHandle
open Lean Lc Lc.Driver Lc.Driver.Scenario Lc.Driver.Oracle Lc.Layers

def oracleFor (prop : String) : Option (StepView → Verdict) :=
  match prop with
  | "C15" => some c15
  | "C10" => some c10
  | _ => none

/-- world reconstructed from an implementation observation (tree + table) -/
def worldOfObs (tree table : Json) : World :=
  { fs := getTree (match tree with | .arr a => a.toList | _ => []),
    kt := let m := getHost (match table with | .arr a => a.toList | _ => [])
          { mnts := m, nextId := (m.foldl (fun acc x => max acc x.id) 99) + 1,
            nextMinor := 60 } }

def handle (op : String) (j : Json) : Option Json :=
  match op with
  | "scenario" =>
    let (outs, _) := runScenario j
    let model := obj [("steps", Json.arr outs.toArray)]
    let prop := getStr j "prop"
    match oracleFor prop with
    | none => some (obj [("model", model), ("holds", Json.bool true)])
    | some orc =>
      let cfg := getCfg (getObj j "cfg")
      let w0 : World := { fs := getTree (getArr j "tree"), kt := { mnts := getHost (getArr j "host") } }
      let implSteps := getArr (getObj j "impl") "steps"
      let steps := getArr j "steps"
      let init : Json × Json := (jTree w0.fs, jTable w0.kt)
      let (verdicts, _) := (steps.zip implSteps).foldl (fun (acc : List Verdict × (Json × Json)) (p : Json × Json) =>
        let (st, ob) := p
        let v : StepView := { step := st, preTree := acc.2.1, preTable := acc.2.2, post := ob, modelNoFault := Json.null }
        let _ := cfg
        (acc.1 ++ [orc v], (getObj ob "tree", getObj ob "table"))) ([], init)
      let firstBad := verdicts.find? (fun v => !v.holds && v.finding.isNone)
      let firstKnown := verdicts.find? (fun v => !v.holds && v.finding.isSome)
      let tags := (verdicts.flatMap (·.tags)).eraseDups
      let base := [("model", model), ("tags", Json.arr (tags.map Json.str).toArray)]
      match firstBad, firstKnown with
      | some v, _ => some (obj (base ++ [("holds", Json.bool false), ("why", Json.str v.why)]))
      | none, some v => some (obj (base ++ [("holds", Json.bool false), ("why", Json.str v.why),
                                            ("finding", Json.str (v.finding.getD ""))]))
      | none, none => some (obj (base ++ [("holds", Json.bool true)]))
  | _ => none

end Lc.Driver.ScenarioHandle
