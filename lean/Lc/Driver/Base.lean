import Lc.Driver.Util
import Lc.Base.Path

namespace Lc.Driver.Base
open Lean Lc Lc.Driver

def wrap (m : Json) : Json := obj [("model", m), ("holds", Json.bool true)]

def handle (op : String) (j : Json) : Option Json :=
  match op with
  | "path.clean" => some (wrap (obj [("out", jb (pathClean (getB j "s")))]))
  | "path.join" => some (wrap (obj [("out", jb (pathJoin (getBs j "elems")))]))
  | "path.dir" => some (wrap (obj [("out", jb (pathDir (getB j "s")))]))
  | "path.base" => some (wrap (obj [("out", jb (pathBase (getB j "s")))]))
  | "path.isabs" => some (wrap (obj [("out", Json.bool (isAbs (getB j "s")))]))
  | "bytes.split" => some (wrap (obj [("out", jbs (splitOn (getNat j "sep") (getB j "s")))]))
  | "bytes.lt" => some (wrap (obj [("out", Json.bool (bytesLt (getB j "a") (getB j "b")))]))
  | _ => none

end Lc.Driver.Base
