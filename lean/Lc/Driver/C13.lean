import Lc.Driver.Util
import Lc.Model.Atom
import Lc.Spec.PmsDomain

namespace Lc.Driver.C13
open Lean Lc Lc.Driver Lc.Atom Lc.Version

/-! JSON → specification structures -/

def optB (j : Json) (k : String) : Option Bytes :=
  match j.getObjVal? k with
  | .ok (.str s) => some (fromHex s)
  | _ => none

def getKind (s : String) : Option Spec.Pms.SufKind :=
  match s with
  | "alpha" => some .alpha | "beta" => some .beta | "pre" => some .pre | "rc" => some .rc
  | "p" => some .p | _ => none

def getSuffix (j : Json) : Option Spec.Pms.Suffix :=
  match j with
  | .arr a =>
    match a[0]? with
    | some (Json.str k) =>
      (getKind k).map fun kind =>
        { kind := kind, num := match a[1]? with | some (Json.str h) => some (fromHex h) | _ => none }
    | _ => none
  | _ => none

def getVersion (j : Json) : Option Spec.Pms.Version :=
  match j with
  | .obj _ =>
    let sufs := (getArr j "sufs").map getSuffix
    if sufs.any Option.isNone then none else
    let letter := match getB j "letter" with | [l] => some l | _ => none
    some { nums := getBs j "nums", letter := letter, sufs := sufs.filterMap id, rev := optB j "rev" }
  | _ => none

def getOp (s : String) : Option Spec.Pms.Op :=
  match s with
  | "<" => some .lt | "<=" => some .le | "=" => some .eq | ">=" => some .ge | ">" => some .gt
  | "~" => some .tilde | "=*" => some .glob | _ => none

def getSlotDep (j : Json) : Spec.Pms.SlotDep :=
  match getStr j "kind" with
  | "star" => .star
  | "eq" => .eq
  | "slot" => .slot (getB j "slot") (optB j "sub") (getBool j "eq")
  | _ => .none

def getUseDep (j : Json) : Option Spec.Pms.UseDep :=
  let form : Option Spec.Pms.UseForm := match getStr j "form" with
    | "en" => some .enabled | "dis" => some .disabled | "same" => some .same
    | "opp" => some .opposite | "if" => some .ifSet | "ifnot" => some .ifUnset | _ => none
  let dflt : Spec.Pms.UseDefault := match getStr j "dflt" with
    | "+" => .plus | "-" => .minus | _ => .none
  form.map fun f => { form := f, dflt := dflt, flag := getB j "flag" }

def getAtom (j : Json) : Option Spec.Pms.Atom :=
  let opS := getStr j "op"
  let verJ := getObj j "ver"
  let ver : Option (Option (Spec.Pms.Op × Spec.Pms.Version)) :=
    if opS == "" then (if verJ.isNull then some none else none)
    else match getOp opS, getVersion verJ with
      | some o, some v => some (some (o, v))
      | _, _ => none
  let use := (getArr j "use").map getUseDep
  if use.any Option.isNone then none else
  ver.map fun v =>
    { bang := getNat j "bang", name := getB j "name", ver := v, slot := getSlotDep (getObj j "slot"),
      use := use.filterMap id, pmsOrder := getBool j "pmsorder" }

def getPair (j : Json) : (Bytes × Bytes) :=
  match j with
  | .arr a => (match a[0]? with | some (Json.str s) => fromHex s | _ => [],
               match a[1]? with | some (Json.str s) => fromHex s | _ => [])
  | _ => ([], [])

/-- the installed package as PMS sees it: IUSE = the flags it has, USE = the enabled ones -/
def getPackage (j : Json) : Option (Spec.Pms.Package × Bytes × Bytes) :=
  match getVersion (getObj j "ver") with
  | none => none
  | some v =>
    let iuse := (getArr j "iuse").map getPair
    let use := getBs j "use"
    let names := (iuse.map (·.2)).eraseDups
    let sub := getB j "sub"
    some ({ name := getB j "name", ver := v, slot := getB j "slot",
            sub := if sub.isEmpty then none else some sub,
            flags := names.map fun n => (n, use.contains n) },
          joinWith 32 (iuse.map fun p => p.1 ++ p.2), joinWith 32 use)

def getCtx (j : Json) : List (Bytes × Bool) :=
  (getArr j "ctx").map fun e => match e with
    | .arr a => (match a[0]? with | some (Json.str s) => fromHex s | _ => [],
                 match a[1]? with | some (Json.bool b) => b | _ => false)
    | _ => ([], false)

def fmStr : FM → String
  | .yes => "t" | .no => "f" | .err => "e"

/-- the model's observation, same JSON shape as the harness's `impl` -/
def modelMatch (atomText candText cslot iuse use : Bytes) (ctx : List (Bytes × Bool)) : Json :=
  match rawParseAtom atomText true true with
  | none => obj [("cls", "err:atom")]
  | some da =>
    match mkCand candText cslot iuse use with
    | none => obj [("cls", "err:cand")]
    | some c =>
      match versionAndSlotMatch da c.compVer c.slot, filterKeeps da c ctx with
      | some vs, some kept =>
        obj [("cls", "ok"), ("acv", jb da.compVer), ("aslot", jb da.slot),
             ("aname", jb (packageName da)), ("arest", Json.num da.rest.length),
             ("ccv", jb c.compVer), ("cslot", jb c.slot), ("cname", jb c.name),
             ("vs", Json.bool vs), ("fm", Json.str (fmStr (flagsMatch da.useDeps c.flags ctx))),
             ("match", Json.bool (kept && packageName da == c.name))]
      | _, _ => obj [("cls", "hang")]

def opTag (a : Spec.Pms.Atom) : String :=
  match a.ver with
  | none => "op:none"
  | some (o, _) => match o with
    | .lt => "op:<" | .le => "op:<=" | .eq => "op:=" | .ge => "op:>=" | .gt => "op:>"
    | .tilde => "op:~" | .glob => "op:=*"

def handle (op : String) (j : Json) : Option Json :=
  match op with
  | "c13.nextver" =>
    let s := getB j "s"
    let model := match makeNextVer s with
      | some r => obj [("out", jb r)]
      | none => obj [("cls", "hang")]
    some (obj [("model", model), ("holds", Json.bool true), ("tags", Json.arr #[Json.str "nextver"])])
  | "c13.match" =>
    let atomText := getB j "atom"
    let candText := getB j "cand"
    let cslot := getB j "cslot"
    let ctx := getCtx j
    let model := modelMatch atomText candText cslot (getB j "iuse") (getB j "use") ctx
    match getAtom (getObj j "a"), getPackage (getObj j "c") with
    | some a, some (p, iuseS, useS) =>
      open Spec.Pms in
      let impl := getObj j "impl"
      let harnessOk := a.render == atomText && p.text == candText && p.slot == cslot
        && p.sub.getD [] == getB j "csub" && iuseS == getB j "iuse" && useS == getB j "use"
      let specVS := verMatch a p && slotMatch a.slot p.slot (p.sub.getD p.slot)
      let specUse := useMatch a p ctx
      let specAll := satisfies a p ctx
      let implOk := getStr impl "cls" == "ok" && getNat impl "arest" == 0
      let vsOk := implOk && getBool impl "vs" == specVS
      let fmOk := implOk && (getStr impl "fm" == "t") == specUse
      let allOk := implOk && getBool impl "match" == specAll
      let holds := vsOk && fmOk && allOk
      -- a wrong decision is a known finding only inside the region of that finding
      let finding : Option String :=
        if holds || !implOk then none
        else if !vsOk then
          (match verSlotKey a p with
           | some k => if fmOk || (useKey a p).isSome then some k else none
           | none => none)
        else if !fmOk then useKey a p
        else none
      let inDom := match a.ver with
        | some (_, v) => dom5 v && dom5 p.ver
        | none => dom5 p.ver
      let tags := [opTag a, if inDom then "dom5" else "outside-dom5",
                   if specAll then "spec:match" else "spec:nomatch",
                   s!"usedeps:{a.use.length}"] ++
        (match verSlotKey a p with | some k => ["region:" ++ k] | none => []) ++
        (match useKey a p with | some k => ["region:" ++ k] | none => [])
      let base := [("model", model), ("harness_ok", Json.bool harnessOk), ("holds", Json.bool holds),
                   ("expected", obj [("vs", Json.bool specVS), ("use", Json.bool specUse),
                                      ("match", Json.bool specAll)]),
                   ("tags", Json.arr (tags.map Json.str).toArray)]
      some (obj (match finding with
        | some k => ("finding", Json.str k) :: base
        | none => base))
    | _, _ =>
      -- no (usable) structure: correspondence only.  A case that carries a structure the
      -- driver cannot read is a harness defect, not a trivial case.
      let hasStruct := !(getObj j "a").isNull || !(getObj j "c").isNull
      some (obj [("model", model), ("holds", Json.bool true), ("trivial", Json.bool true),
                 ("harness_ok", Json.bool (!hasStruct)),
                 ("tags", Json.arr #[Json.str "malformed",
                    Json.str ("malformed:" ++ getStr model "cls")])])
  | _ => none

end Lc.Driver.C13
