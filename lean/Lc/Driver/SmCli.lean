/-
  Driver for suite `smcli`: switches of the stagemaker binary handled in package main
  (cmd/stagemaker/paths.go decodeCompressionInput / decodeFilenameExtension,
  cmd/stagemaker/stagemaker.go add-files scripts from recipe and switch).
-/
import Lc.Driver.Util
import Lc.Base.Sort

namespace Lc.Driver.SmCli
open Lean Lc Lc.Driver

def lowerAscii (s : Bytes) : Bytes := s.map fun c => if 65 ≤ c && c ≤ 90 then c + 32 else c

/-- decodeCompressionInput: values longer than one byte are compared in lower case -/
def decodeParam (p : Bytes) : Option String :=
  let v := if p.length > 1 then lowerAscii p else p
  if [b!"gzip", b!"gz", b!"z"].contains v then some "gzip"
  else if [b!"bzip2", b!"bzip", b!"bz2", b!"bz", b!"j"].contains v then some "bzip2"
  else if [b!"xz", b!"J"].contains v then some "xz"
  else if [b!"none", b!"no", b!"0"].contains v then some "none"
  else none

def hasSuffix (s suf : Bytes) : Bool := suf.length ≤ s.length && s.drop (s.length - suf.length) == suf

/-- decodeFilenameExtension -/
def decodeExt (name : Bytes) : Option String :=
  if hasSuffix name b!".tar.gz" || hasSuffix name b!".tgz" then some "gzip"
  else if hasSuffix name b!".tar.bz2" || hasSuffix name b!".tbz2" then some "bzip2"
  else if hasSuffix name b!"tar.xz" then some "xz"
  else if hasSuffix name b!".tar" then some "none"
  else none

def bytesOfString (s : String) : Bytes := s.toUTF8.toList.map (·.toNat)

def handle (op : String) (j : Json) : Option Json :=
  match op with
  | "sm.compress" =>
    let p := bytesOfString (getStr j "param")
    let ext := bytesOfString (getStr j "ext")
    let m := if p.isEmpty then decodeExt ext else decodeParam p
    let model := match m with
      | some x => obj [("cls", "ok"), ("method", Json.str x)]
      | none => obj [("cls", "err")]
    let impl := getObj j "impl"
    -- manual: "Methods available: gzip, bzip2, xz, or none"; -compress overrides what -o implies
    let documented : Option String :=
      if p == b!"gzip" then some "gzip" else if p == b!"bzip2" then some "bzip2"
      else if p == b!"xz" then some "xz" else if p == b!"none" then some "none" else none
    let holds := match documented with
      | some x => getStr impl "cls" == "ok" && getStr impl "method" == x
      | none => getStr impl "cls" != "ok" || getStr impl "method" != "unknown"
    some (obj [("model", model), ("holds", Json.bool holds),
               ("tags", Json.arr #[Json.str (if p.isEmpty then "compress:by-extension" else "compress:by-parameter")])])
  | "sm.addfiles" =>
    -- every script named in the recipe and the one given with -addfiles is read
    let marksOf := fun (k : String) => (getArr j k).flatMap fun s => match s with
      | Json.str h => ((splitOn 10 (fromHex h)).filter fun l => hasPrefix l b!"dir /mark-").map fun l => l.drop 4
      | _ => []
    let all := sortBy bytesLt (marksOf "recipe_scripts" ++ marksOf "switch_scripts")
    -- a directory given where an add-files file is expected cannot be read: the run fails
    let model := if getBool j "dir_script" then obj [("cls", "err")] else obj [("cls", "ok"), ("marks", jbs all)]
    let impl := getObj j "impl"
    some (obj [("model", model), ("holds", Json.bool (impl == model)),
               ("tags", Json.arr #[Json.str s!"addfiles:{(getArr j "recipe_scripts").length}+{(getArr j "switch_scripts").length}"])])
  | _ => none

end Lc.Driver.SmCli
