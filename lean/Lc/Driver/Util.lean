import Lean.Data.Json
import Lc.Base.Bytes
import Lc.Base.Res

namespace Lc.Driver
open Lean Lc

def jb (s : Bytes) : Json := Json.str (toHex s)
def jbs (l : List Bytes) : Json := Json.arr (l.map jb).toArray

def getB (j : Json) (k : String) : Bytes :=
  match j.getObjValAs? String k with
  | .ok s => fromHex s
  | .error _ => []

def getBs (j : Json) (k : String) : List Bytes :=
  match j.getObjVal? k with
  | .ok (.arr a) => a.toList.map fun x => match x with
      | .str s => fromHex s
      | _ => []
  | _ => []

def getNat (j : Json) (k : String) : Nat :=
  match j.getObjValAs? Nat k with
  | .ok n => n
  | .error _ => 0

def getBool (j : Json) (k : String) : Bool :=
  match j.getObjValAs? Bool k with
  | .ok n => n
  | .error _ => false

def getStr (j : Json) (k : String) : String :=
  match j.getObjValAs? String k with
  | .ok n => n
  | .error _ => ""

def getArr (j : Json) (k : String) : List Json :=
  match j.getObjVal? k with
  | .ok (.arr a) => a.toList
  | _ => []

def getObj (j : Json) (k : String) : Json :=
  match j.getObjVal? k with
  | .ok v => v
  | _ => Json.null

def obj (kvs : List (String × Json)) : Json := Json.mkObj kvs

def resCls {α} (r : Res α) : Json := Json.str r.cls

end Lc.Driver
