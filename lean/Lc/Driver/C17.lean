import Lc.Driver.Util
import Lc.Model.StageLine
import Lc.Model.StageGlob
import Lc.Spec.Chmod
import Lc.Spec.AddFiles

/-!
  C17 driver ops.  `model` has the JSON shape of the harness's `impl`; `holds` is the
  property judged on the implementation's observation against Lc.Spec.{Chmod,AddFiles}.
-/
namespace Lc.Driver.C17
open Lean Lc Lc.Driver Lc.StageLine Lc.Spec

/-- cross-check of the model with the root and the cuts (`Lc/Model/StageGlob.lean`) against the
    root-free expansion `applyEntry` uses: for every accepted wildcard line without `src=` the
    names cut off the host paths (host path = `path.Join(root, stage name)`) are the names
    `globTree` gives — adds (`file`/`dir`) and `omit` alike -/
def globModelEq (root : Bytes) (t : Tree) (lines : List Bytes) : Bool :=
  let ht := StageGlob.hostOf root t
  lines.all fun line =>
    let l := trimAscii line
    if l.isEmpty || l.head? == some 35 || hasPrefix l [47, 47] then true
    else match parseLine l with
      | .error _ => true
      | .ok r =>
        let e := r.entry
        if !r.errors.isEmpty || !e.hasWildcard || !e.source.isEmpty then true
        else if r.adding then
          StageGlob.wildcardNames ht root e.name (e.ltype == ftDir) ==
            StageGlob.toSet (globTree t e.name (e.ltype == ftDir))
        else StageGlob.removeNames ht root e.name == StageGlob.toSet (globTree t e.name false)

def jn (n : Nat) : Json := Json.num (JsonNumber.fromNat n)
def jstrs (l : List String) : Json := Json.arr (l.map Json.str).toArray
def tagsJ (l : List String) : Json := jstrs l

def getNats (j : Json) (k : String) : List Nat :=
  (getArr j k).map fun x => match x.getNat? with | .ok n => n | .error _ => 0

def jEntry (adding : Bool) (e : Entry) : Json :=
  obj [("cls", "ok"), ("adding", Json.bool adding), ("ltype", jn e.ltype), ("name", jb e.name),
       ("source", jb e.source), ("target", jb e.target), ("gid", jn e.gid), ("uid", jn e.uid),
       ("and", jn e.andMask), ("or", jn e.orMask), ("major", jn e.major), ("minor", jn e.minor),
       ("devtype", jn e.devtype), ("wild", Json.bool e.hasWildcard), ("hasGid", Json.bool e.hasGid),
       ("hasUid", Json.bool e.hasUid), ("hasDev", Json.bool e.hasDev), ("hasPerm", Json.bool e.hasPerm),
       ("skip", Json.bool e.skip)]

def jLine (r : Res LineResult) : Json :=
  match r with
  | .error _ => obj [("cls", "panic")]
  | .ok lr =>
    if lr.errors.isEmpty then jEntry lr.adding lr.entry
    else obj [("cls", "err"), ("errors", jstrs lr.errors), ("located", Json.bool true)]

/-- every 12-bit mode, as file and as directory -/
def sameEffect (andM orM : Nat) (md : Chmod.Mode) : Bool :=
  (List.range 4096).all fun m =>
    Chmod.applyMasks andM orM m == Chmod.apply md false m &&
    Chmod.applyMasks andM orM m == Chmod.apply md true m

/-- the parser's own clause language `[ugoa]?[+-]?[rwxst]*` (independent recogniser used
    to delimit the finding regions) -/
def lenientClause (s : Bytes) : Bool :=
  let s1 := match s with | c :: r => if Chmod.isWho c then r else s | [] => []
  let s2 := match s1 with | c :: r => if c == 43 || c == 45 then r else s1 | [] => []
  s2.all fun c => c == 114 || c == 119 || c == 120 || c == 115 || c == 116

def lenientLang (s : Bytes) : Bool := !(s.all Chmod.isOct) && (splitOn 44 s).all lenientClause

/-- symbolic modes chmod takes that are inside the parser's language -/
def inParserLang (md : Chmod.Mode) : Bool :=
  match md with
  | .octal _ => true
  | .symbolic cs => cs.all fun c => c.who.length ≤ 1 && c.actions.length == 1 &&
      c.actions.all fun a => a.op != .set && a.perms.all fun p => p != 88 && !Chmod.isCopyLetter p

/-- verdict on a mod= value: (holds, finding) -/
def judgeMod (s : Bytes) (implOk : Bool) (andM orM : Nat) : Bool × Option String :=
  match Chmod.parse s with
  | some md =>
    if implOk then (sameEffect andM orM md, none)
    else if !inParserLang md then (false, some "mod-chmod-forms-rejected")
    else (false, none)
  | none =>
    if !implOk then (true, none)
    else if lenientLang s then (false, some "mod-clause-without-operator")
    else (false, none)

def getOpts (j : Json) : List (Bytes × Bytes) :=
  (getArr j "opts").map fun x => match x with
    | .arr a =>
      (match a[0]? with | some (Json.str s) => fromHex s | _ => [],
       match a[1]? with | some (Json.str s) => fromHex s | _ => [])
    | _ => ([], [])

/-- does the implementation's accepted entry have the wanted meaning? -/
def entryMatches (w : AddFiles.Want) (impl : Json) : Bool :=
  getBool impl "adding" == w.adding &&
  getNat impl "ltype" == w.ltype &&
  getB impl "name" == w.name &&
  getBool impl "wild" == w.wildcard &&
  getB impl "source" == w.source &&
  getB impl "target" == w.target &&
  getBool impl "skip" == w.skip &&
  (match w.mode with
   | none => !getBool impl "hasPerm"
   | some md => getBool impl "hasPerm" && sameEffect (getNat impl "and") (getNat impl "or") md) &&
  (match w.uid with
   | none => !getBool impl "hasUid"
   | some u => getBool impl "hasUid" && getNat impl "uid" == u) &&
  (match w.gid with
   | none => !getBool impl "hasGid"
   | some g => getBool impl "hasGid" && getNat impl "gid" == g) &&
  (match w.dev with
   | none => !getBool impl "hasDev"
   | some (t, mj, mn) => getBool impl "hasDev" && getNat impl "devtype" == t &&
       getNat impl "major" == mj && getNat impl "minor" == mn)

def judgeVerdict (v : AddFiles.Verdict) (impl : Json) : Bool :=
  let cls := getStr impl "cls"
  match v with
  | .unspecified => true
  | .reject => cls == "err"
  | .accept w => cls == "ok" && entryMatches w impl

/-- mod= values of a structured line that fall in a mod finding region -/
def modFinding (opts : List (Bytes × Bytes)) : Option String :=
  opts.findSome? fun (k, v) =>
    if k == b!"mod" then
      match Chmod.parse v with
      | some md => if !inParserLang md then some "mod-chmod-forms-rejected" else none
      | none => if lenientLang v then some "mod-clause-without-operator" else none
    else none

def jErrs (l : List (Nat × String)) : Json :=
  Json.arr (l.map fun (n, c) => Json.arr #[jn n, Json.str c]).toArray

def jUserList (r : Res (List Bytes × List (Nat × String))) : Json :=
  match r with
  | .error _ => obj [("cls", "panic")]
  | .ok (names, errs) => obj [("cls", "ok"), ("names", jbs names), ("errors", jErrs errs),
                               ("located", Json.bool true)]

def words (s : Bytes) : List Bytes := (splitOn 32 (s.map fun c => if isAsciiSpace c then 32 else c)).filter (!·.isEmpty)

def sortBytes (l : List Bytes) : List Bytes := l.foldl (fun acc x => insertSorted x acc) []

/-- outcome of `stagemaker -list system -recipe F [-root @B]` run in directory @A, where
    @A's profile holds app-misc/alpha and @B's app-misc/beta -/
def recipeOutcome (r : Recipe) : Json :=
  if !r.errors.isEmpty then
    obj [("exit", jn 1), ("atoms", jbs []), ("errlines", Json.arr (r.errors.map fun e => jn e.1).toArray)]
  else
    let root := if r.root.isEmpty then b!"@A" else r.root
    let prof := if r.profile.isEmpty then root ++ b!"/etc/portage/make.profile" else r.profile
    let pa := if prof == b!"@A/etc/portage/make.profile" then some b!"app-misc/alpha"
              else if prof == b!"@B/etc/portage/make.profile" then some b!"app-misc/beta" else none
    match pa with
    | none => obj [("exit", jn 1), ("atoms", jbs []), ("errlines", Json.arr #[])]
    | some a => obj [("exit", jn 0), ("atoms", jbs (sortBytes (a :: words r.atoms))),
                     ("errlines", Json.arr #[])]

def handle (op : String) (j : Json) : Option Json :=
  let impl := getObj j "impl"
  let implCls := getStr impl "cls"
  match op with
  | "stage.parsefields" =>
    let line := getB j "line"
    let r := parseFields line
    let model := match r with
      | .ok fs => obj [("cls", "ok"), ("fields", jbs fs)]
      | .error e => obj [("cls", Json.str (Res.cls (α := Unit) (.error e)))]
    match j.getObjVal? "gen_fields" with
    | .ok _ =>
      let gf := getBs j "gen_fields"
      let styles := getNats j "styles"
      let okFields := gf.all AddFiles.fieldOk && !gf.isEmpty
      let holds := implCls != "panic" &&
        (!okFields || (implCls == "ok" && getBs impl "fields" == gf))
      let hok := !getBool j "canonical" || AddFiles.renderLine (styles.zip gf) == line
      some (obj [("model", model), ("holds", Json.bool holds), ("harness_ok", Json.bool hok),
                 ("tags", tagsJ (["pf:structured", s!"pf:n{gf.length}"] ++
                    styles.eraseDups.map (fun s => s!"style:{s}")))])
    | .error _ =>
      some (obj [("model", model), ("holds", Json.bool (implCls != "panic")),
                 ("tags", tagsJ ["pf:raw", "pf:" ++ (Res.cls r)])])
  | "stage.parseline" =>
    let line := getB j "line"
    let r := parseLine line
    let model := jLine r
    let base := implCls != "panic" &&
      (implCls != "err" || (getBool impl "located" && !(getArr impl "errors").isEmpty))
    match j.getObjVal? "gen" with
    | .ok g =>
      let ty := getB g "type"
      let name := getB g "name"
      let opts := getOpts g
      let v := AddFiles.expect ty name opts
      let ok := base && judgeVerdict v impl
      let finding : Option String :=
        if ok then none
        else if !base then none
        else match modFinding opts with
          | some k => some k
          | none =>
            if ty == b!"tbd" && judgeVerdict (AddFiles.expectWith AddFiles.acceptsLenientTbd ty name opts) impl
            then some "tbd-accepts-undocumented-options" else none
      let vt := match v with | .accept _ => "want:accept" | .reject => "want:reject" | .unspecified => "want:unspecified"
      some (obj ([("model", model), ("holds", Json.bool ok),
                 ("tags", tagsJ ([vt, "type:" ++ toStringLossy ty] ++ opts.map fun kv => "opt:" ++ toStringLossy kv.1))] ++
                 (match finding with | some k => [("finding", Json.str k)] | none => [])))
    | .error _ =>
      some (obj [("model", model), ("holds", Json.bool base),
                 ("tags", tagsJ ["line:raw", "line:" ++ (match r with | .ok lr => (if lr.errors.isEmpty then "ok" else "err") | .error _ => "panic")])])
  | "stage.modstring" =>
    let s := getB j "s"
    let model := match parseModString s with
      | .ok (a, o) => obj [("cls", "ok"), ("and", jn a), ("or", jn o)]
      | .error _ => obj [("cls", "err")]
    let (h, f) := judgeMod s (implCls == "ok") (getNat impl "and") (getNat impl "or")
    let holds := h && implCls != "panic"
    some (obj ([("model", model), ("holds", Json.bool holds),
               ("tags", tagsJ [match Chmod.parse s with
                  | some (.octal _) => "mod:octal" | some (.symbolic _) => "mod:symbolic" | none => "mod:invalid",
                  "impl:" ++ implCls])] ++
               (match f with | some k => (if holds then [] else [("finding", Json.str k)]) | none => [])))
  | "stage.uid" =>
    let s := getB j "s"
    let model := match parseUid s with
      | .ok (a, some b) => obj [("cls", "ok"), ("v1", jn a), ("v2", jn b), ("pair", Json.bool true)]
      | .ok (a, none) => obj [("cls", "ok"), ("v1", jn a), ("v2", jn 0), ("pair", Json.bool false)]
      | .error _ => obj [("cls", "err")]
    -- spec: as the value of uid= on a `file` line
    let w0 : AddFiles.Want := { adding := true, ltype := 2, name := b!"/n", wildcard := false }
    let holds := implCls != "panic" && (match AddFiles.wantOption AddFiles.accepts b!"file" w0 b!"uid" s with
      | .inl (some w) =>
        implCls == "ok" && (match w.gid, w.uid with
          | some g, some u => getBool impl "pair" && getNat impl "v1" == g && getNat impl "v2" == u
          | none, some u => !getBool impl "pair" && getNat impl "v1" == u
          | _, _ => false)
      | .inl none => implCls == "err"
      | .inr () => true)
    some (obj [("model", model), ("holds", Json.bool holds), ("tags", tagsJ ["uid:" ++ implCls])])
  | "stage.dev" =>
    let s := getB j "s"
    let ((t, mj, mn), bad) := parseDev s
    let model := if bad then obj [("cls", "err"), ("devtype", jn t)]
                 else obj [("cls", "ok"), ("devtype", jn t), ("major", jn mj), ("minor", jn mn)]
    let w0 : AddFiles.Want := { adding := true, ltype := 5, name := b!"/n", wildcard := false }
    let holds := implCls != "panic" && (match AddFiles.wantOption AddFiles.accepts b!"node" w0 b!"dev" s with
      | .inl (some w) => implCls == "ok" && w.dev == some (getNat impl "devtype", getNat impl "major", getNat impl "minor")
      | .inl none => implCls == "err"
      | .inr () => true)
    some (obj [("model", model), ("holds", Json.bool holds), ("tags", tagsJ ["dev:" ++ implCls])])
  | "stage.userlist" =>
    let t : Tree := { files := getBs j "files", dirs := getBs j "dirs" }
    let pre := sortBytes (getBs j "pre")
    let lines := getBs j "lines"
    let model := jUserList (userListLoop false t lines 1 pre [])
    let spec := jUserList (userListLoop true t lines 1 pre [])
    -- the property asks for an error with file and line, not for a wording: the lines that
    -- have errors are compared, the classes only between model and implementation
    let errLines (o : Json) : List Json := (getArr o "errors").map fun e =>
      match e with | .arr a => a.toList.headD Json.null | _ => Json.null
    let holds := implCls != "panic" && getBool impl "located" &&
      getObj impl "names" == getObj spec "names" && errLines impl == errLines spec
    let esc := lines.any fun l => indexOf l [92, 42] != none
    -- the root of the case: "/" when the stage names are host paths, else any other root
    let globEq := globModelEq (if getBool j "slashroot" then b!"/" else b!"/r") t lines
    some (obj ([("model", model), ("holds", Json.bool holds), ("expected", spec),
               ("glob_model_eq", Json.bool globEq)] ++
               (if globEq then [] else [("harness_ok", Json.bool false)]) ++ [
               ("tags", tagsJ (["userlist"] ++ (if esc then ["userlist:escaped-star"] else []) ++
                 (if lines.any (fun l => hasPrefix (trimAscii l) b!"omit" && l.contains 42) then ["userlist:omit-wild"] else []) ++
                 (if lines.any (fun l => !hasPrefix (trimAscii l) b!"omit" && l.contains 42) then ["userlist:add-wild"] else []))) ] ++
               (if !holds && esc && implCls != "panic" then [("finding", Json.str "escaped-asterisk-keeps-backslash")] else [])))
  | "sm.recipe" =>
    let lines := getBs j "lines"
    let cmdRoot := getBool j "cmd_root"
    let init : Recipe := { root := if cmdRoot then b!"@B" else [] }
    let r := recipeLoop lines 1 init
    let model := recipeOutcome (recipeApply lines init)
    -- manual: "root path: … The -root command-line switch overrides this."
    let spec := recipeOutcome (if cmdRoot then { r with root := b!"@B" } else r)
    let holds := impl == spec
    some (obj ([("model", model), ("holds", Json.bool holds), ("expected", spec),
               ("tags", tagsJ (["recipe", if r.errors.isEmpty then "recipe:ok" else "recipe:err"] ++
                  (if cmdRoot then ["recipe:cmdroot"] else []) ++
                  (if cmdRoot && r.root != b!"@B" then ["recipe:cmdroot-vs-recipe-root"] else []) ++
                  (if lines.any (fun l => l.head?.any isAsciiSpace) then ["recipe:indent"] else [])))]))
  | _ => none

end Lc.Driver.C17
