import Lc.Driver.Util
import Lc.Model.InUse
import Lc.Base.Sort

namespace Lc.Driver.C19
open Lean Lc Lc.Driver Lc.InUse

structure Helper where
  cwd : Bytes
  chroot : Bytes
  exeInside : Bytes
  fds : List Bytes
  kill : Bool
  gone : Bool := false     -- the working directory was deleted (and made anew) under the process

def getHelper (j : Json) : Helper :=
  { cwd := getB j "cwd", chroot := getB j "chroot", exeInside := getB j "exe", fds := getBs j "fds",
    kill := getBool j "kill", gone := getBool j "gone" }

def procOf (idx : Nat) (h : Helper) : ProcRec :=
  { pid := idx,
    exe := .ok (if h.exeInside.isEmpty then b!"/harness/lcharness" else h.exeInside),
    cwd := .ok (if !h.chroot.isEmpty then h.chroot else if h.cwd.isEmpty then b!"/"
                else if h.gone then h.cwd ++ b!" (deleted)" else h.cwd),   -- what /proc shows
    root := .ok (if h.chroot.isEmpty then b!"/" else h.chroot),
    fd := if h.kill then .readFails ESRCH else .entries (h.fds.map Except.ok) }

def useKey (u : Use) : Bytes := [u.pid, 0, u.usedAs, 0] ++ u.layer ++ [0] ++ u.file
def canon (us : List Use) : List Use := sortBy (fun a b => bytesLt (useKey a) (useKey b)) us

def jUse (u : Use) : Json := Json.arr #[jb u.layer, Json.num u.pid, Json.num u.usedAs, jb u.file]

/-- independent reading of the property: split the path below the layers directory into
    components; the first one is the layer, the rest the tail -/
def specUse (layers : Bytes) (pid usedAs : Nat) (target : Bytes) : Option Use :=
  let pre := if layers.getLast? == some 47 then layers else layers ++ [47]
  if target.length > pre.length && hasPrefix target pre then
    match splitOn 47 (target.drop pre.length) with
    | l :: rest => some ⟨l, pid, usedAs, joinWith 47 rest⟩
    | [] => none
  else none

def specUses (layers : Bytes) (hs : List Helper) : List Use :=
  (hs.zipIdx).flatMap fun (h, i) =>
    let cwd := if !h.chroot.isEmpty then h.chroot else h.cwd
    ((if h.gone && h.chroot.isEmpty then [] else [specUse layers i 1 cwd])
      ++ (if h.chroot.isEmpty then [] else [specUse layers i 0 h.chroot])
      ++ (if h.exeInside.isEmpty then [] else [specUse layers i 2 h.exeInside])
      ++ (if h.kill then [] else h.fds.map (specUse layers i 3))).filterMap id

def handle (op : String) (j : Json) : Option Json :=
  match op with
  | "inuse.scan" =>
    let layers := getB j "layers"
    let hs := (getArr j "helpers").map getHelper
    let procs := hs.zipIdx.map fun (h, i) => procOf i h
    let listedOf0 := fun (us : List Use) =>
      let pairs := (us.map fun u => (u.layer, u.pid)).eraseDups
      let sorted := sortBy (fun a b => bytesLt (a.1 ++ [0, a.2]) (b.1 ++ [0, b.2])) pairs
      Json.arr (sorted.map fun (l, p) =>
        let mine := us.filter fun u => u.layer == l && u.pid == p
        let kind := if mine.any (·.usedAs == 0) then "chroot" else if mine.any (·.usedAs == 1) then "cwd" else "other"
        Json.arr #[jb l, Json.num p, Json.str kind]).toArray
    let model := match findLayerUsers layers procs with
      | .ok us => obj [("cls", "ok"), ("uses", Json.arr ((canon us).map jUse).toArray), ("listed", listedOf0 us)]
      | .error _ => obj [("cls", "err")]
    let impl := getObj j "impl"
    let expected := Json.arr ((canon (specUses layers hs)).map jUse).toArray
    -- `status <layer>` lists every process that uses the layer exactly once
    -- … with its kind: chrooted into the layer, working in it, or merely holding something open
    let listedOf := fun (us : List Use) =>
      let pairs := (us.map fun u => (u.layer, u.pid)).eraseDups
      let sorted := sortBy (fun a b => bytesLt (a.1 ++ [0, a.2]) (b.1 ++ [0, b.2])) pairs
      Json.arr (sorted.map fun (l, p) =>
        let mine := us.filter fun u => u.layer == l && u.pid == p
        let kind := if mine.any (·.usedAs == 0) then "chroot" else if mine.any (·.usedAs == 1) then "cwd" else "other"
        Json.arr #[jb l, Json.num p, Json.str kind]).toArray
    let expectedListed := listedOf (specUses layers hs)
    let holds := getStr impl "cls" == "ok" && getObj impl "uses" == expected && getObj impl "listed" == expectedListed
    -- recorded finding: the kernel shows an unlinked directory as "<path> (deleted)"; a process
    -- left in one is attributed to whatever layer now carries the name (region: a helper whose
    -- directory is gone, and the implementation reports exactly what that string yields)
    let goneRegion := hs.any (fun h => h.gone && h.chroot.isEmpty) && getObj impl "uses" == getObj model "uses"
    let tags := (if hs.any (·.kill) then ["vanish"] else []) ++ (if hs.any (!·.chroot.isEmpty) then ["chroot"] else [])
                ++ (if hs.any (!·.exeInside.isEmpty) then ["exe-inside"] else []) ++ [s!"helpers:{hs.length}"]
    some (obj ([("model", model), ("holds", Json.bool holds), ("expected", expected),
               ("tags", Json.arr ((tags ++ (if hs.any (·.gone) then ["deleted-cwd"] else [])).map Json.str).toArray)] ++
              (if !holds && goneRegion then [("finding", Json.str "deleted-directory-attributed")] else [])))
  | _ => none

end Lc.Driver.C19
