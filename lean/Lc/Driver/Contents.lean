import Lc.Driver.Util
import Lc.Model.Contents
import Lc.Spec.ContentsRender

/-
  op `vdb.contents`: the real `vdb.GetAtomFileInfo` on the text of one CONTENTS file.
  case:  {"text": hex, "gen_entries"?: [[kind, hexname, hextarget, hexmd5, "time"], …]}
  impl:  {"cls": "ok", "entries": [[hexname, type, "time", hexmd5], …]} | {"cls": "err:…" | "panic"}
  (times travel as decimal strings: a 64-bit number does not survive a JSON float)
-/
namespace Lc.Driver.Contents
open Lean Lc Lc.Driver Lc.Contents Lc.Spec.ContentsRender

def jEntry (name : Bytes) (type : Nat) (time : Int) (md5 : Bytes) : Json :=
  Json.arr #[jb name, (type : Json), Json.str (toString time), jb md5]

def modelJson (text : Bytes) : Json :=
  match getAtomFileInfo text with
  | .ok l => obj [("cls", "ok"),
                  ("entries", Json.arr (l.map fun fi => jEntry fi.name fi.type fi.unixTime fi.md5).toArray)]
  | .error e => obj [("cls", Json.str (Res.cls (α := Unit) (.error e)))]

def getEntry (j : Json) : Option Entry :=
  match j with
  | .arr a =>
    let s (i : Nat) : String := match a[i]? with | some (Json.str x) => x | _ => ""
    let name := fromHex (s 1)
    let targ := fromHex (s 2)
    let md5 := fromHex (s 3)
    match (s 4).toInt? with
    | none => none
    | some t =>
      match s 0 with
      | "dir" => some (.dir name)
      | "obj" => some (.obj name md5 t)
      | "sym" => some (.sym name targ t)
      | _ => none
  | _ => none

/-- what the specification says a reader must report (from the Spec's projections only) -/
def expectedJson (es : List Entry) : Json :=
  obj [("cls", "ok"),
       ("entries", Json.arr (es.map fun e => jEntry e.name e.typeCode e.time e.md5).toArray)]

def hasBlankAtEnd (s : Bytes) : Bool := s.getLast? == some 32

def entryTags (e : Entry) : List String :=
  let nm := e.name
  (match e with | .dir _ => ["dir"] | .obj _ _ _ => ["obj"] | .sym _ _ _ => ["sym"]) ++
  (if nm.contains 32 then ["name-with-blank"] else []) ++
  (if hasBlankAtEnd nm then ["name-ends-in-blank"] else []) ++
  (if (indexOf nm sepArrow).isSome then ["name-with-arrow"] else []) ++
  (if nm.any (· ≥ 128) then ["name-non-ascii"] else []) ++
  (if nm.length > 1000 then ["name-long"] else []) ++
  (match e with
   | .sym _ t _ => (if (indexOf t sepArrow).isSome then ["target-with-arrow"] else []) ++
                   (if hasBlankAtEnd t then ["target-ends-in-blank"] else []) ++
                   (if t.isEmpty then ["target-empty"] else [])
   | _ => [])

def dedup (l : List String) : List String :=
  l.foldl (fun acc x => if acc.contains x then acc else acc ++ [x]) []

def handle (op : String) (j : Json) : Option Json :=
  match op with
  | "vdb.contents" =>
    let text := getB j "text"
    let model := modelJson text
    let impl := getObj j "impl"
    let implCls := getStr impl "cls"
    let modelCls := getStr model "cls"
    -- a panic is tolerated only where the code as it is panics (a line shorter than 4 bytes)
    let noNewPanic := implCls != "panic" || modelCls == "panic"
    let panicTag := if implCls == "panic" && modelCls == "panic" then ["panic:short-line"] else []
    match j.getObjVal? "gen_entries" with
    | .ok (.arr a) =>
      match a.toList.mapM getEntry with
      | none => some (obj [("model", model), ("harness_ok", Json.bool false), ("holds", Json.bool true),
                           ("tags", Json.arr #[Json.str "bad-gen-entries"])])
      | some es =>
        let wf := es.all fun e => decide (WFEntry e)
        let exp := expectedJson es
        let holds := if wf then impl == exp else noNewPanic
        let symCut := es.any fun e => match e with
          | .sym n _ _ => !(decide (ArrowFree n))
          | _ => false
        let tags := ["rendered", if wf then "wf" else "not-wf", s!"cls:{modelCls}"] ++
          (if symCut then ["sym-name-cut-at-arrow"] else []) ++
          (match es.getLast? with
           | some e => if hasBlankAtEnd e.name && (match e with | .dir _ => true | _ => false)
                       then ["last-line-ends-in-blank"] else []
           | none => ["no-entries"]) ++
          dedup (es.flatMap entryTags) ++ panicTag
        let base := [("model", model), ("harness_ok", Json.bool (render es == text)),
                     ("holds", Json.bool holds),
                     ("tags", Json.arr (tags.map Json.str).toArray)]
        some (obj (if wf then base ++ [("expected", exp)] else base))
    | _ =>
      let tags := ["malformed", s!"cls:{modelCls}"] ++ panicTag
      some (obj [("model", model), ("holds", Json.bool noNewPanic),
                 ("tags", Json.arr (tags.map Json.str).toArray)])
  | _ => none

end Lc.Driver.Contents
