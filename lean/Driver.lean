import Lc.Driver.Util
import Lc.Driver.Base
import Lc.Driver.C05
import Lc.Driver.C06
import Lc.Driver.C07
import Lc.Driver.Contents
import Lc.Driver.C11
import Lc.Driver.C12
import Lc.Driver.C13
import Lc.Driver.C14
import Lc.Driver.C17
import Lc.Driver.C18
import Lc.Driver.C19
import Lc.Driver.C20
import Lc.Driver.Bin
import Lc.Driver.C10Stage
import Lc.Driver.SmCli
import Lc.Driver.ScenarioHandle

open Lean Lc.Driver

def handlers : List (String → Json → Option Json) :=
  [Base.handle, C05.handle, C06.handle, C07.handle, Contents.handle, C11.handle, C12.handle, C13.handle, C14.handle, C17.handle, C18.handle, C19.handle, C20.handle, Bin.handle, C10Stage.handle, SmCli.handle, ScenarioHandle.handle]

def dispatch (j : Json) : Json :=
  let op := getStr j "op"
  let rec go : List (String → Json → Option Json) → Json
    | [] => obj [("error", Json.str ("unknown op " ++ op))]
    | h :: hs => match h op j with
      | some r => r
      | none => go hs
  go handlers

partial def loop (hin hout : IO.FS.Stream) : IO Unit := do
  let line ← hin.getLine
  if line.isEmpty then return ()
  let out := match Json.parse line with
    | .error e => obj [("error", Json.str ("bad json: " ++ e))]
    | .ok j =>
      let r := dispatch j
      match j.getObjVal? "id" with
      | .ok idv => r.setObjVal! "id" idv
      | .error _ => r
  hout.putStrLn out.compress
  loop hin hout

def main : IO Unit := do
  let hin ← IO.getStdin
  let hout ← IO.getStdout
  loop hin hout
  hout.flush
