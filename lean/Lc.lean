import Lc.Base.Bytes
import Lc.Base.Res
import Lc.Base.Path
import Lc.Model.Mountinfo
