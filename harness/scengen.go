package main

import (
	"path"
	"sort"
	"strings"
)

// Scenario generator for the command-level properties.  One generator, steered by a
// scnProfile (weights) per property suite.

type scnProfile struct {
	name                                               string
	cmds                                               []string // weighted command pool
	pFault, pCrash, pPretend, pUsers, pForce           int      // percent
	pIncomplete, pWeirdImport, pForeignExport, pManual int
	minSteps, maxSteps                                 int
	hostVariants                                       bool
	shape                                              string // "" | "chain"
}

var legalNames = []string{"b0", "b1", "d1", "d2", "d1x", "d1-2", "x_y", "Zeta", "é1", "b", "d-", "日本"}
var illegalNames = []string{"-x", "a/b", "a b", "b0~removed", "..", "a.b", "x\xff", "d1/", "*"}

var importPool = []string{
	"import rbind /dev /dev",
	"import proc /proc /proc",
	"import rbind /sys /sys",
	"import rbind $$base/packages /var/cache/binpkgs",
	"import bind $$self/generated /mnt/gen",
	"import rbind /VB/hostsrc /mnt/host",
	"import bind /VB/hostsrc/sub /mnt/sub",
	"import bind $$self/dist%20files /mnt/p%d",
	"import rbind /run /run",
}
var weirdImports = []string{
	"import bind /nonexistent/x /mnt/nx",
	"import tmpfs tmpfs /tmp",
	"import bind $$bogus/x /mnt/b",
	"import rbind /dev /dev", // duplicate mountpoint when combined with the pool entry
	"import bind /VB/hostsrc /",
	"import bind /VB/hostsrc ../../escape",
	"import bind /VB/hostsrc /mnt/host/deeper",
	"import bind /VB/layers-shared/distfiles /mnt/shared",
	"import bind $$self/shm /dev/shm",
	"import tmpfs /VB/hostsrc /mnt/tmp", // a non-bind import with an absolute source string
}

type glayer struct {
	name, base string
	imports    []string
	exports    []string
}

func (l glayer) config() string {
	var b strings.Builder
	if l.base != "" {
		b.WriteString("base " + l.base + "\n\n")
	}
	for _, i := range l.imports {
		b.WriteString(i + "\n")
	}
	if len(l.exports) > 0 {
		b.WriteString("\n")
	}
	for _, e := range l.exports {
		b.WriteString(e + "\n")
	}
	return b.String()
}

func mountpointOf(line string) string {
	f := strings.Fields(line)
	if len(f) >= 4 {
		return f[3]
	}
	return ""
}

type treeB struct {
	ents map[string][]interface{}
}

func (t *treeB) dir(p string) {
	p = path.Clean(p)
	// parents too
	for q := p; q != "/" && q != "" && q != "."; q = q[:strings.LastIndex(q, "/")] {
		if _, ok := t.ents[q]; !ok {
			t.ents[q] = []interface{}{hx(q), "d"}
		}
		if strings.LastIndex(q, "/") <= 0 {
			break
		}
	}
}
func (t *treeB) file(p, content string) {
	p = path.Clean(p)
	t.dir(p[:strings.LastIndex(p, "/")])
	t.ents[p] = []interface{}{hx(p), "f", hx(content)}
}
func (t *treeB) link(p, target string) {
	p = path.Clean(p)
	t.dir(p[:strings.LastIndex(p, "/")])
	t.ents[p] = []interface{}{hx(p), "l", hx(target)}
}
func (t *treeB) list() []interface{} {
	keys := make([]string, 0, len(t.ents))
	for k := range t.ents {
		keys = append(keys, k)
	}
	sort.Strings(keys)
	out := make([]interface{}, len(keys))
	for i, k := range keys {
		out[i] = t.ents[k]
	}
	return out
}

func defaultCfg() map[string]interface{} {
	return obj("basepath", hx(VB), "layerdirs", hx(VB+"/layers"), "buildRoot", hx("build"), "binPkg", hx("packages"),
		"generated", hx("generated"), "workdir", hx("overlayfs/workdir"), "upperdir", hx("overlayfs/upperdir"),
		"exportdirs", hx(VB+"/export"), "exportBinPkg", hx("packages"), "exportGenerated", hx("generated"))
}

func hostTable(g *Gen, variants bool) []interface{} {
	row := func(id, parent int, dev, root, mp, fstype, src string) []interface{} {
		return []interface{}{float64(id), float64(parent), hx(dev), hx(root), hx(mp), hx(fstype), hx(src), "", "", ""}
	}
	ovl := func(id, parent int, dev, mp, lower, upper, work string) []interface{} {
		return []interface{}{float64(id), float64(parent), hx(dev), hx("/"), hx(mp), hx("overlay"), hx("overlay"), hx(lower), hx(upper), hx(work)}
	}
	t := []interface{}{
		row(1, 0, "8:1", "/", "/", "ext4", "/dev/sda1"),
		row(2, 1, "0:4", "/", "/proc", "proc", "proc"),
		row(3, 1, "0:16", "/", "/sys", "sysfs", "sysfs"),
		row(4, 1, "0:6", "/", "/dev", "devtmpfs", "devtmpfs"),
		row(5, 4, "0:17", "/", "/dev/pts", "devpts", "devpts"),
		row(6, 4, "0:18", "/", "/dev/shm", "tmpfs", "shm"),
		row(7, 1, "0:19", "/", "/run", "tmpfs", "tmpfs"),
		row(8, 3, "0:20", "/", "/sys/kernel/security", "securityfs", "securityfs"),
	}
	if variants {
		switch g.Intn(9) {
		case 0: // /dev/shm mounted twice (stacked), as on this sandbox's host
			t = append(t, row(9, 6, "0:21", "/", "/dev/shm", "tmpfs", "shm2"))
		case 1: // host source on its own file system
			t = append(t, row(9, 1, "0:22", "/", VB+"/hostsrc", "tmpfs", "tmpfs"))
		case 2: // base path behind a bind mount of a subdirectory (C08, fixed by 23c682d)
			t = append(t, row(9, 1, "8:1", "/real/base", VB, "ext4", "/dev/sda1"))
		case 3: // base path on an overlay file system, as inside a container (C08, fixed by 23c682d)
			t = append(t, ovl(9, 1, "0:40", VB, "/lo", "/up", "/wk"))
		case 4: // host source behind a bind mount / subvolume of another device
			t = append(t, row(9, 1, "8:3", "/other/dir", VB+"/hostsrc", "ext4", "/dev/sdc1"))
		case 5: // base path a subvolume and the host source a subvolume below it (nested subroots)
			t = append(t, row(9, 1, "8:2", "/sub", VB, "btrfs", "/dev/sdb1"))
			t = append(t, row(10, 9, "8:2", "/sub/hostsrc", VB+"/hostsrc", "btrfs", "/dev/sdb1"))
		}
	}
	return t
}

func genLayerTree(g *Gen, t *treeB, l glayer, pf scnProfile, sloppy bool) {
	lp := VB + "/layers/" + l.name
	t.dir(lp)
	t.file(lp+"/layerconfig", l.config())
	incomplete := sloppy && g.Chance(pf.pIncomplete, 100)
	stray := ""
	if incomplete && g.Chance(1, 4) {
		// a stray file where a directory belongs
		stray = g.Pick("/build", "/overlayfs/workdir", "/overlayfs/upperdir", "/overlayfs")
		if g.Chance(1, 3) {
			// … or a symbolic link that leads nowhere
			t.link(lp+stray, "/nonexistent/elsewhere")
		} else {
			t.file(lp+stray, "stray")
		}
	}
	if stray != "" {
		// nothing else of this layer below the stray file
		if stray != "/build" {
			t.dir(lp + "/build")
			for _, d := range []string{"bin", "etc", "lib", "opt", "root", "sbin", "usr"} {
				t.dir(lp + "/build/" + d)
			}
		}
		if l.base != "" && stray == "/overlayfs/workdir" {
			t.dir(lp + "/overlayfs/upperdir")
		}
		if l.base != "" && stray == "/overlayfs/upperdir" {
			t.dir(lp + "/overlayfs/workdir")
		}
		return
	}
	if !(incomplete && g.Chance(1, 3)) {
		t.dir(lp + "/build")
		dirs := []string{"bin", "etc", "lib", "opt", "root", "sbin", "usr"}
		for _, d := range dirs {
			if !(incomplete && g.Chance(1, 4)) {
				t.dir(lp + "/build/" + d)
			}
		}
		for _, i := range l.imports {
			mp := mountpointOf(i)
			if mp != "" && mp != "/" && !strings.Contains(mp, "..") && !(incomplete && g.Chance(1, 4)) {
				t.dir(lp + "/build" + mp)
			}
		}
		for _, e := range l.exports {
			// a dot-named export source exists (mostly): C08, fixed by eeedaf2
			if f := strings.Fields(e); len(f) > 2 && strings.HasPrefix(f[2], "/.") && g.Chance(4, 5) {
				t.dir(lp + "/build" + f[2])
			}
		}
		if g.Chance(30, 100) {
			t.file(lp+"/build/etc/data1", "user data 1")
		}
	}
	if l.base != "" {
		if !(incomplete && g.Chance(1, 3)) {
			t.dir(lp + "/overlayfs/workdir")
		}
		if !(incomplete && g.Chance(1, 3)) {
			t.dir(lp + "/overlayfs/upperdir")
			if g.Chance(30, 100) {
				t.file(lp+"/overlayfs/upperdir/data2", "user data 2")
			}
		}
	} else if g.Chance(3, 100) {
		t.dir(lp + "/overlayfs/upperdir") // extraneous
	}
	if g.Chance(50, 100) {
		t.dir(lp + "/packages")
		if g.Chance(30, 100) {
			t.file(lp+"/packages/data3", "pkg")
		}
	}
	if g.Chance(40, 100) {
		t.dir(lp + "/generated")
	}
	if g.Chance(10, 100) {
		t.file(lp+"/other/data4", "other")
	}
}

func genForest(g *Gen, pf scnProfile) []glayer {
	n := g.Intn(6)
	if pf.shape == "chain" {
		n = 2 + g.Intn(3)
	}
	names := append([]string(nil), legalNames...)
	g.Shuffle(len(names), func(i, j int) { names[i], names[j] = names[j], names[i] })
	var ls []glayer
	for i := 0; i < n; i++ {
		l := glayer{name: names[i]}
		if i > 0 && g.Chance(65, 100) {
			switch pf.shape {
			case "chain":
				l.base = ls[len(ls)-1].name
			default:
				l.base = ls[g.Intn(len(ls))].name
				if g.Chance(40, 100) { // fan-out: several children of one parent
					l.base = ls[0].name
				}
			}
		}
		pool := append([]string(nil), importPool...)
		g.Shuffle(len(pool), func(a, b int) { pool[a], pool[b] = pool[b], pool[a] })
		l.imports = pool[:g.Intn(4)]
		if g.Chance(pf.pWeirdImport, 100) {
			l.imports = append(l.imports, weirdImports[g.Intn(len(weirdImports))])
		}
		if pf.shape == "chain" && i == 0 && g.Chance(15, 100) {
			// an import below the layer's own recursive bind of /dev
			l.imports = []string{"import rbind /dev /dev", "import proc /proc /proc", "import bind $$self/shm /dev/shm"}
		}
		if g.Chance(25, 100) {
			l.exports = append(l.exports, "export symlink /var/cache/binpkgs $$package_export")
		}
		if g.Chance(10, 100) {
			l.exports = append(l.exports, "export symlink /mnt/gen $$file_export")
		} else if g.Chance(8, 100) {
			l.exports = append(l.exports, "export symlink /.cache $$file_export")
		}
		ls = append(ls, l)
	}
	return ls
}

func genScenario(g *Gen, pf scnProfile) Case {
	t := &treeB{ents: map[string][]interface{}{}}
	for _, h := range []string{"/", "/dev", "/proc", "/sys", "/run"} {
		t.ents[h] = []interface{}{hx(h), "d"}
	}
	bare := g.Chance(4, 100)
	if bare {
		// nothing set up yet: init has work to do, everything else must refuse
		t.dir(VB) // the scratch directory standing for the base path always exists
		steps0 := []interface{}{obj("cmd", "init", "args", hxs([]string{})), obj("cmd", "init", "args", hxs([]string{})),
			obj("cmd", "add", "args", hxs([]string{"b0", "", ""})), obj("cmd", "probe", "args", hxs([]string{}))}
		if g.Chance(pf.pPretend, 100) {
			steps0[0].(map[string]interface{})["pretend"] = true
		}
		if g.Chance(pf.pFault, 100) {
			steps0[0].(map[string]interface{})["fault"] = float64(1 + g.Intn(5))
		}
		return Case{"op": "scenario", "cfg": defaultCfg(), "tree": t.list(), "host": hostTable(g, false), "steps": steps0}
	}
	t.dir(VB)
	t.dir(VB + "/layers")
	t.dir(VB + "/export")
	skel := "import rbind /dev /dev\nimport proc /proc /proc\nimport rbind $$base/packages /var/cache/binpkgs\n"
	if g.Chance(1, 10) {
		skel = "import proc /proc /proc\n# comment\n  // other comment\nexport symlink /var/cache/binpkgs $$package_export\n"
	}
	t.file(VB+"/default_layerconfig.skel", skel)
	if g.Chance(85, 100) {
		t.dir(VB + "/hostsrc/sub")
	}
	forest := genForest(g, pf)
	for _, l := range forest {
		genLayerTree(g, t, l, pf, true)
	}
	if g.Chance(pf.pForeignExport, 100) && len(forest) > 0 {
		n := forest[g.Intn(len(forest))].name
		switch g.Intn(4) {
		case 0:
			t.dir(VB + "/export/packages/" + n)
		case 1:
			t.file(VB+"/export/packages/"+n, "foreign")
		case 2:
			t.link(VB+"/export/packages/"+n, "/somewhere/else")
		case 3:
			t.link(VB+"/export/generated/"+n, VB+"/layers/"+n+"/generated")
		}
	}
	if g.Chance(5, 100) && len(forest) > 0 {
		t.dir(VB + "/layers/" + forest[0].name + "~removed")
	}
	if g.Chance(5, 100) {
		t.dir(VB + "/layers/nolayerconfig")
	}
	names := []string{}
	for _, l := range forest {
		names = append(names, l.name)
	}
	pickName := func() string {
		r := g.Intn(100)
		switch {
		case r < 70 && len(names) > 0:
			return names[g.Intn(len(names))]
		case r < 85:
			return legalNames[g.Intn(len(legalNames))]
		case r < 95:
			return illegalNames[g.Intn(len(illegalNames))]
		case r < 97:
			// long, and longer than a directory entry can be (NAME_MAX = 255)
			return strings.Repeat("n", []int{60, 60, 255, 300}[g.Intn(4)])
		default:
			return ""
		}
	}
	nsteps := pf.minSteps + g.Intn(pf.maxSteps-pf.minSteps+1)
	steps := []interface{}{}
	for i := 0; i < nsteps; i++ {
		cmd := pf.cmds[g.Intn(len(pf.cmds))]
		st := obj("cmd", cmd)
		switch cmd {
		case "add":
			nn := pickName()
			if g.Chance(60, 100) {
				nn = legalNames[g.Intn(len(legalNames))]
			}
			base := ""
			if g.Chance(60, 100) {
				base = pickName()
			}
			cf := ""
			if g.Chance(5, 100) {
				cf = g.Pick("default_layerconfig", VB+"/default_layerconfig.skel", "missing.skel")
			}
			st["args"] = hxs([]string{nn, base, cf})
			if base == "" || g.Chance(50, 100) {
				names = append(names, nn)
			}
		case "remove":
			st["args"] = hxs([]string{pickName()})
			st["files"] = g.Chance(30, 100)
		case "rename":
			nn := legalNames[g.Intn(len(legalNames))]
			if g.Chance(20, 100) {
				nn = pickName()
			} else if g.Chance(4, 100) {
				nn = strings.Repeat("L", 300)
			}
			st["args"] = hxs([]string{pickName(), nn})
			names = append(names, nn)
		case "rebase":
			nb := pickName()
			if g.Chance(15, 100) {
				nb = ""
			}
			st["args"] = hxs([]string{pickName(), nb})
		case "mkdirs", "mount", "chroot":
			st["args"] = hxs([]string{pickName()})
		case "umount":
			if g.Chance(40, 100) {
				st["args"] = hxs([]string{""})
				st["all"] = g.Chance(85, 100)
			} else {
				st["args"] = hxs([]string{pickName()})
				st["all"] = g.Chance(5, 100)
			}
		case "mur":
			// a history: mount (makes the export links), unmount, then remove or rename
			nm := pickName()
			steps = append(steps, obj("cmd", "mount", "args", hxs([]string{nm})))
			steps = append(steps, obj("cmd", "umount", "args", hxs([]string{nm})))
			if g.Chance(70, 100) {
				steps = append(steps, obj("cmd", "remove", "args", hxs([]string{nm}), "files", false))
			} else {
				steps = append(steps, obj("cmd", "rename", "args", hxs([]string{nm, legalNames[g.Intn(len(legalNames))]})))
			}
			continue
		case "sysmount":
			// a mount the administrator made by hand: right or wrong source on an import
			// mountpoint, or something foreign below a build root
			ln := "b0"
			if len(forest) > 0 {
				ln = forest[g.Intn(len(forest))].name
			}
			build := VB + "/layers/" + ln + "/build"
			tgt := build + g.Pick("/proc", "/dev", "/mnt/host", "/mnt/sub", "/var/cache/binpkgs", "/mnt/gen", "/mnt/foreign", "", "x", ".old", ".old/sub", "/mnt/tmp")
			if g.Chance(15, 100) {
				// two mounts by hand on an import mountpoint and on a directory below it, after a
				// mount of the layer: made in the order below-then-on, the second one covers the
				// first (a hidden submount; before fix e546b99 umount failed there: the kernel refuses
				// the unmount of the covered mountpoint); in the order on-then-below nothing is hidden
				mp := build + g.Pick("/mnt/host", "/dev", "/var/cache/binpkgs", "/mnt/gen", "")
				below := mp + g.Pick("/sub", "/sub", "/pts", "/x/y")
				first, second := below, mp
				if g.Chance(40, 100) {
					first, second = mp, below
				}
				hand := func(t string) map[string]interface{} {
					if g.Chance(50, 100) {
						return obj("cmd", "sysmount", "args", hxs([]string{VB + "/hostsrc", t, "bind"}), "flags", float64(4096))
					}
					return obj("cmd", "sysmount", "args", hxs([]string{"tmpfs", t, "tmpfs"}), "flags", float64(0))
				}
				steps = append(steps, obj("cmd", "mount", "args", hxs([]string{ln})))
				steps = append(steps, hand(first))
				steps = append(steps, hand(second))
				steps = append(steps, obj("cmd", "umount", "args", hxs([]string{ln})))
				if g.Chance(50, 100) {
					steps = append(steps, obj("cmd", "umount", "args", hxs([]string{""}), "all", true))
				}
				steps = append(steps, obj("cmd", "probe", "args", hxs([]string{})))
				continue
			}
			switch g.Intn(7) {
			case 0:
				st["args"] = hxs([]string{VB + "/hostsrc", tgt, "bind"})
				st["flags"] = float64(4096)
			case 1:
				st["args"] = hxs([]string{VB + "/hostsrc/sub", tgt, "bind"})
				st["flags"] = float64(4096)
			case 2:
				st["args"] = hxs([]string{"/proc", tgt, "proc"})
				st["flags"] = float64(0)
			case 3:
				st["args"] = hxs([]string{"tmpfs", tgt, "tmpfs"})
				st["flags"] = float64(0)
			case 4: // another file-system type made from a configured source string (finding C08)
				st["args"] = hxs([]string{g.Pick("/proc", VB+"/hostsrc"), build + g.Pick("/proc", "/mnt/tmp"), "ramfs"})
				st["flags"] = float64(0)
			case 5: // the configured type made from another source string
				st["args"] = hxs([]string{"none", build + "/mnt/tmp", "tmpfs"})
				st["flags"] = float64(0)
			case 6: // the configured type and source, by hand
				st["args"] = hxs([]string{VB + "/hostsrc", build + "/mnt/tmp", "tmpfs"})
				st["flags"] = float64(0)
			}
			steps = append(steps, st)
			continue
		case "sysumount":
			ln := "b0"
			var lay *glayer
			if len(forest) > 0 {
				lay = &forest[g.Intn(len(forest))]
				ln = lay.name
			}
			build := VB + "/layers/" + ln + "/build"
			tgt := build + g.Pick("/proc", "/dev", "/dev/pts", "/mnt/host", "/mnt/sub", "/var/cache/binpkgs", "/mnt/gen", "")
			if lay != nil && len(lay.imports) > 0 && g.Chance(70, 100) {
				// one of the layer's own imports, mostly a later one
				k := len(lay.imports) - 1
				if g.Chance(40, 100) {
					k = g.Intn(len(lay.imports))
				}
				tgt = build + mountpointOf(lay.imports[k])
				if g.Chance(50, 100) {
					// mount, take one import away by hand, mount again
					steps = append(steps, obj("cmd", "mount", "args", hxs([]string{ln})))
					st["args"] = hxs([]string{tgt})
					steps = append(steps, st)
					steps = append(steps, obj("cmd", "mount", "args", hxs([]string{ln})))
					steps = append(steps, obj("cmd", "mount", "args", hxs([]string{ln})))
					continue
				}
			}
			st["args"] = hxs([]string{tgt})
			steps = append(steps, st)
			continue
		default:
			st["args"] = hxs([]string{})
		}
		if g.Chance(pf.pPretend, 100) {
			st["pretend"] = true
		}
		if g.Chance(pf.pForce, 100) {
			st["force"] = true
		}
		if g.Chance(15, 100) {
			st["verbose"] = true
		}
		if g.Chance(pf.pFault, 100) {
			st["fault"] = float64(1 + g.Intn(9))
		} else if g.Chance(pf.pCrash, 100) {
			st["crash"] = float64(1 + g.Intn(9))
		}
		if g.Chance(pf.pUsers, 100) && len(names) > 0 {
			us := []interface{}{}
			for k := 1 + g.Intn(2); k > 0; k-- {
				who := names[g.Intn(len(names))]
				if (cmd == "rename" || cmd == "rebase") && g.Chance(40, 100) {
					// a user in a direct child of the target (the parent itself idle)
					tgt := unhxs(st["args"])[0]
					for _, l := range forest {
						if l.base == tgt {
							who = l.name
						}
					}
				}
				us = append(us, []interface{}{hx(who), float64(g.Intn(4)),
					hx(g.Pick("build", "build/usr/lib", "overlayfs/upperdir/x", "overlayfs/workdir", "packages", "", "buildx", "generated/f", "overlayfs"))})
			}
			st["users"] = us
		}
		steps = append(steps, st)
	}
	return Case{"op": "scenario", "cfg": defaultCfg(), "tree": t.list(), "host": hostTable(g, pf.hostVariants), "steps": steps}
}

var structuralCmds = []string{"add", "add", "add", "remove", "remove", "rename", "rename", "rebase", "rebase", "mkdirs", "probe", "mur"}
var mountCmds = []string{"mount", "mount", "mount", "umount", "umount", "chroot", "shake", "mkdirs", "add", "probe", "sysmount", "sysumount", "sysumount"}
var allCmds = append(append([]string{"init"}, structuralCmds...), mountCmds...)

var chainCmds = []string{"mount", "mount", "mount", "mount", "umount", "sysumount", "sysumount", "chroot", "probe", "sysmount"}

var profiles = map[string]scnProfile{
	"scn-chain":  {name: "scn-chain", cmds: chainCmds, pUsers: 5, pIncomplete: 0, pWeirdImport: 10, pForeignExport: 5, minSteps: 5, maxSteps: 10, hostVariants: true, shape: "chain"},
	"scn-mixed":  {name: "scn-mixed", cmds: allCmds, pFault: 10, pCrash: 5, pPretend: 10, pUsers: 20, pForce: 5, pIncomplete: 15, pWeirdImport: 8, pForeignExport: 10, minSteps: 3, maxSteps: 9, hostVariants: true},
	"scn-struct": {name: "scn-struct", cmds: structuralCmds, pUsers: 10, pIncomplete: 10, pWeirdImport: 3, pForeignExport: 10, minSteps: 4, maxSteps: 10},
	"scn-mount":  {name: "scn-mount", cmds: mountCmds, pUsers: 15, pForce: 5, pIncomplete: 10, pWeirdImport: 5, pForeignExport: 5, minSteps: 4, maxSteps: 10, hostVariants: true},
	"scn-fault":  {name: "scn-fault", cmds: allCmds, pFault: 45, pCrash: 0, pIncomplete: 10, pWeirdImport: 3, pForeignExport: 5, minSteps: 3, maxSteps: 7},
	"scn-crash":  {name: "scn-crash", cmds: structuralCmds, pCrash: 50, pIncomplete: 5, minSteps: 3, maxSteps: 7},
	"scn-pretend": {name: "scn-pretend", cmds: allCmds, pPretend: 60, pUsers: 5, pIncomplete: 10, pWeirdImport: 3, minSteps: 3, maxSteps: 8},
}

// exhaustive over the fault / crash position: take a scenario, pick a step, learn how many
// fault points the step passes when undisturbed, and emit one variant per position
func genExhaustive(g *Gen, tier string, emit func(Case), mode string) {
	n := 12
	if tier == "thorough" {
		n = 300
	}
	pf := profiles["scn-struct"]
	if mode == "fault" {
		pf = profiles["scn-mixed"]
		pf.pFault, pf.pCrash, pf.pPretend = 0, 0, 0
	}
	for i := 0; i < n+1; i++ {
		base := genScenario(g, pf)
		if i%6 == 0 {
			base = fanoutScenario(g)
		}
		maxCands, maxK := 4, 14
		if i == n {
			// the fixed tour (init, mount with two export links per layer, verbose umount -all,
			// rename, remove, add): every step, every position — so that what the random
			// scenarios reach only at some seeds is always covered
			if mode != "fault" {
				continue
			}
			base = faultTourScenario(g)
			maxCands, maxK = 99, 30
		}
		if i%6 == 3 && mode == "crash" {
			base = rewriteScenario(g)
		}
		steps := base["steps"].([]interface{})
		obs, ok := runScenario(base).(map[string]interface{})
		if !ok || obs["steps"] == nil {
			continue
		}
		outs := obs["steps"].([]interface{})
		// every step that passes fault points (at most four per scenario, the busiest first)
		type cand struct{ idx, n int }
		var cands []cand
		for k, o := range outs {
			if nn, _ := o.(map[string]interface{})["nops"].(float64); int(nn) > 0 {
				cands = append(cands, cand{k, int(nn)})
			}
		}
		sort.Slice(cands, func(a, b int) bool { return cands[a].n > cands[b].n })
		if len(cands) > maxCands {
			cands = cands[:maxCands]
		}
		for _, cd := range cands {
			best, bestN := cd.idx, cd.n
			if bestN > maxK {
				bestN = maxK
			}
			for k := 1; k <= bestN+1; k++ {
				c := Case{"op": "scenario", "cfg": base["cfg"], "tree": base["tree"], "host": base["host"]}
				ns := []interface{}{}
				for j := 0; j <= best; j++ {
					st := map[string]interface{}{}
					for kk, vv := range steps[j].(map[string]interface{}) {
						st[kk] = vv
					}
					delete(st, "childOrder")
					if j == best {
						st[mode] = float64(k)
					}
					ns = append(ns, st)
				}
				last := steps[best].(map[string]interface{})
				if cmdName := str(last["cmd"]); mode == "crash" && (cmdName == "rebase" || cmdName == "rename" || cmdName == "add") {
					// the interrupted rewrite may leave a complete layerconfig.new behind; a later,
					// shorter rewrite of the same layer must not inherit its tail
					who := unhxs(last["args"])[0]
					if cmdName == "rename" && len(unhxs(last["args"])) > 1 {
						ns = append(ns, obj("cmd", "rebase", "args", hxs([]string{unhxs(last["args"])[1], ""})))
					}
					ns = append(ns, obj("cmd", "rebase", "args", hxs([]string{who, ""})))
				}
				if fu, ok := base["followup"].([]interface{}); ok {
					ns = append(ns, fu...)
				}
				ns = append(ns, obj("cmd", "probe", "args", hxs([]string{})))
				c["steps"] = ns
				emit(c)
			}
		}
	}
}

// faultTourScenario: one installation visited by every kind of command; both layers have a
// packages and a generated directory (two automatic export links each)
func faultTourScenario(g *Gen) Case {
	t := &treeB{ents: map[string][]interface{}{}}
	for _, h := range []string{"/", "/dev", "/proc", "/sys", "/run"} {
		t.ents[h] = []interface{}{hx(h), "d"}
	}
	t.dir(VB)
	t.dir(VB + "/hostsrc/sub")
	imports := []string{"import proc /proc /proc", "import rbind /dev /dev", "import rbind $$base/packages /var/cache/binpkgs"}
	for _, l := range []glayer{{name: "b0", imports: imports}, {name: "d0", base: "b0", imports: imports}} {
		genLayerTree(g, t, l, scnProfile{}, false)
		t.dir(VB + "/layers/" + l.name + "/packages")
		t.dir(VB + "/layers/" + l.name + "/generated")
	}
	cmd := func(name string, args ...string) map[string]interface{} {
		return obj("cmd", name, "args", hxs(args))
	}
	all := obj("cmd", "umount", "args", hxs([]string{""}), "all", true, "verbose", true)
	steps := []interface{}{cmd("init"), cmd("mount", "d0"), all, cmd("rename", "d0", "d9"), cmd("add", "n1", "b0", ""),
		cmd("rebase", "d9", "n1"), cmd("remove", "d9"), cmd("mkdirs", "n1"), cmd("chroot", "n1"),
		obj("cmd", "umount", "args", hxs([]string{""}), "all", true)}
	return Case{"op": "scenario", "cfg": defaultCfg(), "tree": t.list(), "host": hostTable(g, false), "steps": steps}
}

// a parent with three children (long base names, so that rewrites differ in length): rename
// and rebase are the commands that rewrite several layerconfigs
func fanoutScenario(g *Gen) Case {
	t := &treeB{ents: map[string][]interface{}{}}
	for _, h := range []string{"/", "/dev", "/proc", "/sys", "/run"} {
		t.ents[h] = []interface{}{hx(h), "d"}
	}
	t.dir(VB)
	t.dir(VB + "/layers")
	t.dir(VB + "/export")
	t.file(VB+"/default_layerconfig.skel", "import proc /proc /proc\n")
	pf := scnProfile{}
	parent := g.Pick("parentlayerwithalongname", "b0", "Zeta")
	genLayerTree(g, t, glayer{name: parent, imports: []string{"import proc /proc /proc"}}, pf, false)
	for _, k := range []string{"k1", "k2", "k3"} {
		genLayerTree(g, t, glayer{name: k, base: parent, imports: []string{"import proc /proc /proc", "import bind $$self/generated /mnt/gen"}}, pf, false)
	}
	steps := []interface{}{
		obj("cmd", "rename", "args", hxs([]string{parent, g.Pick("p2", "anotherverylongparentlayername")})),
	}
	return Case{"op": "scenario", "cfg": defaultCfg(), "tree": t.list(), "host": hostTable(g, false), "steps": steps}
}

// a layer rebased onto a long-named parent (interrupted at every position) and then onto a
// short-named one: the second rewrite is shorter than whatever the first left behind
func rewriteScenario(g *Gen) Case {
	t := &treeB{ents: map[string][]interface{}{}}
	for _, h := range []string{"/", "/dev", "/proc", "/sys", "/run"} {
		t.ents[h] = []interface{}{hx(h), "d"}
	}
	t.dir(VB)
	t.dir(VB + "/layers")
	t.dir(VB + "/export")
	t.file(VB+"/default_layerconfig.skel", "import proc /proc /proc\n")
	pf := scnProfile{}
	long := g.Pick("aparentlayerwithaverylongnameindeed0", "Gentoo-2024-stage3-amd64-openrc-desktop")
	short := g.Pick("r2", "b")
	genLayerTree(g, t, glayer{name: long, imports: []string{"import proc /proc /proc"}}, pf, false)
	genLayerTree(g, t, glayer{name: short, imports: []string{"import proc /proc /proc"}}, pf, false)
	kid := glayer{name: "kid", base: short, imports: []string{"import proc /proc /proc"},
		exports: []string{"export symlink $$self/generated/a $$file_export/a", "export symlink $$self/generated/b $$file_export/b"}}
	if g.Chance(1, 2) {
		kid.exports = nil
	}
	genLayerTree(g, t, kid, pf, false)
	steps := []interface{}{obj("cmd", "rebase", "args", hxs([]string{"kid", long}))}
	fu := []interface{}{obj("cmd", "rebase", "args", hxs([]string{"kid", short}))}
	if g.Chance(1, 3) {
		fu = []interface{}{obj("cmd", "rebase", "args", hxs([]string{"kid", ""}))}
	}
	return Case{"op": "scenario", "cfg": defaultCfg(), "tree": t.list(), "host": hostTable(g, false), "steps": steps, "followup": fu}
}

func init() {
	register("scn-faultx", func(g *Gen, tier string, emit func(Case)) { genExhaustive(g, tier, emit, "fault") })
	register("scn-crashx", func(g *Gen, tier string, emit func(Case)) { genExhaustive(g, tier, emit, "crash") })
	for name, pf := range profiles {
		pf := pf
		register(name, reconfigured(func(g *Gen, tier string, emit func(Case)) {
			n := 120
			if tier == "thorough" {
				n = 4000
			}
			for i := 0; i < n; i++ {
				emit(genScenario(g, pf))
			}
		}))
	}
}
