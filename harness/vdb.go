package main

import (
	"fmt"
	"io/ioutil"
	"math"
	"os"
	"path/filepath"
	"strings"

	"potano.layercake/portage/vdb"
)

// Suite "vdb": the reader of a package's CONTENTS file (portage/vdb/contents.go:
// GetAtomFileInfo after readFileLines).  Structured stream: entries rendered the way
// Portage writes them (names with blanks, blanks at the end, " -> " inside, tails that look
// like checksum and time, non-ASCII, very long); malformed stream: hand-made and mutated
// texts.  The text is written to <scratch>/<cat>/<pkg-1.0>/CONTENTS and read by the real
// GetAtomFileInfo through an AvailableVersion for that directory.

type vdbEntry struct {
	Kind, Name, Targ, Md5, Time string // Md5: 16 raw bytes; Time: decimal
}

func (e vdbEntry) line() string {
	switch e.Kind {
	case "dir":
		return "dir " + e.Name
	case "obj":
		return "obj " + e.Name + " " + fmt.Sprintf("%x", e.Md5) + " " + e.Time
	default:
		return "sym " + e.Name + " -> " + e.Targ + " " + e.Time
	}
}

func (e vdbEntry) json() interface{} {
	t := e.Time
	if t == "" {
		t = "0"
	}
	return []interface{}{e.Kind, hx(e.Name), hx(e.Targ), hx(e.Md5), t}
}

func vdbRender(es []vdbEntry) string {
	var b strings.Builder
	for _, e := range es {
		b.WriteString(e.line())
		b.WriteByte('\n')
	}
	return b.String()
}

var vdbNames = []string{
	"/usr", "/usr/bin/tool", "/etc/conf.d/net", "/usr/share/doc/pkg-1.0/README",
	"/usr/share/my file", "/opt/two  blanks", "/opt/trail ", "/opt/trail  ", " lead", " ", "  ",
	"/a -> b", "/a ->", "/a -", "/a - > b", "/ -> ", " -> ", "->", "/x->y", "/a -> b -> c", "/q -> ",
	"/a 0123abcd 17", "/a d41d8cd98f00b204e9800998ecf8427e 1500000000", "/b 17", "/c 0123abcd", "/d -5 ", "/e +5",
	"/opt/é", "/opt/\xff\xfe", "/opt/日本 語", "/tab\there", "/cr\r", "/x\r", "/bs\\040x", "/q\"uote'", "/nul\x00x",
	"dir /x", "obj /x", "sym /x -> y 5", "/", "a", "/usr/lib64/libfoo.so.1.2.3",
}

var vdbTargets = []string{
	"libfoo.so.1", "../bin/c89", "/etc/passwd", "", " ", "a -> b", "/opt/x -> y/z", " -> ", "t ", "t  ", " t",
	"x 17", "x d41d8cd98f00b204e9800998ecf8427e 17", "é", "\xff", "a\tb", "->", "a ->", "-> b", "cr\r",
}

var vdbTimes = []string{
	"0", "1", "17", "1500000000", "1700000000", "4294967296", "9223372036854775807", "-1",
	"-9223372036854775808", "253402300799",
}

func genVdbName(g *Gen, long bool) string {
	c := g.Intn(12)
	if c == 1 && !long {
		c = 2
	}
	switch c {
	case 0:
		return "/" + g.From("ab /->\xc3\xa90f1", 1+g.Intn(12))
	case 1:
		return "/long/" + strings.Repeat(g.Pick("x", "long name ", "é", "a -", "0f 1 "), 300+g.Intn(700))
	case 2:
		return vdbNames[g.Intn(len(vdbNames))] + g.Pick("", " ", "  ", " 5", " ab", " ->", " -> ", "/sub")
	default:
		return vdbNames[g.Intn(len(vdbNames))]
	}
}

func genVdbEntry(g *Gen, nasty, long bool) vdbEntry {
	e := vdbEntry{Kind: g.Pick("dir", "obj", "obj", "sym"), Name: genVdbName(g, long)}
	md5 := make([]byte, 16)
	for i := range md5 {
		md5[i] = byte(g.Intn(256))
	}
	if g.Chance(1, 4) {
		md5 = []byte("\xd4\x1d\x8c\xd9\x8f\x00\xb2\x04\xe9\x80\x09\x98\xec\xf8\x42\x7e")
	}
	e.Time = vdbTimes[g.Intn(len(vdbTimes))]
	if g.Chance(1, 3) {
		e.Time = fmt.Sprint(g.Int63n(2000000000))
	}
	if e.Kind == "sym" {
		e.Targ = vdbTargets[g.Intn(len(vdbTargets))]
		if g.Chance(1, 5) {
			e.Targ = g.From("ab /->.", g.Intn(10))
		}
	}
	if e.Kind == "obj" {
		e.Md5 = string(md5)
	}
	if nasty {
		// entries outside what the format can carry (the Lean side decides that, not this file)
		switch g.Intn(7) {
		case 0:
			e.Name = ""
		case 1:
			e.Name = g.Pick("/a\nb", "/a\n", "\n", "/a\ndir /b", "/x\nobj")
		case 2:
			if e.Kind != "dir" {
				e.Time = g.Pick("9223372036854775808", "-9223372036854775809", "99999999999999999999")
			}
		case 3:
			if e.Kind == "obj" {
				e.Md5 = e.Md5[:g.Intn(16)]
			}
		case 4:
			if e.Kind == "sym" {
				e.Targ = g.Pick("a\nb", "\n", "t\n")
			}
		case 5:
			if e.Kind == "obj" {
				e.Md5 += string(md5[:1+g.Intn(4)])
			}
		default:
			e.Kind = "sym"
			e.Name = g.Pick("/a -> b", "/a ->", " -> ", "/x -> y -> z", "/l -> ")
			if e.Targ == "" {
				e.Targ = "t"
			}
		}
	}
	return e
}

var vdbMalformed = []string{
	"", "\n", "\n\n\n", " ", "  ", "   ", "    ", "     ", "ab", "abc", "dir", "dir ", "obj ", "sym ", "obj", "sym",
	"dir /a\n\ndir /b\n", "dir /a\n \ndir /b\n", "dir /a\nab\n", "\n\ndir /a\n\n\n", "dir /a", "dir /a \n", "dir /a \n\n",
	"dir /a\r\ndir /b\r\n", "obj /a d41d8cd98f00b204e9800998ecf8427e 5\r\n", "dir /a\r\n\r\ndir /b\r\n",
	"obj /a d41d8cd98f00b204e9800998ecf8427e +5\n", "obj /a d41d8cd98f00b204e9800998ecf8427e -0\n",
	"obj /a d41d8cd98f00b204e9800998ecf8427e 1_0\n", "obj /a d41d8cd98f00b204e9800998ecf8427e 99999999999999999999\n",
	"obj /a d41d8cd98f00b204e9800998ecf8427e 9223372036854775808\n", "obj /a d41d8cd98f00b204e9800998ecf8427e -9223372036854775808\n",
	"obj /a d41d8cd98f00b204e9800998ecf8427e -9223372036854775809\n", "obj /a d41d8cd98f00b204e9800998ecf8427e 0x10\n",
	"obj /a d41d8cd98f00b204e9800998ecf8427e 1e3\n", "obj /a d41d8cd98f00b204e9800998ecf8427e 5 \n",
	"obj /a d41d8cd98f00b204e9800998ecf8427e  5\n", "obj /a d41d8cd98f00b204e9800998ecf8427e +\n", "obj /a d41d8cd98f00b204e9800998ecf8427e -\n",
	"obj /a d41d8cd98f00b204e9800998ecf8427e 0005\n", "obj /a d41d8cd98f00b204e9800998ecf8427e ٥\n",
	"obj /a d41d8cd98f00b204e9800998ecf8427 5\n", "obj /a D41D8CD98F00B204E9800998ECF8427E 5\n", "obj /a d41D8cd98F00b204e9800998ecf8427e 5\n",
	"obj /a d4 5\n", "obj /a d 5\n", "obj /a xx 5\n", "obj /a d41d8cd98f00b204e9800998ecf8427e00ff 5\n", "obj /a 0g 5\n",
	"obj /a  5\n", "obj /a 5\n", "obj 5\n", "obj  5\n", "obj   5\n", "obj  d4 5\n", "obj x\n", "obj \n", "obj  \n",
	"sym /a b 5\n", "sym /a -> b\n", "sym /a -> b x\n", "sym /a->b 5\n", "sym /a ->b 5\n", "sym -> 5\n", "sym  ->  5\n", "sym  -> 5\n",
	"sym /a -> b 5\n", "sym  5\n", "sym 5\n", "sym /a -> 5\n", "sym /a ->  5\n",
	"fif /run/initctl\n", "dev /dev/console\n", "dir /run\nfif /run/initctl\n", "DIR /a\n", "dir\t/a\n", "Dir /a\n", "dirs /a\n", "obj\t/a d4 5\n",
	"link /a\n", "xxxx\n", "dir/\n", " dir /a\n", "dir  /a\n", "\xff\xfe\xfd\xfc\n", "dir /a\x00b\n",
	"dir /a\ndir /a\n", "dir /a\nobj /a d41d8cd98f00b204e9800998ecf8427e 5\n",
}

func vdbMutate(g *Gen, s string) string {
	b := []byte(s)
	for k := 1 + g.Intn(3); k > 0 && len(b) > 0; k-- {
		p := g.Intn(len(b))
		switch g.Intn(7) {
		case 0:
			b = append(b[:p], b[p+1:]...)
		case 1:
			b[p] = " ->\n0f_+\r"[g.Intn(9)]
		case 2:
			b = b[:p]
		case 3:
			b = append(b[:p], append([]byte(g.Pick(" -> ", " ", "\n", "\r\n", "\n\n", "_", "-", "g", "ab\n")), b[p:]...)...)
		case 4:
			b[p] = byte(g.Intn(256))
		case 5:
			// cut one line short
			q := p + 1 + g.Intn(3)
			if q < len(b) {
				b = append(b[:p], append([]byte("\n"), b[q:]...)...)
			}
		default:
			if len(b) > 0 && b[len(b)-1] == '\n' {
				b = b[:len(b)-1] // no final newline
			}
		}
	}
	return string(b)
}

func vdbErrClass(msg string) string {
	switch {
	case strings.HasPrefix(msg, "strconv.ParseInt:"):
		return "err:timestamp"
	case strings.HasPrefix(msg, "encoding/hex:"):
		return "err:md5"
	case strings.HasPrefix(msg, "empty CONTENTS line "):
		return "err:empty"
	case strings.HasPrefix(msg, "parse error in CONTENTS line "):
		return "err:parse"
	case strings.HasPrefix(msg, "missing -> in CONTENTS line "):
		return "err:arrow"
	case strings.HasPrefix(msg, "unknown object type "):
		return "err:type"
	}
	return unclassified
}

func observeContents(text string) interface{} {
	scratch := os.Getenv("VERIF_SCRATCH")
	if scratch == "" {
		scratch = os.TempDir()
	}
	root, err := ioutil.TempDir(scratch, "vdb-")
	if err != nil {
		return obj("harness-error", "mkdir scratch: "+err.Error())
	}
	defer os.RemoveAll(root)
	cat, namever := "app-misc", "pkg-1.0"
	dir := filepath.Join(root, cat, namever)
	if err := os.MkdirAll(dir, 0755); err != nil {
		return obj("harness-error", err.Error())
	}
	if err := ioutil.WriteFile(filepath.Join(dir, "SLOT"), []byte("0\n"), 0644); err != nil {
		return obj("harness-error", err.Error())
	}
	if err := ioutil.WriteFile(filepath.Join(dir, "CONTENTS"), []byte(text), 0644); err != nil {
		return obj("harness-error", err.Error())
	}
	av, err := vdb.VerifNewAvailableVersion(dir, cat, namever)
	if err != nil {
		return obj("harness-error", "setAtom: "+err.Error())
	}
	return guarded(func() interface{} {
		files, err := vdb.GetAtomFileInfo(av)
		if err != nil {
			return obj("cls", vdbErrClass(err.Error()))
		}
		entries := make([]interface{}, len(files))
		for i, f := range files {
			entries[i] = []interface{}{hx(f.Name), int(f.Type), fmt.Sprint(f.UnixTime), hx(string(f.MD5[:]))}
		}
		return obj("cls", "ok", "entries", entries)
	})
}

func init() {
	ops["vdb.contents"] = func(c Case) interface{} { return observeContents(unhx(c["text"])) }

	register("vdb", func(g *Gen, tier string, emit func(Case)) {
		n := 400
		if tier == "thorough" {
			n = 15000
		}
		emitEntries := func(es []vdbEntry) string {
			text := vdbRender(es)
			je := make([]interface{}, len(es))
			for k, e := range es {
				je[k] = e.json()
			}
			emit(Case{"op": "vdb.contents", "gen_entries": je, "text": hx(text)})
			return text
		}
		// every fixed name once as dir, obj and sym, alone in its file (the last line is the
		// one whose end readFileLines must keep)
		for _, nm := range vdbNames {
			emitEntries([]vdbEntry{{Kind: "dir", Name: nm}})
			emitEntries([]vdbEntry{{Kind: "obj", Name: nm, Md5: "0123456789abcdef", Time: "1500000000"}})
			emitEntries([]vdbEntry{{Kind: "sym", Name: nm, Targ: vdbTargets[g.Intn(len(vdbTargets))], Time: "17"}})
		}
		for _, t := range vdbTargets {
			emitEntries([]vdbEntry{{Kind: "sym", Name: "/usr/lib/l", Targ: t, Time: fmt.Sprint(int64(math.MaxInt64))}})
		}
		emitEntries(nil)
		for _, t := range vdbMalformed {
			emit(Case{"op": "vdb.contents", "text": hx(t)})
		}
		for i := 0; i < n; i++ {
			k := 1 + g.Intn(6)
			if g.Chance(1, 100) {
				k = 100 + g.Intn(300) // a package with many entries (no names of kilobytes in it)
			}
			es := make([]vdbEntry, k)
			nastyAt := -1
			if i%4 == 3 {
				nastyAt = g.Intn(k)
			}
			for j := range es {
				es[j] = genVdbEntry(g, j == nastyAt, k < 100)
			}
			text := emitEntries(es)
			if i%3 == 0 {
				emit(Case{"op": "vdb.contents", "text": hx(vdbMutate(g, text))})
			}
			if i%5 == 0 {
				// lines of a rendered file mixed with hand-made malformed ones
				parts := []string{}
				for j := 0; j < 1+g.Intn(4); j++ {
					if g.Chance(1, 2) {
						parts = append(parts, es[g.Intn(len(es))].line()+"\n")
					} else {
						parts = append(parts, vdbMalformed[g.Intn(len(vdbMalformed))])
					}
				}
				emit(Case{"op": "vdb.contents", "text": hx(strings.Join(parts, ""))})
			}
		}
	})
}
