package main

import (
	"bufio"
	"encoding/json"
	"fmt"
	"io"
	"os"
	"os/exec"
	"path/filepath"
	"runtime/debug"
	"sort"
	"strings"
	"time"

	lfs "potano.layercake/fs"
	"potano.layercake/portage/atom"
	"potano.layercake/portage/depend"
	"potano.layercake/portage/profile"
	"potano.layercake/portage/vdb"
)

// C05: the stage package set is the dependency closure of the requested atoms.
//
// The generator builds small installed-package databases (var/db/pkg/<cat>/<pkg-ver>/
// {SLOT,IUSE,USE,RDEPEND,PDEPEND,DEPEND,BDEPEND,CONTENTS}) and profile chains on disk
// and runs the real call sequence of cmd/stagemaker (setUpStageData, addAtomListToSystemSet,
// generateStageSet): profile.ReadSystemSet, UserEnteredDependencies.Add,
// vdb.GetInstalledPackageList, vdb.StartSolution, ResolveUserDeps, SortedAtoms.
// The match relation handed to the Lean model is computed with the real matcher
// (DependAtom.FilterAtoms), so the model is independent of version semantics (C13).
//
// A resolver that stops marking packages recurses without bound and a Go stack overflow is
// fatal, so the resolve op runs in a child worker process (this same binary, env
// LC_C05_WORKER=1) with a per-case timeout; a dead or hung worker is the observation
// {"cls":"crash"}.

type dnode = map[string]interface{}

func mkAtom(t string) dnode { return dnode{"k": "atom", "t": t} }
func mkGroup(k, flag string, ds []interface{}) dnode {
	n := dnode{"k": k, "ds": ds}
	if flag != "" {
		n["f"] = flag
	}
	return n
}

func jstr(v interface{}) string   { s, _ := v.(string); return s }
func jarr(v interface{}) []interface{} { a, _ := v.([]interface{}); return a }
func jmap(v interface{}) dnode {
	switch m := v.(type) {
	case map[string]interface{}:
		return m
	case Case:
		return m
	}
	return nil
}
func jbool(v interface{}) bool { b, _ := v.(bool); return b }
func jint(v interface{}) int {
	switch n := v.(type) {
	case float64:
		return int(n)
	case int:
		return n
	}
	return 0
}

func printDeps(ds []interface{}) string {
	parts := []string{}
	for _, d := range ds {
		parts = append(parts, printDep(jmap(d)))
	}
	return strings.Join(parts, " ")
}

func printDep(n dnode) string {
	inner := func() string {
		s := printDeps(jarr(n["ds"]))
		if s == "" {
			return "( )"
		}
		return "( " + s + " )"
	}
	switch jstr(n["k"]) {
	case "atom":
		return jstr(n["t"])
	case "all":
		return inner()
	case "any":
		return "|| " + inner()
	case "one":
		return "^^ " + inner()
	case "most":
		return "?? " + inner()
	case "use":
		return jstr(n["f"]) + "? " + inner()
	case "nuse":
		return "!" + jstr(n["f"]) + "? " + inner()
	}
	return ""
}

// leaves returns the atom nodes of a tree list in print (DFS) order.
func leaves(ds []interface{}, out *[]dnode) {
	for _, d := range ds {
		n := jmap(d)
		if jstr(n["k"]) == "atom" {
			*out = append(*out, n)
		} else {
			leaves(jarr(n["ds"]), out)
		}
	}
}

func parsedLeaves(ds []depend.PackageDependency, out *[]*depend.DependAtom) {
	for _, d := range ds {
		if da, ok := d.(*depend.DependAtom); ok {
			*out = append(*out, da)
		} else {
			parsedLeaves(d.Dependencies(), out)
		}
	}
}

var depClasses = []string{"BDEPEND", "DEPEND", "RDEPEND", "PDEPEND"}

func errClass(err error) string {
	if err == nil {
		return "ok"
	}
	m := err.Error()
	switch {
	case strings.Contains(m, "could not resolve") || strings.Contains(m, "cannot resolve dependency"):
		return "err:unsat"
	case strings.Contains(m, "blocks package") || strings.Contains(m, "blocked package"):
		return "err:blocked"
	case strings.Contains(m, "duplicate entry"):
		return "err:dup"
	case strings.Contains(m, "no package named"):
		return "err:noname"
	case strings.Contains(m, "does not exist"):
		return "err:nodir"
	}
	return "err:other"
}

func writeFile(p, s string) {
	os.MkdirAll(filepath.Dir(p), 0755)
	os.WriteFile(p, []byte(s), 0644)
}

var c05counter int

func c05Scratch() string {
	base := os.Getenv("VERIF_SCRATCH")
	if base == "" {
		base = os.TempDir()
	}
	c05counter++
	d := filepath.Join(base, fmt.Sprintf("c05-%d-%d", os.Getpid(), c05counter))
	os.MkdirAll(d, 0755)
	return d
}

func pkgDir(root string, p dnode) string {
	return filepath.Join(root, "var/db/pkg", jstr(p["cat"]), jstr(p["name"])+"-"+jstr(p["ver"]))
}

// writeVdb materialises the case's database and profile under root.
func writeVdb(root string, c Case) {
	for _, pv := range jarr(c["pkgs"]) {
		p := jmap(pv)
		d := pkgDir(root, p)
		os.MkdirAll(d, 0755)
		writeFile(filepath.Join(d, "SLOT"), jstr(p["slot"])+"\n")
		writeFile(filepath.Join(d, "CONTENTS"), "dir /usr\n")
		iuse := []string{}
		for _, f := range jarr(p["iuse"]) {
			iuse = append(iuse, jstr(f))
		}
		if jbool(p["iuse_effective"]) {
			writeFile(filepath.Join(d, "IUSE_EFFECTIVE"), strings.Join(iuse, " ")+"\n")
			writeFile(filepath.Join(d, "IUSE"), "\n")
		} else {
			writeFile(filepath.Join(d, "IUSE"), strings.Join(iuse, " ")+"\n")
		}
		use := []string{}
		for _, f := range jarr(p["use"]) {
			use = append(use, jstr(f))
		}
		writeFile(filepath.Join(d, "USE"), strings.Join(use, " ")+"\n")
		deps := jmap(p["deps"])
		for _, cl := range depClasses {
			if ds, ok := deps[cl]; ok {
				writeFile(filepath.Join(d, cl), printDeps(jarr(ds))+"\n")
			}
		}
	}
	prof := filepath.Join(root, "etc/portage/make.profile")
	os.MkdirAll(prof, 0755)
	lines := []string{"# generated"}
	for _, a := range jarr(c["profile"]) {
		lines = append(lines, "*"+jstr(a))
	}
	writeFile(filepath.Join(prof, "packages"), strings.Join(lines, "\n")+"\n")
}

func readSystem(root string, c Case) (*depend.UserEnteredDependencies, error) {
	deps, err := profile.ReadSystemSet(filepath.Join(root, "etc/portage/make.profile"))
	if err != nil {
		return nil, err
	}
	// addAtomListToSystemSet
	for _, a := range jarr(c["extra"]) {
		if err := deps.Add(jstr(a)); err != nil {
			return nil, err
		}
	}
	return deps, nil
}

type runObs struct {
	cls   string
	sel   []int
	order []int
}

func (r runObs) json() interface{} {
	sel := []interface{}{}
	for _, v := range r.sel {
		sel = append(sel, v)
	}
	order := []interface{}{}
	for _, v := range r.order {
		order = append(order, v)
	}
	return obj("cls", r.cls, "sel", sel, "order", order)
}

// generateStageSet on a given installed set
func resolveOnce(installed *atom.AtomSet, deps *depend.UserEnteredDependencies, includeBdepend bool,
	dirToID map[string]int) runObs {
	sol, err := vdb.StartSolution(installed, includeBdepend)
	if err != nil {
		return runObs{cls: "err:other"}
	}
	err = sol.ResolveUserDeps(deps)
	if err != nil {
		return runObs{cls: errClass(err)}
	}
	out := runObs{cls: "ok"}
	for _, a := range sol.Resolution.SortedAtoms() {
		id, ok := dirToID[a.(*vdb.AvailableVersion).Directory]
		if !ok {
			return runObs{cls: "err:unknown-package"}
		}
		out.order = append(out.order, id)
	}
	out.sel = append([]int{}, out.order...)
	sort.Ints(out.sel)
	return out
}

// c05Resolve runs one resolve case in this process (called inside the worker).
func c05Resolve(c Case) interface{} {
	root := c05Scratch()
	defer os.RemoveAll(root)
	writeVdb(root, c)
	pkgs := jarr(c["pkgs"])
	dirToID := map[string]int{}
	for i, pv := range pkgs {
		dirToID[pkgDir(root, jmap(pv))] = i
	}
	annot := dnode{}
	c["derived"] = annot

	// fresh AvailableVersions through the hook: used for the match relation and for run 2
	mkAVs := func() ([]*vdb.AvailableVersion, error) {
		avs := make([]*vdb.AvailableVersion, len(pkgs))
		for i, pv := range pkgs {
			p := jmap(pv)
			av, err := vdb.VerifNewAvailableVersion(pkgDir(root, p), jstr(p["cat"]), jstr(p["name"])+"-"+jstr(p["ver"]))
			if err != nil {
				return nil, err
			}
			avs[i] = av
		}
		return avs, nil
	}
	avs, err := mkAVs()
	if err != nil {
		return obj("cls", "err:setatom")
	}
	pinfo := []interface{}{}
	for _, av := range avs {
		flags := []string{}
		for f, on := range av.GetUseFlagMap() {
			if on {
				flags = append(flags, f)
			}
		}
		sort.Strings(flags)
		fl := []interface{}{}
		for _, f := range flags {
			fl = append(fl, f)
		}
		pinfo = append(pinfo, obj("name", av.PackageName(), "slotkey", av.GetSlot(), "usemap", fl))
	}
	annot["pinfo"] = pinfo

	// requested atoms
	deps, err := readSystem(root, c)
	if err != nil {
		return obj("cls", "err:sysset:"+errClass(err))
	}
	rel := []interface{}{}
	matchRow := func(da *depend.DependAtom, ctx atom.UseFlagMap) interface{} {
		row := []interface{}{}
		for i, av := range avs {
			if av.PackageName() != da.PackageName() {
				continue
			}
			if len(da.FilterAtoms([]atom.Atom{av}, ctx)) > 0 {
				row = append(row, i)
			}
		}
		return row
	}
	req := []interface{}{}
	for _, da := range deps.Atoms {
		if len(da.Category) == 0 || len(da.Name) == 0 {
			return obj("cls", "err:harness-no-category")
		}
		req = append(req, obj("a", len(rel), "n", da.PackageName(), "b", da.Blocker, "t", da.String()))
		rel = append(rel, matchRow(da, atom.EmptyUseFlagMap))
	}
	annot["req"] = req
	parseOK := true
	for i, pv := range pkgs {
		p := jmap(pv)
		dm := jmap(p["deps"])
		for _, cl := range depClasses {
			ds, ok := dm[cl]
			if !ok {
				continue
			}
			var ls []dnode
			leaves(jarr(ds), &ls)
			parsed, err := depend.DecodeDependencies([]byte(strings.TrimSpace(printDeps(jarr(ds)))))
			var pls []*depend.DependAtom
			if err == nil {
				parsedLeaves(parsed, &pls)
			}
			if err != nil || len(pls) != len(ls) {
				parseOK = false
				for _, l := range ls {
					l["a"] = len(rel)
					l["n"] = ""
					l["b"] = false
					rel = append(rel, []interface{}{})
				}
				continue
			}
			for k, l := range ls {
				l["a"] = len(rel)
				l["n"] = pls[k].PackageName()
				l["b"] = pls[k].Blocker
				rel = append(rel, matchRow(pls[k], avs[i].GetUseFlagMap()))
			}
		}
	}
	annot["rel"] = rel
	annot["parse_ok"] = parseOK
	includeBdepend := !jbool(c["nobdeps"])

	// run 1: the real GetInstalledPackageList (directory enumeration order, recorded)
	order1 := []interface{}{}
	dbp := filepath.Join(root, "var/db/pkg")
	cats, _ := lfs.Readdirnames(dbp)
	for _, cat := range cats {
		names, _ := lfs.Readdirnames(filepath.Join(dbp, cat))
		for _, nv := range names {
			if id, ok := dirToID[filepath.Join(dbp, cat, nv)]; ok {
				order1 = append(order1, id)
			}
		}
	}
	annot["order1"] = order1
	installed, err := vdb.GetInstalledPackageList(root)
	if err != nil {
		return obj("cls", "err:vdb")
	}
	r1 := resolveOnce(installed, deps, includeBdepend, dirToID)

	// run 2: same database, entries added in the generator's permutation
	avs2, err := mkAVs()
	if err != nil {
		return obj("cls", "err:setatom")
	}
	set2 := atom.NewAtomSet(atom.GroupBySlot)
	for _, iv := range jarr(c["perm"]) {
		i := jint(iv)
		if i >= 0 && i < len(avs2) {
			set2.Add(avs2[i])
		}
	}
	deps2, err := readSystem(root, c)
	if err != nil {
		return obj("cls", "err:sysset:"+errClass(err))
	}
	r2 := resolveOnce(set2, deps2, includeBdepend, dirToID)
	return obj("cls", "ran", "r1", r1.json(), "r2", r2.json())
}

// ---- worker process -------------------------------------------------------------

type c05worker struct {
	cmd *exec.Cmd
	in  io.WriteCloser
	out *bufio.Reader
}

var theWorker *c05worker

// after this many dead or hung workers the remaining resolve cases are not attempted (a
// resolver that no longer terminates would otherwise cost seconds per case)
var c05CrashBudget = 6

func startWorker() *c05worker {
	cmd := exec.Command(os.Args[0])
	cmd.Env = append(os.Environ(), "LC_C05_WORKER=1")
	in, _ := cmd.StdinPipe()
	outp, _ := cmd.StdoutPipe()
	cmd.Stderr = nil
	if err := cmd.Start(); err != nil {
		return nil
	}
	return &c05worker{cmd: cmd, in: in, out: bufio.NewReaderSize(outp, 1<<20)}
}

func (w *c05worker) kill() {
	w.in.Close()
	w.cmd.Process.Kill()
	w.cmd.Wait()
}

// viaWorker sends the case to the worker; on death or timeout reports a crash.
func viaWorker(c Case) interface{} {
	if c05CrashBudget <= 0 {
		return obj("cls", "crash-budget-exhausted")
	}
	if theWorker == nil {
		theWorker = startWorker()
		if theWorker == nil {
			return obj("cls", "harness-error:no-worker")
		}
	}
	w := theWorker
	line, _ := json.Marshal(c)
	type reply struct {
		b   []byte
		err error
	}
	ch := make(chan reply, 1)
	go func() {
		if _, err := w.in.Write(append(line, '\n')); err != nil {
			ch <- reply{nil, err}
			return
		}
		b, err := w.out.ReadBytes('\n')
		ch <- reply{b, err}
	}()
	select {
	case r := <-ch:
		if r.err != nil {
			w.kill()
			theWorker = nil
			c05CrashBudget--
			return obj("cls", "crash")
		}
		var res struct {
			Impl    interface{} `json:"impl"`
			Derived interface{} `json:"derived"`
			Pkgs    interface{} `json:"pkgs"`
		}
		if err := json.Unmarshal(r.b, &res); err != nil {
			return obj("cls", "harness-error:bad-worker-reply")
		}
		if res.Derived != nil {
			c["derived"] = res.Derived
		}
		if res.Pkgs != nil {
			c["pkgs"] = res.Pkgs
		}
		return res.Impl
	case <-time.After(6 * time.Second):
		w.kill()
		theWorker = nil
		c05CrashBudget--
		return obj("cls", "crash")
	}
}

func workerMain() {
	debug.SetMaxStack(24 << 20)
	sc := bufio.NewScanner(os.Stdin)
	sc.Buffer(make([]byte, 1<<20), 1<<28)
	out := bufio.NewWriter(os.Stdout)
	for sc.Scan() {
		var c Case
		if err := json.Unmarshal(sc.Bytes(), &c); err != nil {
			fmt.Fprintln(out, `{"impl":{"cls":"harness-error:bad-json"}}`)
			out.Flush()
			continue
		}
		impl := guarded(func() interface{} { return c05Resolve(c) })
		b, _ := json.Marshal(obj("impl", impl, "derived", c["derived"], "pkgs", c["pkgs"]))
		out.Write(b)
		out.WriteByte('\n')
		out.Flush()
	}
	os.Exit(0)
}

// ---- system set (profile chain) ---------------------------------------------------

func c05Sysset(c Case) interface{} {
	root := c05Scratch()
	defer os.RemoveAll(root)
	for _, dv := range jarr(c["dirs"]) {
		d := jmap(dv)
		dir := filepath.Join(root, jstr(d["path"]))
		os.MkdirAll(dir, 0755)
		if _, ok := d["packages"]; ok {
			ls := []string{}
			for _, l := range jarr(d["packages"]) {
				ls = append(ls, jstr(l))
			}
			writeFile(filepath.Join(dir, "packages"), strings.Join(ls, "\n")+"\n")
		}
		if _, ok := d["parent"]; ok {
			ls := []string{}
			for _, l := range jarr(d["parent"]) {
				ls = append(ls, jstr(l))
			}
			writeFile(filepath.Join(dir, "parent"), strings.Join(ls, "\n")+"\n")
		}
	}
	deps, err := profile.ReadSystemSet(filepath.Join(root, jstr(c["start"])))
	if err != nil {
		return obj("cls", errClass(err), "atoms", []interface{}{})
	}
	atoms := []interface{}{}
	for _, a := range deps.Atoms {
		atoms = append(atoms, a.String())
	}
	return obj("cls", "ok", "atoms", atoms)
}

// ---- AtomSet.Add ----------------------------------------------------------------

func c05AtomSet(c Case) interface{} {
	as := atom.NewAtomSet(atom.GroupBySlot)
	keys := []interface{}{}
	for _, av := range jarr(c["adds"]) {
		a := jmap(av)
		ca, err := atom.NewConcreteAtom(jstr(a["name"]) + ":" + jstr(a["slot"]))
		if err != nil {
			return obj("cls", "err:atom")
		}
		keys = append(keys, ca.GetSlot())
		as.Add(ca)
	}
	c["keys"] = keys
	names := []string{}
	for n := range as.Atoms {
		names = append(names, n)
	}
	sort.Strings(names)
	groups := []interface{}{}
	for _, n := range names {
		ks := []interface{}{}
		for _, a := range as.GetByName(n) {
			ks = append(ks, a.GetSlot())
		}
		groups = append(groups, obj("name", n, "keys", ks))
	}
	sorted := []interface{}{}
	for _, a := range as.SortedAtoms() {
		sorted = append(sorted, a.PackageName()+":"+a.GetSlot())
	}
	return obj("cls", "ok", "groups", groups, "sorted", sorted)
}

// ---- UserEnteredDependencies.Add / Remove ------------------------------------------

func c05Ued(c Case) interface{} {
	ued := depend.NewUserEnteredDependencies()
	trace := []interface{}{}
	for _, sv := range jarr(c["steps"]) {
		st := jmap(sv)
		ret := true
		if jstr(st["op"]) == "add" {
			ret = ued.Add(jstr(st["s"])) == nil
		} else {
			ret = ued.Remove(jstr(st["s"]))
		}
		atoms := []interface{}{}
		for _, a := range ued.Atoms {
			atoms = append(atoms, a.String())
		}
		trace = append(trace, obj("ret", ret, "atoms", atoms))
	}
	return obj("cls", "ok", "trace", trace)
}

func genUedCase(g *Gen) Case {
	// several atoms for one package (another slot, a version bound, a blocker): each is an entry of its own
	pool := []string{"app-a/foo", "dev-b/bar", "sys-c/baz", ">=app-a/qux-1.0", "sys-c/lib:2", "sys-c/lib:3",
		"app-a/foo:1", ">=app-a/foo-2", "!dev-b/bar", "<app-a/qux-3"}
	steps := []interface{}{}
	for k := 2 + g.Intn(8); k > 0; k-- {
		op := "add"
		if g.Chance(2, 5) {
			op = "remove"
		}
		if g.Chance(1, 5) {
			// strings no atom parser accepts: refused, and the set must be as before — also
			// when the same string comes again or a valid atom follows
			bad := []string{"not an atom", ">=app-a/qux", "app-a/", "=dev-b/bar", "/foo", "app-a/foo[", "!!"}
			steps = append(steps, dnode{"op": op, "s": bad[g.Intn(len(bad))], "invalid": true})
			continue
		}
		steps = append(steps, dnode{"op": op, "s": pool[g.Intn(len(pool))]})
	}
	return Case{"op": "c05.ued", "steps": steps}
}

// ---- generators -------------------------------------------------------------------

var c05Cats = []string{"app-a", "dev-b", "sys-c"}
var c05Names = []string{"foo", "bar", "baz", "qux", "lib", "tool"}
var c05Flags = []string{"ssl", "gtk", "doc", "static", "x11"}
var c05Slots = []string{"0", "1", "2", "3", "1.2", "10", "2/2.1", "4/4"}
var c05Vers = []string{"1.0", "2.1-r1", "3", "0.9.8", "1.10", "2.0_rc1", "4.5.6-r2"}

// c05Tight: percent of atoms built from values that need not match anything (per case)
var c05Tight = 10

type gname struct{ cat, name string }

type gdb struct {
	names []gname
	pkgs  []dnode
}

func slotBase(s string) string {
	if i := strings.Index(s, "/"); i >= 0 {
		return s[:i]
	}
	return s
}

func genDb(g *Gen) *gdb {
	db := &gdb{}
	nn := 1 + g.Intn(5)
	seen := map[gname]bool{}
	for len(db.names) < nn {
		n := gname{c05Cats[g.Intn(len(c05Cats))], c05Names[g.Intn(len(c05Names))]}
		if !seen[n] {
			seen[n] = true
			db.names = append(db.names, n)
		}
	}
	for _, n := range db.names {
		k := 1
		if g.Chance(1, 3) {
			k = 2 + g.Intn(3)
		}
		slots := map[string]bool{}
		vers := map[string]bool{}
		for j := 0; j < k; j++ {
			slot := c05Slots[g.Intn(len(c05Slots))]
			ver := c05Vers[g.Intn(len(c05Vers))]
			if slots[slotBase(slot)] || vers[ver] {
				continue
			}
			slots[slotBase(slot)] = true
			vers[ver] = true
			iuse := []interface{}{}
			use := []interface{}{}
			for _, f := range c05Flags {
				if g.Chance(3, 5) {
					pre := ""
					if g.Chance(1, 5) {
						pre = g.Pick("+", "-")
					}
					iuse = append(iuse, pre+f)
					if g.Chance(1, 2) {
						use = append(use, f)
					}
				}
			}
			p := dnode{"cat": n.cat, "name": n.name, "ver": ver, "slot": slot, "iuse": iuse, "use": use,
				"deps": dnode{}}
			if g.Chance(1, 4) {
				p["iuse_effective"] = true
			}
			db.pkgs = append(db.pkgs, p)
		}
	}
	return db
}

// genAtomText builds an atom aimed at one of the database's names (or a missing package).
func genAtomText(g *Gen, db *gdb, allowUseDep bool, pMissing int) string {
	if g.Intn(100) < pMissing {
		return g.Pick("app-a/missing", "dev-b/absent", ">=sys-c/nothing-1.0", "app-a/missing:2")
	}
	n := db.names[g.Intn(len(db.names))]
	base := n.cat + "/" + n.name
	// pick a reference package of that name for version/slot values
	var ref dnode
	for _, p := range db.pkgs {
		if jstr(p["cat"]) == n.cat && jstr(p["name"]) == n.name && (ref == nil || g.Chance(1, 2)) {
			ref = p
		}
	}
	ver := c05Vers[g.Intn(len(c05Vers))]
	slot := c05Slots[g.Intn(len(c05Slots))]
	risky := g.Intn(100) < c05Tight // may use values that match nothing
	if ref != nil && !risky {
		ver = jstr(ref["ver"])
		slot = jstr(ref["slot"])
	}
	slot = slotBase(slot)
	s := base
	switch g.Intn(12) {
	case 0:
		s = ">=" + base + "-" + ver
	case 1:
		s = "=" + base + "-" + ver
	case 2:
		if risky {
			s = "<" + base + "-" + ver
		}
	case 3:
		s = "~" + base + "-" + strings.SplitN(ver, "-r", 2)[0]
	case 4:
		s = "<=" + base + "-" + ver
	case 5:
		if risky {
			s = ">" + base + "-" + ver
		}
	}
	switch g.Intn(8) {
	case 0, 1:
		s += ":" + slot
	case 2:
		s += ":*"
	case 3:
		s += ":" + slot + "="
	}
	if allowUseDep && g.Chance(1, 6) {
		f := c05Flags[g.Intn(len(c05Flags))]
		if risky {
			s += "[" + g.Pick(f, "-"+f, f+"?", f+"=", "!"+f+"=", f+"(+)", f+"(-)", "!"+f+"?") + "]"
		} else if ref != nil {
			on := false
			for _, u := range jarr(ref["use"]) {
				if jstr(u) == f {
					on = true
				}
			}
			if on {
				s += "[" + g.Pick(f, f+"(+)", f+"(-)") + "]"
			} else {
				s += "[" + g.Pick("-"+f+"(-)", "-"+f+"(+)") + "]"
			}
		}
	}
	return s
}

func genDepList(g *Gen, db *gdb, depth int, inChoice bool, n int, pMissing int) []interface{} {
	out := []interface{}{}
	for i := 0; i < n; i++ {
		r := g.Intn(100)
		if depth >= 3 {
			r = 0
		}
		switch {
		case r < 55:
			t := genAtomText(g, db, true, pMissing)
			if !inChoice && g.Chance(1, 9) {
				t = g.Pick("!", "!!") + t
			}
			out = append(out, mkAtom(t))
		case r < 63:
			out = append(out, mkGroup("all", "", genDepList(g, db, depth+1, inChoice, 1+g.Intn(3), pMissing)))
		case r < 76:
			pm := pMissing
			if g.Chance(1, 2) {
				pm = 40
			}
			out = append(out, mkGroup("any", "", genDepList(g, db, depth+1, true, 1+g.Intn(3), pm)))
		case r < 82:
			out = append(out, mkGroup("one", "", genDepList(g, db, depth+1, true, 1+g.Intn(3), pMissing)))
		case r < 86:
			out = append(out, mkGroup("most", "", genDepList(g, db, depth+1, true, 1+g.Intn(3), pMissing)))
		case r < 94:
			out = append(out, mkGroup("use", c05Flags[g.Intn(len(c05Flags))], genDepList(g, db, depth+1, inChoice, 1+g.Intn(2), pMissing)))
		default:
			out = append(out, mkGroup("nuse", c05Flags[g.Intn(len(c05Flags))], genDepList(g, db, depth+1, inChoice, 1+g.Intn(2), pMissing)))
		}
	}
	return out
}

func genResolveCase(g *Gen) Case {
	db := genDb(g)
	pMissing := 0
	c05Tight = 0
	switch g.Intn(6) {
	case 0:
		pMissing = 5
		c05Tight = 25
	case 1:
		pMissing = 2
		c05Tight = 8
	case 2:
		c05Tight = 4
	}
	for _, p := range db.pkgs {
		deps := jmap(p["deps"])
		for _, cl := range depClasses {
			if g.Chance(1, 2) {
				n := g.Intn(3)
				if cl == "RDEPEND" {
					n = 1 + g.Intn(3)
				}
				deps[cl] = genDepList(g, db, 0, false, n, pMissing)
			}
		}
	}
	pkgs := []interface{}{}
	for _, p := range db.pkgs {
		pkgs = append(pkgs, p)
	}
	seen := map[string]bool{}
	atoms := func(n int) []interface{} {
		out := []interface{}{}
		for i := 0; i < n; i++ {
			t := genAtomText(g, db, false, pMissing/2)
			if g.Chance(1, 12) {
				t = "!" + t
			}
			if !seen[t] {
				seen[t] = true
				out = append(out, t)
			}
		}
		return out
	}
	prof := atoms(1 + g.Intn(3))
	extra := atoms(g.Intn(3))
	perm := g.Perm(len(pkgs))
	if g.Chance(1, 4) {
		sort.Ints(perm) // ascending creation order: the order that exposes the Add defect
	}
	pl := []interface{}{}
	for _, v := range perm {
		pl = append(pl, v)
	}
	return Case{"op": "c05.resolve", "pkgs": pkgs, "profile": prof, "extra": extra,
		"nobdeps": g.Chance(1, 3), "perm": pl}
}

// multi-slot focus: one name with 3-4 slots and a choice group over the bare name
func genSlotCase(g *Gen) Case {
	n := gname{c05Cats[g.Intn(3)], c05Names[g.Intn(6)]}
	m := gname{c05Cats[g.Intn(3)], "main"}
	slots := []string{"1", "2", "3", "4", "10"}
	g.Shuffle(len(slots), func(a, b int) { slots[a], slots[b] = slots[b], slots[a] })
	k := 3 + g.Intn(2)
	pkgs := []interface{}{}
	for j := 0; j < k; j++ {
		pkgs = append(pkgs, dnode{"cat": n.cat, "name": n.name, "ver": fmt.Sprintf("%d.0", j+1), "slot": slots[j],
			"iuse": []interface{}{}, "use": []interface{}{}, "deps": dnode{}})
	}
	kind := g.Pick("one", "any", "most", "all")
	pkgs = append(pkgs, dnode{"cat": m.cat, "name": m.name, "ver": "1", "slot": "0", "iuse": []interface{}{},
		"use": []interface{}{}, "deps": dnode{"RDEPEND": []interface{}{
			mkGroup(kind, "", []interface{}{mkAtom(n.cat + "/" + n.name)})}}})
	perm := g.Perm(len(pkgs))
	if g.Chance(1, 2) {
		// ascending slot order
		idx := []int{}
		for i := 0; i < k; i++ {
			idx = append(idx, i)
		}
		sort.Slice(idx, func(a, b int) bool {
			var x, y int
			fmt.Sscan(slots[idx[a]], &x)
			fmt.Sscan(slots[idx[b]], &y)
			return x < y
		})
		perm = append(idx, k)
	}
	pl := []interface{}{}
	for _, v := range perm {
		pl = append(pl, v)
	}
	return Case{"op": "c05.resolve", "pkgs": pkgs, "profile": []interface{}{m.cat + "/" + m.name},
		"extra": []interface{}{}, "nobdeps": false, "perm": pl}
}

func genSyssetCase(g *Gen) Case {
	nd := 1 + g.Intn(4)
	atomsPool := []string{"app-a/foo", "dev-b/bar", "sys-c/baz", ">=app-a/qux-1.0", "sys-c/lib:2", "dev-b/tool"}
	dirs := []interface{}{}
	for i := 0; i < nd; i++ {
		d := dnode{"path": fmt.Sprintf("profiles/p%d", i)}
		if g.Chance(5, 6) {
			lines := []interface{}{}
			for k := g.Intn(4); k > 0; k-- {
				a := atomsPool[g.Intn(len(atomsPool))]
				switch g.Intn(10) {
				case 0:
					lines = append(lines, "-*"+a)
				case 1:
					lines = append(lines, a)
				case 2:
					lines = append(lines, "# comment")
				case 3:
					lines = append(lines, "")
				default:
					lines = append(lines, "*"+a)
				}
			}
			d["packages"] = lines
		}
		// parents: only higher-numbered directories (acyclic); diamonds possible
		if i+1 < nd && g.Chance(4, 5) {
			ps := []interface{}{}
			for j := i + 1; j < nd; j++ {
				if g.Chance(1, 2) || len(ps) == 0 && j == nd-1 {
					ps = append(ps, fmt.Sprintf("../p%d", j))
				}
			}
			if g.Chance(1, 6) {
				ps = append(ps, "")
			}
			d["parent"] = ps
		}
		dirs = append(dirs, d)
	}
	return Case{"op": "c05.sysset", "dirs": dirs, "start": "profiles/p0"}
}

func genAtomSetCase(g *Gen) Case {
	adds := []interface{}{}
	names := []string{"dev-lang/php", "virtual/ada", "sys-c/lib"}
	for k := 1 + g.Intn(8); k > 0; k-- {
		adds = append(adds, dnode{"name": names[g.Intn(len(names))], "slot": g.Pick("0", "1", "2", "3", "7.2", "7.3", "7.4", "10", "11")})
	}
	return Case{"op": "c05.atomset", "adds": adds}
}

func init() {
	if os.Getenv("LC_C05_WORKER") == "1" {
		workerMain()
	}
	ops["c05.resolve"] = viaWorker
	ops["c05.sysset"] = c05Sysset
	ops["c05.atomset"] = c05AtomSet
	ops["c05.ued"] = c05Ued

	register("c05", func(g *Gen, tier string, emit func(Case)) {
		n := 220
		if tier == "thorough" {
			n = 6000
		}
		for i := 0; i < n; i++ {
			emit(genResolveCase(g))
			if i%4 == 0 {
				emit(genSlotCase(g))
			}
			if i%2 == 0 {
				emit(genSyssetCase(g))
			}
			if i%2 == 1 {
				emit(genAtomSetCase(g))
			}
			if i%4 == 3 {
				emit(genUedCase(g))
			}
		}
		if theWorker != nil {
			theWorker.kill()
			theWorker = nil
		}
	})
}
