package main

import (
	"bytes"
	"fmt"
	"io/ioutil"
	"os"
	"os/exec"
	"strings"

	"potano.layercake/fs"
)

// C10, stagemaker half: run `stagemaker -generate` / `-list` with an output that accepts
// only `limit` bytes (file-size limit in 512-byte blocks, or /dev/full) and look at the
// exit status.

func runOutFault(c Case) interface{} {
	d := descOf(c["desc"])
	scratch := os.Getenv("VERIF_SCRATCH")
	if scratch == "" {
		scratch = "/var/tmp"
	}
	dir, err := ioutil.TempDir(scratch, "outfault-")
	if err != nil {
		return obj("harness-error", err.Error())
	}
	defer exec.Command("rm", "-rf", dir).Run()
	root := dir + "/root"
	if _, err := buildTree(root, d.Objs); err != nil {
		return obj("harness-error", err.Error())
	}
	bin := os.Getenv("VERIF_STAGEMAKER")
	mode := str(c["mode"])
	args := []string{"-root", root}
	switch mode {
	case "generate":
		args = append(args, "-generate", "-compress", str(c["compress"]))
	case "listfiles":
		args = append(args, "-list", "stage", "-files")
	case "liststage":
		args = append(args, "-list", "stage")
	case "listsystem":
		args = append(args, "-list", "system")
	}
	// undisturbed run: the complete output
	full := dir + "/full.out"
	code, _, se := runCmd(dir, bin, append(args, "-o", full)...)
	if code == 1 {
		// stagemaker refuses this root (FIFO among the files, symlink chain too long, ...): it
		// reported failure, and there is no output whose completeness could be in question
		c["undisturbed"] = "fails"
		return obj("full", float64(0), "runs", []interface{}{})
	}
	if code != 0 {
		return obj("harness-error", "undisturbed run failed: "+se)
	}
	fb, _ := ioutil.ReadFile(full)
	c["full"] = float64(len(fb))
	// "complete": for listings the same bytes; for archives (whose synthesised members carry
	// the time of the run, and whose compressed form may differ from run to run) a readable
	// archive with the same number of members and an intact end
	archiveMembers := func(p string) int {
		src := p
		if str(c["compress"]) == "gzip" {
			src = p + ".tar"
			cmd := exec.Command("sh", "-c", "gzip -dc '"+p+"' > '"+src+"'")
			if cmd.Run() != nil {
				return -1
			}
		}
		ms, err := readArchive(src)
		if err != nil {
			return -1
		}
		return len(ms)
	}
	fullMembers := -2
	if mode == "generate" {
		fullMembers = archiveMembers(full)
	}
	outs := []interface{}{}
	limits, _ := c["limits"].([]interface{})
	if b, _ := c["boundary"].(bool); !b {
		// the exact boundary: one block too few, exactly enough
		blocks := (len(fb) + 511) / 512
		if str(c["compress"]) == "none" || mode != "generate" {
			if blocks > 0 {
				limits = append(limits, float64(blocks-1))
			}
			limits = append(limits, float64(blocks))
		} else {
			// the size of a compressed archive differs by a few bytes from run to run (the
			// synthesised members carry the time of the run): stay clear of the boundary
			kept := []interface{}{}
			for _, lv := range limits {
				if d := int(lv.(float64))*512 - len(fb); lv.(float64) < 0 || d < -2048 || d > 2048 {
					kept = append(kept, lv)
				}
			}
			limits = kept
			if blocks > 5 {
				limits = append(limits, float64(blocks-5))
			}
			limits = append(limits, float64(blocks+5))
		}
		c["limits"] = limits
		c["boundary"] = true
	}
	for _, lv := range limits {
		out := dir + "/lim.out"
		os.Remove(out)
		var cmd *exec.Cmd
		lim := int(lv.(float64))
		if lim < 0 {
			cmd = exec.Command(bin, append(args, "-o", "/dev/full")...)
		} else {
			quoted := []string{}
			for _, a := range append([]string{bin}, append(args, "-o", out)...) {
				quoted = append(quoted, "'"+strings.Replace(a, "'", "'\\''", -1)+"'")
			}
			cmd = exec.Command("sh", "-c", fmt.Sprintf("ulimit -f %d; exec %s", lim, strings.Join(quoted, " ")))
		}
		cmd.Dir = dir
		var eb bytes.Buffer
		cmd.Stderr = &eb
		err := cmd.Run()
		cls := "ok"
		if err != nil {
			cls = "err"
		}
		ob, _ := ioutil.ReadFile(out)
		complete := lim >= 0 && bytes.Equal(ob, fb)
		if mode == "generate" && lim >= 0 {
			complete = archiveMembers(out) == fullMembers && (str(c["compress"]) != "none" || len(ob) == len(fb))
		}
		outs = append(outs, obj("limit", float64(lim), "cls", cls, "complete", complete))
	}
	return obj("full", float64(len(fb)), "runs", outs)
}

// the text output cursor on its own (listings of stagemaker, layerconfig rewrites): n lines
// through Println or Printf, the k-th write failing once (an error that does not persist:
// a signal-interrupted or short write); Close must report it whatever comes after
func runCursorSeq(c Case) interface{} {
	scratch := os.Getenv("VERIF_SCRATCH")
	if scratch == "" {
		scratch = os.TempDir()
	}
	f, err := ioutil.TempFile(scratch, "cursor")
	if err != nil {
		return obj("harness-error", err.Error())
	}
	name := f.Name()
	f.Close()
	defer os.Remove(name)
	n := int(num(c["n"]))
	k := int(num(c["fault"]))
	usePrintf, _ := c["printf"].(bool)
	oldW, oldH := fs.WriteOK, fs.VerifHook
	fs.WriteOK = fs.MakePretender(false, false, nil)
	writes := 0
	fs.VerifHook = func(kind, arg string) error {
		if kind == "write" {
			writes++
			if writes == k {
				return fmt.Errorf("injected write error")
			}
		}
		return nil
	}
	defer func() { fs.WriteOK, fs.VerifHook = oldW, oldH }()
	return guarded(func() interface{} {
		cur, err := fs.NewTextOutputFileCursor(name)
		if err != nil {
			return obj("cls", "err:open")
		}
		for i := 0; i < n; i++ {
			if usePrintf {
				cur.Printf("line %d\n", i)
			} else {
				cur.Println(fmt.Sprintf("line %d", i))
			}
		}
		cerr := cur.Close()
		b, _ := ioutil.ReadFile(name)
		return obj("cls", "ok", "closeErr", cerr != nil, "lines", float64(strings.Count(string(b), "\n")))
	})
}

func init() {
	ops["cursor.seq"] = runCursorSeq
	ops["stage.outfault"] = runOutFault
	register("c10-stage", func(g *Gen, tier string, emit func(Case)) {
		for _, pf := range []bool{false, true} {
			for n := 0; n <= 5; n++ {
				for k := 0; k <= n+1; k++ {
					emit(Case{"op": "cursor.seq", "n": float64(n), "fault": float64(k), "printf": pf})
				}
			}
		}
		n := 4
		if tier == "thorough" {
			n = 60
		}
		for i := 0; i < n; i++ {
			d := genRoot(g, g.Intn(4))
			d.AddFiles = nil
			mode := g.Pick("generate", "generate", "listfiles", "liststage", "listsystem")
			if i < 4 {
				mode = []string{"generate", "listfiles", "generate", "listsystem"}[i]
			}
			compress := "none"
			if mode == "generate" && i%3 == 2 {
				compress = "gzip"
			}
			// limits in 512-byte blocks: /dev/full, nothing, the first blocks, and a spread;
			// the harness appends the exact boundary values once the full size is known
			limits := []interface{}{float64(-1), float64(0), float64(1), float64(2), float64(3), float64(5), float64(8),
				float64(13), float64(21), float64(40), float64(80), float64(200), float64(100000)}
			emit(Case{"op": "stage.outfault", "desc": d.toJSON(), "mode": mode, "compress": compress, "limits": limits})
		}
	})
}
