package main

// C06/C07 support: materialise a described tree, snapshot it with lstat, read archives back.

import (
	"archive/tar"
	"bytes"
	"crypto/sha256"
	"encoding/hex"
	"fmt"
	"io"
	"math/rand"
	"os"
	"path/filepath"
	"sort"
	"strings"
	"syscall"
	"unsafe"
)

func (o fobj) content() []byte {
	if o.HasData {
		return []byte(o.Data)
	}
	r := rand.New(rand.NewSource(o.Seed))
	buf := make([]byte, o.Size)
	r.Read(buf)
	return buf
}

const atFdcwd = -100
const atSymlinkNofollow = 0x100

func lutimes(p string, sec int64) error {
	ts := [2]syscall.Timespec{{Sec: sec, Nsec: 0}, {Sec: sec, Nsec: 0}}
	bp, err := syscall.BytePtrFromString(p)
	if err != nil {
		return err
	}
	fd := atFdcwd
	_, _, e := syscall.Syscall6(syscall.SYS_UTIMENSAT, uintptr(fd), uintptr(unsafe.Pointer(bp)),
		uintptr(unsafe.Pointer(&ts[0])), atSymlinkNofollow, 0, 0)
	if e != 0 {
		return e
	}
	return nil
}

func lsetxattr(p, name, val string) error {
	bp, _ := syscall.BytePtrFromString(p)
	np, _ := syscall.BytePtrFromString(name)
	var vp unsafe.Pointer
	b := []byte(val)
	if len(b) > 0 {
		vp = unsafe.Pointer(&b[0])
	} else {
		var z byte
		vp = unsafe.Pointer(&z)
	}
	_, _, e := syscall.Syscall6(syscall.SYS_LSETXATTR, uintptr(unsafe.Pointer(bp)), uintptr(unsafe.Pointer(np)),
		uintptr(vp), uintptr(len(b)), 0, 0)
	if e != 0 {
		return e
	}
	return nil
}

func llistxattr(p string) ([]string, error) {
	bp, _ := syscall.BytePtrFromString(p)
	size := 1024
	for {
		buf := make([]byte, size)
		n, _, e := syscall.Syscall(syscall.SYS_LLISTXATTR, uintptr(unsafe.Pointer(bp)), uintptr(unsafe.Pointer(&buf[0])), uintptr(size))
		if e == syscall.ERANGE {
			size *= 4
			continue
		}
		if e != 0 {
			return nil, e
		}
		out := []string{}
		for _, nm := range bytes.Split(buf[:n], []byte{0}) {
			if len(nm) > 0 {
				out = append(out, string(nm))
			}
		}
		sort.Strings(out)
		return out, nil
	}
}

func lgetxattr(p, name string) (string, error) {
	bp, _ := syscall.BytePtrFromString(p)
	np, _ := syscall.BytePtrFromString(name)
	size := 4096
	for {
		buf := make([]byte, size)
		n, _, e := syscall.Syscall6(syscall.SYS_LGETXATTR, uintptr(unsafe.Pointer(bp)), uintptr(unsafe.Pointer(np)),
			uintptr(unsafe.Pointer(&buf[0])), uintptr(size), 0, 0)
		if e == syscall.ERANGE {
			size *= 4
			continue
		}
		if e != 0 {
			return "", e
		}
		return string(buf[:n]), nil
	}
}

func lreadlink(p string) string {
	size := 512
	for {
		buf := make([]byte, size)
		n, err := syscall.Readlink(p, buf)
		if err != nil {
			return ""
		}
		if n < size {
			return string(buf[:n])
		}
		size *= 4
	}
}

func mkdev(maj, min uint32) int {
	a, b := uint64(maj), uint64(min)
	return int((a&0xfff)<<8 | (a&^0xfff)<<32 | (b & 0xff) | (b&^0xff)<<12)
}

// buildTree creates the objects below base.  Returns notes about attributes the sandbox refused.
func buildTree(base string, objs []fobj) (notes []string, err error) {
	if err = os.MkdirAll(base, 0755); err != nil {
		return
	}
	for _, o := range objs {
		p := base + o.P
		switch o.T {
		case "d":
			if o.P != "/" {
				err = os.Mkdir(p, 0755)
			}
		case "f":
			err = os.WriteFile(p, o.content(), 0644)
		case "l":
			err = os.Symlink(o.Link, p)
		case "h":
			err = os.Link(base+o.Link, p)
		case "c":
			err = syscall.Mknod(p, syscall.S_IFCHR|0600, mkdev(o.Maj, o.Min))
		case "b":
			err = syscall.Mknod(p, syscall.S_IFBLK|0600, mkdev(o.Maj, o.Min))
		case "p":
			err = syscall.Mknod(p, syscall.S_IFIFO|0600, 0)
		default:
			err = fmt.Errorf("unknown object type %q", o.T)
		}
		if err != nil {
			return nil, fmt.Errorf("create %s: %v", o.P, err)
		}
	}
	// attributes (children first so that nothing later touches a finished directory)
	for i := len(objs) - 1; i >= 0; i-- {
		o := objs[i]
		if o.T == "h" {
			continue
		}
		p := base + o.P
		if e := os.Lchown(p, int(o.Uid), int(o.Gid)); e != nil {
			return nil, fmt.Errorf("lchown %s: %v", o.P, e)
		}
		if o.T != "l" {
			if e := syscall.Chmod(p, o.Mode); e != nil {
				return nil, fmt.Errorf("chmod %s: %v", o.P, e)
			}
		}
		for _, kv := range o.Xattrs {
			if e := lsetxattr(p, kv[0], kv[1]); e != nil {
				notes = append(notes, "xattr-refused:"+strings.SplitN(kv[0], ".", 2)[0])
			}
		}
	}
	for i := len(objs) - 1; i >= 0; i-- {
		o := objs[i]
		if o.T == "h" {
			continue
		}
		if e := lutimes(base+o.P, o.Mtime); e != nil {
			return nil, fmt.Errorf("utimes %s: %v", o.P, e)
		}
	}
	return notes, nil
}

// lrec is what lstat & friends say about one object: the source data of C07.
type lrec struct {
	Kind   string
	Mode   uint32
	Uid    uint32
	Gid    uint32
	Mtime  int64
	Size   int64
	Nlink  uint64
	Dev    uint64
	Ino    uint64
	Rdev   uint64
	Link   string
	Xattrs [][2]string
	Sha    string
}

func kindOf(mode uint32) string {
	switch mode & syscall.S_IFMT {
	case syscall.S_IFREG:
		return "f"
	case syscall.S_IFDIR:
		return "d"
	case syscall.S_IFLNK:
		return "l"
	case syscall.S_IFCHR:
		return "c"
	case syscall.S_IFBLK:
		return "b"
	case syscall.S_IFIFO:
		return "p"
	case syscall.S_IFSOCK:
		return "s"
	}
	return "?"
}

func shaOf(b []byte) string {
	h := sha256.Sum256(b)
	return hex.EncodeToString(h[:8])
}

func lstatRec(p string) (lrec, bool) {
	var st syscall.Stat_t
	if err := syscall.Lstat(p, &st); err != nil {
		return lrec{}, false
	}
	r := lrec{Kind: kindOf(st.Mode), Mode: st.Mode, Uid: st.Uid, Gid: st.Gid, Mtime: st.Mtim.Sec, Size: st.Size,
		Nlink: uint64(st.Nlink), Dev: st.Dev, Ino: st.Ino, Rdev: st.Rdev}
	if r.Kind == "l" {
		r.Link = lreadlink(p)
	}
	if names, err := llistxattr(p); err == nil {
		for _, n := range names {
			if v, e := lgetxattr(p, n); e == nil {
				r.Xattrs = append(r.Xattrs, [2]string{n, v})
			}
		}
	}
	if r.Kind == "f" {
		data, _ := os.ReadFile(p)
		r.Sha = shaOf(data)
	}
	return r, true
}

func xattrsJSON(xs [][2]string) []interface{} {
	out := []interface{}{}
	for _, kv := range xs {
		out = append(out, []interface{}{hx(kv[0]), hx(kv[1])})
	}
	return out
}

func (r lrec) toJSON(key string) map[string]interface{} {
	return obj("p", hx(key), "kind", r.Kind, "mode", r.Mode, "uid", r.Uid, "gid", r.Gid, "mtime", r.Mtime,
		"size", r.Size, "nlink", r.Nlink, "dev", fmt.Sprint(r.Dev), "ino", fmt.Sprint(r.Ino), "rdev", fmt.Sprint(r.Rdev),
		"link", hx(r.Link), "xattrs", xattrsJSON(r.Xattrs), "sha", r.Sha)
}

// snapshot walks base and returns records keyed sym+relative path (sym itself for the base).
func snapshot(base, sym string, into map[string]lrec) {
	filepath.Walk(base, func(p string, _ os.FileInfo, err error) error {
		if r, ok := lstatRec(p); ok {
			rel := p[len(base):]
			into[sym+rel] = r
		}
		return nil
	})
}

// ---------------------------------------------------------------- archive

type member struct {
	Name   string
	Type   string
	Link   string
	Perm   int64
	Uid    int
	Gid    int
	Mtime  int64
	Size   int64
	Maj    int64
	Min    int64
	Xattrs [][2]string
	Sha    string
}

func tarType(t byte) string {
	switch t {
	case tar.TypeReg, tar.TypeRegA:
		return "f"
	case tar.TypeDir:
		return "d"
	case tar.TypeSymlink:
		return "l"
	case tar.TypeLink:
		return "h"
	case tar.TypeChar:
		return "c"
	case tar.TypeBlock:
		return "b"
	case tar.TypeFifo:
		return "p"
	}
	return fmt.Sprintf("?%d", t)
}

func readArchive(p string) ([]member, error) {
	fh, err := os.Open(p)
	if err != nil {
		return nil, err
	}
	defer fh.Close()
	tr := tar.NewReader(fh)
	out := []member{}
	for {
		hdr, err := tr.Next()
		if err == io.EOF {
			break
		}
		if err != nil {
			return out, err
		}
		m := member{Name: hdr.Name, Type: tarType(hdr.Typeflag), Link: hdr.Linkname, Perm: hdr.Mode & 07777,
			Uid: hdr.Uid, Gid: hdr.Gid, Mtime: hdr.ModTime.Unix(), Size: hdr.Size, Maj: hdr.Devmajor, Min: hdr.Devminor}
		keys := []string{}
		for k := range hdr.PAXRecords {
			if strings.HasPrefix(k, "SCHILY.xattr.") {
				keys = append(keys, k)
			}
		}
		sort.Strings(keys)
		for _, k := range keys {
			m.Xattrs = append(m.Xattrs, [2]string{k[len("SCHILY.xattr."):], hdr.PAXRecords[k]})
		}
		data, err := io.ReadAll(tr)
		if err != nil {
			return out, err
		}
		m.Sha = shaOf(data)
		out = append(out, m)
	}
	return out, nil
}
