package main

// C06/C07: expansion of the getStageFileList pipeline into primitive steps, running the
// real stagemaker binary, and the deep (extract / compress) comparisons.

import (
	"bytes"
	"fmt"
	"io/ioutil"
	"os"
	"os/exec"
	"path"
	"path/filepath"
	"sort"
	"strconv"
	"strings"
	"syscall"
	"time"

	"potano.layercake/defaults"
)

const (
	ltNone = iota
	ltDir
	ltFile
	ltSymlink
	ltHardlink
	ltDevice
)

type lopts struct {
	Src     string // symbolic absolute path, "" = the name itself
	Target  string
	Skip    bool
	HasPerm bool
	And, Or uint32
	HasUid  bool
	Uid     uint32
	HasGid  bool
	Gid     uint32
	HasDev  bool
	Devtype byte
	Major   uint32
	Minor   uint32
}

func (o lopts) fill(m map[string]interface{}) {
	if o.Src != "" {
		m["src"] = hx(o.Src)
	}
	if o.Target != "" {
		m["target"] = hx(o.Target)
	}
	if o.Skip {
		m["skip"] = true
	}
	if o.HasPerm {
		m["hasPerm"] = true
		m["and"] = o.And
		m["or"] = o.Or
	}
	if o.HasUid {
		m["hasUid"] = true
		m["uid"] = o.Uid
	}
	if o.HasGid {
		m["hasGid"] = true
		m["gid"] = o.Gid
	}
	if o.HasDev {
		m["hasDev"] = true
		m["devtype"] = int(o.Devtype)
		m["major"] = o.Major
		m["minor"] = o.Minor
	}
}

type expander struct {
	root, ext string
	fs        map[string]lrec
	steps     []interface{}
	ov        map[string]lopts
	ovLtype   map[string]int
	cats      map[string]map[string]bool
	user      []interface{}
	cur       string // category being filled: sel vdb static magic std user
	mute      bool   // record the category only, emit no steps
	problems  []string
	cands     []interface{}
}

func (e *expander) real(sym string) string {
	if strings.HasPrefix(sym, "/R") {
		return e.root + sym[2:]
	}
	if strings.HasPrefix(sym, "/X") {
		return e.ext + sym[2:]
	}
	return sym
}

func (e *expander) sym(real string) string {
	if real == e.root || strings.HasPrefix(real, e.root+"/") {
		return "/R" + real[len(e.root):]
	}
	if real == e.ext || strings.HasPrefix(real, e.ext+"/") {
		return "/X" + real[len(e.ext):]
	}
	return real
}

// rec answers "what does lstat say about this (symbolic) path", consulting the real tree
// for paths the walk did not list (e.g. through a symlinked directory).
func (e *expander) rec(sym string) (lrec, bool) {
	if r, ok := e.fs[sym]; ok {
		return r, true
	}
	if r, ok := lstatRec(e.real(sym)); ok {
		e.fs[sym] = r
		return r, true
	}
	return lrec{}, false
}

func (e *expander) add(name string, ltype int, o lopts) {
	src := o.Src
	if src == "" {
		src = path.Join("/R", name)
	}
	_, exists := e.rec(src)
	if exists || !o.Skip {
		if e.cur == "user" {
			if !e.mute {
				e.user = append(e.user, []interface{}{"a", hx(name)})
			}
		} else {
			e.cats[e.cur][name] = true
		}
		if !e.mute {
			e.ov[name] = o
			e.ovLtype[name] = ltype
		}
	}
	if e.mute {
		return
	}
	m := obj("k", "add", "name", hx(name), "ltype", ltype)
	o.fill(m)
	e.steps = append(e.steps, m)
}

func hfields(line string) []string {
	var out []string
	i := 0
	for i < len(line) {
		for i < len(line) && (line[i] == ' ' || line[i] == '\t') {
			i++
		}
		if i >= len(line) {
			break
		}
		if line[i] == '"' || line[i] == '\'' {
			q := line[i]
			j := strings.IndexByte(line[i+1:], q)
			if j < 0 {
				out = append(out, line[i+1:])
				break
			}
			out = append(out, line[i+1:i+1+j])
			i = i + 1 + j + 1
			continue
		}
		j := i
		for j < len(line) && line[j] != ' ' && line[j] != '\t' {
			j++
		}
		out = append(out, line[i:j])
		i = j
	}
	return out
}

var symbolicMods = map[string][2]uint32{
	"u+x": {07777, 0100}, "a-w": {07777 &^ 0222, 0}, "+t": {07777, 01000}, "u+s": {07777, 04000}, "o-r": {07777 &^ 0004, 0},
	// several clauses, applied in order as chmod(1) does: a later clause wins over an earlier one
	"a-x,u+x":        {07777 &^ 0111, 0100},
	"-r,u+r":         {07777 &^ 0444, 0400},
	"a-rwx,u+rw,g+r": {07000, 0640},
	"u+s,a-s,g+s":    {07777 &^ 06000, 02000},
	"a-r,u+r":        {07777 &^ 0444, 0400},
}

func (e *expander) parseOpts(fields []string) (lopts, bool) {
	o := lopts{}
	for _, f := range fields {
		p := strings.IndexByte(f, '=')
		if p < 1 {
			return o, false
		}
		k, v := f[:p], f[p+1:]
		switch k {
		case "mod":
			if sm, ok := symbolicMods[v]; ok {
				o.HasPerm, o.And, o.Or = true, sm[0], sm[1]
			} else {
				n, err := strconv.ParseUint(v, 8, 32)
				if err != nil {
					return o, false
				}
				o.HasPerm, o.And, o.Or = true, 0, uint32(n)
			}
		case "uid", "gid":
			if c := strings.IndexByte(v, ':'); c >= 0 {
				a, _ := strconv.Atoi(v[:c])
				b, _ := strconv.Atoi(v[c+1:])
				o.HasGid, o.Gid, o.HasUid, o.Uid = true, uint32(a), true, uint32(b)
			} else {
				a, _ := strconv.Atoi(v)
				if k == "gid" {
					o.HasGid, o.Gid = true, uint32(a)
				} else {
					o.HasUid, o.Uid = true, uint32(a)
				}
			}
		case "src":
			switch {
			case strings.HasPrefix(v, "$$stageroot"):
				o.Src = path.Join("/R", v[len("$$stageroot"):])
			case strings.HasPrefix(v, "$EXT"):
				o.Src = path.Join("/X", v[len("$EXT"):])
			default:
				return o, false
			}
		case "dev":
			parts := strings.Split(v[1:], ":")
			a, _ := strconv.Atoi(parts[0])
			b, _ := strconv.Atoi(parts[1])
			o.HasDev, o.Devtype, o.Major, o.Minor = true, v[0], uint32(a), uint32(b)
		case "targ":
			o.Target = v
		case "absent":
			o.Skip = v == "skip"
		default:
			return o, false
		}
	}
	return o, true
}

var ltypeOf = map[string]int{"file": ltFile, "dir": ltDir, "node": ltDevice, "symlink": ltSymlink, "tbd": ltNone}

func (e *expander) globRec(pattern string, recursive bool) []string {
	matches, _ := filepath.Glob(pattern)
	if !recursive {
		return matches
	}
	var out []string
	var walk func(in []string)
	walk = func(in []string) {
		for _, m := range in {
			out = append(out, m)
			var st syscall.Stat_t
			if syscall.Lstat(m, &st) == nil && st.Mode&syscall.S_IFMT == syscall.S_IFDIR {
				fh, err := os.Open(m)
				if err != nil {
					continue
				}
				names, _ := fh.Readdirnames(-1)
				fh.Close()
				sort.Strings(names)
				for i := range names {
					names[i] = path.Join(m, names[i])
				}
				walk(names)
			}
		}
	}
	walk(matches)
	return out
}

// line mirrors ReadUserFileList/addFiles/addFromWildcard/removeFiles for one line of our
// controlled grammar (no backslash escapes).
func (e *expander) line(line string) {
	line = strings.TrimSpace(line)
	if line == "" || line[0] == '#' {
		return
	}
	f := hfields(line)
	if len(f) < 2 {
		e.problems = append(e.problems, "short line "+line)
		return
	}
	name := path.Clean(f[1]) // the name means the clean path it spells
	wild := strings.Contains(name, "*")
	if f[0] == "omit" {
		if wild {
			names := []interface{}{}
			for _, m := range e.globRec(e.root+name, false) {
				names = append(names, hx(m[len(e.root):]))
				e.user = append(e.user, []interface{}{"d", hx(m[len(e.root):])})
			}
			e.steps = append(e.steps, obj("k", "delglob", "names", names))
		} else {
			e.user = append(e.user, []interface{}{"d", hx(name)})
			e.steps = append(e.steps, obj("k", "del", "name", hx(name)))
		}
		return
	}
	lt, ok := ltypeOf[f[0]]
	o, ok2 := e.parseOpts(f[2:])
	if !ok || !ok2 {
		e.problems = append(e.problems, "cannot translate "+line)
		return
	}
	srcWild := strings.Contains(o.Src, "*")
	switch {
	case wild:
		ms := e.globRec(e.root+name, lt == ltDir)
		if len(ms) == 0 && !e.mute {
			e.steps = append(e.steps, obj("k", "fail", "why", "no matching files"))
		}
		for _, m := range ms {
			e.add(m[len(e.root):], ltNone, o)
		}
	case srcWild:
		globname := e.real(o.Src)
		chop := len(path.Dir(globname))
		ms := e.globRec(globname, lt == ltDir)
		if len(ms) == 0 && !e.mute {
			e.steps = append(e.steps, obj("k", "fail", "why", "no matching files"))
		}
		for _, m := range ms {
			o2 := o
			o2.Src = e.sym(m)
			e.add(path.Join(name, m[chop:]), ltNone, o2)
		}
	default:
		e.add(name, lt, o)
	}
}

var nogoPaths, nogoNames = map[string]bool{}, map[string]bool{}

func init() {
	for _, n := range strings.Fields(defaults.DoNotTraverse) {
		if n[0] == '/' {
			nogoPaths[n] = true
		} else {
			nogoNames[n] = true
		}
	}
}

func (e *expander) ultimate(source string) (string, bool) {
	linkCount := 1
	relPath := source
	abs := path.Join("/R", source)
	for {
		r, _ := e.rec(abs)
		target := r.Link
		if target == "" {
			return "", false
		}
		if target[0] != '/' {
			target = path.Join(path.Dir(relPath), target)
		}
		abs = path.Join("/R", target)
		if r2, ok := e.rec(abs); !ok || r2.Kind != "l" {
			return target, true
		}
		linkCount++
		if linkCount > defaults.MaxSymlinkChain {
			return "", false
		}
		relPath = target
	}
}

func (e *expander) walkLinks(dir string, cands *[]interface{}) {
	if nogoPaths[dir] {
		return
	}
	fh, err := os.Open(e.root + dir)
	if err != nil {
		return
	}
	names, _ := fh.Readdirnames(-1)
	fh.Close()
	sort.Strings(names)
	for _, match := range names {
		matchname := path.Join(dir, match)
		r, ok := e.rec(path.Join("/R", matchname))
		if !ok {
			continue
		}
		if r.Kind == "l" {
			t, fine := e.ultimate(matchname)
			*cands = append(*cands, obj("name", hx(matchname), "target", hx(t), "toolong", !fine))
		} else if r.Kind == "d" {
			if !nogoNames[match] {
				e.walkLinks(matchname, cands)
			}
		}
	}
}

func expandAll(d rootDesc, root, ext string, fs map[string]lrec) *expander {
	e := &expander{root: root, ext: ext, fs: fs, ov: map[string]lopts{}, ovLtype: map[string]int{}, cats: map[string]map[string]bool{}}
	for _, c := range []string{"sel", "vdb", "static", "magic", "std"} {
		e.cats[c] = map[string]bool{}
	}
	// 1. files of the selected packages
	e.cur = "sel"
	seen := map[string]bool{}
	installed, selNames := map[string]bool{}, map[string]bool{}
	for _, p := range d.Pkgs {
		for _, c := range p.Contents {
			installed[c.P] = true
			if p.Sel {
				selNames[c.P] = true
				if !seen[c.P] {
					seen[c.P] = true
					e.add(c.P, ltNone, lopts{Skip: true})
				}
			}
		}
	}
	// 2. unstaged map
	e.steps = append(e.steps, obj("k", "unstaged", "names", hxs(sortedKeys(installed))))
	excluded := map[string]bool{}
	for n := range installed {
		if !selNames[n] {
			excluded[n] = true
		}
	}
	// 3. missing links
	cands := []interface{}{}
	e.walkLinks("/", &cands)
	e.steps = append(e.steps, obj("k", "recover", "cands", cands))
	// 4. VDB directories of the selected packages
	e.cur = "vdb"
	e.mute = d.NoVDB
	for _, p := range d.Pkgs {
		if p.Sel {
			e.line("dir \"/var/db/pkg/" + p.Cat + "/" + p.PV + "/*\"")
		}
	}
	// 5. static /dev
	e.cur = "static"
	e.mute = d.EmptyDev
	for _, l := range strings.Split(defaults.DevDirSetup, "\n") {
		e.line(l)
	}
	for _, l := range strings.Split(defaults.DevDirExtend, "\n") {
		f := strings.Fields(l)
		if len(f) != 2 {
			continue
		}
		name := f[0]
		count, _ := strconv.Atoi(f[1])
		stem := name
		if last := name[len(name)-1]; last >= '0' && last <= '9' {
			stem = name[:len(name)-1]
		}
		for i := 1; i <= count; i++ {
			nn := fmt.Sprintf("%s%d", stem, i)
			e.cats["static"][nn] = true
			if !e.mute {
				o := e.ov[name]
				o.Minor += uint32(i)
				o.Src = ""
				e.ov[nn] = o
				e.ovLtype[nn] = ltDevice
				e.steps = append(e.steps, obj("k", "clone", "from", hx(name), "name", hx(nn), "dminor", i))
			}
		}
	}
	// 6. StageMagic
	e.cur = "magic"
	e.mute = false
	for _, l := range strings.Split(defaults.StageMagic, "\n") {
		e.line(l)
	}
	// 7. exclusion
	e.steps = append(e.steps, obj("k", "exclude"))
	// 8. standard directories
	e.cur = "std"
	for _, l := range strings.Split(defaults.StandardStageDirs, "\n") {
		e.line(l)
	}
	// 9. parent closure
	e.steps = append(e.steps, obj("k", "closure"))
	// 10. user list
	e.cur = "user"
	for _, l := range d.AddFiles {
		e.line(l)
	}
	// 11. parent closure again (after the fix of the user-entry-without-parents defect)
	e.steps = append(e.steps, obj("k", "closure"))
	e.cats["excluded"] = excluded
	e.user = append([]interface{}{}, e.user...)
	e.cands = cands
	return e
}

func (e *expander) catsJSON(d rootDesc, cands []interface{}) map[string]interface{} {
	m := obj("novdb", d.NoVDB, "emptydev", d.EmptyDev, "user", e.user, "cands", e.cands)
	for k, s := range e.cats {
		m[k] = hxs(sortedKeys(s))
	}
	return m
}

func (e *expander) ovJSON() []interface{} {
	names := make([]string, 0, len(e.ov))
	for n := range e.ov {
		names = append(names, n)
	}
	sort.Strings(names)
	out := []interface{}{}
	for _, n := range names {
		m := obj("name", hx(n), "ltype", e.ovLtype[n])
		e.ov[n].fill(m)
		out = append(out, m)
	}
	return out
}

// ---------------------------------------------------------------- running

var stageCounter int

func runCmd(dir string, name string, args ...string) (int, string, string) {
	cmd := exec.Command(name, args...)
	cmd.Dir = dir
	var so, se bytes.Buffer
	cmd.Stdout, cmd.Stderr = &so, &se
	err := cmd.Run()
	code := 0
	if err != nil {
		code = 1
		if ee, ok := err.(*exec.ExitError); ok {
			code = ee.ExitCode()
		}
	}
	return code, so.String(), se.String()
}

func runStageCase(c Case, c07 bool) interface{} {
	d := descOf(c["desc"])
	scratch := os.Getenv("VERIF_SCRATCH")
	if scratch == "" {
		scratch = "/var/tmp"
	}
	dir, err := ioutil.TempDir(scratch, "stage-")
	if err != nil {
		return obj("harness-error", err.Error())
	}
	if os.Getenv("VERIF_KEEP") == "" {
		defer exec.Command("rm", "-rf", dir).Run()
	}
	root, ext := dir+"/root", dir+"/ext"
	slash, _ := c["slashroot"].(bool)
	const inside = "/.verif" // what the chrooted run needs, out of every line's and package's sight
	if slash {
		ext = root + inside + "/ext"
	}
	notes, err := buildTree(root, d.Objs)
	if err != nil {
		return obj("harness-error", err.Error())
	}
	if _, err := buildTree(ext, d.Ext); err != nil {
		return obj("harness-error", err.Error())
	}
	if slash {
		// before the snapshot, and with the root directory's time put back to something that is
		// not "now" (the time synthesised members carry)
		os.MkdirAll(root+inside, 0755)
		old := time.Unix(1500000000, 0)
		os.Chtimes(root, old, old)
	}
	fs := map[string]lrec{}
	snapshot(root, "/R", fs)
	snapshot(ext, "/X", fs)
	e := expandAll(d, root, ext, fs)
	if len(e.problems) > 0 {
		return obj("harness-error", strings.Join(e.problems, "; "))
	}
	recs := []interface{}{}
	keys := make([]string, 0, len(fs))
	for k := range fs {
		keys = append(keys, k)
	}
	sort.Strings(keys)
	for _, k := range keys {
		recs = append(recs, fs[k].toJSON(k))
	}
	c["fs"] = recs
	c["steps"] = e.steps
	c["cats"] = e.catsJSON(d, nil)
	if c07 {
		c["ov"] = e.ovJSON()
	}
	if len(notes) > 0 {
		sort.Strings(notes)
		c["notes"] = notes
	}
	deep, _ := c["deep"].(bool)

	bin := os.Getenv("VERIF_STAGEMAKER")
	args := []string{"-root", root}
	work := dir // where the add-files script and the archives go
	if slash {
		work = root + inside
		data, err := ioutil.ReadFile(bin)
		if err != nil {
			return obj("harness-error", err.Error())
		}
		if err := ioutil.WriteFile(work+"/stagemaker", data, 0755); err != nil {
			return obj("harness-error", err.Error())
		}
		args = []string{"-root", "/"}
	}
	if d.NoVDB {
		args = append(args, "-novdb")
	}
	if d.EmptyDev {
		args = append(args, "-emptydev")
	}
	if len(d.AddFiles) > 0 {
		extSeen := ext
		if slash {
			extSeen = inside + "/ext"
		} else if b, _ := c["relsrc"].(bool); b {
			extSeen = "ext" // relative to the working directory of the run, which is `dir`
		}
		text := strings.Replace(strings.Join(d.AddFiles, "\n")+"\n", "$EXT", extSeen, -1)
		ioutil.WriteFile(work+"/addfiles", []byte(text), 0644)
		if slash {
			args = append(args, "-addfiles", inside+"/addfiles")
		} else {
			args = append(args, "-addfiles", dir+"/addfiles")
		}
	}
	// run stagemaker with these arguments; in a chrooted run `out` (a path below dir) is written
	// inside the build root and moved out afterwards
	run := func(a []string) (int, string, string) {
		if !slash {
			return runCmd(dir, bin, a...)
		}
		return runCmd(dir, "chroot", append([]string{root, inside + "/stagemaker"}, a...)...)
	}
	// the archive written into the tree it is made from, in a directory a built-in wildcard
	// line collects (`file /var/cache/*`): it must not become a member of itself
	outInRoot := false
	if b, _ := c["outinroot"].(bool); b {
		if st, err := os.Stat(root + "/var/cache"); err == nil && st.IsDir() {
			outInRoot = true
		}
	}
	gen := func(out, compress string) (int, string) {
		target, written := out, out
		switch {
		case outInRoot && slash:
			target, written = "/var/cache/"+path.Base(out), root+"/var/cache/"+path.Base(out)
		case outInRoot:
			target = root + "/var/cache/" + path.Base(out)
			written = target
		case slash:
			target, written = inside+"/"+path.Base(out), root+inside+"/"+path.Base(out)
		}
		a := append([]string{"-generate", "-o", target, "-compress", compress}, args...)
		code, _, se := run(a)
		if written != out {
			if code == 0 {
				if err := os.Rename(written, out); err != nil {
					return 1, err.Error()
				}
			} else {
				os.Remove(written)
			}
		}
		return code, se
	}
	t0 := time.Now().Unix()
	code, se := gen(dir+"/out.tar", "none")
	if code != 0 {
		c["stderr"] = se
		return obj("cls", "err")
	}
	members, err := readArchive(dir + "/out.tar")
	if err != nil {
		c["stderr"] = err.Error()
		return obj("cls", "err:archive")
	}
	t1 := time.Now().Unix()
	if !c07 {
		ms := []interface{}{}
		for _, m := range members {
			link := "" // symlink targets are C07's subject; C06 observes hard-link targets only
			if m.Type == "h" {
				link = m.Link
			}
			ms = append(ms, []interface{}{hx(m.Name), m.Type, hx(link)})
		}
		lcode, so, _ := run(append([]string{"-list", "stage", "-files"}, args...))
		listed := strings.Split(strings.TrimSuffix(so, "\n"), "\n")
		eq := lcode == 0 && len(listed) == len(members)
		for i := 0; eq && i < len(listed); i++ {
			eq = "."+listed[i] == members[i].Name
			if !eq {
				c["stderr"] = fmt.Sprintf("list[%d]=%q member=%q", i, listed[i], members[i].Name)
			}
		}
		if lcode != 0 || len(listed) != len(members) {
			c["stderr"] = fmt.Sprintf("list exit %d, %d lines vs %d members", lcode, len(listed), len(members))
		}
		return obj("cls", "ok", "members", ms, "list_eq", eq)
	}
	ms := []interface{}{}
	for _, m := range members {
		var mt interface{} = m.Mtime
		if m.Mtime >= t0-2 && m.Mtime <= t1+2 {
			mt = "now"
		}
		ms = append(ms, obj("name", hx(m.Name), "type", m.Type, "link", hx(m.Link), "perm", m.Perm, "uid", m.Uid, "gid", m.Gid,
			"mtime", mt, "size", m.Size, "maj", m.Maj, "min", m.Min, "xattrs", xattrsJSON(m.Xattrs), "sha", m.Sha))
	}
	res := obj("cls", "ok", "members", ms)
	if deep {
		c["extract"] = extractCompare(dir, members, e, t0, t1)
		comp := map[string]interface{}{}
		for _, tool := range []string{"gzip", "bzip2", "xz"} {
			if _, err := exec.LookPath(tool); err != nil {
				comp[tool] = "absent"
				continue
			}
			comp[tool] = compressCompare(dir, tool, gen)
		}
		c["compress"] = comp
	}
	return res
}

// compressCompare: plain, compressed, plain again; when the two plain archives agree (no
// second boundary crossed for synthesised mtimes) the decompressed output must equal them.
func compressCompare(dir, tool string, gen func(out, compress string) (int, string)) string {
	for try := 0; try < 4; try++ {
		if code, _ := gen(dir+"/a.tar", "none"); code != 0 {
			return "fail:plain"
		}
		if code, _ := gen(dir+"/c.bin", tool); code != 0 {
			return "fail:compressed"
		}
		if code, _ := gen(dir+"/b.tar", "none"); code != 0 {
			return "fail:plain"
		}
		a, _ := ioutil.ReadFile(dir + "/a.tar")
		b, _ := ioutil.ReadFile(dir + "/b.tar")
		if !bytes.Equal(a, b) {
			continue
		}
		cmd := exec.Command(tool, "-dc", dir+"/c.bin")
		out, err := cmd.Output()
		if err != nil {
			return "fail:decompress"
		}
		if bytes.Equal(out, a) {
			return "same"
		}
		return "diff"
	}
	return "same" // could not get a stable bracket; nothing to compare
}

func extractCompare(dir string, members []member, e *expander, t0, t1 int64) []interface{} {
	diffs := []interface{}{}
	x := dir + "/x"
	os.MkdirAll(x, 0700)
	code, _, se := runCmd(dir, "tar", "-xpf", dir+"/out.tar", "--xattrs", "--xattrs-include=*", "--numeric-owner", "-C", x)
	if code != 0 {
		diffs = append(diffs, []interface{}{"tar-exit", hx(""), strings.TrimSpace(strings.SplitN(se, "\n", 2)[0])})
	}
	seen := map[string]bool{}
	for _, m := range members {
		if seen[m.Name] {
			continue
		}
		seen[m.Name] = true
		name := strings.TrimPrefix(m.Name, ".")
		if name == "" {
			name = "/"
		}
		got, ok := lstatRec(path.Join(x, name))
		if !ok {
			diffs = append(diffs, []interface{}{"missing", hx(name), ""})
			continue
		}
		srcKey := path.Join("/R", name)
		if o, have := e.ov[name]; have && o.Src != "" {
			srcKey = o.Src
		}
		o := e.ov[name]
		src, exists := e.fs[srcKey]
		if !exists {
			if m.Type != "h" && got.Kind != m.Type {
				diffs = append(diffs, []interface{}{"kind", hx(name), fmt.Sprintf("hdr=%s,got=%s", m.Type, got.Kind)})
			}
			continue
		}
		bad := func(what string, exp, g interface{}) {
			diffs = append(diffs, []interface{}{what, hx(name), fmt.Sprintf("src=%v,got=%v", exp, g)})
		}
		if got.Kind != src.Kind {
			bad("kind", src.Kind, got.Kind)
			continue
		}
		permMask := uint32(07777)
		if src.Kind == "d" {
			// a directory made below a set-group-ID directory inherits the bit, and GNU tar
			// does not chmod a directory whose mode it believes to be right already: the bit
			// is the extraction's, not the archive's (the header is judged separately)
			if parent, ok := lstatRec(path.Dir(path.Join(x, name))); ok && parent.Mode&02000 != 0 {
				permMask = 07777 &^ 02000
			}
		}
		if src.Kind != "l" && !o.HasPerm && uint32(got.Mode)&permMask != uint32(src.Mode)&permMask {
			bad("perm", fmt.Sprintf("%o", src.Mode&07777), fmt.Sprintf("%o", got.Mode&07777))
		}
		if !o.HasUid && got.Uid != src.Uid {
			bad("uid", src.Uid, got.Uid)
		}
		if !o.HasGid && got.Gid != src.Gid {
			bad("gid", src.Gid, got.Gid)
		}
		if got.Mtime != src.Mtime {
			bad("mtime", src.Mtime, got.Mtime)
		}
		switch src.Kind {
		case "f":
			if got.Size != src.Size {
				bad("size", src.Size, got.Size)
			}
			if got.Sha != src.Sha {
				bad("bytes", src.Sha, got.Sha)
			}
		case "l":
			if o.Target == "" && got.Link != src.Link {
				bad("target", len(src.Link), len(got.Link))
			}
		case "c", "b":
			if !o.HasDev && got.Rdev != src.Rdev {
				bad("rdev", src.Rdev, got.Rdev)
			}
		}
		if fmt.Sprint(got.Xattrs) != fmt.Sprint(src.Xattrs) {
			bad("xattrs", len(src.Xattrs), len(got.Xattrs))
		}
		if m.Type == "h" {
			t := strings.TrimPrefix(m.Link, ".")
			if tr, ok := lstatRec(path.Join(x, t)); !ok || tr.Ino != got.Ino {
				bad("hardlink", m.Link, "different inode")
			}
		}
	}
	return diffs
}
