package main

import (
	"fmt"
	"strings"

	"potano.layercake/fs"
)

// C12: mountinfo parser.  Structured stream: tables built from a ground-truth
// description and rendered the way the kernel does; malformed stream: mutated text.

type kmount struct {
	ID, Parent, Dev, Root, Mp, Opts string
	Optional                    []string
	Fstype, Source              string
	Super                       [][2]string // key, value ("\x00" = no value)
}

const noVal = "\x00"

func mangle(s string, set string) string {
	var b strings.Builder
	for i := 0; i < len(s); i++ {
		c := s[i]
		if strings.IndexByte(set, c) >= 0 {
			fmt.Fprintf(&b, "\\%03o", c)
		} else {
			b.WriteByte(c)
		}
	}
	return b.String()
}

const pathEsc = " \t\n\\"
const srcEsc = " \t\n\\#"

// seq_show_option(m, name, value): the VALUE is escaped with ", \t\n\\" only -- an '=' inside
// a value (a directory called cake=17.1) is written as it is --, the NAME additionally with '='.
const optEsc = " \t\n\\,"
const optNameEsc = " \t\n\\,="

func (m kmount) render() string {
	f := []string{m.ID, m.Parent, m.Dev, mangle(m.Root, pathEsc), mangle(m.Mp, pathEsc), m.Opts}
	f = append(f, m.Optional...)
	so := []string{}
	for _, kv := range m.Super {
		if kv[1] == noVal {
			so = append(so, mangle(kv[0], optNameEsc))
		} else {
			so = append(so, mangle(kv[0], optNameEsc)+"="+mangle(kv[1], optEsc))
		}
	}
	f = append(f, "-", m.Fstype, mangle(m.Source, srcEsc), strings.Join(so, ","))
	return strings.Join(f, " ")
}

func (m kmount) json() map[string]interface{} {
	super := []interface{}{}
	for _, kv := range m.Super {
		if kv[1] == noVal {
			super = append(super, []interface{}{hx(kv[0])})
		} else {
			super = append(super, []interface{}{hx(kv[0]), hx(kv[1])})
		}
	}
	return obj("id", hx(m.ID), "parent", hx(m.Parent), "dev", hx(m.Dev), "root", hx(m.Root),
		"mp", hx(m.Mp), "opts", hx(m.Opts), "optional", hxs(m.Optional), "fstype", hx(m.Fstype),
		"source", hx(m.Source), "super", super)
}

var nastyNames = []string{"a", "b", "my base", "x\ty", "nl\nx", "back\\slash", "tr ", " lead", "a\\040b",
	"q\\1", "é", "c,d", "k=v", "#h", "\\", "\\\\", "sp  sp", "1", "040", "end\\", "\xff\xfe", "a b\\134",
	"a=b", "k=v=w", "cake=17.1", "=", "=lead", "end=", "x =y,z", "lowerdir=/x", "e\\075q"}

// names with a raw '=' for overlay directories: the kernel writes them as they are, so the
// reader sees `lowerdir=/a=b/c` and must cut at the first '=' only
var equalsNames = []string{"a=b", "k=v=w", "cake=17.1", "=", "==", "=lead", "end=", "x =y,z", "upperdir=/u",
	"b\\=c", "p=q\tr"}

// genOvlDir: a directory for lowerdir/upperdir/workdir; every other one has a component
// (or several) containing '='
func genOvlDir(g *Gen) string {
	p := genKPath(g, 1)
	if g.Chance(1, 2) {
		e := equalsNames[g.Intn(len(equalsNames))]
		switch g.Intn(4) {
		case 0:
			p = "/" + e + p
		case 1:
			p = p + "/" + e
		case 2:
			p = "/" + e
		default:
			p = p + "/" + e + "/" + g.Pick("build", "w", equalsNames[g.Intn(len(equalsNames))])
		}
	}
	return p
}

func genKPath(g *Gen, depth int) string {
	if depth == 0 && g.Chance(1, 6) {
		return "/"
	}
	n := 1 + g.Intn(3)
	parts := make([]string, n)
	for i := range parts {
		if g.Chance(1, 3) {
			parts[i] = nastyNames[g.Intn(len(nastyNames))]
		} else if g.Chance(1, 8) {
			parts[i] = g.From(" \\\t\n017a", 1+g.Intn(5))
		} else if g.Chance(1, 40) {
			// a long component: three of them in an overlay's options make a line of more
			// than 4096 bytes (still far below PATH_MAX)
			parts[i] = strings.Repeat(g.Pick("x", "long name ", "é"), 200+g.Intn(1200))
		} else {
			parts[i] = g.Pick("mnt", "var", "lib", "layercake", "layers", "build", "dev", "sys", "d0", "b0")
		}
	}
	return "/" + strings.Join(parts, "/")
}

func genTable(g *Gen) []kmount {
	n := 1 + g.Intn(9)
	tbl := []kmount{}
	devs := []string{"8:1", "0:4", "0:6", "0:16", "0:30", "0:31", "253:0"}
	if g.Chance(1, 60) {
		// a big table: more mounts and devices than the slices ProbeMounts preallocates
		// (100 mounts, 20 devices), so that its internal pointers survive a reallocation
		n = 101 + g.Intn(40)
		for d := 0; d < 30; d++ {
			devs = append(devs, fmt.Sprintf("0:%d", 100+d))
		}
	}
	for i := 0; i < n; i++ {
		m := kmount{ID: fmt.Sprint(20 + i), Opts: g.Pick("rw", "rw,relatime", "ro,nosuid,nodev")}
		if i == 0 || g.Chance(1, 8) {
			m.Parent = g.Pick("0", "1", fmt.Sprint(20+i))
		} else {
			m.Parent = tbl[g.Intn(len(tbl))].ID
		}
		m.Dev = devs[g.Intn(len(devs))]
		m.Root = "/"
		if g.Chance(1, 3) {
			m.Root = genKPath(g, 1)
		}
		m.Mp = genKPath(g, 0)
		if g.Chance(1, 5) && len(tbl) > 0 {
			m.Mp = tbl[g.Intn(len(tbl))].Mp // stacked / repeated mountpoint
			if m.Mp != "/" && g.Chance(1, 2) {
				m.Mp += "/" + nastyNames[g.Intn(len(nastyNames))]
			}
		}
		related := false
		if len(tbl) > 0 && g.Chance(1, 3) {
			// a mount of the same file system as an earlier one, showing that one's root or a
			// directory below it (a bind mount, a second subvolume mount): what the bind-source
			// candidates are computed from.  Every third of them sits on "/" itself (a root
			// file system on a subvolume).
			o := tbl[g.Intn(len(tbl))]
			related = true
			m.Dev = o.Dev
			m.Root = o.Root
			if g.Chance(2, 3) {
				sub := genKPath(g, 1)
				if m.Root == "/" {
					m.Root = sub
				} else {
					m.Root += sub
				}
			}
			if g.Chance(1, 3) {
				m.Mp = "/"
			}
			m.Fstype, m.Source = o.Fstype, o.Source
		}
		for k := g.Intn(4); k > 0; k-- {
			m.Optional = append(m.Optional, g.Pick("shared:1", "master:2", "propagate_from:3", "unbindable", "tag", "a:b"))
		}
		if !related {
			m.Fstype = g.Pick("ext4", "tmpfs", "proc", "devtmpfs", "sysfs", "overlay", "overlay", "btrfs", "fuse.x", "devpts")
			m.Source = g.Pick("/dev/sda1", "none", "tmpfs", "overlay", "/dev/mapper/my vol", "sp ace", "#hash", "devtmpfs")
		}
		if m.Fstype == "overlay" {
			keys := [][2]string{{"rw", noVal}, {"lowerdir", genOvlDir(g)}, {"upperdir", genOvlDir(g)},
				{"workdir", genOvlDir(g)}, {"redirect_dir", "on"}, {"index", "off"}, {"xino", "off"}}
			g.Shuffle(len(keys), func(a, b int) { keys[a], keys[b] = keys[b], keys[a] })
			keys = keys[:3+g.Intn(len(keys)-2)]
			m.Super = keys
		} else {
			m.Super = [][2]string{{"rw", noVal}}
			if g.Chance(1, 2) {
				m.Super = append(m.Super, [2]string{"size", "10240k"}, [2]string{"lowerdir", "/not/overlay"})
			}
		}
		tbl = append(tbl, m)
	}
	return tbl
}

func observeProbe(text string) interface{} {
	fs.GetAlternateProbeMountsCursor = func() fs.LineReader {
		return fs.NewTextInputCursor("mountinfo", strings.NewReader(text))
	}
	defer func() { fs.GetAlternateProbeMountsCursor = nil }()
	m, err := fs.ProbeMounts()
	if err != nil {
		return obj("cls", "err:probe")
	}
	mounts := []interface{}{}
	sources := []interface{}{}
	list := m.VerifMountList()
	for i := range list {
		mt := &list[i]
		mounts = append(mounts, obj("source", hx(mt.Source), "mountpoint", hx(mt.Mountpoint),
			"source2", hx(mt.Source2), "workdir", hx(mt.Workdir), "fstype", hx(mt.Fstype),
			"options", hx(mt.Options), "inShadow", mt.InShadow))
		sources = append(sources, guarded(func() interface{} { return hxs(m.GetMountSources(mt)) }))
	}
	// GetOverlayLowerdirs is a set: canonicalise by listing in table order, deduplicated later
	lower := []string{}
	lm := m.GetOverlayLowerdirs()
	for i := range list {
		if list[i].Fstype == "overlay" {
			if !lm[list[i].Source] {
				return obj("cls", "err:lowerdirs-missing")
			}
			lower = append(lower, list[i].Source)
		}
	}
	// every mountpoint must be retrievable through GetMount (last one wins)
	getm := []interface{}{}
	for i := range list {
		mt := m.GetMount(list[i].Mountpoint)
		if mt == nil {
			getm = append(getm, nil)
		} else {
			getm = append(getm, hx(mt.Fstype+" "+mt.Options))
		}
	}
	return obj("cls", "ok", "mounts", mounts, "sources", sources, "lowerdirs", hxs(lower), "getmount", getm)
}

func mutateText(g *Gen, s string) string {
	b := []byte(s)
	for k := 1 + g.Intn(3); k > 0 && len(b) > 0; k-- {
		p := g.Intn(len(b))
		switch g.Intn(5) {
		case 0:
			b = append(b[:p], b[p+1:]...)
		case 1:
			b[p] = " -\\\n0,="[g.Intn(7)]
		case 2:
			b = b[:p]
		case 3:
			b = append(b[:p], append([]byte(g.Pick(" - ", "\\", "\\04", " ", "\r\n", "overlay")), b[p:]...)...)
		case 4:
			b[p] = byte(g.Intn(256))
		}
	}
	return string(b)
}

func init() {
	ops["fs.unescape"] = func(c Case) interface{} { return obj("out", hx(fs.VerifUnescape(unhx(c["s"])))) }
	ops["fs.probe"] = func(c Case) interface{} { return observeProbe(unhx(c["text"])) }

	register("c12", func(g *Gen, tier string, emit func(Case)) {
		n := 300
		if tier == "thorough" {
			n = 12000
		}
		for i := 0; i < n; i++ {
			// escape strings: raw names mangled with each escape set, then adversarial raw strings
			raw := nastyNames[g.Intn(len(nastyNames))] + g.From(" \\\t\n01237a/", g.Intn(6))
			emit(Case{"op": "fs.unescape", "raw": hx(raw), "esc": hx(pathEsc), "s": hx(mangle(raw, pathEsc))})
			emit(Case{"op": "fs.unescape", "raw": hx(raw), "esc": hx(optEsc), "s": hx(mangle(raw, optEsc))})
			emit(Case{"op": "fs.unescape", "raw": hx(raw), "esc": hx(optNameEsc), "s": hx(mangle(raw, optNameEsc))})
			emit(Case{"op": "fs.unescape", "s": hx(g.From("\\0123478 a", g.Intn(10)))})
			tbl := genTable(g)
			lines := make([]string, len(tbl))
			jt := make([]interface{}, len(tbl))
			for k, m := range tbl {
				lines[k] = m.render()
				jt[k] = m.json()
			}
			text := strings.Join(lines, "\n") + "\n"
			emit(Case{"op": "fs.probe", "table": jt, "text": hx(text)})
			if i%3 == 0 {
				emit(Case{"op": "fs.probe", "text": hx(mutateText(g, text))})
			}
		}
	})
}
