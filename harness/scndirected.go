package main

import "strings"

// scn-directed: one small forest per import line (ordinary, unusual and deliberately odd
// ones), driven through the histories on which mount/umount bookkeeping can go wrong:
// mount twice, take one import away by hand and mount again, a hand-made mount from a
// source whose name merely extends the configured one, then unmount everything.

var directedImports = []string{
	"import rbind /dev /dev",
	"import proc /proc /proc",
	"import rbind /sys /sys",
	"import rbind /run /run",
	"import rbind $$base/packages /var/cache/binpkgs",
	"import bind $$self/generated /mnt/gen",
	"import rbind /VB/hostsrc /mnt/host",
	"import bind /VB/hostsrc/sub /mnt/sub",
	"import bind /VB/hostsrc /",
	"import bind /VB/hostsrc /mnt/x/",
	"import bind /VB/hostsrc //mnt//y",
	"import tmpfs tmpfs /tmp",
	"import bind $$self/shm /dev/shm",
	"import bind /VB/layers-shared/distfiles /mnt/shared",
	"import bind /VB/hostsrc /mnt/share\\", // the kernel shows the final backslash as \134 at the very end of the field
}

func directedScenario(g *Gen, imp string, variant int) Case {
	t := &treeB{ents: map[string][]interface{}{}}
	for _, h := range []string{"/", "/dev", "/proc", "/sys", "/run"} {
		t.ents[h] = []interface{}{hx(h), "d"}
	}
	t.dir(VB)
	t.dir(VB + "/layers")
	t.dir(VB + "/export")
	t.dir(VB + "/hostsrc/sub")
	t.dir(VB + "/hostsrc-testing")
	t.dir(VB + "/layers-shared/distfiles")
	t.file(VB+"/default_layerconfig.skel", "import proc /proc /proc\n")
	pf := scnProfile{}
	// b0 <- d0 <- d1; the import under test sits in the layer chosen by the variant, between
	// two ordinary imports so that it is neither the first nor the last of its list
	mk := func(name, base string, with bool) glayer {
		l := glayer{name: name, base: base, imports: []string{"import proc /proc /proc"}}
		if with {
			l.imports = append(l.imports, imp, "import bind $$self/generated /mnt/gen2")
		}
		return l
	}
	at := variant % 3
	forest := []glayer{mk("b0", "", at == 0), mk("d0", "b0", at == 1), mk("d1", "d0", at == 2)}
	for _, l := range forest {
		genLayerTree(g, t, l, pf, false)
		t.dir(VB + "/layers/" + l.name + "/packages-testing")
	}
	owner := forest[at].name
	build := VB + "/layers/" + owner + "/build"
	mp := mountpointOf(imp)
	tgt := build + "/" + strings.Trim(strings.Replace(mp, "//", "/", -1), "/")
	tgt = strings.TrimSuffix(tgt, "/")
	cmd := func(name string, args ...string) map[string]interface{} {
		return obj("cmd", name, "args", hxs(args))
	}
	var steps []interface{}
	switch variant / 3 {
	case 0:
		// mount, mount again, one import taken away by hand, mount, mount, unmount all
		steps = []interface{}{cmd("mount", "d1"), cmd("mount", "d1"), cmd("sysumount", tgt),
			cmd("mount", "d1"), cmd("mount", "d1"), obj("cmd", "umount", "args", hxs([]string{""}), "all", true),
			cmd("probe")}
	case 1:
		// the import's mountpoint carries a hand-made mount from a directory whose name extends
		// the configured source
		src := VB + "/hostsrc-testing"
		f := strings.Fields(imp)
		if len(f) >= 3 && strings.HasPrefix(f[2], "$$base/") {
			src = VB + "/layers/b0/" + strings.TrimPrefix(f[2], "$$base/") + "-testing"
		}
		sm := cmd("sysmount", src, tgt, "bind")
		sm["flags"] = float64(4096)
		steps = []interface{}{cmd("mkdirs", owner), sm, cmd("probe"), cmd("mount", "d1"), cmd("probe"),
			obj("cmd", "umount", "args", hxs([]string{""}), "all", true), cmd("probe")}
	default:
		// mounted chain, then each layer unmounted by name from the top, then the parent mounted
		// alone and the chain again
		steps = []interface{}{cmd("mount", "d1"), cmd("umount", "d1"), cmd("umount", "d0"), cmd("mount", "d0"),
			cmd("mount", "d1"), cmd("umount", "b0"), obj("cmd", "umount", "args", hxs([]string{""}), "all", true),
			cmd("probe")}
	}
	return Case{"op": "scenario", "cfg": defaultCfg(), "tree": t.list(), "host": hostTable(g, variant%2 == 1), "steps": steps}
}

// fixed small forests for histories that need a particular shape
func shapedScenario(g *Gen, which int) Case {
	t := &treeB{ents: map[string][]interface{}{}}
	for _, h := range []string{"/", "/dev", "/proc", "/sys", "/run"} {
		t.ents[h] = []interface{}{hx(h), "d"}
	}
	t.dir(VB)
	t.dir(VB + "/layers")
	t.dir(VB + "/export")
	t.dir(VB + "/hostsrc/sub")
	t.file(VB+"/default_layerconfig.skel", "import proc /proc /proc\n")
	pf := scnProfile{}
	cfg := defaultCfg()
	cmd := func(name string, args ...string) map[string]interface{} {
		return obj("cmd", name, "args", hxs(args))
	}
	user := func(layer string, usedAs int, rel string) []interface{} {
		return []interface{}{hx(layer), float64(usedAs), hx(rel)}
	}
	umountAll := func() map[string]interface{} {
		return obj("cmd", "umount", "args", hxs([]string{""}), "all", true)
	}
	imports := []string{"import proc /proc /proc", "import rbind $$base/packages /var/cache/binpkgs"}
	var steps []interface{}
	switch which {
	case 0, 1:
		// export links exist (mount, unmount all), then the parent is renamed / rebased while a
		// direct child is busy without overlaying it: refused, and nothing may change
		for _, l := range []glayer{{name: "toolchain", imports: imports}, {name: "desktop", base: "toolchain", imports: imports},
			{name: "other", imports: imports}} {
			genLayerTree(g, t, l, pf, false)
		}
		last := cmd("rename", "toolchain", "tc2")
		if which == 1 {
			last = cmd("rebase", "toolchain", "other")
		}
		last["users"] = []interface{}{user("desktop", 1, g.Pick("packages", "", "generated/f"))}
		steps = []interface{}{cmd("mount", "desktop"), umountAll(), cmd("probe"), last, cmd("probe")}
	case 2, 3:
		// the rebased / renamed layer has two children; the one that sorts first has a
		// descendant of its own, the busy one sorts last
		for _, l := range []glayer{{name: "stage3", imports: imports}, {name: "apps", base: "stage3", imports: imports},
			{name: "office", base: "apps", imports: imports}, {name: "server", base: "stage3", imports: imports},
			{name: "newstage", imports: imports}} {
			genLayerTree(g, t, l, pf, false)
		}
		last := cmd("rebase", "stage3", "newstage")
		if which == 3 {
			last = cmd("rename", "stage3", "stage4")
		}
		last["users"] = []interface{}{user("server", 1, g.Pick("build", "build/usr/lib", "packages"))}
		steps = []interface{}{cmd("probe"), last, cmd("probe")}
	case 4:
		// merged-usr build root: bin, sbin and lib are symbolic links into usr
		for _, l := range []glayer{{name: "b0", imports: imports}, {name: "d0", base: "b0", imports: imports}} {
			genLayerTree(g, t, l, pf, false)
		}
		for _, n := range []string{"bin", "sbin", "lib"} {
			p := VB + "/layers/b0/build/" + n
			for k := range t.ents {
				if k == p || strings.HasPrefix(k, p+"/") {
					delete(t.ents, k)
				}
			}
			t.dir(VB + "/layers/b0/build/usr/" + n)
			t.link(p, "usr/"+n)
		}
		steps = []interface{}{cmd("probe"), cmd("mount", "d0"), cmd("probe"), umountAll(), cmd("probe")}
	case 6, 7:
		// a parent with children renamed to a legal name no directory entry can carry: the
		// command must fail without touching the children's definitions
		for _, l := range []glayer{{name: "p", imports: imports}, {name: "k1", base: "p", imports: imports},
			{name: "k2", base: "p", imports: imports}, {name: "u", imports: imports}} {
			genLayerTree(g, t, l, pf, false)
		}
		long := strings.Repeat("L", 300)
		if which == 7 {
			long = strings.Repeat("é", 150)
		}
		steps = []interface{}{cmd("rename", "p", long), cmd("probe"), cmd("add", long, "p", ""), cmd("probe"),
			cmd("rebase", "k1", long), cmd("probe")}
	case 9, 10:
		// layers probed "not yet populated" whose only user data are symbolic links to
		// directories (a packages directory kept on another disk; lib64 -> lib in an upper
		// directory): remove without -files must keep them
		base := "b0"
		lp := VB + "/layers/" + base
		t.dir(lp + "/build/root")
		t.file(lp+"/layerconfig", "import proc /proc /proc\n")
		t.file(lp+"/build/root/.bashrc", "#bashrc")
		t.dir(lp + "/build/proc")
		t.link(lp+"/packages", VB+"/hostsrc")
		dp := VB + "/layers/d0"
		t.file(dp+"/layerconfig", "base b0\n\nimport proc /proc /proc\n")
		t.dir(dp + "/build")
		t.dir(dp + "/overlayfs/workdir")
		t.dir(dp + "/overlayfs/upperdir/usr/lib")
		t.link(dp+"/overlayfs/upperdir/usr/lib64", "lib")
		if which == 9 {
			steps = []interface{}{cmd("probe"), obj("cmd", "remove", "args", hxs([]string{"d0"}), "files", false), cmd("probe"),
				obj("cmd", "remove", "args", hxs([]string{"b0"}), "files", false), cmd("probe")}
		} else {
			steps = []interface{}{cmd("rename", "d0", "d9"), obj("cmd", "remove", "args", hxs([]string{"d9"}), "files", false), cmd("probe")}
		}
	case 12, 13:
		// build root and overlay directories under other names than the defaults; a process in
		// the configured build root blocks unmount, one in a directory that merely carries a
		// default name does not
		cfg["buildRoot"] = hx("broot")
		cfg["workdir"] = hx("ovl/w")
		cfg["upperdir"] = hx("ovl/u")
		for _, n := range []string{"b0", "d0"} {
			lp := VB + "/layers/" + n
			conf := "import proc /proc /proc\n"
			if n == "d0" {
				conf = "base b0\n\n" + conf
				t.dir(lp + "/ovl/w")
				t.dir(lp + "/ovl/u")
				t.dir(lp + "/broot")
			} else {
				for _, d := range []string{"bin", "etc", "lib", "opt", "root", "sbin", "usr", "proc"} {
					t.dir(lp + "/broot/" + d)
				}
			}
			t.file(lp+"/layerconfig", conf)
			t.dir(lp + "/build/usr")          // the user's own directory called "build"
			t.dir(lp + "/overlayfs/upperdir") // … and one called like the default upper directory
		}
		um := obj("cmd", "umount", "args", hxs([]string{"d0"}), "all", false)
		if which == 12 {
			um["users"] = []interface{}{user("d0", 1, g.Pick("broot/usr", "broot", "ovl/u"))}
		} else {
			um["users"] = []interface{}{user("d0", 1, g.Pick("build/usr", "build", "overlayfs/upperdir"))}
		}
		steps = []interface{}{cmd("mount", "d0"), cmd("probe"), um, cmd("probe"), umountAll(), cmd("probe")}
	case 14:
		// a layer whose layerconfig is a symbolic link to the real definition kept elsewhere,
		// with and without a child
		for _, l := range []glayer{{name: "b0", imports: imports}, {name: "d0", base: "b0", imports: imports}, {name: "solo", imports: imports}} {
			genLayerTree(g, t, l, pf, false)
		}
		for _, n := range []string{"b0", "solo"} {
			lc := VB + "/layers/" + n + "/layerconfig"
			content := t.ents[lc][2]
			delete(t.ents, lc)
			t.dir(VB + "/defs")
			t.ents[VB+"/defs/"+n+".skel"] = []interface{}{hx(VB + "/defs/" + n + ".skel"), "f", content}
			t.link(lc, VB+"/defs/"+n+".skel")
		}
		steps = []interface{}{cmd("probe"), cmd("add", "solo", "", ""), cmd("probe"), cmd("rename", "solo", "solo2"), cmd("probe"),
			cmd("rebase", "d0", "solo2"), cmd("probe")}
	case 15:
		// an unpopulated derived layer whose only foreign content lies in the overlay work
		// directory; and a base layer with explicit export directives whose exported directory
		// holds files: mount (links are made), unmount, remove without -files
		ex := []string{"export symlink /var/cache/binpkgs $$package_export"}
		for _, l := range []glayer{{name: "b0", imports: imports, exports: ex}, {name: "other", imports: imports}} {
			genLayerTree(g, t, l, pf, false)
		}
		t.file(VB+"/layers/b0/build/var/cache/binpkgs/pkg-1.tbz2", "binary package")
		t.file(VB+"/layers/b0/packages/kept.tbz2", "binary package")
		dp := VB + "/layers/d0"
		t.file(dp+"/layerconfig", "base nosuch\n\nimport proc /proc /proc\n")
		delete(t.ents, dp+"/layerconfig")
		t.file(dp+"/layerconfig", "base other\n\nimport proc /proc /proc\n")
		t.dir(dp + "/build")
		t.dir(dp + "/overlayfs/upperdir")
		t.file(dp+"/overlayfs/workdir/work/#12", "leftover")
		// "other" lacks its FHS directories, so d0 is probed "not yet populated"
		for _, n := range []string{"bin", "etc", "lib", "opt", "sbin", "usr"} {
			for k := range t.ents {
				if strings.HasPrefix(k, VB+"/layers/other/build/"+n) {
					delete(t.ents, k)
				}
			}
		}
		steps = []interface{}{cmd("probe"), obj("cmd", "remove", "args", hxs([]string{"d0"}), "files", false), cmd("probe"),
			cmd("mount", "b0"), umountAll(), obj("cmd", "remove", "args", hxs([]string{"b0"}), "files", false), cmd("probe")}
	case 17, 18, 19:
		// a mount made by hand below an import mountpoint and one ON that mountpoint (the shape
		// of the binman suite's history): 17 = below first, then on: the second covers the first
		// and what hangs below it, `umount` asks for the covered mountpoint first and is refused
		// on every retry (before fix e546b99; now it must succeed) until the covering mount is taken
		// away by hand; 18 = the control order, nothing is hidden, `umount` succeeds; 19 = the
		// hidden shape inside a derived layer, unmounted with -all
		imps := []string{"import proc /proc /proc", "import rbind " + VB + "/hostsrc /mnt/host"}
		for _, l := range []glayer{{name: "b0", imports: imps}, {name: "d0", base: "b0", imports: imps}} {
			genLayerTree(g, t, l, pf, false)
		}
		ln := "b0"
		if which == 19 {
			ln = "d0"
		}
		host := VB + "/layers/" + ln + "/build/mnt/host"
		bind := func(src, tgt string) map[string]interface{} {
			return obj("cmd", "sysmount", "args", hxs([]string{src, tgt, "bind"}), "flags", float64(4096))
		}
		onSub, onHost := bind(VB+"/hostsrc/sub", host+"/sub"), bind(VB+"/hostsrc", host)
		switch which {
		case 17:
			steps = []interface{}{cmd("mount", ln), onSub, onHost, cmd("probe"), cmd("umount", ln), cmd("probe"),
				cmd("umount", ln), obj("cmd", "sysumount", "args", hxs([]string{host})), cmd("umount", ln), cmd("probe")}
		case 18:
			steps = []interface{}{cmd("mount", ln), onHost, onSub, cmd("probe"), cmd("umount", ln), cmd("probe")}
		default:
			steps = []interface{}{cmd("mount", ln), onSub, onHost, cmd("probe"), umountAll(), cmd("probe"),
				obj("cmd", "sysumount", "args", hxs([]string{host})), umountAll(), cmd("probe")}
		}
	case 20:
		// the whole layer directory covered by a mount made by hand after the layer was
		// mounted: every mount below the build root is out of reach, each umount(2) is refused
		// (EINVAL) and the command must say so; once the cover is gone it works
		for _, l := range []glayer{{name: "b0", imports: imports}} {
			genLayerTree(g, t, l, pf, false)
		}
		cover := obj("cmd", "sysmount", "args", hxs([]string{"tmpfs", VB + "/layers/b0", "tmpfs"}), "flags", float64(0))
		steps = []interface{}{cmd("mount", "b0"), cover, cmd("umount", "b0"), cmd("probe"),
			obj("cmd", "sysumount", "args", hxs([]string{VB + "/layers/b0"})), cmd("umount", "b0"), cmd("probe")}
	case 21, 22:
		// a direct child whose layerconfig has a line the reader does not understand (error
		// state) carries a mount made by hand below its build root: it must protect its parent
		// from rename (21) / rebase (22) — refused, nothing changes (before fix e3cb7aa the probe
		// skipped layers in the error state before recording their mounts and users) — and
		// `umount` of the broken child takes the mount away like for any other layer.  The good
		// child d0 is mounted and unmounted first, so export links exist and d0 is idle.
		for _, l := range []glayer{{name: "b0", imports: imports}, {name: "d0", base: "b0", imports: imports},
			{name: "dx", base: "b0", imports: imports}, {name: "other", imports: imports}} {
			genLayerTree(g, t, l, pf, false)
		}
		lc := VB + "/layers/dx/layerconfig"
		delete(t.ents, lc)
		t.file(lc, "base b0\n\nimport proc /proc /proc\nfrobnicate this layer\n")
		byHand := obj("cmd", "sysmount", "args", hxs([]string{"/proc", VB + "/layers/dx/build/proc", "proc"}), "flags", float64(0))
		last := cmd("rename", "b0", "b9")
		if which == 22 {
			last = cmd("rebase", "b0", "other")
		}
		steps = []interface{}{cmd("mount", "d0"), umountAll(), byHand, cmd("probe"), last, cmd("probe"),
			cmd("umount", "dx"), cmd("probe"), last, cmd("probe")}
	case 23, 24:
		// a layer that was mounted once (its export links exist) and has since dropped back to
		// "not yet populated" (23: the build tree of a base layer was emptied; 24: a derived layer
		// lost its upper directory): removing it must take its export links away all the same
		for _, l := range []glayer{{name: "b0", imports: imports}, {name: "u0", imports: imports},
			{name: "d0", base: "b0", imports: imports}} {
			genLayerTree(g, t, l, pf, false)
		}
		victim := "u0"
		gone := VB + "/layers/u0/build/"
		if which == 24 {
			victim = "d0"
			gone = VB + "/layers/d0/overlayfs/upperdir"
		}
		for k := range t.ents {
			if strings.HasPrefix(k, gone) {
				delete(t.ents, k)
			}
		}
		t.dir(VB + "/export/packages")
		t.dir(VB + "/export/generated")
		t.link(VB+"/export/packages/"+victim, VB+"/layers/"+victim+"/packages")
		t.link(VB+"/export/generated/"+victim, VB+"/layers/"+victim+"/generated")
		steps = []interface{}{cmd("probe"), obj("cmd", "remove", "args", hxs([]string{victim}), "files", which == 24), cmd("probe")}
	case 25:
		// a stale link where an export link belongs (recorded finding
		// export-entry-foreign-or-stale of C16: mount leaves it as it is); seen by every run
		for _, l := range []glayer{{name: "b0", imports: imports}} {
			genLayerTree(g, t, l, pf, false)
		}
		t.dir(VB + "/layers/b0/packages")
		t.dir(VB + "/export/packages")
		t.link(VB+"/export/packages/b0", "/somewhere/else")
		steps = []interface{}{cmd("mount", "b0"), cmd("probe"), umountAll(), cmd("probe")}
	case 26:
		// a non-bind import whose mountpoint carries a bind made by hand from the configured
		// source string: layercake compares the source, not the file-system type, takes it for
		// the import and reports success (recorded finding nonbind-import-fstype-not-compared
		// of C01 and C08); seen by every run
		imps := append(append([]string{}, imports...), "import tmpfs "+VB+"/hostsrc /mnt/tmp")
		for _, l := range []glayer{{name: "b0", imports: imps}} {
			genLayerTree(g, t, l, pf, false)
		}
		t.dir(VB + "/layers/b0/build/mnt/tmp")
		byHand := obj("cmd", "sysmount", "args", hxs([]string{VB + "/hostsrc", VB + "/layers/b0/build/mnt/tmp", "bind"}), "flags", float64(4096))
		steps = []interface{}{byHand, cmd("probe"), cmd("mount", "b0"), cmd("probe"), umountAll(), cmd("probe")}
	case 27, 28:
		// a dangling symbolic link where a directory of the layer belongs (27: the upper directory
		// of a derived layer, 28: the build root of a base layer): mkdirs must make the directory
		// or say that it could not
		for _, l := range []glayer{{name: "b0", imports: imports}, {name: "d0", base: "b0", imports: imports},
			{name: "x0", imports: imports}} {
			genLayerTree(g, t, l, pf, false)
		}
		victim, where := "d0", VB+"/layers/d0/overlayfs/upperdir"
		if which == 28 {
			victim, where = "x0", VB+"/layers/x0/build"
		}
		for k := range t.ents {
			if k == where || strings.HasPrefix(k, where+"/") {
				delete(t.ents, k)
			}
		}
		t.link(where, "/nonexistent/elsewhere")
		steps = []interface{}{cmd("probe"), cmd("mkdirs", victim), cmd("probe"), cmd("mount", victim), cmd("probe"), umountAll()}
	case 29:
		// the layers directory itself is a dangling symbolic link (a disk that is not mounted):
		// init must not report success without it
		delete(t.ents, VB+"/layers")
		t.link(VB+"/layers", "/nonexistent/disk/layers")
		steps = []interface{}{cmd("init"), cmd("probe")}
	case 30:
		// an explicit export directive whose link cannot be made (a regular file where the export
		// directory for generated files belongs) while the automatic packages link can: mount
		// must report the failure
		ex := []string{"export symlink /mnt/gen $$file_export"}
		imps := append(append([]string{}, imports...), "import bind $$self/generated /mnt/gen")
		for _, l := range []glayer{{name: "b0", imports: imps, exports: ex}} {
			genLayerTree(g, t, l, pf, false)
		}
		t.dir(VB + "/layers/b0/packages")
		t.dir(VB + "/layers/b0/generated")
		t.file(VB+"/export/generated", "a file where a directory belongs")
		steps = []interface{}{cmd("mount", "b0"), cmd("probe"), umountAll(), cmd("probe")}
	case 31, 32:
		// a foreign regular file named like the layer in the export tree: rename (31) and remove
		// (32) must leave it alone
		for _, l := range []glayer{{name: "b0", imports: imports}, {name: "other", imports: imports}} {
			genLayerTree(g, t, l, pf, false)
		}
		t.dir(VB + "/export/packages")
		t.dir(VB + "/export/generated")
		t.file(VB+"/export/packages/b0", "not layercake's")
		t.file(VB+"/export/generated/b0", "not layercake's either")
		if which == 31 {
			steps = []interface{}{cmd("probe"), cmd("rename", "b0", "b9"), cmd("probe")}
		} else {
			steps = []interface{}{cmd("probe"), obj("cmd", "remove", "args", hxs([]string{"b0"}), "files", true), cmd("probe")}
		}
	case 33:
		// two explicit export directives: the link of the first is absent (never mounted), the
		// place of the second is taken by a stale link leading elsewhere — the layer is in the
		// error state and mount refuses
		ex := []string{"export symlink /var/cache/binpkgs $$package_export", "export symlink /mnt/gen $$file_export"}
		imps := append(append([]string{}, imports...), "import bind $$self/generated /mnt/gen")
		for _, l := range []glayer{{name: "b0", imports: imps, exports: ex}} {
			genLayerTree(g, t, l, pf, false)
		}
		t.dir(VB + "/export/generated")
		t.link(VB+"/export/generated/b0", "/somewhere/else")
		steps = []interface{}{cmd("probe"), cmd("mount", "b0"), cmd("probe"), umountAll(), cmd("probe")}
	case 38, 39:
		// two derived layers share one base, both mounted; one of them is busy.  umount -all
		// unmounts the idle sibling and must then still find the base overlain by the busy one
		// (38: the busy one sorts last, 39: first)
		for _, l := range []glayer{{name: "b0", imports: imports}, {name: "d1", base: "b0", imports: imports},
			{name: "d2", base: "b0", imports: imports}} {
			genLayerTree(g, t, l, pf, false)
		}
		all := umountAll()
		all["users"] = []interface{}{user(map[int]string{38: "d2", 39: "d1"}[which], 1, g.Pick("build", "build/usr"))}
		steps = []interface{}{cmd("mount", "d1"), cmd("mount", "d2"), cmd("probe"), all, cmd("probe"), umountAll(), cmd("probe")}
	case 34, 35, 36, 37:
		// remove without -files of a layer that is not populated but holds user data in a place
		// or under a name that is easy to overlook: (34) an incomplete derived layer (work
		// directory cleared by hand) with a populated upper directory; (35, 36) a base layer
		// without FHS directories whose only data is a file NAMED like one of the two files add
		// creates, but somewhere else; (37) a derived layer on a parent that is not mountable,
		// with root/.bashrc in its upper directory.  The data must survive (C09).
		skel := func(name, base string) string {
			lp := VB + "/layers/" + name
			t.dir(lp)
			t.file(lp+"/layerconfig", glayer{name: name, base: base, imports: imports}.config())
			t.dir(lp + "/build")
			return lp
		}
		switch which {
		case 34:
			genLayerTree(g, t, glayer{name: "b0", imports: imports}, pf, false)
			lp := skel("d0", "b0")
			t.file(lp+"/overlayfs/upperdir/etc/data5", "work of a week")
			t.file(lp+"/overlayfs/upperdir/root/.bashrc", "alias ll='ls -l'")
			steps = []interface{}{cmd("probe"), cmd("remove", "d0"), cmd("probe")}
		case 35, 36:
			lp := skel("b0", "")
			if which == 35 {
				t.file(lp+"/build/etc/skel/.bashrc", "# skeleton")
			} else {
				t.file(lp+"/build/home/u/layerconfig", "base other\n")
			}
			steps = []interface{}{cmd("probe"), cmd("remove", "b0"), cmd("probe")}
		default:
			skel("b0", "")
			lp := skel("d0", "b0")
			t.dir(lp + "/overlayfs/workdir")
			t.file(lp+"/overlayfs/upperdir/root/.bashrc", "export EDITOR=vi")
			steps = []interface{}{cmd("probe"), cmd("remove", "d0"), cmd("probe")}
		}
	default:
		// export directory names that differ from the layer's own directory names, explicit
		// export directives, then rename and remove
		cfg["exportBinPkg"] = hx("binpkgs")
		cfg["exportGenerated"] = hx("gen-out")
		ex := []string{"export symlink /var/cache/binpkgs $$package_export", "export symlink /mnt/gen $$file_export"}
		imports = append(imports, "import bind $$self/generated /mnt/gen")
		for _, l := range []glayer{{name: "b0", imports: imports, exports: ex}, {name: "d0", base: "b0", imports: imports, exports: ex[:1]}} {
			genLayerTree(g, t, l, pf, false)
		}
		steps = []interface{}{cmd("mount", "d0"), cmd("probe"), umountAll(), cmd("rename", "d0", "d9"), cmd("probe"),
			obj("cmd", "remove", "args", hxs([]string{"d9"}), "files", false), cmd("rename", "b0", "b9"), cmd("probe")}
	}
	return Case{"op": "scenario", "cfg": cfg, "tree": t.list(), "host": hostTable(g, false), "steps": steps}
}

func init() {
	register("scn-directed", func(g *Gen, tier string, emit func(Case)) {
		for w := 0; w < 40; w++ {
			emit(shapedScenario(g, w))
		}
		// a derived layer mounted, listed and unmounted (history 4), and the export-link history
		// (the default case), under every other configuration of scnremap.go
		for _, a := range cfgAlts {
			emit(remapScenario(shapedScenario(g, 4), a))
			emit(remapScenario(shapedScenario(g, 5), a))
		}
		for _, imp := range directedImports {
			for v := 0; v < 9; v++ {
				if tier != "thorough" && v%3 != g.Intn(3) && v/3 != 0 {
					continue // quick tier: every import through history 0 at all three depths, the others sampled
				}
				emit(directedScenario(g, imp, v))
			}
		}
	})
}
