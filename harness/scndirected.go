package main

import "strings"

// scn-directed: one small forest per import line (ordinary, unusual and deliberately odd
// ones), driven through the histories on which mount/umount bookkeeping can go wrong:
// mount twice, take one import away by hand and mount again, a hand-made mount from a
// source whose name merely extends the configured one, then unmount everything.

var directedImports = []string{
	"import rbind /dev /dev",
	"import proc /proc /proc",
	"import rbind /sys /sys",
	"import rbind /run /run",
	"import rbind $$base/packages /var/cache/binpkgs",
	"import bind $$self/generated /mnt/gen",
	"import rbind /VB/hostsrc /mnt/host",
	"import bind /VB/hostsrc/sub /mnt/sub",
	"import bind /VB/hostsrc /",
	"import bind /VB/hostsrc /mnt/x/",
	"import bind /VB/hostsrc //mnt//y",
	"import tmpfs tmpfs /tmp",
	"import bind $$self/shm /dev/shm",
	"import bind /VB/layers-shared/distfiles /mnt/shared",
}

func directedScenario(g *Gen, imp string, variant int) Case {
	t := &treeB{ents: map[string][]interface{}{}}
	for _, h := range []string{"/", "/dev", "/proc", "/sys", "/run"} {
		t.ents[h] = []interface{}{hx(h), "d"}
	}
	t.dir(VB)
	t.dir(VB + "/layers")
	t.dir(VB + "/export")
	t.dir(VB + "/hostsrc/sub")
	t.dir(VB + "/hostsrc-testing")
	t.dir(VB + "/layers-shared/distfiles")
	t.file(VB+"/default_layerconfig.skel", "import proc /proc /proc\n")
	pf := scnProfile{}
	// b0 <- d0 <- d1; the import under test sits in the layer chosen by the variant, between
	// two ordinary imports so that it is neither the first nor the last of its list
	mk := func(name, base string, with bool) glayer {
		l := glayer{name: name, base: base, imports: []string{"import proc /proc /proc"}}
		if with {
			l.imports = append(l.imports, imp, "import bind $$self/generated /mnt/gen2")
		}
		return l
	}
	at := variant % 3
	forest := []glayer{mk("b0", "", at == 0), mk("d0", "b0", at == 1), mk("d1", "d0", at == 2)}
	for _, l := range forest {
		genLayerTree(g, t, l, pf, false)
		t.dir(VB + "/layers/" + l.name + "/packages-testing")
	}
	owner := forest[at].name
	build := VB + "/layers/" + owner + "/build"
	mp := mountpointOf(imp)
	tgt := build + "/" + strings.Trim(strings.Replace(mp, "//", "/", -1), "/")
	tgt = strings.TrimSuffix(tgt, "/")
	cmd := func(name string, args ...string) map[string]interface{} {
		return obj("cmd", name, "args", hxs(args))
	}
	var steps []interface{}
	switch variant / 3 {
	case 0:
		// mount, mount again, one import taken away by hand, mount, mount, unmount all
		steps = []interface{}{cmd("mount", "d1"), cmd("mount", "d1"), cmd("sysumount", tgt),
			cmd("mount", "d1"), cmd("mount", "d1"), obj("cmd", "umount", "args", hxs([]string{""}), "all", true),
			cmd("probe")}
	case 1:
		// the import's mountpoint carries a hand-made mount from a directory whose name extends
		// the configured source
		src := VB + "/hostsrc-testing"
		f := strings.Fields(imp)
		if len(f) >= 3 && strings.HasPrefix(f[2], "$$base/") {
			src = VB + "/layers/b0/" + strings.TrimPrefix(f[2], "$$base/") + "-testing"
		}
		sm := cmd("sysmount", src, tgt, "bind")
		sm["flags"] = float64(4096)
		steps = []interface{}{cmd("mkdirs", owner), sm, cmd("probe"), cmd("mount", "d1"), cmd("probe"),
			obj("cmd", "umount", "args", hxs([]string{""}), "all", true), cmd("probe")}
	default:
		// mounted chain, then each layer unmounted by name from the top, then the parent mounted
		// alone and the chain again
		steps = []interface{}{cmd("mount", "d1"), cmd("umount", "d1"), cmd("umount", "d0"), cmd("mount", "d0"),
			cmd("mount", "d1"), cmd("umount", "b0"), obj("cmd", "umount", "args", hxs([]string{""}), "all", true),
			cmd("probe")}
	}
	return Case{"op": "scenario", "cfg": defaultCfg(), "tree": t.list(), "host": hostTable(g, variant%2 == 1), "steps": steps}
}

func init() {
	register("scn-directed", func(g *Gen, tier string, emit func(Case)) {
		for _, imp := range directedImports {
			for v := 0; v < 9; v++ {
				if tier != "thorough" && v%3 != g.Intn(3) && v/3 != 0 {
					continue // quick tier: every import through history 0 at all three depths, the others sampled
				}
				emit(directedScenario(g, imp, v))
			}
		}
	})
}
