package main

import (
	"encoding/hex"
	"hash/fnv"
	"math/rand"
)

// Gen wraps the single PRNG every random choice derives from.
type Gen struct {
	*rand.Rand
}

func NewGen(seed int64, stream string) *Gen {
	h := fnv.New64a()
	h.Write([]byte(stream))
	return &Gen{rand.New(rand.NewSource(seed ^ int64(h.Sum64()&0x7fffffffffffffff)))}
}

func (g *Gen) Pick(xs ...string) string { return xs[g.Intn(len(xs))] }
func (g *Gen) Chance(num, den int) bool { return g.Intn(den) < num }

// Bytes returns n random bytes drawn from alphabet.
func (g *Gen) From(alphabet string, n int) string {
	b := make([]byte, n)
	for i := range b {
		b[i] = alphabet[g.Intn(len(alphabet))]
	}
	return string(b)
}

func hx(s string) string { return hex.EncodeToString([]byte(s)) }

func unhx(v interface{}) string {
	s, _ := v.(string)
	b, _ := hex.DecodeString(s)
	return string(b)
}

func hxs(l []string) []interface{} {
	out := make([]interface{}, len(l))
	for i, s := range l {
		out[i] = hx(s)
	}
	return out
}

func unhxs(v interface{}) []string {
	l, _ := v.([]interface{})
	out := make([]string, len(l))
	for i, s := range l {
		out[i] = unhx(s)
	}
	return out
}

func obj(kv ...interface{}) map[string]interface{} {
	m := map[string]interface{}{}
	for i := 0; i+1 < len(kv); i += 2 {
		m[kv[i].(string)] = kv[i+1]
	}
	return m
}

// unclassified stands, in an observation, for "an error whose class the harness cannot tell from
// the message text"; ./check lets it agree with any error class of the model.
const unclassified = "?unclassified"
