package main

import (
	"fmt"
	"io/ioutil"
	"os"
	"sort"
	"strings"

	"potano.layercake/config"
	"potano.layercake/fs"
	"potano.layercake/manage"
)

// C20: two in-process command instances on one simulated kernel.  Only one goroutine
// runs at a time; each blocks inside the injected mountinfo reader / syscall functions
// and is released according to the schedule.

type coSched struct {
	cur    int
	resume [2]chan struct{}
	event  chan int // a process parked at a sync point (its id) or finished (id+10)
}

func (s *coSched) sync() {
	id := s.cur
	s.event <- id
	<-s.resume[id]
	s.cur = id
}

func runConcurrent(c Case) interface{} {
	scratch := os.Getenv("VERIF_SCRATCH")
	if scratch == "" {
		scratch = os.TempDir()
	}
	root, err := ioutil.TempDir(scratch, "conc-")
	if err != nil {
		return obj("harness-error", err.Error())
	}
	defer os.RemoveAll(root)
	e := &scenarioEnv{root: root, kernel: newSimKernel()}
	e.cfg = cfgFromCase(defaultCfg(), e.virt)
	targets := unhxs(c["targets"])
	lp := root + "/layers/b0"
	var cfgLines []string
	for i, t := range targets {
		src := fmt.Sprintf("%s/hostsrc/s%d", root, i)
		os.MkdirAll(src, 0755)
		os.MkdirAll(lp+"/build"+t, 0755)
		cfgLines = append(cfgLines, fmt.Sprintf("import bind %s %s", src, t))
	}
	for _, d := range []string{"bin", "etc", "lib", "opt", "root", "sbin", "usr"} {
		os.MkdirAll(lp+"/build/"+d, 0755)
	}
	os.MkdirAll(root+"/export", 0755)
	ioutil.WriteFile(lp+"/layerconfig", []byte(strings.Join(cfgLines, "\n")+"\n"), 0644)
	e.kernel.mnts = append(e.kernel.mnts, kmnt{ID: 1, Parent: 0, Dev: "8:1", Root: "/", Mp: "/", Fstype: "ext4", Src: "/dev/sda1"})
	restore := e.install()
	defer restore()
	fs.WriteOK = fs.MakePretender(false, false, nil)
	runCmd := func(cmd string) error {
		layers, err := manage.FindLayers(e.cfg, &config.Opts{})
		if err != nil {
			return err
		}
		if err = layers.ProbeAllLayerstate(fs.InUseLayerMap{}); err != nil {
			return err
		}
		if cmd == "mount" {
			return layers.Mount("b0")
		}
		return layers.Unmount("b0", false)
	}
	if b, _ := c["premounted"].(bool); b {
		if err := runCmd("mount"); err != nil {
			return obj("harness-error", "premount: "+err.Error())
		}
	}
	s := &coSched{event: make(chan int)}
	s.resume[0], s.resume[1] = make(chan struct{}), make(chan struct{})
	baseMount, baseUmount, baseCursor := fs.SyscallMount, fs.SyscallUnmount, fs.GetAlternateProbeMountsCursor
	fs.SyscallMount = func(a, b, t string, f uintptr, d string) error { s.sync(); return baseMount(a, b, t, f, d) }
	fs.SyscallUnmount = func(t string, f int) error { s.sync(); return baseUmount(t, f) }
	fs.GetAlternateProbeMountsCursor = func() fs.LineReader { s.sync(); return baseCursor() }
	cmds := []string{str(c["cmd0"]), str(c["cmd1"])}
	results := []string{"", ""}
	done := [2]bool{}
	start := func(id int) {
		s.cur = id
		go func() {
			err := func() (err error) {
				defer func() {
					if r := recover(); r != nil {
						err = fmt.Errorf("panic")
					}
				}()
				return runCmd(cmds[id])
			}()
			if err != nil {
				results[id] = "err"
			} else {
				results[id] = "ok"
			}
			s.event <- id + 10
		}()
		if ev := <-s.event; ev >= 10 {
			done[id] = true
		}
	}
	start(0)
	start(1)
	turn := func(id int) {
		if done[id] {
			return
		}
		s.cur = id
		s.resume[id] <- struct{}{}
		if ev := <-s.event; ev >= 10 {
			done[id] = true
		}
	}
	sched, _ := c["sched"].([]interface{})
	for _, w := range sched {
		if b, _ := w.(bool); b {
			turn(1)
		} else {
			turn(0)
		}
	}
	for !done[0] {
		turn(0)
	}
	for !done[1] {
		turn(1)
	}
	mps := []string{}
	for _, m := range e.kernel.mnts {
		if strings.HasPrefix(m.Mp, root+"/") {
			mps = append(mps, e.unvirt(m.Mp))
		}
	}
	sort.Strings(mps)
	return obj("kernel", hxs(mps), "r0", results[0], "r1", results[1])
}

func init() {
	ops["conc.run"] = runConcurrent
	register("c20", func(g *Gen, tier string, emit func(Case)) {
		n := 60
		if tier == "thorough" {
			n = 1500
		}
		pool := []string{"/mnt/a", "/mnt/b", "/proc2", "/mnt/a/deep", "/var/x"}
		emitOne := func(targets []string, c0, c1 string, pre bool, sched []interface{}) {
			emit(Case{"op": "conc.run", "targets": hxs(targets), "cmd0": c0, "cmd1": c1, "premounted": pre, "sched": sched})
		}
		// exhaustive small scope first: one target, mount/mount, all schedules of length 6
		for bits := 0; bits < 64; bits++ {
			sched := make([]interface{}, 6)
			for i := range sched {
				sched[i] = bits&(1<<uint(i)) != 0
			}
			emitOne([]string{"/mnt/a"}, "mount", "mount", false, sched)
		}
		for i := 0; i < n; i++ {
			k := 1 + g.Intn(3)
			perm := g.Perm(len(pool))
			targets := []string{}
			for _, p := range perm[:k] {
				targets = append(targets, pool[p])
			}
			sort.Strings(targets)
			sched := make([]interface{}, 2+g.Intn(12))
			for j := range sched {
				sched[j] = g.Chance(1, 2)
			}
			emitOne(targets, g.Pick("mount", "mount", "umount"), g.Pick("mount", "umount"), g.Chance(1, 3), sched)
		}
	})
}
