package main

import (
	"fmt"
	"io/ioutil"
	"os"
	"sort"
	"strings"

	"potano.layercake/config"
	"potano.layercake/fs"
	"potano.layercake/manage"
)

// C20: two in-process command instances on one simulated kernel.  Only one goroutine
// runs at a time; each blocks inside the injected mountinfo reader / syscall functions
// and is released according to the schedule.

type coSched struct {
	cur    int
	resume [2]chan struct{}
	event  chan int // a process parked at a sync point (its id) or finished (id+10)
}

func (s *coSched) sync() {
	id := s.cur
	s.event <- id
	<-s.resume[id]
	s.cur = id
}

// layers of a C20 case: chain b0 <- d0 <- d1 (as many as "layers" lists), each with its
// bind imports
func c20Layers(c Case) (names []string, imports [][]string, bases []string) {
	ls, _ := c["layers"].([]interface{})
	given := unhxs(c["names"])
	for i, l := range ls {
		if len(given) > 0 {
			names = append(names, given[i])
		} else {
			names = append(names, []string{"b0", "d0", "d1"}[i])
		}
		imports = append(imports, unhxs(l))
	}
	if len(names) == 0 { // old single-layer form
		names = []string{"b0"}
		imports = [][]string{unhxs(c["targets"])}
	}
	// a chain unless the case says otherwise (a forest: "bases" names every layer's base)
	if b, ok := c["bases"].([]interface{}); ok && len(b) == len(names) {
		bases = unhxs(c["bases"])
	} else {
		for i := range names {
			if i == 0 {
				bases = append(bases, "")
			} else {
				bases = append(bases, names[i-1])
			}
		}
	}
	return
}

func runConcurrent(c Case) interface{} {
	scratch := os.Getenv("VERIF_SCRATCH")
	if scratch == "" {
		scratch = os.TempDir()
	}
	root, err := ioutil.TempDir(scratch, "conc-")
	if err != nil {
		return obj("harness-error", err.Error())
	}
	defer os.RemoveAll(root)
	e := &scenarioEnv{root: root, kernel: newSimKernel()}
	e.cfg = cfgFromCase(defaultCfg(), e.virt)
	names, imports, bases := c20Layers(c)
	nsrc := 0
	for li, name := range names {
		lp := root + "/layers/" + name
		var cfgLines []string
		if bases[li] != "" {
			cfgLines = append(cfgLines, "base "+bases[li], "")
			os.MkdirAll(lp+"/overlayfs/workdir", 0755)
			os.MkdirAll(lp+"/overlayfs/upperdir", 0755)
		}
		for _, t := range imports[li] {
			src := fmt.Sprintf("%s/hostsrc/s%d", root, nsrc)
			nsrc++
			os.MkdirAll(src, 0755)
			os.MkdirAll(lp+"/build"+t, 0755)
			cfgLines = append(cfgLines, fmt.Sprintf("import bind %s %s", src, t))
		}
		for _, d := range []string{"bin", "etc", "lib", "opt", "root", "sbin", "usr"} {
			os.MkdirAll(lp+"/build/"+d, 0755)
		}
		ioutil.WriteFile(lp+"/layerconfig", []byte(strings.Join(cfgLines, "\n")+"\n"), 0644)
	}
	os.MkdirAll(root+"/export", 0755)
	e.kernel.mnts = append(e.kernel.mnts, kmnt{ID: 1, Parent: 0, Dev: "8:1", Root: "/", Mp: "/", Fstype: "ext4", Src: "/dev/sda1"})
	restore := e.install()
	defer restore()
	fs.WriteOK = fs.MakePretender(false, false, nil)
	runCmd := func(cmd string) error {
		f := strings.Fields(cmd)
		layer := "b0"
		if len(f) > 1 {
			layer = f[1]
		}
		layers, err := manage.FindLayers(e.cfg, &config.Opts{})
		if err != nil {
			return err
		}
		if err = layers.ProbeAllLayerstate(fs.InUseLayerMap{}); err != nil {
			return err
		}
		if f[0] == "mount" {
			return layers.Mount(layer)
		}
		if f[0] == "umountall" {
			return layers.Unmount("", true)
		}
		if f[0] == "chroot" {
			// the configured chroot program is /bin/true: what is observed is the implicit mount
			return layers.Chroot(layer)
		}
		return layers.Unmount(layer, false)
	}
	if b, _ := c["premounted"].(bool); b {
		if err := runCmd("mount"); err != nil {
			return obj("harness-error", "premount: "+err.Error())
		}
	}
	for _, pm := range unhxs(c["pre"]) {
		if err := runCmd(pm); err != nil {
			return obj("harness-error", "pre "+pm+": "+err.Error())
		}
	}
	s := &coSched{event: make(chan int)}
	s.resume[0], s.resume[1] = make(chan struct{}), make(chan struct{})
	baseMount, baseUmount, baseCursor := fs.SyscallMount, fs.SyscallUnmount, fs.GetAlternateProbeMountsCursor
	fs.SyscallMount = func(a, b, t string, f uintptr, d string) error { s.sync(); return baseMount(a, b, t, f, d) }
	fs.SyscallUnmount = func(t string, f int) error { s.sync(); return baseUmount(t, f) }
	fs.GetAlternateProbeMountsCursor = func() fs.LineReader { s.sync(); return baseCursor() }
	cmds := []string{str(c["cmd0"]), str(c["cmd1"])}
	results := []string{"", ""}
	done := [2]bool{}
	start := func(id int) {
		s.cur = id
		go func() {
			err := func() (err error) {
				defer func() {
					if r := recover(); r != nil {
						err = fmt.Errorf("panic")
					}
				}()
				return runCmd(cmds[id])
			}()
			if err != nil {
				results[id] = "err"
			} else {
				results[id] = "ok"
			}
			s.event <- id + 10
		}()
		if ev := <-s.event; ev >= 10 {
			done[id] = true
		}
	}
	start(0)
	start(1)
	turn := func(id int) {
		if done[id] {
			return
		}
		s.cur = id
		s.resume[id] <- struct{}{}
		if ev := <-s.event; ev >= 10 {
			done[id] = true
		}
	}
	sched, _ := c["sched"].([]interface{})
	for _, w := range sched {
		if b, _ := w.(bool); b {
			turn(1)
		} else {
			turn(0)
		}
	}
	for !done[0] {
		turn(0)
	}
	for !done[1] {
		turn(1)
	}
	table := func() []interface{} {
		mps := []string{}
		for _, m := range e.kernel.mnts {
			if strings.HasPrefix(m.Mp, root+"/") {
				mps = append(mps, e.unvirt(m.Mp))
			}
		}
		sort.Strings(mps)
		return hxs(mps)
	}
	out := obj("kernel", table(), "r0", results[0], "r1", results[1])
	// the order in which umount -all visits the layers is the implementation's (reverse of its
	// normalized order); the model takes it as given
	if ls, err := manage.FindLayers(e.cfg, &config.Opts{}); err == nil {
		order := []string{}
		for _, l := range ls.Layers() {
			order = append(order, l.Name)
		}
		out["order"] = hxs(order)
	}
	// afterwards, alone: e.g. one later umount
	fs.SyscallMount, fs.SyscallUnmount, fs.GetAlternateProbeMountsCursor = baseMount, baseUmount, baseCursor
	then := []interface{}{}
	for _, cmd := range unhxs(c["then"]) {
		r := "ok"
		if err := runCmd(cmd); err != nil {
			r = "err"
		}
		then = append(then, obj("r", r, "kernel", table()))
	}
	if len(then) > 0 {
		out["then"] = then
	}
	return out
}

func init() {
	ops["conc.run"] = runConcurrent
	register("c20", func(g *Gen, tier string, emit func(Case)) {
		n := 60
		if tier == "thorough" {
			n = 1500
		}
		pool := []string{"/mnt/a", "/mnt/b", "/proc2", "/mnt/a/deep", "/var/x"}
		emitOne := func(targets []string, c0, c1 string, pre bool, sched []interface{}) {
			emit(Case{"op": "conc.run", "targets": hxs(targets), "cmd0": c0, "cmd1": c1, "premounted": pre, "sched": sched})
		}
		// exhaustive small scope first: one target, mount/mount, all schedules of length 6
		for bits := 0; bits < 64; bits++ {
			sched := make([]interface{}, 6)
			for i := range sched {
				sched[i] = bits&(1<<uint(i)) != 0
			}
			emitOne([]string{"/mnt/a"}, "mount", "mount", false, sched)
		}
		// chains: b0 <- d0 (<- d1), some layers mounted beforehand, one later umount afterwards
		nchain := 40
		if tier == "thorough" {
			nchain = 1200
		}
		for i := 0; i < nchain; i++ {
			depth := 2 + g.Intn(2)
			layers := []interface{}{}
			for d := 0; d < depth; d++ {
				k := 1 + g.Intn(2)
				ts := []string{}
				for _, p := range g.Perm(len(pool))[:k] {
					ts = append(ts, pool[p])
				}
				sort.Strings(ts)
				layers = append(layers, hxs(ts))
			}
			names := []string{"b0", "d0", "d1"}[:depth]
			pre := []string{}
			switch g.Intn(4) {
			case 1:
				pre = []string{"mount b0"}
			case 2:
				pre = []string{"mount " + names[depth-1]}
			case 3:
				if depth > 2 {
					pre = []string{"mount d0"}
				}
			}
			cmd := func() string {
				l := names[g.Intn(depth)]
				switch x := g.Intn(100); {
				case x < 50:
					return "mount " + l
				case x < 75:
					return "chroot " + l
				}
				return "umount " + l
			}
			sched := make([]interface{}, 2+g.Intn(16))
			for j := range sched {
				sched[j] = g.Chance(1, 2)
			}
			if g.Chance(1, 3) { // one process runs entirely between two kernel interactions of the other
				cut := 1 + g.Intn(6)
				sched = sched[:0]
				for j := 0; j < cut; j++ {
					sched = append(sched, false)
				}
				for j := 0; j < 30; j++ {
					sched = append(sched, true)
				}
			}
			then := []string{}
			if g.Chance(1, 2) {
				then = []string{"umount " + names[depth-1]}
				if g.Chance(1, 2) {
					then = append(then, "umount "+names[depth-1])
				}
			}
			emit(Case{"op": "conc.run", "layers": layers, "cmd0": cmd(), "cmd1": cmd(), "pre": hxs(pre), "then": hxs(then), "sched": sched})
		}
		// chroot reads the table while the other process's mount of the same derived layer is
		// half done (overlay there, imports not yet), every cut point
		for cut := 1; cut <= 8; cut++ {
			sched := []interface{}{}
			for j := 0; j < cut; j++ {
				sched = append(sched, true)
			}
			sched = append(sched, false) // process 0 (chroot) reads the table here
			for j := 0; j < 30; j++ {
				sched = append(sched, true)
			}
			emit(Case{"op": "conc.run", "layers": []interface{}{hxs([]string{"/mnt/a"}), hxs([]string{"/mnt/a", "/var/x"})},
				"cmd0": "chroot d0", "cmd1": "mount d0", "pre": hxs(nil), "then": hxs([]string{"umount d0"}), "sched": sched})
		}
		// forests: two families a <- a2 and b <- c; umount -all against mount / chroot / umount of
		// one layer.  First the shaped race: -all has unmounted one family when the other
		// process mounts a derived layer of the next, at every cut point; then random cases.
		fnames := []string{"a", "a2", "b", "c"}
		fbases := []string{"", "a", "", "b"}
		flayers := []interface{}{hxs([]string{"/mnt/a"}), hxs([]string{"/var/x"}), hxs([]string{"/mnt/a"}), hxs([]string{"/mnt/b"})}
		forest := func(c0, c1 string, pre, then []string, sched []interface{}) {
			emit(Case{"op": "conc.run", "layers": flayers, "names": hxs(fnames), "bases": hxs(fbases), "cmd0": c0, "cmd1": c1,
				"pre": hxs(pre), "then": hxs(then), "sched": sched})
		}
		for cut := 1; cut <= 10; cut++ {
			sched := []interface{}{}
			for j := 0; j < cut; j++ {
				sched = append(sched, false)
			}
			for j := 0; j < 30; j++ {
				sched = append(sched, true)
			}
			forest("umountall", "mount a2", []string{"mount a", "mount c"}, nil, sched)
			forest("umountall", "chroot c", []string{"mount a2", "mount b"}, nil, sched)
		}
		nforest := 30
		if tier == "thorough" {
			nforest = 900
		}
		for i := 0; i < nforest; i++ {
			pre := []string{}
			for _, l := range fnames {
				if g.Chance(1, 3) {
					pre = append(pre, "mount "+l)
				}
			}
			other := g.Pick("mount", "mount", "chroot", "umount") + " " + fnames[g.Intn(4)]
			sched := make([]interface{}, 2+g.Intn(20))
			for j := range sched {
				sched[j] = g.Chance(1, 2)
			}
			then := []string{}
			if g.Chance(1, 3) {
				then = []string{"umountall"}
			}
			if g.Chance(1, 2) {
				forest("umountall", other, pre, then, sched)
			} else {
				forest(other, "umountall", pre, then, sched)
			}
		}
		// one target, both mount with stale caches, then ONE later umount must clean up
		emit(Case{"op": "conc.run", "layers": []interface{}{hxs([]string{"/mnt/a"})}, "cmd0": "mount b0", "cmd1": "mount b0",
			"pre": hxs(nil), "then": hxs([]string{"umount b0"}), "sched": []interface{}{false, true, false, true}})
		for i := 0; i < n; i++ {
			k := 1 + g.Intn(3)
			perm := g.Perm(len(pool))
			targets := []string{}
			for _, p := range perm[:k] {
				targets = append(targets, pool[p])
			}
			sort.Strings(targets)
			sched := make([]interface{}, 2+g.Intn(12))
			for j := range sched {
				sched[j] = g.Chance(1, 2)
			}
			emitOne(targets, g.Pick("mount", "mount", "umount"), g.Pick("mount", "umount"), g.Chance(1, 3), sched)
		}
	})
}
