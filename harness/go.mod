module verif.harness

go 1.14

require potano.layercake v0.0.0

replace potano.layercake => /repo
