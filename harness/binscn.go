package main

import (
	"bytes"
	"context"
	"encoding/json"
	"fmt"
	"io/ioutil"
	"os"
	"os/exec"
	"sort"
	"strings"
	"time"
)

// Binary-level scenarios: the real `layercake` binary (built from /repo with -tags verif)
// run with real argument vectors inside a private mount namespace (unshare -m), real
// mount(2)/umount(2) on a scratch base.  Covers main(): argument parsing, installation of
// the pretender, exit status, and validates the kernel model against the real kernel.

type binSpec struct {
	Root  string     `json:"root"`
	Bin   string     `json:"bin"`
	Steps [][]string `json:"steps"`
}

// runs inside the namespace: -mode binrun <specfile>
func binRun(specFile string) {
	var spec binSpec
	b, _ := ioutil.ReadFile(specFile)
	json.Unmarshal(b, &spec)
	e := &scenarioEnv{root: spec.Root}
	os.Chdir("/")
	out := []interface{}{}
	oplog := spec.Root + ".oplog"
	for _, argv := range spec.Steps {
		os.Remove(oplog)
		ctx, cancel := context.WithTimeout(context.Background(), 15*time.Second)
		full := append([]string{"-basepath", spec.Root}, argv...)
		cmd := exec.CommandContext(ctx, spec.Bin, full...)
		if len(argv) == 2 && argv[0] == "!proc" {
			// a process left working in a directory (the shell of `layercake shell`); it lives
			// until the scenario ends
			bg := exec.Command("sleep", "120")
			bg.Dir = argv[1]
			if bg.Start() == nil {
				defer func() { bg.Process.Kill(); bg.Wait() }()
			}
			cmd = exec.CommandContext(ctx, "true")
		}
		if len(argv) == 3 && argv[0] == "!bind" {
			// a mount the administrator makes by hand (real mount(2), inside the namespace)
			cmd = exec.CommandContext(ctx, "mount", "--bind", argv[1], argv[2])
		}
		cmd.Env = []string{"HOME=/nonexistent-home", "PATH=/usr/bin:/bin", "LAYERCAKE_VERIF_LOG=" + oplog}
		var stderr bytes.Buffer
		cmd.Stderr = &stderr
		cmd.Stdout = ioutil.Discard
		err := cmd.Run()
		cls := "ok"
		if ctx.Err() != nil {
			cls = "timeout"
		} else if err != nil {
			cls = "err"
			if strings.Contains(stderr.String(), "panic:") || strings.Contains(stderr.String(), "goroutine ") {
				cls = "panic"
			}
		}
		cancel()
		nops := 0
		if lb, err := ioutil.ReadFile(oplog); err == nil {
			nops = strings.Count(string(lb), "\n")
		}
		mi, _ := ioutil.ReadFile("/proc/self/mountinfo")
		mps := []string{}
		e.prune = map[string]bool{}
		for _, line := range strings.Split(string(mi), "\n") {
			f := strings.Split(line, " ")
			if len(f) > 4 {
				mp := kunescape(f[4])
				if strings.HasPrefix(mp, spec.Root+"/") {
					mps = append(mps, e.unvirt(mp))
					e.prune[mp] = true
				}
			}
		}
		sort.Strings(mps)
		out = append(out, obj("cls", cls, "nops", float64(nops), "tree", e.listTree(), "mps", hxs(mps)))
	}
	os.Remove(oplog)
	json.NewEncoder(os.Stdout).Encode(obj("steps", out))
}

var binSeq int

func runBinScenario(c Case) interface{} {
	scratch := os.Getenv("VERIF_SCRATCH")
	if scratch == "" {
		scratch = os.TempDir()
	}
	bin := os.Getenv("VERIF_LAYERCAKE")
	if bin == "" {
		return obj("harness-error", "VERIF_LAYERCAKE not set")
	}
	binSeq++
	// every other installation lives in a directory with an equals sign in its name: the real
	// kernel writes it unescaped into the overlay options of mountinfo
	pattern := fmt.Sprintf("bin%d-", binSeq)
	if binSeq%2 == 1 {
		pattern = fmt.Sprintf("bin%d=cake=17.1-", binSeq)
	}
	root, err := ioutil.TempDir(scratch, pattern)
	if err != nil {
		return obj("harness-error", err.Error())
	}
	defer os.RemoveAll(root)
	defer os.Remove(root + ".spec")
	e := &scenarioEnv{root: root}
	if tree, ok := c["tree"].([]interface{}); ok {
		if err := e.materialise(tree); err != nil {
			return obj("harness-error", err.Error())
		}
	}
	spec := binSpec{Root: root, Bin: bin}
	steps, _ := c["steps"].([]interface{})
	for _, s := range steps {
		argv := []string{}
		for _, a := range unhxs(s.(map[string]interface{})["argv"]) {
			argv = append(argv, e.virt(a))
		}
		spec.Steps = append(spec.Steps, argv)
	}
	sb, _ := json.Marshal(spec)
	ioutil.WriteFile(root+".spec", sb, 0644)
	self, _ := os.Executable()
	ctx, cancel := context.WithTimeout(context.Background(), 120*time.Second)
	defer cancel()
	cmd := exec.CommandContext(ctx, "unshare", "-m", "--propagation", "private", self, "-mode", "binrun", root+".spec")
	var stdout, stderr bytes.Buffer
	cmd.Stdout, cmd.Stderr = &stdout, &stderr
	if err := cmd.Run(); err != nil {
		return obj("harness-error", "binrun: "+err.Error()+": "+stderr.String())
	}
	var res map[string]interface{}
	if err := json.Unmarshal(stdout.Bytes(), &res); err != nil {
		return obj("harness-error", "binrun output: "+err.Error())
	}
	return res
}

var binImportPool = []string{
	"import proc /proc /proc",
	"import bind /VB/hostsrc /mnt/host",
	"import rbind $$base/packages /var/cache/binpkgs",
	"import bind $$self/generated /mnt/gen",
	"import bind /VB/hostsrc/sub /mnt/sub",
}

func genBinScenario(g *Gen) Case {
	t := &treeB{ents: map[string][]interface{}{}}
	for _, h := range []string{"/", "/dev", "/proc", "/sys", "/run"} {
		t.ents[h] = []interface{}{hx(h), "d"}
	}
	t.dir(VB)
	t.dir(VB + "/layers")
	t.dir(VB + "/export")
	t.file(VB+"/default_layerconfig.skel", "import proc /proc /proc\nimport rbind $$base/packages /var/cache/binpkgs\n")
	t.dir(VB + "/hostsrc/sub")
	names := []string{"b0", "b1", "x_y", "é1"}
	if g.Chance(1, 4) {
		// a very long name next to a short one (the listing table must cope)
		names[1] = strings.Repeat("n", 45+g.Intn(30))
	} else if g.Chance(1, 3) {
		// names whose byte length differs much from their width in characters
		names[0] = g.Pick("базовый", "日本語名", "ééééééééé")
		names[2] = g.Pick("слой", "b")
	}
	n := 1 + g.Intn(3)
	have := []string{}
	for i := 0; i < n; i++ {
		l := glayer{name: names[i]}
		pool := append([]string(nil), binImportPool...)
		g.Shuffle(len(pool), func(a, b int) { pool[a], pool[b] = pool[b], pool[a] })
		l.imports = pool[:g.Intn(4)]
		pf := scnProfile{pIncomplete: 10}
		genLayerTree(g, t, l, pf, true)
		have = append(have, l.name)
	}
	pick := func() string {
		if g.Chance(80, 100) {
			return have[g.Intn(len(have))]
		}
		return g.Pick("nosuch", "b9", "-x", "a/b", "")
	}
	flags := []string{"-p", "--p", "-v", "-force", "-debug", "-p=true", "-p=false", "-v=1"}
	steps := []interface{}{}
	for k := 2 + g.Intn(6); k > 0; k-- {
		var words []string
		switch g.Intn(12) {
		case 0:
			words = []string{"add", g.Pick("b1", "x_y", "é1", "new1", "b0", "-bad")}
			have = append(have, words[1])
		case 1:
			words = []string{"remove", pick()}
			if g.Chance(1, 3) {
				words = append(words, "-files")
			} else if g.Chance(1, 3) {
				words = append(words, "-force") // forcing is not asking for the files to go
			}
		case 2:
			words = []string{"rename", pick(), g.Pick("ren1", "b0", "x y")}
			have = append(have, "ren1")
		case 3:
			words = []string{"rebase", pick()}
		case 4:
			words = []string{"mkdirs", pick()}
		case 5, 6, 7:
			words = []string{"mount", pick()}
		case 8:
			words = []string{g.Pick("umount", "unmount"), pick()}
		case 9:
			words = []string{"umount"}
			if g.Chance(4, 5) {
				words = append(words, "-all")
			}
		case 10:
			words = []string{g.Pick("list", "list", "status", "shake", "init", "frobnicate")}
			if words[0] == "list" && g.Chance(1, 2) {
				words = append(words, "-v")
			}
		case 11:
			words = []string{"status", pick()}
		}
		// sprinkle global switches at arbitrary positions, also before the command word
		argv := []string{}
		for _, w := range words {
			for g.Chance(25, 100) {
				argv = append(argv, flags[g.Intn(len(flags))])
			}
			if w != "" || g.Chance(1, 2) {
				argv = append(argv, w)
			}
		}
		for g.Chance(25, 100) {
			argv = append(argv, flags[g.Intn(len(flags))])
		}
		if g.Chance(3, 100) {
			argv = append(argv, g.Pick("-bogus", "--", "-", "-p=maybe", "extra"))
		}
		steps = append(steps, obj("argv", hxs(argv)))
	}
	if g.Chance(1, 3) {
		// an empty string where a layer name belongs (an unset shell variable): refused, and
		// the following argument must not slip into its place
		steps = append(steps, obj("argv", hxs([]string{g.Pick("rebase", "rename", "add", "remove", "mount"), "", pick()})))
	}
	// the installation must still be listable at the end, whatever the names look like
	steps = append([]interface{}{obj("argv", hxs([]string{"list"}))}, steps...)
	steps = append(steps, obj("argv", hxs([]string{"list"})), obj("argv", hxs([]string{"status"})))
	return Case{"op": "binscn", "cfg": defaultCfg(), "tree": t.list(), "steps": steps}
}

// a base layer and a derived layer with a real overlay: mount, shake (with and without -p
// at every position), unmount
func genBinOverlay(g *Gen) Case {
	t := &treeB{ents: map[string][]interface{}{}}
	for _, h := range []string{"/", "/dev", "/proc", "/sys", "/run"} {
		t.ents[h] = []interface{}{hx(h), "d"}
	}
	t.dir(VB)
	t.dir(VB + "/layers")
	t.dir(VB + "/export")
	t.file(VB+"/default_layerconfig.skel", "import proc /proc /proc\n")
	t.dir(VB + "/hostsrc/sub")
	pf := scnProfile{}
	b0 := glayer{name: "b0", imports: []string{"import proc /proc /proc", "import bind /VB/hostsrc /mnt/host"}}
	d1 := glayer{name: "d1", base: "b0", imports: []string{"import proc /proc /proc"}}
	genLayerTree(g, t, b0, pf, false)
	genLayerTree(g, t, d1, pf, false)
	sw := func(words ...string) []string {
		flags := []string{"-p", "--p", "-v", "-force", "-p=true"}
		argv := []string{}
		for _, w := range words {
			for g.Chance(30, 100) {
				argv = append(argv, flags[g.Intn(len(flags))])
			}
			argv = append(argv, w)
		}
		for g.Chance(30, 100) {
			argv = append(argv, flags[g.Intn(len(flags))])
		}
		return argv
	}
	steps := []interface{}{obj("argv", hxs([]string{"mount", "d1"}))}
	for k := 2 + g.Intn(4); k > 0; k-- {
		switch g.Intn(6) {
		case 0, 1:
			steps = append(steps, obj("argv", hxs(sw("shake"))))
		case 2:
			steps = append(steps, obj("argv", hxs(append([]string{"-p"}, sw("shake")...))))
		case 3:
			steps = append(steps, obj("argv", hxs(sw("umount", g.Pick("d1", "b0")))))
		case 4:
			steps = append(steps, obj("argv", hxs(sw("mount", g.Pick("d1", "b0")))))
		case 5:
			steps = append(steps, obj("argv", hxs(sw("umount", "-all"))))
		}
	}
	return Case{"op": "binovl", "cfg": defaultCfg(), "tree": t.list(), "steps": steps}
}

// hand-made mounts below a mounted layer's build root, then umount: a bind on a
// subdirectory of an import and a second bind stacked on the import's own mountpoint, in
// both orders (stacked last: the subdirectory mount is hidden below it)
func genBinManual(g *Gen, variant int) Case {
	t := &treeB{ents: map[string][]interface{}{}}
	for _, h := range []string{"/", "/dev", "/proc", "/sys", "/run"} {
		t.ents[h] = []interface{}{hx(h), "d"}
	}
	t.dir(VB)
	t.dir(VB + "/layers")
	t.dir(VB + "/export")
	t.file(VB+"/default_layerconfig.skel", "import proc /proc /proc\n")
	t.dir(VB + "/hostsrc/sub/deep")
	l := glayer{name: "b0", imports: []string{"import proc /proc /proc", "import bind /VB/hostsrc /mnt/host"}}
	genLayerTree(g, t, l, scnProfile{}, false)
	mp := VB + "/layers/b0/build/mnt/host"
	sub := []string{"!bind", VB + "/hostsrc/sub", mp + "/sub"}
	stack := []string{"!bind", VB + "/hostsrc", mp}
	steps := []interface{}{obj("argv", hxs([]string{"mount", "b0"}))}
	if variant >= 4 {
		// a process working inside the layer (in the build root, or only in its packages
		// directory): remove, rename and rebase must refuse, with or without -force, and
		// change nothing; umount must refuse exactly when the process is in the build root
		where := VB + "/layers/b0/" + []string{"build/usr", "packages", "build", "generated"}[variant%4]
		t.dir(where)
		steps = []interface{}{obj("argv", hxs([]string{"!proc", where}))}
		for _, argv := range [][]string{{"remove", "b0"}, {"-force", "remove", "b0"}, {"remove", "b0", "-force", "-files"},
			{"rename", "-force", "b0", "b9"}, {"rebase", "b0", "-force"}, {"status", "b0"}, {"list"}} {
			steps = append(steps, obj("argv", hxs(argv)))
		}
		return Case{"op": "binman", "cfg": defaultCfg(), "tree": t.list(), "steps": steps, "inuse": hx("b0")}
	}
	switch variant % 4 {
	case 0:
		steps = append(steps, obj("argv", hxs(sub)), obj("argv", hxs(stack)))
	case 1:
		steps = append(steps, obj("argv", hxs(stack)), obj("argv", hxs(sub)))
	case 2:
		steps = append(steps, obj("argv", hxs(sub)))
	default:
		steps = append(steps, obj("argv", hxs(stack)))
	}
	steps = append(steps, obj("argv", hxs([]string{"status", "b0"})), obj("argv", hxs([]string{"umount", "b0"})),
		obj("argv", hxs([]string{"list"})), obj("argv", hxs([]string{"umount", "-all"})))
	return Case{"op": "binman", "cfg": defaultCfg(), "tree": t.list(), "steps": steps}
}

func init() {
	ops["binscn"] = runBinScenario
	ops["binovl"] = runBinScenario
	ops["binman"] = runBinScenario
	register("binman", func(g *Gen, tier string, emit func(Case)) {
		for v := 0; v < 8; v++ {
			emit(genBinManual(g, v))
		}
	})
	register("binovl", func(g *Gen, tier string, emit func(Case)) {
		n := 12
		if tier == "thorough" {
			n = 300
		}
		for i := 0; i < n; i++ {
			emit(genBinOverlay(g))
		}
	})
	register("bin", func(g *Gen, tier string, emit func(Case)) {
		n := 40
		if tier == "thorough" {
			n = 1200
		}
		for i := 0; i < n; i++ {
			emit(genBinScenario(g))
		}
	})
}
