package main

import (
	"bufio"
	"encoding/json"
	"fmt"
	"io"
	"io/ioutil"
	"os"
	"os/exec"
	"path/filepath"
	"regexp"
	"sort"
	"strconv"
	"strings"
	"syscall"

	"potano.layercake/fns"
	"potano.layercake/fs"
	"potano.layercake/manage"
)

// C19: real helper processes with cwd / root / executable / open files inside layer
// directories, scanned by the real fs.FindLayerUsers.  A helper can be killed exactly
// between the opening and the reading of its fd directory (verif hook "proc-scan").

type helperSpec struct {
	Cwd, Chroot, Exe string
	Fds          []string
	Kill         bool
	Gone         bool // the working directory is deleted (and made anew) once the helper sits in it
}

func init() {
	if spec := os.Getenv("LC_INUSE_HELPER"); spec != "" {
		runInuseHelper(spec)
		os.Exit(0)
	}
	ops["inuse.scan"] = runInuseScan
	register("c19", genC19)
}

// helper process: set itself up, say "ready", wait for stdin to close
func runInuseHelper(spec string) {
	var h helperSpec
	json.Unmarshal([]byte(spec), &h)
	var keep []*os.File
	for _, p := range h.Fds {
		f, err := os.Open(p)
		if err != nil {
			fmt.Println("error", err)
			return
		}
		keep = append(keep, f)
	}
	if h.Cwd != "" {
		if err := os.Chdir(h.Cwd); err != nil {
			fmt.Println("error", err)
			return
		}
	}
	if h.Chroot != "" {
		if err := syscall.Chroot(h.Chroot); err != nil {
			fmt.Println("error", err)
			return
		}
		os.Chdir("/")
	}
	fmt.Println("ready")
	io.Copy(ioutil.Discard, os.Stdin)
	_ = keep
}

var pidInParens = regexp.MustCompile(`\((\d+)\)`)

// captureStdout runs f with os.Stdout redirected into a pipe and returns what was written
func captureStdout(f func()) string {
	r, w, err := os.Pipe()
	if err != nil {
		return ""
	}
	old := os.Stdout
	os.Stdout = w
	done := make(chan string)
	go func() {
		b, _ := ioutil.ReadAll(r)
		done <- string(b)
	}()
	f()
	w.Close()
	os.Stdout = old
	return <-done
}

func copyFile(src, dst string) error {
	b, err := ioutil.ReadFile(src)
	if err != nil {
		return err
	}
	os.MkdirAll(filepath.Dir(dst), 0755)
	return ioutil.WriteFile(dst, b, 0755)
}

func runInuseScan(c Case) interface{} {
	scratch := os.Getenv("VERIF_SCRATCH")
	if scratch == "" {
		scratch = os.TempDir()
	}
	root, err := ioutil.TempDir(scratch, "inuse-")
	if err != nil {
		return obj("harness-error", err.Error())
	}
	defer os.RemoveAll(root)
	virt := func(p string) string {
		if p == VB || strings.HasPrefix(p, VB+"/") {
			return root + p[len(VB):]
		}
		return p
	}
	layers := virt(unhx(c["layers"]))
	os.MkdirAll(layers, 0755)
	self, _ := os.Executable()
	type running struct {
		cmd   *exec.Cmd
		stdin io.WriteCloser
		kill  bool
	}
	var procs []running
	pidIndex := map[int]int{}
	cleanup := func() {
		for _, r := range procs {
			r.stdin.Close()
			r.cmd.Process.Kill()
			r.cmd.Wait()
		}
	}
	defer cleanup()
	hs, _ := c["helpers"].([]interface{})
	for i, hj := range hs {
		hm := hj.(map[string]interface{})
		h := helperSpec{Cwd: virt(unhx(hm["cwd"])), Chroot: virt(unhx(hm["chroot"])), Exe: virt(unhx(hm["exe"]))}
		h.Kill, _ = hm["kill"].(bool)
		h.Gone, _ = hm["gone"].(bool)
		for _, f := range unhxs(hm["fds"]) {
			h.Fds = append(h.Fds, virt(f))
		}
		for _, d := range []string{h.Cwd, h.Chroot} {
			if d != "" {
				os.MkdirAll(d, 0755)
			}
		}
		for _, f := range h.Fds {
			if strings.HasSuffix(f, "/") || filepath.Ext(f) == "" {
				os.MkdirAll(f, 0755)
			} else {
				os.MkdirAll(filepath.Dir(f), 0755)
				ioutil.WriteFile(f, []byte("x"), 0644)
			}
		}
		bin := self
		if h.Exe != "" {
			// a second helper may run the same copy: writing it again would be ETXTBSY
			if _, err := os.Stat(h.Exe); err != nil {
				if err := copyFile(self, h.Exe); err != nil {
					return obj("harness-error", err.Error())
				}
			}
			bin = h.Exe
		}
		spec, _ := json.Marshal(h)
		cmd := exec.Command(bin)
		cmd.Env = append(os.Environ(), "LC_INUSE_HELPER="+string(spec))
		stdin, _ := cmd.StdinPipe()
		stdout, _ := cmd.StdoutPipe()
		if err := cmd.Start(); err != nil {
			return obj("harness-error", err.Error())
		}
		procs = append(procs, running{cmd, stdin, h.Kill})
		pidIndex[cmd.Process.Pid] = i
		line, _ := bufio.NewReader(stdout).ReadString('\n')
		if strings.TrimSpace(line) != "ready" {
			return obj("harness-error", "helper: "+line)
		}
		if h.Gone && h.Cwd != "" && h.Chroot == "" {
			os.RemoveAll(h.Cwd)
			os.MkdirAll(h.Cwd, 0755)
		}
	}
	old := fs.VerifHook
	defer func() { fs.VerifHook = old }()
	fs.VerifHook = func(kind, arg string) error {
		if kind == "proc-scan" {
			for _, r := range procs {
				if r.kill && fmt.Sprint(r.cmd.Process.Pid) == arg {
					r.cmd.Process.Kill()
					r.cmd.Wait()
				}
			}
		}
		return nil
	}
	return guarded(func() interface{} {
		m, err := fs.FindLayerUsers(layers)
		if err != nil {
			return obj("cls", "err")
		}
		type row struct {
			idx, usedAs int
			layer, file string
		}
		var rows []row
		for layer, us := range m {
			for _, u := range us {
				if idx, ok := pidIndex[int(u.Pid)]; ok {
					rows = append(rows, row{idx, int(u.UsedAs), layer, u.File})
				}
			}
		}
		key := func(r row) string {
			return string([]byte{byte(r.idx), 0, byte(r.usedAs), 0}) + r.layer + "\x00" + r.file
		}
		sort.Slice(rows, func(i, j int) bool { return key(rows[i]) < key(rows[j]) })
		out := []interface{}{}
		for _, r := range rows {
			out = append(out, []interface{}{hx(r.layer), float64(r.idx), float64(r.usedAs), hx(r.file)})
		}
		// what `status <layer>` lists: every process that uses the layer, once
		listed := []interface{}{}
		layerNames := []string{}
		for layer := range m {
			layerNames = append(layerNames, layer)
		}
		sort.Strings(layerNames)
		for _, layer := range layerNames {
			text := captureStdout(func() {
				tbl := fns.NewAdaptiveTable(" l    l")
				var ld *manage.Layerdefs
				ld.DescribeUsers(append([]fs.InUseProc(nil), m[layer]...), tbl)
				tbl.Flush()
			})
			type ent struct {
				idx  int
				kind string
			}
			ents := []ent{}
			for _, line := range strings.Split(text, "\n") {
				mm := pidInParens.FindStringSubmatch(line)
				if mm == nil {
					continue
				}
				pid, _ := strconv.Atoi(mm[1])
				idx, ok := pidIndex[pid]
				if !ok {
					continue
				}
				kind := "other"
				switch {
				case strings.Contains(line, "running in chroot"):
					kind = "chroot"
				case strings.Contains(line, "running in layer directory"):
					kind = "cwd"
				}
				ents = append(ents, ent{idx, kind})
			}
			sort.Slice(ents, func(a, b int) bool { return ents[a].idx < ents[b].idx })
			for _, e := range ents {
				listed = append(listed, []interface{}{hx(layer), float64(e.idx), e.kind})
			}
		}
		return obj("cls", "ok", "uses", out, "listed", listed)
	})
}

func genC19(g *Gen, tier string, emit func(Case)) {
	n := 25
	if tier == "thorough" {
		n = 400
	}
	names := []string{"d1", "d1x", "d1-2", "d1~removed", "é1", "b", "日本"}
	place := func() string {
		l := VB + "/layers"
		switch g.Intn(10) {
		case 0:
			return VB + "/layersX/d1/build" // next to the layers directory
		case 1:
			return VB + "/other"
		case 2:
			return l
		}
		p := l + "/" + names[g.Intn(len(names))]
		switch g.Intn(6) {
		case 0:
		case 1:
			p += "/build"
		case 2:
			p += "/build/usr/lib"
		case 3:
			p += "/overlayfs/upperdir"
		case 4:
			p += "/packages"
		case 5:
			p += "/buildx/y"
		}
		return p
	}
	for i := 0; i < n; i++ {
		k := 1 + g.Intn(4)
		hs := []interface{}{}
		for j := 0; j < k; j++ {
			h := obj("cwd", hx(""), "chroot", hx(""), "exe", hx(""), "fds", hxs(nil), "kill", false)
			if g.Chance(70, 100) {
				h["cwd"] = hx(place())
			}
			if g.Chance(20, 100) {
				h["chroot"] = hx(place())
			}
			if g.Chance(20, 100) {
				h["exe"] = hx(place() + "/bin/helper.bin")
			}
			fds := []string{}
			if j > 0 && g.Chance(1, 4) {
				// the same file held open by two processes
				if prev := unhxs(hs[j-1].(map[string]interface{})["fds"]); len(prev) > 0 {
					fds = append(fds, prev[0])
				}
			}
			for q := g.Intn(3); q > 0; q-- {
				if g.Chance(1, 2) {
					fds = append(fds, place()+"/file.txt")
				} else {
					fds = append(fds, place()+"/opendir")
				}
			}
			h["fds"] = hxs(fds)
			if g.Chance(15, 100) {
				h["kill"] = true
			}
			if g.Chance(10, 100) {
				// sits in a directory of its own that is then deleted and made anew: it does
				// not use the directory now found under that name
				h["cwd"] = hx(place() + fmt.Sprintf("/gone%d", j))
				h["chroot"] = hx("")
				h["gone"] = true
			}
			hs = append(hs, h)
		}
		emit(Case{"op": "inuse.scan", "layers": hx(VB + "/layers"), "helpers": hs})
	}
}
