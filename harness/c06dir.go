package main

// C06/C07 directed roots: one small root per known defect region (DESIGN.md §5 #23, #25-#28,
// #36) plus a few structural corner cases.  They run first in every tier and are also kept
// in corpus/C06 and corpus/C07.

import (
	"strings"
)

type directed struct {
	name string
	d    rootDesc
}

func plainSkeleton() *rb {
	b := &rb{g: NewGen(7, "directed"), idx: map[string]int{}}
	add := func(p string) { b.text(p, "x\n") }
	b.dir("/")
	for _, f := range []string{"csh.env", "fstab", "group", "gshadow", "ld.so.cache", "ld.so.conf", "passwd", "profile.env", "shadow"} {
		add("/etc/" + f)
	}
	for _, f := range []string{"/etc/udev/hwdb.bin", "/usr/bin/c89", "/usr/bin/c99", "/usr/lib64/gconv/gconv-modules.cache",
		"/usr/share/info/dir", "/etc/localtime", "/etc/env.d/00basic", "/etc/ld.so.conf.d/05gcc.conf", "/etc/xml/catalog",
		"/usr/local/share/readme", "/usr/share/binutils-data/ld", "/usr/share/gcc-data/info", "/var/cache/edb/counter",
		"/var/lib/gentoo/news/n", "/var/lib/portage/world"} {
		add(f)
	}
	b.sym("/var/run", "../run")
	for i := range b.objs { // plain attributes
		o := &b.objs[i]
		o.Uid, o.Gid, o.Mtime = 0, 0, 1500000000
		if o.T == "d" {
			o.Mode = 0755
		}
	}
	return b
}

// finish adds one selected package "app-misc/one-1.0" recording the given existing names, one
// unselected package recording others, the VDB files and the profile.
func finish(b *rb, sel []centry, unsel []centry, addfiles []string, ext *rb, novdb, emptydev bool) rootDesc {
	pkgs := []pkgDesc{{Cat: "app-misc", PV: "one-1.0", Sel: true, Contents: sel}}
	if len(unsel) > 0 {
		pkgs = append(pkgs, pkgDesc{Cat: "app-misc", PV: "other-2.0", Sel: false, Contents: unsel})
	}
	for _, p := range pkgs {
		d := "/var/db/pkg/" + p.Cat + "/" + p.PV
		lines := []string{}
		for _, c := range p.Contents {
			switch c.T {
			case "dir":
				lines = append(lines, "dir "+c.P)
			case "obj":
				lines = append(lines, "obj "+c.P+" d41d8cd98f00b204e9800998ecf8427e 1500000000")
			case "sym":
				lines = append(lines, "sym "+c.P+" -> "+c.Targ+" 1500000000")
			}
		}
		b.text(d+"/CONTENTS", strings.Join(lines, "\n")+"\n")
		b.text(d+"/SLOT", "0\n")
	}
	b.text("/etc/portage/make.profile/packages", "*app-misc/one\n")
	d := rootDesc{Objs: b.objs, Pkgs: pkgs, NoVDB: novdb, EmptyDev: emptydev, AddFiles: addfiles}
	if ext != nil {
		d.Ext = ext.objs
	}
	return d
}

// finishPkgs is finish with explicit package directories, slots and profile line
func finishPkgs(b *rb, pkgs []pkgDesc, slots []string, profile string, novdb bool) rootDesc {
	for i, p := range pkgs {
		d := "/var/db/pkg/" + p.Cat + "/" + p.PV
		lines := []string{}
		for _, c := range p.Contents {
			switch c.T {
			case "dir":
				lines = append(lines, "dir "+c.P)
			case "obj":
				lines = append(lines, "obj "+c.P+" d41d8cd98f00b204e9800998ecf8427e 1500000000")
			case "sym":
				lines = append(lines, "sym "+c.P+" -> "+c.Targ+" 1500000000")
			}
		}
		b.text(d+"/CONTENTS", strings.Join(lines, "\n")+"\n")
		b.text(d+"/SLOT", slots[i]+"\n")
	}
	b.text("/etc/portage/make.profile/packages", profile+"\n")
	return rootDesc{Objs: b.objs, Pkgs: pkgs, NoVDB: novdb, EmptyDev: true}
}

func plainFile(b *rb, p string, size int) {
	b.dir(pathDir(p))
	b.push(fobj{P: p, T: "f", Mode: 0644, Mtime: 1500000100, Size: size, Seed: int64(len(p))})
}

func pathDir(p string) string {
	i := strings.LastIndexByte(p, '/')
	if i <= 0 {
		return "/"
	}
	return p[:i]
}

func directedRoots() []directed {
	out := []directed{}
	obj1 := centry{"obj", "/usr/bin/one", ""}
	base := func() *rb {
		b := plainSkeleton()
		plainFile(b, "/usr/bin/one", 100)
		return b
	}
	// a directory whose contents do not follow it at once in the archive: the sibling "d-x"
	// sorts between "d" and "d/f" (recorded finding dir-mtime-noncontiguous of C07; this root
	// is extracted in every tier so that the finding is seen by every run)
	{
		b := base()
		b.dir("/opt/d")
		b.objs[b.idx["/opt/d"]].Mtime = 1400000000
		plainFile(b, "/opt/d/f", 10)
		plainFile(b, "/opt/d-x", 10)
		out = append(out, directed{"dir-mtime-sibling", finish(b, []centry{obj1, {"dir", "/opt/d", ""}, {"obj", "/opt/d/f", ""}, {"obj", "/opt/d-x", ""}},
			nil, nil, nil, false, true)})
	}
	// block device reaches the list through the recursive /usr/local glob (#25)
	{
		b := base()
		b.dir("/usr/local/devs")
		b.push(fobj{P: "/usr/local/devs/sda1", T: "b", Mode: 0660, Gid: 6, Mtime: 1500000000, Maj: 8, Min: 1})
		out = append(out, directed{"blockdev", finish(b, []centry{obj1}, nil, nil, nil, false, true)})
	}
	// character device with a minor >= 256 (#25)
	{
		b := base()
		b.dir("/usr/local/devs")
		b.push(fobj{P: "/usr/local/devs/tty300", T: "c", Mode: 0620, Gid: 5, Mtime: 1500000000, Maj: 4, Min: 300})
		out = append(out, directed{"chardev-minor300", finish(b, []centry{obj1}, nil, nil, nil, false, true)})
	}
	// largest kernel device numbers
	{
		b := base()
		b.dir("/usr/local/devs")
		b.push(fobj{P: "/usr/local/devs/big", T: "c", Mode: 0600, Mtime: 1500000000, Maj: 4095, Min: 1048575})
		b.push(fobj{P: "/usr/local/devs/bigb", T: "b", Mode: 0600, Mtime: 1500000000, Maj: 259, Min: 65536})
		out = append(out, directed{"dev-max", finish(b, []centry{obj1}, nil, nil, nil, false, true)})
	}
	// dev= option with a minor >= 256 (#25, parser side)
	{
		b := base()
		out = append(out, directed{"devopt-minor300", finish(b, []centry{obj1}, nil, []string{"node /dev/verif dev=c4:300 mod=0600"}, nil, false, true)})
	}
	// 300-byte symlink target (#26)
	{
		b := base()
		t := longTarget(NewGen(1, "lt"), 300)
		b.sym("/usr/lib/longlink", t)
		b.objs[b.idx["/usr/lib/longlink"]].Mtime = 1500000000
		out = append(out, directed{"longlink300", finish(b, []centry{obj1, {"sym", "/usr/lib/longlink", t}}, nil, nil, nil, false, true)})
	}
	// synthesised directories: ./proc etc. and a user "dir /synth" (#28)
	{
		b := base()
		out = append(out, directed{"synth-dir", finish(b, []centry{obj1}, nil, []string{"dir /synth"}, nil, false, true)})
	}
	// xattr value > 1024 bytes and name list > 256 bytes (#27)
	{
		b := base()
		plainFile(b, "/usr/bin/bigx", 10)
		b.objs[b.idx["/usr/bin/bigx"]].Xattrs = [][2]string{{"user.big", strings.Repeat("v", 1500)}}
		plainFile(b, "/usr/bin/manyx", 10)
		xs := [][2]string{}
		for i := 0; i < 12; i++ {
			xs = append(xs, [2]string{"user.long_attribute_name_number_" + string(rune('a'+i)) + "_xxxxxxxxxx", "v"})
		}
		b.objs[b.idx["/usr/bin/manyx"]].Xattrs = xs
		plainFile(b, "/usr/bin/smallx", 10)
		b.objs[b.idx["/usr/bin/smallx"]].Xattrs = [][2]string{{"user.comment", "hello"}}
		out = append(out, directed{"xattr-large", finish(b, []centry{obj1, {"obj", "/usr/bin/bigx", ""}, {"obj", "/usr/bin/manyx", ""}, {"obj", "/usr/bin/smallx", ""}}, nil, nil, nil, false, true)})
	}
	// symlink whose target carries xattrs
	{
		b := base()
		plainFile(b, "/usr/bin/withx", 10)
		b.objs[b.idx["/usr/bin/withx"]].Xattrs = [][2]string{{"user.comment", "hello"}}
		b.sym("/usr/bin/tox", "withx")
		out = append(out, directed{"xattr-via-symlink", finish(b, []centry{obj1, {"obj", "/usr/bin/withx", ""}, {"sym", "/usr/bin/tox", "withx"}}, nil, nil, nil, false, true)})
	}
	// symlinks carrying extended attributes of their own (trusted.*): to a file without
	// that attribute, to a file with a same-named attribute of another value, dangling
	{
		b := base()
		plainFile(b, "/usr/bin/plain", 10)
		plainFile(b, "/usr/bin/other", 10)
		b.objs[b.idx["/usr/bin/other"]].Xattrs = [][2]string{{"trusted.note", "of-target"}}
		b.sym("/usr/bin/lnk1", "plain")
		b.objs[b.idx["/usr/bin/lnk1"]].Xattrs = [][2]string{{"trusted.note", "of-link-1"}}
		b.sym("/usr/bin/lnk2", "other")
		b.objs[b.idx["/usr/bin/lnk2"]].Xattrs = [][2]string{{"trusted.note", "of-link-2"}}
		b.sym("/usr/bin/lnk3", "nowhere")
		b.objs[b.idx["/usr/bin/lnk3"]].Xattrs = [][2]string{{"trusted.note", "of-link-3"}}
		out = append(out, directed{"xattr-on-symlink", finish(b, []centry{obj1, {"obj", "/usr/bin/plain", ""}, {"obj", "/usr/bin/other", ""},
			{"sym", "/usr/bin/lnk1", "plain"}, {"sym", "/usr/bin/lnk2", "other"}, {"sym", "/usr/bin/lnk3", "nowhere"}}, nil, nil, nil, false, true)})
	}
	// a user "file NAME src=..." whose source is a multiply linked member of the archive:
	// the copy is a file of its own with its own mode/owner, the group keeps theirs
	{
		b := base()
		plainFile(b, "/etc/orig", 30)
		b.hard("/etc/orig.lnk", "/etc/orig")
		out = append(out, directed{"src-of-hardlink-group", finish(b, []centry{obj1, {"obj", "/etc/orig", ""}, {"obj", "/etc/orig.lnk", ""}}, nil,
			[]string{"file /etc/copy src=$$stageroot/etc/orig mod=0600 uid=9 gid=7", "file /etc/zcopy src=$$stageroot/etc/orig.lnk mod=0640"}, nil, false, true)})
	}
	// an unselected package records an existing symlink that points at a file of the selected
	// package: the link must not leak into the archive
	{
		b := base()
		b.sym("/usr/bin/one-compat", "one")
		out = append(out, directed{"unsel-symlink-to-selected", finish(b, []centry{obj1}, []centry{{"sym", "/usr/bin/one-compat", "one"}}, nil, nil, false, true)})
	}
	// the selected package's database directory name is a string prefix of an unselected
	// one's (one-1.0 / one-1.0_p1 in different slots): only the selected one's entries belong
	{
		b := base()
		plainFile(b, "/usr/bin/one-p1", 10)
		pkgs := []pkgDesc{{Cat: "app-misc", PV: "one-1.0", Sel: true, Contents: []centry{obj1}},
			{Cat: "app-misc", PV: "one-1.0_p1", Sel: false, Contents: []centry{{"obj", "/usr/bin/one-p1", ""}}}}
		out = append(out, directed{"vdb-name-prefix", finishPkgs(b, pkgs, []string{"1", "2"}, "*app-misc/one:1", false)})
	}
	// user entry below directories nobody has (#36)
	{
		b := base()
		ext := &rb{g: NewGen(7, "ext"), idx: map[string]int{}}
		ext.dir("/")
		plainFile(ext, "/payload", 20)
		out = append(out, directed{"user-newdir", finish(b, []centry{obj1}, nil, []string{"file /newdir/sub/file src=$EXT/payload"}, ext, false, true)})
	}
	// wildcard omit (#23) and plain omit
	{
		b := base()
		plainFile(b, "/etc/foo/a1", 5)
		plainFile(b, "/etc/foo/a2", 5)
		plainFile(b, "/etc/foo/b1", 5)
		sel := []centry{obj1, {"dir", "/etc/foo", ""}, {"obj", "/etc/foo/a1", ""}, {"obj", "/etc/foo/a2", ""}, {"obj", "/etc/foo/b1", ""}}
		out = append(out, directed{"omit-wildcard", finish(b, sel, nil, []string{"omit /etc/foo/a*"}, nil, false, true)})
		b2 := base()
		plainFile(b2, "/etc/foo/a1", 5)
		plainFile(b2, "/etc/foo/b1", 5)
		out = append(out, directed{"omit-plain", finish(b2, sel[:3], nil, []string{"omit /etc/foo/a1"}, nil, true, true)})
	}
	// files recorded only for an unselected package, hard-link group, sort-order corner
	{
		b := base()
		plainFile(b, "/usr/lib/a/x", 5)
		plainFile(b, "/usr/lib/a-b", 5)
		plainFile(b, "/usr/lib/a.b", 5)
		plainFile(b, "/usr/lib/a b", 5)
		plainFile(b, "/usr/bin/unsel", 5)
		plainFile(b, "/usr/bin/hl1", 50)
		b.hard("/usr/bin/hl0", "/usr/bin/hl1")
		b.hard("/usr/lib/hl2", "/usr/bin/hl1")
		sel := []centry{obj1, {"obj", "/usr/lib/a/x", ""}, {"obj", "/usr/lib/a-b", ""}, {"obj", "/usr/lib/a.b", ""}, {"obj", "/usr/lib/a b", ""},
			{"obj", "/usr/bin/hl1", ""}, {"obj", "/usr/bin/hl0", ""}, {"obj", "/usr/lib/hl2", ""}}
		unsel := []centry{{"obj", "/usr/bin/unsel", ""}, {"obj", "/etc/fstab", ""}, {"obj", "/usr/bin/one", ""}}
		out = append(out, directed{"order-hardlinks-unselected", finish(b, sel, unsel, nil, nil, false, false)})
	}
	return out
}
